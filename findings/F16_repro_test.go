// copy into: pkg/versions/1_0/doccomposer/ together with F15_repro_test.go (uses its applyValidatedF15 helper)
package doccomposer

import (
	"testing"

	"github.com/stretchr/testify/require"

	"github.com/trustbloc/sidetree-core-go/pkg/document"
)

// F16: the 'copy' operation of the pinned JSON patch library stores the source node itself at the destination;
// a document can be made to contain itself and serializing it overflows the stack (fatal, not recoverable).
func TestFinding_F16(t *testing.T) {
	doc, err := document.FromBytes([]byte(`{"a":{"k":[1,2]},"b":{"c":1}}`))
	require.NoError(t, err)
	for _, pj := range []string{
		`[{"op":"copy","from":"/b","path":"/b/c"}]`,
		`[{"op":"copy","from":"/a/k","path":"/a/k/0"}]`,
		`[{"op":"copy","from":"/a","path":"/b/x"},{"op":"copy","from":"/b","path":"/a/y"}]`,
	} {
		res, verr, aerr, pan := applyValidatedF15(t, doc, pj)
		t.Logf("%s: validate=%v apply=%v panic=%v res=%v", pj, verr, aerr, pan, res)
		require.Nil(t, pan)
	}
	// copy still works, and the copy is independent of the source
	res, verr, aerr, pan := applyValidatedF15(t, doc, `[{"op":"copy","from":"/a","path":"/b/x"},{"op":"replace","path":"/b/x/k","value":"changed"}]`)
	require.Nil(t, pan)
	require.NoError(t, verr)
	require.NoError(t, aerr)
	require.Equal(t, "changed", res["b"].(map[string]interface{})["x"].(map[string]interface{})["k"])
	require.Equal(t, []interface{}{float64(1), float64(2)}, res["a"].(map[string]interface{})["k"])
}
