// copy into: pkg/dochandler/
package dochandler

import (
	"testing"

	"github.com/stretchr/testify/require"

	"github.com/trustbloc/sidetree-core-go/pkg/canonicalizer"
	"github.com/trustbloc/sidetree-core-go/pkg/encoder"
	"github.com/trustbloc/sidetree-core-go/pkg/mocks"
)

// F18: a member "type" added to the initial state of a long-form DID survives the canonical re-encoding check
// (CreateRequest has a 'type' member, which is then overwritten with 'create'): an altered initial state resolves.
func TestFinding_F18(t *testing.T) {
	store := mocks.NewMockOperationStore(nil)
	handler, cleanup := getDocumentHandler(store)
	defer cleanup()

	createOp := getCreateOperation()
	genuine, err := canonicalizer.MarshalCanonical(map[string]interface{}{"delta": createOp.Delta, "suffixData": createOp.SuffixData})
	require.NoError(t, err)
	_, err = handler.ResolveDocument(createOp.ID + ":" + encoder.EncodeToString(genuine))
	require.NoError(t, err)

	for _, typ := range []string{"create", "update", "anything"} {
		altered, err := canonicalizer.MarshalCanonical(map[string]interface{}{"delta": createOp.Delta, "suffixData": createOp.SuffixData, "type": typ})
		require.NoError(t, err)
		res, err := handler.ResolveDocument(createOp.ID + ":" + encoder.EncodeToString(altered))
		require.Errorf(t, err, "initial state with an added member type=%q resolved: %v", typ, res)
	}
}
