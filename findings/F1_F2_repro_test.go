// place in: pkg/processor/
// Reproduces findings F1 (sortOperations comparator is not a strict weak order)
// and F2 (create ordering comparator ignores j) against the real code.
package processor

import (
	"crypto/ecdsa"
	"crypto/elliptic"
	"crypto/rand"
	"encoding/json"
	"testing"

	"github.com/stretchr/testify/require"

	"github.com/trustbloc/sidetree-core-go/pkg/api/operation"
	"github.com/trustbloc/sidetree-core-go/pkg/mocks"
)

func TestFinding_F1_StoreOrderChangesWinner(t *testing.T) {
	recoveryKey, err := ecdsa.GenerateKey(elliptic.P256(), rand.Reader)
	require.NoError(t, err)
	updateKey, err := ecdsa.GenerateKey(elliptic.P256(), rand.Reader)
	require.NoError(t, err)

	createOp, err := getAnchoredCreateOperation(recoveryKey, updateKey)
	require.NoError(t, err)
	suffix := createOp.UniqueSuffix

	// two valid updates consuming the same commitment
	a, _, err := getAnchoredUpdateOperation(updateKey, suffix, 3) // anchored at time 3
	require.NoError(t, err)
	a.TransactionNumber = 7
	a.CanonicalReference = "refA"
	b, _, err := getAnchoredUpdateOperation(updateKey, suffix, 5) // anchored at time 5
	require.NoError(t, err)
	b.TransactionNumber = 1
	b.CanonicalReference = "refB"

	resolve := func(ops ...*operation.AnchoredOperation) interface{} {
		store := mocks.NewMockOperationStore(nil)
		for _, op := range ops {
			require.NoError(t, store.Put(op))
		}
		p := New("test", store, newMockProtocolClient())
		rm, err := p.Resolve(suffix)
		require.NoError(t, err)
		return rm.Doc["test"]
	}

	// the earliest anchored (time 3) must win whatever the store order
	require.Equal(t, "special3", resolve(createOp, a, b))
	require.Equal(t, "special3", resolve(createOp, b, a))
}

func TestFinding_F2_LaterDuplicateCreateMustNotDefineDID(t *testing.T) {
	recoveryKey, err := ecdsa.GenerateKey(elliptic.P256(), rand.Reader)
	require.NoError(t, err)
	updateKey, err := ecdsa.GenerateKey(elliptic.P256(), rand.Reader)
	require.NoError(t, err)

	createOp, err := getAnchoredCreateOperation(recoveryKey, updateKey)
	require.NoError(t, err)
	createOp.CanonicalReference = "ref1"

	// duplicate create: same suffix data, another delta (so the delta hash mismatches), anchored later
	var req map[string]interface{}
	require.NoError(t, json.Unmarshal(createOp.OperationRequest, &req))
	delta := req["delta"].(map[string]interface{})
	delta["patches"] = []interface{}{map[string]interface{}{"action": "replace", "document": map[string]interface{}{}}}
	dupReq, err := json.Marshal(req)
	require.NoError(t, err)
	dup := *createOp
	dup.OperationRequest = dupReq
	dup.TransactionTime = 10
	dup.TransactionNumber = 0
	dup.CanonicalReference = "ref2"

	store := mocks.NewMockOperationStore(nil)
	store.Validate = false
	require.NoError(t, store.Put(createOp))
	require.NoError(t, store.Put(&dup))

	p := New("test", store, newMockProtocolClient())
	rm, err := p.Resolve(createOp.UniqueSuffix)
	require.NoError(t, err)
	// the first create defines the DID: its document and update commitment survive
	require.NotEmpty(t, rm.UpdateCommitment, "later duplicate create replaced the base state")
	require.NotEmpty(t, rm.Doc)
}
