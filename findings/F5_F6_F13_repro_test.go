// place in: pkg/versions/1_0/operationparser/patchvalidator/
// Reproduces findings F5 (only the first endpoint of an endpoint array is
// validated), F6 (the JSON-patch "from" member is not checked against the
// protected sections) and F13 ("path": null makes the validator dereference a
// nil *json.RawMessage).
package patchvalidator

import (
	"testing"

	"github.com/stretchr/testify/require"

	"github.com/trustbloc/sidetree-core-go/pkg/patch"
)

func TestFinding_F5_EveryEndpointIsValidated(t *testing.T) {
	require.NoError(t, validateServiceEndpoint([]interface{}{"https://ok.example.com", "https://also-ok.example.com"}))
	require.Error(t, validateServiceEndpoint([]interface{}{"https://ok.example.com", "not a uri"}), "second endpoint is not a valid URI")
}

func TestFinding_F6_FromMemberCannotAddressProtectedSections(t *testing.T) {
	for _, p := range []string{
		`[{"op":"move","from":"/publicKey","path":"/x"}]`,
		`[{"op":"copy","from":"/service","path":"/y"}]`,
		`[{"op":"move","from":"/publicKey/0","path":"/x"}]`,
	} {
		ptch, err := patch.NewJSONPatch(p)
		if err == nil {
			err = NewJSONValidator().Validate(ptch)
		}
		require.Error(t, err, "json patch %s must be rejected", p)
	}
}

func TestFinding_F13_NullPathDoesNotPanic(t *testing.T) {
	require.NotPanics(t, func() {
		err := validateJSONPatches([]byte(`[{"op":"remove","path":null}]`))
		require.Error(t, err)
	})
}
