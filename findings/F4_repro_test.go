// place in: pkg/versions/1_0/txnprocessor/
// Reproduces finding F4: operations stored for a transaction are not stamped
// with the transaction's canonical / equivalent references.
package txnprocessor

import (
	"testing"

	"github.com/stretchr/testify/require"

	"github.com/trustbloc/sidetree-core-go/pkg/api/operation"
	"github.com/trustbloc/sidetree-core-go/pkg/api/txn"
)

type f4Provider struct{ ops []*operation.AnchoredOperation }

func (p *f4Provider) GetTxnOperations(_ *txn.SidetreeTxn) ([]*operation.AnchoredOperation, error) {
	return p.ops, nil
}

type f4Store struct{ stored []*operation.AnchoredOperation }

func (s *f4Store) Put(ops []*operation.AnchoredOperation) error {
	s.stored = append(s.stored, ops...)

	return nil
}

func TestFinding_F4_StoredOperationsCarryTxnReferences(t *testing.T) {
	store := &f4Store{}
	tp := New(&Providers{
		OpStore:                   store,
		OperationProtocolProvider: &f4Provider{ops: []*operation.AnchoredOperation{{UniqueSuffix: "abc", Type: operation.TypeCreate}}},
	})

	n, err := tp.Process(txn.SidetreeTxn{
		TransactionTime: 20, TransactionNumber: 2, ProtocolVersion: 1, AnchorString: "1.x",
		CanonicalReference: "canonical-ref", EquivalentReferences: []string{"eq-1", "eq-2"},
	})
	require.NoError(t, err)
	require.Equal(t, 1, n)
	require.Len(t, store.stored, 1)
	require.Equal(t, uint64(20), store.stored[0].TransactionTime)
	require.Equal(t, "canonical-ref", store.stored[0].CanonicalReference)
	require.Equal(t, []string{"eq-1", "eq-2"}, store.stored[0].EquivalentReferences)
}
