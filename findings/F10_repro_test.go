// place in: pkg/processor/
// Reproduces finding F10: a versionTime before 1970 wraps to a huge unsigned
// value in filterOpsByVersionTime, so resolution returns the latest state
// instead of the error the property prescribes for a time before the first operation.
package processor

import (
	"crypto/ecdsa"
	"crypto/elliptic"
	"crypto/rand"
	"testing"

	"github.com/stretchr/testify/require"

	"github.com/trustbloc/sidetree-core-go/pkg/document"
)

func TestFinding_F10_VersionTimeBeforeEpoch(t *testing.T) {
	recoveryKey, err := ecdsa.GenerateKey(elliptic.P256(), rand.Reader)
	require.NoError(t, err)
	updateKey, err := ecdsa.GenerateKey(elliptic.P256(), rand.Reader)
	require.NoError(t, err)

	store, uniqueSuffix := getDefaultStore(recoveryKey, updateKey)
	// move the create to a realistic anchoring time
	ops, err := store.Get(uniqueSuffix)
	require.NoError(t, err)
	ops[0].TransactionTime = 1_600_000_000

	p := New("test", store, newMockProtocolClient())

	// sanity: a time before the first operation (but after 1970) is an error
	_, err = p.Resolve(uniqueSuffix, document.WithVersionTime("2001-01-01T00:00:00Z"))
	require.Error(t, err)

	// a time before 1970 is before the first operation as well
	_, err = p.Resolve(uniqueSuffix, document.WithVersionTime("1969-12-31T23:59:59Z"))
	require.Error(t, err, "versionTime before the first operation must be an error")
}
