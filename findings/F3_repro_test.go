// place in: pkg/versions/1_0/operationapplier/
// Reproduces finding F3: the default anchoring window (anchorUntil missing) is
// bounded by MaxDeltaSize instead of MaxOperationTimeDelta.
package operationapplier

import (
	"testing"

	"github.com/stretchr/testify/require"

	"github.com/trustbloc/sidetree-core-go/pkg/api/protocol"
)

func TestFinding_F3_DefaultWindowUsesTimeDelta(t *testing.T) {
	p := protocol.Protocol{MaxDeltaSize: 1000, MaxOperationTimeDelta: 7200}
	a := New(p, nil, nil)
	const from = int64(1_700_000_000)
	// anchored 1500 s after anchorFrom, no anchorUntil: inside from+7200
	require.NoError(t, a.verifyAnchoringTimeRange(from, 0, uint64(from+1500)))
	// anchored at exactly from+7200: inclusive
	require.NoError(t, a.verifyAnchoringTimeRange(from, 0, uint64(from+7200)))
	// anchored one second later: outside
	require.Error(t, a.verifyAnchoringTimeRange(from, 0, uint64(from+7201)))
	// an unrelated parameter must not move the window
	p.MaxDeltaSize = 100000
	a = New(p, nil, nil)
	require.Error(t, a.verifyAnchoringTimeRange(from, 0, uint64(from+7201)))
}
