// place in: pkg/batch/cutter/
// Reproduces finding F12: the batch cutter uses protocolVersion == 0 as its
// "not yet set" marker, so operations queued under protocol version (genesis
// time) 0 and a following operation queued under another version are cut into
// ONE batch - a batch mixing operations queued under different protocol versions.
package cutter

import (
	"testing"

	"github.com/stretchr/testify/require"

	"github.com/trustbloc/sidetree-core-go/pkg/api/operation"
	"github.com/trustbloc/sidetree-core-go/pkg/batch/opqueue"
	"github.com/trustbloc/sidetree-core-go/pkg/mocks"
)

func TestFinding_F12_VersionZeroBoundary(t *testing.T) {
	q := &opqueue.MemQueue{}
	c := New(mocks.NewMockProtocolClient(), q)

	add := func(suffix string, version uint64) {
		_, err := c.Add(&operation.QueuedOperation{UniqueSuffix: suffix, Namespace: "ns", OperationRequest: []byte(suffix)}, version)
		require.NoError(t, err)
	}
	add("a", 0)
	add("c", 5)

	res, err := c.Cut(true)
	require.NoError(t, err)
	require.Len(t, res.Operations, 1, "the operation queued under version 5 must not be cut into the version-0 batch")
	require.Equal(t, uint64(0), res.ProtocolVersion)
}
