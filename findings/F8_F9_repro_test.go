// place in: pkg/versions/1_0/txnprovider/
// Reproduces findings F8 (core index with create entries but no provisional index
// reference is accepted, the creates are silently dropped) and F9 (the core index
// URI taken from the anchor string is never checked against MaxCasURILength).
package txnprovider

import (
	"fmt"
	"strings"
	"testing"

	"github.com/stretchr/testify/require"

	"github.com/trustbloc/sidetree-core-go/pkg/api/txn"
	"github.com/trustbloc/sidetree-core-go/pkg/compression"
	"github.com/trustbloc/sidetree-core-go/pkg/mocks"
	"github.com/trustbloc/sidetree-core-go/pkg/versions/1_0/operationparser"
	"github.com/trustbloc/sidetree-core-go/pkg/versions/1_0/txnprovider/models"
)

func TestFinding_F8_CreatesWithoutProvisionalIndexReference(t *testing.T) {
	pc := mocks.NewMockProtocolClient()
	parser := operationparser.New(pc.Protocol)
	cp := compression.New(compression.WithDefaultAlgorithms())
	cas := mocks.NewMockCasClient(nil)

	handler := NewOperationHandler(pc.Protocol, cas, cp, parser, &mocks.MetricsProvider{})
	info, err := handler.PrepareTxnFiles(getTestOperations(1, 0, 1, 0)) // one create, one deactivate
	require.NoError(t, err)

	provider := NewOperationProvider(pc.Protocol, parser, cas, cp)
	ad, err := ParseAnchorData(info.AnchorString)
	require.NoError(t, err)
	cif, err := provider.getCoreIndexFile(ad.CoreIndexFileURI)
	require.NoError(t, err)
	require.Len(t, cif.Operations.Create, 1)

	// republish the genuine core index without the provisional index (chunk) reference
	broken := &models.CoreIndexFile{CoreProofFileURI: cif.CoreProofFileURI, Operations: cif.Operations}
	uri, err := writeToCAS(broken, cas)
	require.NoError(t, err)

	ops, err := provider.GetTxnOperations(&txn.SidetreeTxn{Namespace: defaultNS, AnchorString: "1." + uri, TransactionNumber: 1, TransactionTime: 1})
	require.Error(t, err, "a core index that lists a create but carries no provisional index/chunk reference must be rejected; got %d operation(s)", len(ops))
}

type longURICAS struct {
	*mocks.MockCasClient
	content map[string][]byte
}

func (c *longURICAS) Read(uri string) ([]byte, error) {
	if b, ok := c.content[uri]; ok {
		return b, nil
	}

	return c.MockCasClient.Read(uri)
}

func TestFinding_F9_OverlongCoreIndexURI(t *testing.T) {
	pc := mocks.NewMockProtocolClient()
	parser := operationparser.New(pc.Protocol)
	cp := compression.New(compression.WithDefaultAlgorithms())
	base := mocks.NewMockCasClient(nil)

	handler := NewOperationHandler(pc.Protocol, base, cp, parser, &mocks.MetricsProvider{})
	info, err := handler.PrepareTxnFiles(getTestOperations(0, 0, 1, 0)) // deactivate only
	require.NoError(t, err)
	ad, err := ParseAnchorData(info.AnchorString)
	require.NoError(t, err)
	content, err := base.Read(ad.CoreIndexFileURI)
	require.NoError(t, err)

	// the same core index file served under a URI longer than MaxCasURILength
	long := strings.Repeat("a", int(pc.Protocol.MaxCasURILength)+1)
	cas := &longURICAS{MockCasClient: base, content: map[string][]byte{long: content}}
	provider := NewOperationProvider(pc.Protocol, parser, cas, cp)

	_, err = provider.GetTxnOperations(&txn.SidetreeTxn{Namespace: defaultNS, AnchorString: fmt.Sprintf("1.%s", long), TransactionNumber: 1, TransactionTime: 1})
	require.Error(t, err, "an over-long CAS URI in the anchor string must be rejected")
}
