// copy into: pkg/internal/jws/  (F17: go-jose truncates / zero-pads the x of an Ed25519 JWK to 32 bytes)
package jws

import (
	"crypto/ed25519"
	"crypto/rand"
	"encoding/base64"
	"testing"

	"github.com/trustbloc/sidetree-core-go/pkg/jws"
)

func TestFinding_F17(t *testing.T) {
	pub, priv, _ := ed25519.GenerateKey(rand.Reader)
	msg := []byte("hello")
	sig := ed25519.Sign(priv, msg)
	for name, x := range map[string][]byte{"exact": pub, "plus2": append(append([]byte{}, pub...), 1, 2), "short31": pub[:31], "empty": {}} {
		jwk := &jws.JWK{Kty: "OKP", Crv: "Ed25519", X: base64.RawURLEncoding.EncodeToString(x)}
		err := VerifySignature(jwk, sig, msg)
		t.Logf("%s (len %d): err=%v", name, len(x), err)
		if name != "exact" && err == nil {
			t.Errorf("JWK with %d-byte x accepted", len(x))
		}
	}
}
