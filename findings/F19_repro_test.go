// copy into: pkg/versions/1_0/doccomposer/ together with F15_repro_test.go (uses its applyValidatedF15 helper)
// F19: (a) the textual copy guard of the first F16 repair is bypassed by pointer spellings the engine identifies ("/arr/0" = "/arr/00", "/a~0" = "/a~"): run with FATAL=<patch json> to see the fatal stack overflow on the unrepaired tree; (b) the engine panics on a negative array index and on test without value
package doccomposer

import (
	"os"
	"testing"

	"github.com/stretchr/testify/require"

	"github.com/trustbloc/sidetree-core-go/pkg/document"
)

func TestFinding_F19(t *testing.T) {
	doc, err := document.FromBytes([]byte(`{"arr":[{"k":1},2],"o":{"a~":{"x":1}}}`))
	require.NoError(t, err)
	cases := []string{
		`[{"op":"add","path":"/arr/-1/x","value":1}]`,
		`[{"op":"replace","path":"/arr/-2","value":1}]`,
		`[{"op":"test","path":"/nope"}]`,
		`[{"op":"remove","path":"/arr/-1"}]`,
	}
	if os.Getenv("FATAL") != "" {
		cases = []string{os.Getenv("FATAL")}
	}
	for _, pj := range cases {
		res, verr, aerr, pan := applyValidatedF15(t, doc, pj)
		t.Logf("%s: validate=%v apply=%v panic=%v res=%v", pj, verr, aerr, pan, res)
		if pan != nil {
			t.Errorf("panic for %s: %v", pj, pan)
		}
	}
}
