// copy into: pkg/dochandler/  (F14: the long-form fallback is selected by the substring "not found" in the error text, and the version errors echo the caller's versionId / versionTime)
//
// Demonstrates the error clause of C06: resolving a DID at an unknown version id, or at a version time before
// the first anchored operation, is an error. The DID is anchored (published) and is addressed in its long form
// (did:METHOD:<suffix>:<initial-state>), which is what a client that created the DID typically keeps using.

package dochandler

import (
	"testing"

	"github.com/stretchr/testify/require"

	"github.com/trustbloc/sidetree-core-go/pkg/canonicalizer"
	"github.com/trustbloc/sidetree-core-go/pkg/document"
	"github.com/trustbloc/sidetree-core-go/pkg/encoder"
	"github.com/trustbloc/sidetree-core-go/pkg/mocks"
	"github.com/trustbloc/sidetree-core-go/pkg/versions/1_0/model"
)

func TestFinding_F14(t *testing.T) {
	store := mocks.NewMockOperationStore(nil)

	handler, cleanup := getDocumentHandler(store)
	require.NotNil(t, handler)

	defer cleanup()

	createOp := getCreateOperation()

	// the create operation has been anchored: 2023-11-14T22:13:20Z, canonical reference "anchor-1"
	anchoredCreate := getAnchoredOperation(createOp)
	anchoredCreate.CanonicalReference = "anchor-1"
	anchoredCreate.TransactionTime = 1700000000
	anchoredCreate.TransactionNumber = 1

	require.NoError(t, store.Put(anchoredCreate))

	createReq, err := canonicalizer.MarshalCanonical(model.CreateRequest{
		Delta:      createOp.Delta,
		SuffixData: createOp.SuffixData,
	})
	require.NoError(t, err)

	shortFormDID := createOp.ID
	longFormDID := shortFormDID + ":" + encoder.EncodeToString(createReq)

	for _, did := range []string{shortFormDID, longFormDID} {
		// sanity: known version id and a version time after the anchoring time resolve the published document
		result, err := handler.ResolveDocument(did, document.WithVersionID("anchor-1"))
		require.NoError(t, err)
		require.Equal(t, true, result.DocumentMetadata[document.MethodProperty].(document.Metadata)[document.PublishedProperty])

		result, err = handler.ResolveDocument(did, document.WithVersionTime("2023-11-14T22:13:20Z"))
		require.NoError(t, err)
		require.Equal(t, true, result.DocumentMetadata[document.MethodProperty].(document.Metadata)[document.PublishedProperty])

		// unknown version id is an error
		result, err = handler.ResolveDocument(did, document.WithVersionID("version not found"))
		require.Errorf(t, err, "resolving %s at an unknown version id must be an error, got: %+v", did, result)
		require.Nil(t, result)

		// a version time before the first anchored operation is an error
		result, err = handler.ResolveDocument(did, document.WithVersionTime("time not found"))
		require.Errorf(t, err, "resolving %s at a time before the first operation must be an error, got: %+v", did, result)
		require.Nil(t, result)
	}
}
