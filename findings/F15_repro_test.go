// copy into: pkg/versions/1_0/doccomposer/  (F15: a JSON-patch pointer without a leading slash passes the protected-section prefix tests; the library resolves it from its first slash)
package doccomposer

import (
	"testing"

	"github.com/stretchr/testify/require"

	"github.com/trustbloc/sidetree-core-go/pkg/document"
	"github.com/trustbloc/sidetree-core-go/pkg/patch"
	"github.com/trustbloc/sidetree-core-go/pkg/versions/1_0/operationparser/patchvalidator"
)

func applyValidatedF15(t *testing.T, doc document.Document, patchJSON string) (res document.Document, verr, aerr error, panicked interface{}) {
	p, err := patch.NewJSONPatch(patchJSON)
	if err != nil {
		return nil, err, nil, nil
	}
	if err := patchvalidator.Validate(p); err != nil {
		return nil, err, nil, nil
	}
	defer func() { panicked = recover() }()
	res, aerr = New().ApplyPatches(doc, []patch.Patch{p})
	return
}

func TestFinding_F15(t *testing.T) {
	doc, err := document.FromBytes([]byte(`{"publicKey":[{"id":"k1","type":"JsonWebKey2020"}],"service":[{"id":"s"}],"other":"x"}`))
	require.NoError(t, err)
	for _, pj := range []string{
		`[{"op":"remove","path":"x/publicKey"}]`,
		`[{"op":"remove","path":"x/service"}]`,
		`[{"op":"replace","path":"x/publicKey","value":"gone"}]`,
		`[{"op":"move","from":"x/publicKey","path":"/elsewhere"}]`,
	} {
		res, verr, aerr, pan := applyValidatedF15(t, doc, pj)
		t.Logf("%s: validate=%v apply=%v panic=%v res=%v", pj, verr, aerr, pan, res)
		if verr == nil && aerr == nil && pan == nil {
			_, hasPK := res["publicKey"]
			_, hasSvc := res["service"]
			if !hasPK || !hasSvc {
				t.Errorf("accepted patch %s removed a protected section: %v", pj, res)
			} else if s, ok := res["publicKey"].(string); ok {
				t.Errorf("accepted patch %s replaced publicKey by %q", pj, s)
			}
		}
	}
}
