// place in: pkg/versions/1_0/operationparser/
// Reproduces finding F11: Parser.GetCommitment panics (nil dereference) on an
// otherwise well-formed update request that has no "delta" member, because
// batch-mode parsing skips ValidateDelta and op.Delta.UpdateCommitment is read.
package operationparser

import (
	"crypto/ecdsa"
	"crypto/elliptic"
	"crypto/rand"
	"encoding/json"
	"testing"

	"github.com/stretchr/testify/require"

	"github.com/trustbloc/sidetree-core-go/pkg/api/protocol"
	"github.com/trustbloc/sidetree-core-go/pkg/commitment"
	"github.com/trustbloc/sidetree-core-go/pkg/internal/signutil"
	"github.com/trustbloc/sidetree-core-go/pkg/util/ecsigner"
	"github.com/trustbloc/sidetree-core-go/pkg/util/pubkey"
	"github.com/trustbloc/sidetree-core-go/pkg/versions/1_0/model"
)

func TestFinding_F11_GetCommitmentWithoutDelta(t *testing.T) {
	p := protocol.Protocol{
		MaxOperationSize: 4000, MaxOperationHashLength: 100, MaxDeltaSize: 2000,
		MultihashAlgorithms: []uint{18}, SignatureAlgorithms: []string{"ES256"}, KeyAlgorithms: []string{"P-256"},
		Patches: []string{"replace"},
	}
	parser := New(p)

	key, err := ecdsa.GenerateKey(elliptic.P256(), rand.Reader)
	require.NoError(t, err)
	jwk, err := pubkey.GetPublicKeyJWK(&key.PublicKey)
	require.NoError(t, err)
	rv, err := commitment.GetRevealValue(jwk, 18)
	require.NoError(t, err)
	deltaHash, err := commitment.GetCommitment(jwk, 18) // any well-formed multihash
	require.NoError(t, err)

	jws, err := signutil.SignModel(&model.UpdateSignedDataModel{UpdateKey: jwk, DeltaHash: deltaHash}, ecsigner.New(key, "ES256", ""))
	require.NoError(t, err)

	req, err := json.Marshal(map[string]interface{}{
		"type": "update", "didSuffix": "abc", "revealValue": rv, "signedData": jws, // no "delta"
	})
	require.NoError(t, err)

	require.NotPanics(t, func() {
		_, err = parser.GetCommitment(req)
	})
	require.Error(t, err)
}
