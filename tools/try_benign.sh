#!/bin/bash
# usage: try_benign.sh <Bk> [novalidate]  — for each refactoring /tmp/benign/Bk/out/N: apply to a scratch copy of /repo,
# (re)run build + full suite, run the listed property checks; silent ones are stored in /verif/variants/benign/Bk-N.
export GOFLAGS=-mod=mod GOPROXY=off GOSUMDB=off GOTOOLCHAIN=local
b=$1
declare -A PROPS=( [B1]="C01 C02 C03 C04 C06 C12 C19" [B2]="C01 C03 C04 C05 C08 C10 C12 C18" [B3]="C13 C14 C20" [B4]="C04 C15 C16 C20" [B5]="C17 C18 C19" [B6]="C01 C07 C08 C09 C11" [B7]="C17 C18" [B8]="C04 C06 C08 C10 C15" [B9]="C01 C07 C08 C09 C11" [B10]="C01 C02 C03 C04 C05 C10 C12" [B11]="C13 C14 C20" [B12]="C03 C05 C08 C10 C11 C19" [B13]="C01 C02 C03 C04 C05 C06 C12" [B14]="C01 C02 C03 C04 C05 C06 C12 C19 C20" [B15]="C07 C08" [B16]="C09 C11 C01" [B17]="C05 C08 C10 C11 C12 C01" [B18]="C17 C18 C19" [B19]="C15 C16 C20 C04" [B20]="C13 C14 C20 C15" [B21]="C04 C06 C08 C10 C15 C20" [B22]="C19 C06" [B23]="C11 C09 C01" [B24]="C15 C20 C01 C03 C05 C11" [B25]="C01 C02 C03 C04 C05 C06 C11 C12" [B26]="C01 C05 C08 C10 C11 C12" [B27]="C13 C14 C15 C16 C20" [B28]="C15 C16 C20 C04" [B29]="C17 C18 C19" [B30]="C01 C07 C08 C09 C10 C15" [B31]="C01 C02 C03 C04 C06 C12" [B32]="C17 C18 C19 C11" [B33]="C08 C01 C10 C13 C07" [B34]="C13 C14 C20" [B35]="C20 C09 C11 C15" [B36]="C07 C08 C10 C14 C18" [B37]="C07 C08 C13 C14 C20" [B38]="C01 C02 C03 C04 C06 C12 C20" [B39]="C09 C11 C05 C03 C10" [B40]="C16 C15 C20 C04" [B41]="C13 C14 C15 C20" [B42]="C15 C16 C13 C20" [B43]="C03 C05 C10 C11 C12 C01" [B44]="C06 C08 C10 C15 C20 C04" [B45]="C17 C18 C10" [B46]="C08 C10 C12 C13 C01 C11" [B47]="C19 C02 C06 C18" [B48]="C01 C02 C03 C04 C05 C06 C10 C11 C12" [B49]="C13 C14 C15 C16 C20" [B50]="C07 C08 C09 C10 C11 C18" [B51]="C04 C15 C17 C19 C02 C11" )
props=${PROPS[$b]}
for d in /tmp/benign/$b/out/*/; do
  n=$(basename $d); name=$b-$n
  [ -f $d/patch.diff ] || continue
  t=$(mktemp -d /tmp/benigntry.XXXXXX); mkdir -p $t/repo $t/verif
  (cd /repo && git ls-files -z | xargs -0 cp --parents -t $t/repo)
  cp /verif/known_findings.json $t/verif/
  if ! (cd $t/repo && git apply --whitespace=nowarn $d/patch.diff 2>/dev/null); then echo "$name: PATCH DOES NOT APPLY"; rm -rf $t; continue; fi
  if [ "$2" != novalidate ]; then
    if ! (cd $t/repo && go build ./... && go test -vet=off -count=1 -tags testing ./... >/tmp/benigntry.$name.log 2>&1); then echo "$name: SUITE FAILS (rejected)"; grep -E '^(FAIL|---)' /tmp/benigntry.$name.log | head -3; rm -rf $t; continue; fi
  fi
  alarms=""
  for p in $props; do
    o=$(${SIDECHECK:-/verif/bin/sidecheck} -property $p -dir $t/repo -verif $t/verif 2>&1)
    if ! echo "$o" | grep -q ' tier='; then alarms="$alarms $p:[CHECKER-ERROR]"; fi
    if echo "$o" | grep -q '^VIOLATION'; then alarms="$alarms $p:[$(echo "$o" | grep -E '^(VIOLATED|UNDECIDED)' | awk '{print $2}' | sort -u | head -4 | tr '\n' ' ')]"; fi
  done
  if [ -z "$alarms" ]; then
    echo "$name: silent ($props)"
    v=/verif/variants/benign/$name; mkdir -p $v; cp $d/patch.diff $v/patch.diff
    jq --arg props "$props" '. + {properties: ($props|split(" ")), verified:"go build ./... and the full suite pass with the patch; the listed checks stay silent"}' $d/meta.json > $v/meta.json
  else
    echo "$name: FALSE ALARM$alarms"
    jq -r '.summary' $d/meta.json | cut -c1-300
  fi
  rm -rf $t
done
