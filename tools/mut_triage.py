#!/usr/bin/env python3
# usage: mut_triage.py <mutdir> <results.tsv> [file-substring]
# lists silent mutants that are not obviously about logging / metrics / error-message text
import json,sys,re,collections
d,res=sys.argv[1],sys.argv[2]; sub=sys.argv[3] if len(sys.argv)>3 else ''
idx={}
for l in open(d+'/index.jsonl'):
    m=json.loads(l); idx[m['n']]=m
src={}
def line(f,n):
    if f not in src: src[f]=open('/repo/'+f).read().split('\n')
    return src[f][n-1] if 0<n<=len(src[f]) else ''
noise=re.compile(r'logger\.|logfields\.|log\.With|\.logger\.|metrics\.|time\.Since|time\.Now|Debug\(|Info\(|Warn\(|Error\(')
out=collections.defaultdict(list)
tot=sil=0
for l in open(res):
    f=l.rstrip('\n').split('\t'); n=int(f[0]); m=idx[n]
    if f[1]!='silent' or sub not in m['file']: continue
    tot+=1
    ln=line(m['file'],m['line'])
    txt=m['before']+' '+ln
    if noise.search(txt): continue
    if m['kind'].startswith('swap args') and ('"' in m['before'] or 'Errorf' in ln or 'errors.New' in ln): continue
    if m['kind'] in ('int+1','int-1') and ('Errorf' in ln or '"' in ln): continue
    sil+=1
    out[m['file']].append(f"{n:5d} :{m['line']:<4d} {m['func'][:30]:30s} {m['kind']:16s} | {m['before'][:60]!r} => {m['after'][:40]!r}   || {ln.strip()[:90]}")
for k in sorted(out):
    print(f"## {k} ({len(out[k])})")
    for x in out[k]: print(x)
print(f"# {sil} of {tot} silent mutants after the noise filter", file=sys.stderr)
