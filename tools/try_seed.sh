#!/bin/bash
# usage: try_seed.sh <patch.diff> <property>...   applies the patch to /repo's working tree, runs the quick checks, reverts.
set -u
patch=$1; shift
cd /repo || exit 2
if ! git diff --quiet; then echo "/repo working tree is dirty"; exit 2; fi
if ! git apply --check "$patch" 2>/dev/null; then
  if ! git apply --3way "$patch" 2>/dev/null; then echo "PATCH DOES NOT APPLY: $patch"; git checkout -- . ; exit 3; fi
  git reset -q
else
  git apply "$patch"
fi
rc=0
for p in "$@"; do
  out=$(cd /verif && VERIF_EVIDENCE_DIR=/tmp/seed_evidence bin/sidecheck -property $p -verif /tmp/seed_verif 2>&1)
  if echo "$out" | grep -q '^VIOLATION'; then
    echo "== $p: DETECTED"; echo "$out" | grep -E '^(VIOLATED|UNDECIDED)' | head -8; echo "$out" | grep -E '^\s+found:' | head -4 | cut -c1-400
  else
    echo "== $p: silent"; rc=1
  fi
done
git checkout -- .
git status --short | head -3
exit $rc
