#!/usr/bin/env python3-vt
import json, jsonschema, glob, sys
m=json.load(open('/verif/MANIFEST.json')); s=json.load(open('/root/.vp/MANIFEST.schema.json'))
jsonschema.validate(m,s); print("manifest valid:", len(m['checks']), "checks,", len(m.get('not_applicable',[])), "n/a")
es=json.load(open('/root/.vp/EVIDENCE.schema.json'))
bad=0
for c in m['checks']:
    try:
        jsonschema.validate(json.load(open(c['evidence_file'])),es)
    except Exception as e:
        bad+=1; print(c['property_id'],'EVIDENCE INVALID', str(e)[:200])
print("evidence files valid" if not bad else f"{bad} invalid")
sys.exit(1 if bad else 0)
