#!/bin/bash
# usage: confirm_seed.sh <Cnn> <variant>  — independently confirms a seeded change in a scratch worktree at /repo's HEAD
# and, when confirmed, stores it under /verif/seeded/<Cnn>-<variant>/.
export GOFLAGS=-mod=mod GOPROXY=off GOSUMDB=off GOTOOLCHAIN=local
id=$1; v=$2
srcroot=${3:-/tmp/seed}
tv=${4:-$v}      # variant letter under which it is stored
src=$srcroot/$id/out/$v
wt=/tmp/seedconf/$id-$tv
log=/tmp/seedconf/$id-$tv.log
mkdir -p /tmp/seedconf
exec >$log 2>&1
[ -f $src/patch.diff ] || { echo "RESULT $id-$v NO-PATCH"; exit 1; }
git -C /repo worktree remove --force $wt 2>/dev/null
git -C /repo worktree add -q --detach $wt HEAD || { echo "RESULT $id-$v WORKTREE-FAIL"; exit 1; }
cd $wt
place=$(jq -r .demo_place_in $src/meta.json | sed 's#^\./##; s#/$##')
[ -d "$place" ] || place=$(head -3 $src/demo_test.go | grep -o 'place in: *[^ ]*' | sed 's/place in: *//; s#/$##')
demo=$place/zz_seeded_demo_test.go
run="go test -vet=off -count=1 -tags testing -run TestSeeded_${id}_${v} ./$place/"
cp $src/demo_test.go $demo
echo "## demo on unchanged tree"; $run; r1=$?
if ! git apply --check $src/patch.diff 2>/dev/null; then
  git apply --3way $src/patch.diff || { echo "RESULT $id-$v PATCH-DOES-NOT-APPLY"; cd /; git -C /repo worktree remove --force $wt; exit 1; }
  git reset -q
else git apply $src/patch.diff; fi
git diff -- . ':!*zz_seeded_demo_test.go' > /tmp/seedconf/$id-$tv.rebased.diff
echo "## build"; go build ./...; r2=$?
echo "## demo on changed tree"; $run; r3=$?
rm -f $demo
echo "## full suite on changed tree"; go test -vet=off -count=1 -tags testing ./... 2>&1 | grep -v '^ok' | grep -v 'no test files'; r4=${PIPESTATUS[0]}
cd /; git -C /repo worktree remove --force $wt
if [ $r1 = 0 ] && [ $r2 = 0 ] && [ $r3 != 0 ] && [ $r4 = 0 ]; then
  d=/verif/seeded/$id-$tv; mkdir -p $d
  cp /tmp/seedconf/$id-$tv.rebased.diff $d/patch.diff; cp $src/demo_test.go $d/demo_test.go
  jq --arg variant "$tv" --arg head "$(git -C /repo rev-parse --short HEAD)" --arg place "$place" '. + {variant:$variant, confirmed_at_repo_commit:$head, demo_place_in:$place, confirmed:"demo passes on the unchanged tree, fails with the patch; go build ./... ok; full suite (go test -vet=off -count=1 -tags testing ./...) passes with the patch", confirm_cmd:"tools/confirm_seed.sh"}' $src/meta.json > $d/meta.json
  echo "RESULT $id-$tv CONFIRMED"
else
  echo "RESULT $id-$tv REJECTED demo_clean=$r1 build=$r2 demo_changed=$r3 suite=$r4"
fi
