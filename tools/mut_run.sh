#!/bin/bash
# usage: mut_run.sh <mutdir> [parallel]  — runs every mutant of <mutdir>/index.jsonl through all 20 quick checks
# (one load per mutant, source overlay, nothing is copied or written under /repo) and writes <mutdir>/results.tsv:
#   n <TAB> status(compile-error|detected|silent) <TAB> properties that reported it
export GOFLAGS=-mod=mod GOPROXY=off GOSUMDB=off GOTOOLCHAIN=local GOWORK=off
dir=$1; par=${2:-7}
bin=${SIDECHECK:-/verif/bin/sidecheck.mut}
one() {
  n=$1; file=$2; dir=$3; bin=$4
  v=$dir/v/$n; mkdir -p $v; cp /verif/known_findings.json $v/
  o=$($bin -property all -verif $v -overlay /repo/$file=$dir/$n.go 2>&1)
  if echo "$o" | grep -q '^LOAD-ERROR\|\.load '; then st=compile-error; props=""
  else
    props=$(echo "$o" | grep '^VIOLATION' | sed 's/.*property=\([A-Z0-9]*\).*/\1/' | sort -u | tr '\n' ',')
    if [ -n "$props" ]; then st=detected; else st=silent; fi
  fi
  obl=$(echo "$o" | grep -E '^(VIOLATED|UNDECIDED)' | awk '{print $2}' | sort -u | head -4 | tr '\n' ' ')
  printf "%s\t%s\t%s\t%s\n" "$n" "$st" "$props" "$obl" >> ${OUT:-$dir/results.tsv}
  rm -rf $v
}
export -f one
: > ${OUT:-$dir/results.tsv}
jq -r '[.n,.file]|@tsv' ${INDEX:-$dir/index.jsonl} | xargs -P $par -L 1 bash -c 'one $0 $1 '"$dir $bin"
sort -n ${OUT:-$dir/results.tsv} -o ${OUT:-$dir/results.tsv}
cut -f2 ${OUT:-$dir/results.tsv} | sort | uniq -c
