#!/bin/bash
# usage: mut_tests.sh <mutdir> <list-of-mutant-numbers-file> [parallel]
# For each listed mutant, runs the repository's own tests of every package that (transitively) imports the mutated
# package, in a private scratch copy of /repo, and records whether the suite still passes ("survives").
# Output: <mutdir>/tests.tsv  n <TAB> survives|killed|build-fail
# (pkg/restapi/diddochandler binds a fixed port and is left out: runs are parallel.)
export GOFLAGS=-mod=mod GOPROXY=off GOSUMDB=off GOTOOLCHAIN=local GOWORK=off
dir=$1; list=$2; par=${3:-4}
out=${OUT:-$dir/tests.tsv}
root=/tmp/mt
mkdir -p $root
# reverse dependency map (once)
if [ ! -f $root/rdeps.txt ]; then
  (cd /repo && go list -tags testing -test -f '{{.ImportPath}} {{join .Deps " "}}' ./... 2>/dev/null) > $root/deps.raw
  python3 - "$root" <<'PY'
import sys,collections
root=sys.argv[1]
mod='github.com/trustbloc/sidetree-core-go/'
r=collections.defaultdict(set)
for l in open(root+'/deps.raw'):
    p=l.split()
    if not p: continue
    pk=p[0].split(' ')[0]
    base=pk.split('[')[0].strip()
    if base.endswith('.test'): base=base[:-5]
    if base.endswith('_test'): base=base[:-5]
    if not base.startswith(mod): continue
    for d in p[1:]:
        if d.startswith(mod): r[d].add(base)
    r[base].add(base)
with open(root+'/rdeps.txt','w') as f:
    for k,v in sorted(r.items()):
        f.write(k[len(mod):]+' '+' '.join(sorted('./'+x[len(mod):] for x in v if 'diddochandler' not in x))+'\n')
PY
fi
one() {
  n=$1; dir=$2; out=$3; root=$4
  file=$(jq -r "select(.n==$n)|.file" $dir/index.jsonl)
  w=$root/w${SLOT:-0}
  if [ ! -d $w ]; then mkdir -p $w; (cd /repo && git ls-files -z | xargs -0 cp --parents -t $w); fi
  cp $dir/$n.go $w/$file
  pk=$(dirname $file)
  pkgs=$(grep "^$pk " $root/rdeps.txt | cut -d' ' -f2-)
  [ -z "$pkgs" ] && pkgs=./$pk
  if ! (cd $w && go build ./... ) >/dev/null 2>&1; then st=build-fail
  elif (cd $w && timeout 600 go test -vet=off -count=1 -tags testing $pkgs) > $w/log.txt 2>&1; then st=survives
  else st=killed; fi
  (cd /repo && cat $file) > $w/$file
  printf "%s\t%s\n" "$n" "$st" >> $out
}
export -f one
: > $out
cat $list | xargs --process-slot-var=SLOT -P $par -n 1 -I{} bash -c 'one {} '"$dir $out $root"
rm -rf $root/w*
sort -n $out -o $out
cut -f2 $out | sort | uniq -c
