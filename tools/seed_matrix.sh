#!/bin/bash
# usage: seed_matrix.sh [all|own]  — runs every stored seeded change (/verif/seeded/*/patch.diff) on a scratch copy of /repo
# (outside /repo and /verif) and records which property checks report it. 'own' (default) runs only the seed's own
# property check; 'all' runs all 20. Writes /verif/seeded/MATRIX.json and prints a table.
mode=${1:-own}
export GOFLAGS=-mod=mod GOPROXY=off GOSUMDB=off GOTOOLCHAIN=local
out=/verif/seeded/MATRIX.json
tmp=$(mktemp -d /tmp/seedmatrix.XXXXXX)
props=$(/verif/bin/sidecheck -list)
run_one() {
  s=$1; mode=$2; tmp=$3; props=$4
  name=$(basename $s)
  own=${name%%-*}
  d=$tmp/$name
  mkdir -p $d/repo $d/verif
  (cd /repo && git ls-files -z | xargs -0 cp --parents -t $d/repo) 2>/dev/null
  cp /verif/known_findings.json $d/verif/
  if ! (cd $d/repo && git apply --whitespace=nowarn $s/patch.diff 2>/dev/null || patch -p1 -s < $s/patch.diff >/dev/null 2>&1); then
    echo "{\"seed\":\"$name\",\"applies\":false}" > $tmp/$name.json; rm -rf $d; return
  fi
  list=$own; [ "$mode" = all ] && list=$props
  det=""
  obl=""
  for p in $list; do
    o=$(${SIDECHECK:-/verif/bin/sidecheck} -property $p -dir $d/repo -verif $d/verif 2>&1)
    if ! echo "$o" | grep -q ' tier='; then
      echo "CHECKER ERROR on $name ($p): $(echo "$o" | head -2 | tr '\n' ' ' | cut -c1-160)" >&2
    fi
    if echo "$o" | grep -q '^VIOLATION'; then
      det="$det\"$p\","
      if [ "$p" = "$own" ]; then obl=$(echo "$o" | grep -E '^(VIOLATED|UNDECIDED)' | sed 's/ config=.*//' | awk '{print $2}' | sort -u | head -6 | tr '\n' ' '); fi
    fi
  done
  jq -n --arg seed "$name" --arg own "$own" --argjson det "[${det%,}]" --arg obl "$obl" '{seed:$seed,applies:true,property:$own,detected_by:$det,own_obligations:$obl}' > $tmp/$name.json
  rm -rf $d
}
export -f run_one
ls -d /verif/seeded/C*/ | sed 's#/$##' | xargs -P 6 -I{} bash -c "run_one {} $mode $tmp '$props'"
python3 - "$tmp" "$out" "$mode" <<'PY'
import json,sys,glob,os,subprocess
tmp,out,mode=sys.argv[1:4]
rows=[json.load(open(f)) for f in sorted(glob.glob(tmp+'/*.json'))]
head=subprocess.run(['git','-C','/repo','rev-parse','--short','HEAD'],capture_output=True,text=True).stdout.strip()
json.dump({"repo_head":head,"mode":mode,"rows":rows},open(out,'w'),indent=1)
missed=[r['seed'] for r in rows if r.get('applies') and r['property'] not in r['detected_by']]
na=[r['seed'] for r in rows if not r.get('applies')]
for r in rows:
    if r.get('applies'):
        print(f"{r['seed']:8s} own:{'DETECTED' if r['property'] in r['detected_by'] else 'MISSED  '} by={','.join(r['detected_by'])}  {r['own_obligations'][:150]}")
    else:
        print(f"{r['seed']:8s} patch does not apply")
print(f"{len(rows)} seeds; own-property misses: {missed}; not applicable: {na}")
PY
rm -rf $tmp
