#!/usr/bin/env python3
"""Generates /verif/MANIFEST.json from the claims table below and the list of
properties the checker binary registers. Run from /verif after editing."""
import json, subprocess, sys, os

ENV = "GOFLAGS=-mod=mod GOPROXY=off GOSUMDB=off GOTOOLCHAIN=local GOWORK=off"
TRUST = ("Trusted: go/types + go/ssa (x/tools v0.29.0) construction; documented contracts of the standard library and "
         "third-party modules (their bodies are not analysed); the role/row/effect tables in checker/props (the oracle, "
         "transcribed from the property statements and pkg/api/protocol comments); interface calls are resolved to the "
         "non-mock implementations inside the module, caller-supplied implementations are out of scope. ")

# property id -> (technique, level text, what is NOT decided, design section)
CLAIMS = json.load(open(os.path.join(os.path.dirname(__file__), "claims.json")))

def main():
    ids = subprocess.run(["/verif/bin/sidecheck", "-list"], capture_output=True, text=True).stdout.split()
    props = [json.loads(l) for l in open("/verif/properties.jsonl")]
    checks, na = [], []
    for p in props:
        pid = p["id"]
        c = CLAIMS.get(pid)
        if pid in ids and c and c.get("claimed", True):
            checks.append({
                "property_id": pid,
                "quick_cmd": f"bin/sidecheck -property {pid} -tier quick",
                "thorough_cmd": f"bin/sidecheck -property {pid} -tier thorough",
                "evidence_file": f"/verif/evidence/{pid}.json",
                "replay_cmd_template": f"bin/sidecheck -property {pid} -tier quick  # re-derives the obligations listed in {{path}} from /repo's current source",
                "engine": "sidecheck",
                "level_claimed": {
                    "category": "other",
                    "text": c["text"],
                    "design_ref": f"DESIGN.md section 4 ({pid}) and section 3 (engines)",
                },
                "level_note": TRUST + "Not decided by this check: " + c["not_decided"],
                "technique": c["technique"],
            })
        else:
            reason = (c or {}).get("na_reason") or "no static check built yet for this property in the current state of /verif; see DESIGN.md section 4 for the planned structural obligations"
            na.append({"property_id": pid, "reason": reason})
    m = {
        "version": 1,
        "setup_cmd": f"cd /verif/checker && {ENV} go build -o /verif/bin/sidecheck ./cmd/sidecheck",
        "hooks": {
            "guard": "verif",
            "enable": "none needed: the checks are static analyses of /repo's source (go/packages + go/ssa); no instrumentation is compiled into the subject",
            "baseline_off_cmd": f"cd /repo && {ENV} go build ./... && {ENV} go test -vet=off -count=1 -timeout 25m ./...",
            "source_commits": [],
            "add_only": True,
        },
        "engines": [{
            "name": "sidecheck",
            "path": "/verif/checker",
            "serves_properties": [c["property_id"] for c in checks],
            "kind_free_text": "repository-specific static analyser: go/packages whole-program load of /repo on every run, go/ssa, access-path terms (E1), interprocedural must-fact dataflow with success summaries (E2), protocol-parameter role analysis (E3), exhaustive comparator truth tables (E4), field-flow / loop / table / pairing / purity / panic-site / error-discipline rules (E5-E14); obligations keyed by role, reported with file:line; undecided fails",
        }],
        "checks": checks,
        "not_applicable": na,
        "notes": "All claims are level 'other': each check decides structural necessary conditions of its property on every path of the current source (see each level_claimed.text for exactly which), never the behavioural statement as a whole. Known findings: /verif/known_findings.json. Seeded changes used to validate the checks: /verif/seeded/.",
    }
    json.dump(m, open("/verif/MANIFEST.json", "w"), indent=1)
    print(f"claimed {len(checks)}: {[c['property_id'] for c in checks]}; not_applicable {len(na)}")

main()
