#!/usr/bin/env python3
# usage: mut_show.py <mutdir> <status> [file-substring]  — lists mutants with the given status (silent|detected|compile-error)
import json,sys
d,st=sys.argv[1],sys.argv[2]; sub=sys.argv[3] if len(sys.argv)>3 else ''
idx={}
for l in open(d+'/index.jsonl'):
    m=json.loads(l); idx[m['n']]=m
for l in open(d+'/results.tsv'):
    f=l.rstrip('\n').split('\t'); n=int(f[0])
    m=idx[n]
    if f[1]!=st or sub not in m['file']: continue
    b=m['before'].replace('\n',' ')[:70]; a=m['after'].replace('\n',' ')[:70]
    print(f"{n:5d} {m['file'].split('/')[-1]}:{m['line']:<4d} {m['func'][:34]:34s} {m['kind']:16s} | {b}  =>  {a}" + (f"   [{f[2]}]" if f[2] else ''))
