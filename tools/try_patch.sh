#!/bin/bash
# usage: try_patch.sh <patch.diff> <property>...  — applies the patch to a scratch copy of /repo's tracked files and runs the quick checks on it.
export GOFLAGS=-mod=mod GOPROXY=off GOSUMDB=off GOTOOLCHAIN=local
patch=$1; shift
t=$(mktemp -d /tmp/trypatch.XXXXXX); mkdir -p $t/repo $t/verif
(cd /repo && git ls-files -z | xargs -0 cp --parents -t $t/repo)
cp /verif/known_findings.json $t/verif/
if ! (cd $t/repo && git apply --whitespace=nowarn $patch 2>/dev/null || patch -p1 -s -i $patch >/dev/null 2>&1); then echo "PATCH DOES NOT APPLY: $patch"; rm -rf $t; exit 3; fi
rc=0
for p in "$@"; do
  out=$(/verif/bin/sidecheck -property $p -dir $t/repo -verif $t/verif 2>&1)
  if ! echo "$out" | grep -q ' tier='; then
    echo "== $p: CHECKER ERROR $(echo "$out" | head -2 | tr '\n' ' ' | cut -c1-160)"
  elif echo "$out" | grep -q '^VIOLATION'; then
    echo "== $p: DETECTED $(echo "$out" | grep -E '^(VIOLATED|UNDECIDED)' | awk '{print $2}' | sort -u | head -6 | tr '\n' ' ')"
    [ -n "$VERBOSE" ] && echo "$out" | grep -E '^\s+found:' | head -4 | cut -c1-400
  else
    echo "== $p: silent"; rc=1
  fi
done
rm -rf $t
exit $rc
