#!/bin/bash
# rerun every stored benign variant against its listed properties (default) or, with argument 'all', against all 20
export GOFLAGS=-mod=mod GOPROXY=off GOSUMDB=off GOTOOLCHAIN=local
one() {
  v=$1; name=$(basename $v)
  t=$(mktemp -d /tmp/benignall.XXXXXX); mkdir -p $t/repo $t/verif
  (cd /repo && git ls-files -z | xargs -0 cp --parents -t $t/repo)
  cp /verif/known_findings.json $t/verif/
  if ! (cd $t/repo && git apply --whitespace=nowarn $v/patch.diff 2>/dev/null); then echo "$name: NOAPPLY"; rm -rf $t; return; fi
  al=""
  plist=$(jq -r '.properties[]' $v/meta.json); [ "$MODE" = all ] && plist=$(/verif/bin/sidecheck -list)
  for p in $plist; do
    o=$(${SIDECHECK:-/verif/bin/sidecheck} -property $p -dir $t/repo -verif $t/verif 2>&1)
    if ! echo "$o" | grep -q " tier="; then al="$al $p:[CHECKER-ERROR]"; fi
    if echo "$o" | grep -q "^VIOLATION"; then al="$al $p:[$(echo "$o" | grep -E '^(VIOLATED|UNDECIDED)' | awk '{print $2}' | sort -u | head -4 | tr '\n' ' ')]"; fi
  done
  [ -z "$al" ] && echo "$name: silent" || echo "$name: ALARM$al"
  rm -rf $t
}
export -f one
export MODE=${1:-listed}
ls -d /verif/variants/benign/B*/ | sed 's#/$##' | xargs -P 6 -I{} bash -c "one {}"
