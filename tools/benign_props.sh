#!/bin/bash
# usage: benign_props.sh Cnn [Cmm…] — rerun every stored benign variant against the given properties only (after a rule was added to them)
export GOFLAGS=-mod=mod GOPROXY=off GOSUMDB=off GOTOOLCHAIN=local
one() {
  v=$1; name=$(basename $v)
  t=$(mktemp -d /tmp/benignp.XXXXXX); mkdir -p $t/repo $t/verif
  (cd /repo && git ls-files -z | xargs -0 cp --parents -t $t/repo)
  cp /verif/known_findings.json $t/verif/
  if ! (cd $t/repo && git apply --whitespace=nowarn $v/patch.diff 2>/dev/null); then echo "$name: NOAPPLY"; rm -rf $t; return; fi
  al=""
  for p in $PLIST; do
    o=$(${SIDECHECK:-/verif/bin/sidecheck} -property $p -dir $t/repo -verif $t/verif 2>&1)
    if ! echo "$o" | grep -q " tier="; then al="$al $p:[CHECKER-ERROR]"; fi
    if echo "$o" | grep -q "^VIOLATION"; then al="$al $p:[$(echo "$o" | grep -E '^(VIOLATED|UNDECIDED)' | awk '{print $2}' | sort -u | head -4 | tr '\n' ' ')]"; fi
  done
  [ -z "$al" ] && echo "$name: silent" || echo "$name: ALARM$al"
  rm -rf $t
}
export -f one
export PLIST="$*"
ls -d /verif/variants/benign/B*/ | sed 's#/$##' | xargs -P ${PAR:-12} -I{} bash -c "one {}"
