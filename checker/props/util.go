package props

import (
	"fmt"
	"go/token"
	"go/types"
	"sort"
	"strings"

	"golang.org/x/tools/go/ssa"

	"sidecheck/core"
)

// Relative package paths used as anchors.
const (
	pkgProcessor   = "pkg/processor"
	pkgApplier     = "pkg/versions/1_0/operationapplier"
	pkgParser      = "pkg/versions/1_0/operationparser"
	pkgPatchVal    = "pkg/versions/1_0/operationparser/patchvalidator"
	pkgIJWS        = "pkg/internal/jws"
	pkgJWS         = "pkg/jws"
	pkgHashing     = "pkg/hashing"
	pkgCommitment  = "pkg/commitment"
	pkgModel       = "pkg/versions/1_0/model"
	pkgProtocol    = "pkg/api/protocol"
	pkgOperation   = "pkg/api/operation"
	pkgTxn         = "pkg/api/txn"
	pkgDocHandler  = "pkg/dochandler"
	pkgProvider    = "pkg/versions/1_0/txnprovider"
	pkgModels      = "pkg/versions/1_0/txnprovider/models"
	pkgTxnProc     = "pkg/versions/1_0/txnprocessor"
	pkgObserver    = "pkg/observer"
	pkgBatch       = "pkg/batch"
	pkgCutter      = "pkg/batch/cutter"
	pkgOpQueue     = "pkg/batch/opqueue"
	pkgComposer    = "pkg/versions/1_0/doccomposer"
	pkgPatch       = "pkg/patch"
	pkgDocument    = "pkg/document"
	pkgCanon       = "pkg/canonicalizer"
	pkgJCS         = "pkg/internal/jsoncanonicalizer"
	pkgClient      = "pkg/versions/1_0/client"
	pkgSignutil    = "pkg/internal/signutil"
	pkgPubkey      = "pkg/util/pubkey"
	pkgECSigner    = "pkg/util/ecsigner"
	pkgEDSigner    = "pkg/util/edsigner"
	pkgDidTrans    = "pkg/versions/1_0/doctransformer/didtransformer"
	pkgDocTrans    = "pkg/versions/1_0/doctransformer/doctransformer"
	pkgMetadata    = "pkg/versions/1_0/doctransformer/metadata"
	pkgEncoder     = "pkg/encoder"
	pkgDocutil     = "pkg/docutil"
	pkgCompression = "pkg/compression"
	pkgRestDoc     = "pkg/restapi/dochandler"
)

// fn resolves an anchored function; an anchor that no longer resolves is an
// undecided obligation (never silently skipped).
func (r *Run) fn(prop, rel, name string) *ssa.Function {
	f := r.P.Func(rel, name)
	if f == nil || f.Blocks == nil {
		r.R.Unk(prop+".anchor."+rel+"."+name, "anchor resolution", rel+"."+name, rel,
			"the obligation is about this function; if it is gone the rule must be re-anchored, not skipped",
			"function not found in the loaded program")
		return nil
	}
	return f
}

func (r *Run) where(f *ssa.Function) string {
	if f == nil {
		return "-"
	}
	return r.P.Pos(f.Pos())
}

// succ returns the success summary of f under ctx.
func (r *Run) succ(f *ssa.Function, ctx core.Ctx) *core.Summary {
	return r.E.Summary(f, ctx)
}

// boolParamCtx builds a context fixing f's bool parameter named name (or the
// only bool parameter when name is "").
func boolParamCtx(f *ssa.Function, val bool) (core.Ctx, bool) {
	for i, p := range f.Params {
		if types.Identical(p.Type().Underlying(), types.Typ[types.Bool]) {
			return core.Ctx{ParamBool: map[int]bool{i: val}}, true
		}
	}
	return core.Ctx{}, false
}

// requireSucc checks that the success summary of f (under ctx) satisfies all
// patterns simultaneously (shared ?variables), recording one obligation.
func (r *Run) requireSucc(id, why string, f *ssa.Function, ctx core.Ctx, ctxName string, pats ...string) (core.Bind, bool) {
	if f == nil {
		return nil, false
	}
	s := r.succ(f, ctx)
	construct := core.FuncName(f)
	if ctxName != "" {
		construct += " | " + ctxName
	}
	rule := "E2 AtSuccess: every nil-error return carries " + strings.Join(pats, " ∧ ")
	if !s.HasSuccess {
		r.R.Unk(id, rule, construct, r.where(f), why, "function has no success return under this context")
		return nil, false
	}
	b, ok := core.MatchAll(s.Facts, pats, nil)
	if ok {
		r.R.Ok(id, rule, construct, r.where(f), why, fmt.Sprintf("all %d fact pattern(s) hold at all %d success return(s); bindings: %s", len(pats), s.Successes, bindStr(b)))
		return b, true
	}
	// find which pattern fails first (greedy prefix) for the report
	missing := ""
	for i := range pats {
		if _, ok := core.MatchAll(s.Facts, pats[:i+1], nil); !ok {
			missing = pats[i]
			break
		}
	}
	r.R.Bad(id, rule, construct, r.where(f), why,
		fmt.Sprintf("%s can return success without the fact %s (checked all %d success returns); nearest facts: %s", core.FuncName(f), missing, s.Successes, strings.Join(core.Nearest(s.Facts, missing, 3), " || ")))
	return nil, false
}

// requireSuccAlt: requireSucc with a second spelling of the same requirement (a helper's call replaced by what the
// helper established, when the helper was inlined by hand); the first set is the one reported when neither holds.
func (r *Run) requireSuccAlt(id, why string, f *ssa.Function, ctx core.Ctx, ctxName string, patsA, patsB []string) (core.Bind, bool) {
	if f == nil {
		return nil, false
	}
	s := r.succ(f, ctx)
	if s.HasSuccess {
		if _, ok := core.MatchAll(s.Facts, patsA, nil); !ok {
			if _, okB := core.MatchAll(s.Facts, patsB, nil); okB {
				return r.requireSucc(id, why, f, ctx, ctxName, patsB...)
			}
		}
	}
	return r.requireSucc(id, why, f, ctx, ctxName, patsA...)
}

func bindStr(b core.Bind) string {
	var ks []string
	for k := range b {
		ks = append(ks, k)
	}
	sort.Strings(ks)
	var parts []string
	for _, k := range ks {
		s := b[k].String()
		if len(s) > 120 {
			s = s[:117] + "..."
		}
		parts = append(parts, k+"="+s)
	}
	return strings.Join(parts, "; ")
}

// callsIn returns the call instructions of f (not descending into closures)
// whose callee name matches one of the dot-suffix names.
func (r *Run) callsIn(f *ssa.Function, names ...string) []*ssa.Call {
	var out []*ssa.Call
	// calls in dead code (`if false && …`, a branch on a constant) are not calls the function makes
	live := r.E.Facts(f, core.Ctx{}).Live
	for _, b := range f.Blocks {
		if live != nil && !live[b] {
			continue
		}
		for _, ins := range b.Instrs {
			c, ok := ins.(*ssa.Call)
			if !ok {
				continue
			}
			key, _, _ := r.P.CalleeKey(c.Common())
			for _, n := range names {
				if core.NameMatches(key, n) {
					out = append(out, c)
					break
				}
			}
		}
	}
	return out
}

// allCallsTo returns every call in subject code whose callee matches name.
func (r *Run) allCallsTo(name string) []*ssa.Call {
	var out []*ssa.Call
	for _, f := range r.P.SubjectFuncs() {
		out = append(out, r.callsIn(f, name)...)
	}
	return out
}

// dispatch maps the constant values of a switch-like dispatch on a term
// (e.g. op.Type) to the subject functions called under cmp(term == const).
func (r *Run) dispatch(f *ssa.Function, ctx core.Ctx, fieldName string) map[string][]*ssa.Call {
	out := map[string][]*ssa.Call{}
	ff := r.E.Facts(f, ctx)
	for _, b := range f.Blocks {
		for _, ins := range b.Instrs {
			c, ok := ins.(*ssa.Call)
			if !ok {
				continue
			}
			_, callee, _ := r.P.CalleeKey(c.Common())
			if callee == nil || !r.P.IsSubject(callee) {
				continue
			}
			at := ff.At(c)
			for _, fct := range at {
				if fct.Kind != "cmp" || fct.Op != "==" || fct.B.Op != "const" {
					continue
				}
				if fct.A.Op == "field" && fct.A.Name == fieldName {
					out[strings.Trim(fct.B.Name, `"`)] = append(out[strings.Trim(fct.B.Name, `"`)], c)
				}
			}
		}
	}
	return out
}

// dispatched is a call selected by the value of a type field: a static call under `field == constant`, or a call
// through a function value that is a bound method chosen under such a condition (Args: receiver first).
type dispatched struct {
	Call *ssa.Call
	Key  string
	Args []ssa.Value
}

// operandEdges: the non-phi values v can take, each with the edge on which it enters the phi web.
func operandEdges(v ssa.Value, depth int) (vals []ssa.Value, from, to []*ssa.BasicBlock) {
	phi, ok := v.(*ssa.Phi)
	if ok {
		if rv := core.ResolvedPhi(phi); rv != nil {
			return operandEdges(rv, depth)
		}
	}
	if !ok || depth > 6 {
		return []ssa.Value{v}, []*ssa.BasicBlock{nil}, []*ssa.BasicBlock{nil}
	}
	for i, e := range phi.Edges {
		if ep, isPhi := e.(*ssa.Phi); isPhi && ep != phi {
			v2, f2, t2 := operandEdges(ep, depth+1)
			vals, from, to = append(vals, v2...), append(from, f2...), append(to, t2...)
			continue
		}
		vals = append(vals, e)
		from = append(from, phi.Block().Preds[i])
		to = append(to, phi.Block())
	}
	return
}

func (r *Run) dispatchSites(f *ssa.Function, ctx core.Ctx, fieldName string) map[string][]dispatched {
	out := map[string][]dispatched{}
	ff := r.E.Facts(f, ctx)
	typeOf := func(facts core.FactSet) []string {
		var ts []string
		for _, fct := range facts {
			if fct.Kind == "cmp" && fct.Op == "==" && fct.B.Op == "const" && fct.A.Op == "field" && fct.A.Name == fieldName {
				ts = append(ts, strings.Trim(fct.B.Name, `"`))
			}
		}
		return ts
	}
	for _, b := range f.Blocks {
		for _, ins := range b.Instrs {
			c, ok := ins.(*ssa.Call)
			if !ok {
				continue
			}
			key, callee, _ := r.P.CalleeKey(c.Common())
			if callee != nil && r.P.IsSubject(callee) {
				for _, t := range typeOf(ff.At(c)) {
					out[t] = append(out[t], dispatched{Call: c, Key: key, Args: c.Common().Args})
				}
				continue
			}
			if c.Common().IsInvoke() || c.Common().StaticCallee() != nil {
				continue
			}
			vals, from, to := operandEdges(c.Common().Value, 0)
			for i, lv := range vals {
				for {
					ct, isCT := lv.(*ssa.ChangeType)
					if !isCT {
						break
					}
					lv = ct.X
				}
				mc, isMC := lv.(*ssa.MakeClosure)
				if !isMC || from[i] == nil {
					continue
				}
				fn, _ := mc.Fn.(*ssa.Function)
				if fn == nil || !strings.HasSuffix(fn.Name(), "$bound") || len(mc.Bindings) != 1 {
					continue
				}
				mo, _ := fn.Object().(*types.Func)
				if mo == nil {
					continue
				}
				real := r.P.SSA.FuncValue(mo)
				if real == nil || !r.P.IsSubject(real) {
					continue
				}
				args := append([]ssa.Value{mc.Bindings[0]}, c.Common().Args...)
				for _, t := range typeOf(ff.EdgeOut(from[i], to[i])) {
					out[t] = append(out[t], dispatched{Call: c, Key: core.FuncName(real), Args: args})
				}
			}
		}
	}
	return out
}

// short shortens long strings for details.
func short(s string, n int) string {
	if len(s) <= n {
		return s
	}
	return s[:n-3] + "..."
}

// requireEachSuccess checks that every success return of f satisfies at least
// one of the alternative pattern lists (a disjunction over returns, used for
// dispatching functions whose cases return different tail calls).
func (r *Run) requireEachSuccess(id, why string, f *ssa.Function, ctx core.Ctx, alts ...[]string) bool {
	if f == nil {
		return false
	}
	ff := r.E.Facts(f, ctx)
	var altStr []string
	for _, a := range alts {
		altStr = append(altStr, strings.Join(a, " ∧ "))
	}
	rule := "E2 AtSuccess (per return): every nil-error return carries one of { " + strings.Join(altStr, " | ") + " }"
	n := 0
	used := map[int]bool{}
	for _, ri := range ff.Returns() {
		if ri.Class != core.RetSuccess {
			continue
		}
		n++
		ok := false
		// the returned values themselves
		for k, rv := range ri.Ret.Results {
			if rv.Type().String() == "error" {
				continue
			}
			ri.Facts[fmt.Sprintf("cmp(<result%d> == %s)", k, ff.TB.Of(rv))] = core.Fact{Kind: "cmp", Op: "==", A: &core.Term{Op: "result", Idx: k}, B: ff.TB.Of(rv)}
		}
		for i, a := range alts {
			if _, m := core.MatchAll(ri.Facts, a, nil); m {
				ok = true
				used[i] = true
				break
			}
		}
		if !ok {
			r.R.Bad(id, rule, core.FuncName(f), r.P.Pos(ri.Ret.Pos()), why,
				fmt.Sprintf("the success return at %s carries none of the alternatives", r.P.Pos(ri.Ret.Pos())))
			return false
		}
	}
	if n == 0 {
		r.R.Unk(id, rule, core.FuncName(f), r.where(f), why, "no success return")
		return false
	}
	r.R.Ok(id, rule, core.FuncName(f), r.where(f), why, fmt.Sprintf("%d success return(s), %d of %d alternatives used", n, len(used), len(alts)))
	return true
}

// reachesAvoiding reports whether instruction `to` can be reached from
// instruction `from` (same function) along live edges without taking an edge
// for which avoid returns true. Blocks are entered at their beginning; if from
// and to are in the same block, order within the block decides.
func reachesAvoiding(ff *core.FnFacts, from, to ssa.Instruction, avoid func(a, b *ssa.BasicBlock) bool) bool {
	fb, tb := from.Block(), to.Block()
	if fb == tb {
		for _, ins := range fb.Instrs {
			if ins == from {
				return true // from precedes to in the same block
			}
			if ins == to {
				break
			}
		}
	}
	return ff.WalkFeasible([]*ssa.BasicBlock{fb}, avoid, func(b *ssa.BasicBlock) bool { return b == tb })
}

// edgeHas reports whether the edge a->b carries a fact matching pat.
func edgeHas(ff *core.FnFacts, a, b *ssa.BasicBlock, pat string) bool {
	set := core.FactSet{}
	for _, f := range ff.EdgeFacts(a, b) {
		set[f.Key()] = f
	}
	return core.HasFact(set, pat)
}

// pathFacts unions the edge facts along a path; phi terms are replaced by the
// term of the value that flows in along this very path (path sensitivity).
func pathFacts(ff *core.FnFacts, path []*ssa.BasicBlock) core.FactSet {
	return resolvePathFacts(ff, path, rawPathFacts(ff, path))
}

// rawPathFacts unions the edge facts along a path without phi resolution.
func rawPathFacts(ff *core.FnFacts, path []*ssa.BasicBlock) core.FactSet {
	set := core.FactSet{}
	for i := 0; i+1 < len(path); i++ {
		for _, f := range ff.EdgeFacts(path[i], path[i+1]) {
			set[f.Key()] = f
		}
		// a test of a merged value says something about the operand this path selected
		for _, f := range ff.PathTestFacts(path[:i+1], path[i+1]) {
			set[f.Key()] = f
		}
	}
	return set
}

func resolvePathFacts(ff *core.FnFacts, path []*ssa.BasicBlock, set core.FactSet) core.FactSet {
	// phi resolution
	type sub struct {
		from *core.Term
		to   *core.Term
	}
	var subs []sub
	for _, b := range path {
		for _, ins := range b.Instrs {
			phi, ok := ins.(*ssa.Phi)
			if !ok {
				continue
			}
			pt := ff.TB.Of(phi)
			if pt.Op != "phi" {
				continue
			}
			rv := resolveOnPath(phi, path)
			if rv == ssa.Value(phi) {
				continue
			}
			rt := ff.TB.Of(rv)
			if rt.Op == "phi" {
				continue
			}
			subs = append(subs, sub{pt, rt})
		}
	}
	if len(subs) == 0 {
		return set
	}
	out := core.FactSet{}
	for _, f := range set {
		g := f
		for _, sb := range subs {
			g = g.Replace(sb.from, sb.to)
		}
		out[g.Key()] = g
	}
	return out
}

// requireEachSuccessPath: for a loop-free function, every entry→success-return
// path must satisfy one of the alternative pattern lists (path-sensitive
// disjunction; facts = edge facts along the path incl. callee summaries).
func (r *Run) requireEachSuccessPath(id, why string, f *ssa.Function, ctx core.Ctx, alts ...[]string) bool {
	if f == nil {
		return false
	}
	ff := r.E.Facts(f, ctx)
	var altStr []string
	for _, a := range alts {
		altStr = append(altStr, strings.Join(a, " ∧ "))
	}
	rule := "E2 path-sensitive: every entry→success path carries one of { " + strings.Join(altStr, " | ") + " }"
	if hasCycle(f) {
		r.R.Unk(id, rule, core.FuncName(f), r.where(f), why, "function is not loop-free")
		return false
	}
	paths, complete := enumPaths(ff, 5000)
	if !complete {
		r.R.Unk(id, rule, core.FuncName(f), r.where(f), why, "too many paths")
		return false
	}
	ei := f.Signature.Results().Len() - 1
	n := 0
	for _, p := range paths {
		ret := p[len(p)-1].Instrs[len(p[len(p)-1].Instrs)-1].(*ssa.Return)
		if ei >= 0 && isErrorTypeV(core.RetOp(ret, ei)) && !isNilConstV(core.RetOp(ret, ei)) {
			// not provably nil: treat a returned call error as failure only when the path says so
			rpf := rawPathFacts(ff, p)
			ev := valueOnPath(core.RetOp(ret, ei), p)
			if isNilConstV(ev) {
				// the merged error is nil on this path
			} else if !couldBeNil(ff, ev, rpf) || rpf.Has((&core.Fact{Kind: "cmp", Op: "!=", A: ff.TB.Of(core.RetOp(ret, ei)), B: &core.Term{Op: "const", Name: "nil"}}).Key()) {
				continue
			}
		}
		n++
		pf := pathFacts(ff, p)
		if ei >= 0 {
			// a tail-returned error that is nil on this (success) path means that call succeeded
			t := ff.TB.Of(core.RetOp(ret, ei))
			if t.Op == "err" && t.Args[0].Op == "call" {
				f := core.Fact{Kind: "ok", A: t.Args[0]}
				pf[f.Key()] = f
			} else if t.Op == "call" {
				f := core.Fact{Kind: "ok", A: t}
				pf[f.Key()] = f
			}
		}
		ok := false
		for _, a := range alts {
			if _, m := core.MatchAll(pf, a, nil); m {
				ok = true
				break
			}
		}
		if !ok {
			r.R.Bad(id, rule, core.FuncName(f), r.P.Pos(ret.Pos()), why, "a path to the success return at "+r.P.Pos(ret.Pos())+" carries none of the alternatives")
			return false
		}
	}
	if n == 0 {
		r.R.Unk(id, rule, core.FuncName(f), r.where(f), why, "no success path")
		return false
	}
	r.R.Ok(id, rule, core.FuncName(f), r.where(f), why, fmt.Sprintf("%d success path(s) all carry an alternative", n))
	return true
}

// valueOnPath: the operand a (chain of) phi(s) takes when control runs along path (the value itself otherwise).
func valueOnPath(v ssa.Value, path []*ssa.BasicBlock) ssa.Value {
	for depth := 0; depth < 8; depth++ {
		phi, ok := v.(*ssa.Phi)
		if !ok {
			return v
		}
		at := -1
		for i, b := range path {
			if b == phi.Block() {
				at = i
			}
		}
		if at <= 0 {
			return v
		}
		idx := -1
		for i, q := range phi.Block().Preds {
			if q == path[at-1] {
				idx = i
			}
		}
		if idx < 0 {
			return v
		}
		v = phi.Edges[idx]
	}
	return v
}

func isErrorTypeV(v ssa.Value) bool {
	return v.Type().String() == "error"
}

// couldBeNil: an error value returned on a path is possibly nil unless the
// path carries its fail fact or it is a non-nil constructor.
func couldBeNil(ff *core.FnFacts, v ssa.Value, pf core.FactSet) bool {
	// a package-level sentinel (`var errX = errors.New(…)`) is never nil
	if u, ok := v.(*ssa.UnOp); ok && u.Op == token.MUL {
		if _, isG := u.X.(*ssa.Global); isG {
			return false
		}
	}
	t := ff.TB.Of(v)
	var ct *core.Term
	if t.Op == "err" && t.Args[0].Op == "call" {
		ct = t.Args[0]
	} else if t.Op == "call" {
		ct = t
	}
	if ct == nil {
		return true
	}
	if pf.Has((&core.Fact{Kind: "fail", A: ct}).Key()) {
		return false
	}
	switch ct.Name {
	case "errors.New", "fmt.Errorf", "github.com/pkg/errors.New", "github.com/pkg/errors.Errorf":
		return false
	case "github.com/pkg/errors.Wrap", "github.com/pkg/errors.Wrapf", "github.com/pkg/errors.WithMessage", "github.com/pkg/errors.WithMessagef", "github.com/pkg/errors.WithStack":
		// nil iff the wrapped error is nil
		if call, ok := ct.Val.(*ssa.Call); ok && len(call.Call.Args) > 0 {
			return couldBeNil(ff, call.Call.Args[0], pf)
		}
	}
	return true
}

// effectSites returns the call sites in entry that reach (through at most
// depth static calls inside the module) an interface call to one of the named
// interface methods ("Iface.Method" dot-suffix names).
func (r *Run) effectSites(entry *ssa.Function, depth int, names ...string) map[*ssa.Call]string {
	out := map[*ssa.Call]string{}
	var reaches func(f *ssa.Function, d int, seen map[*ssa.Function]bool) string
	reaches = func(f *ssa.Function, d int, seen map[*ssa.Function]bool) string {
		if f == nil || f.Blocks == nil || seen[f] {
			return ""
		}
		seen[f] = true
		for _, b := range f.Blocks {
			for _, ins := range b.Instrs {
				c, ok := ins.(*ssa.Call)
				if !ok {
					continue
				}
				key, _, _ := r.P.CalleeKey(c.Common())
				for _, n := range names {
					if core.NameMatches(key, n) {
						return n
					}
				}
				if d > 0 {
					if sc := c.Common().StaticCallee(); sc != nil && r.P.IsSubject(sc) {
						if n := reaches(sc, d-1, seen); n != "" {
							return n
						}
					}
				}
			}
		}
		return ""
	}
	for _, b := range entry.Blocks {
		for _, ins := range b.Instrs {
			c, ok := ins.(*ssa.Call)
			if !ok {
				continue
			}
			key, _, _ := r.P.CalleeKey(c.Common())
			hit := ""
			for _, n := range names {
				if core.NameMatches(key, n) {
					hit = n
				}
			}
			if hit == "" {
				if sc := c.Common().StaticCallee(); sc != nil && r.P.IsSubject(sc) {
					hit = reaches(sc, depth-1, map[*ssa.Function]bool{})
				}
			}
			if hit != "" {
				out[c] = hit
			}
		}
	}
	return out
}

// variadicElems resolves the elements packed into a variadic argument
// (slice of a fresh array filled by stores); nil if v is not such a slice.
func variadicElems(v ssa.Value) []ssa.Value {
	sl, ok := v.(*ssa.Slice)
	if !ok {
		return nil
	}
	al, ok := sl.X.(*ssa.Alloc)
	if !ok {
		return nil
	}
	var out []ssa.Value
	if refs := al.Referrers(); refs != nil {
		for _, rf := range *refs {
			ia, ok := rf.(*ssa.IndexAddr)
			if !ok {
				continue
			}
			if irefs := ia.Referrers(); irefs != nil {
				for _, ir := range *irefs {
					if st, ok := ir.(*ssa.Store); ok && st.Addr == ia {
						out = append(out, st.Val)
					}
				}
			}
		}
	}
	return out
}

// iterPath is one path through a loop body: from the loop head back to the
// head (Ret == nil) or to a return.
type iterPath struct {
	Blocks []*ssa.BasicBlock
	Ret    *ssa.Return
}

// loopIterationPaths enumerates the acyclic paths from head's in-loop
// successors back to head or to a return (inner loops are traversed at most once).
func loopIterationPaths(ff *core.FnFacts, head *ssa.BasicBlock, limit int) []iterPath {
	var out []iterPath
	var rec func(b *ssa.BasicBlock, seen map[*ssa.BasicBlock]bool, blocks []*ssa.BasicBlock)
	rec = func(b *ssa.BasicBlock, seen map[*ssa.BasicBlock]bool, blocks []*ssa.BasicBlock) {
		if len(out) >= limit {
			return
		}
		blocks = append(blocks, b)
		if ret, ok := b.Instrs[len(b.Instrs)-1].(*ssa.Return); ok {
			out = append(out, iterPath{Blocks: append([]*ssa.BasicBlock{}, blocks...), Ret: ret})
			return
		}
		for _, s := range b.Succs {
			if !ff.IsLiveEdge(b, s) || !ff.PathFeasible(blocks, s) {
				continue
			}
			if s == head {
				out = append(out, iterPath{Blocks: append(append([]*ssa.BasicBlock{}, blocks...), s)})
				continue
			}
			if seen[s] {
				continue
			}
			seen[s] = true
			rec(s, seen, blocks)
			delete(seen, s)
		}
	}
	for _, s := range head.Succs {
		if ff.IsLiveEdge(head, s) && blockReaches(ff, s, head, nil) {
			rec(s, map[*ssa.BasicBlock]bool{s: true}, []*ssa.BasicBlock{head})
		}
	}
	return out
}

// nonNilResult: every success return of f returns a freshly allocated (hence
// non-nil) value as result 0.
func (r *Run) nonNilResult(f *ssa.Function) bool {
	if f == nil || f.Blocks == nil || !r.P.IsSubject(f) {
		return false
	}
	ff := r.E.Facts(f, core.Ctx{})
	n := 0
	for _, ri := range ff.Returns() {
		if ri.Class != core.RetSuccess {
			continue
		}
		n++
		for _, l := range phiLeaves(core.RetOp(ri.Ret, 0)) {
			switch l.(type) {
			case *ssa.Alloc, *ssa.MakeMap, *ssa.MakeSlice:
			default:
				return false
			}
		}
	}
	return n > 0
}

// matchTermVia matches pat against t or against a term that the facts equate
// with t (e.g. the result of a helper whose summary names the returned value).
func matchTermVia(at core.FactSet, pat string, t *core.Term, b core.Bind) bool {
	if core.MatchTerm(pat, t, b) {
		return true
	}
	ts := t.String()
	for _, fc := range at {
		if fc.Kind != "cmp" || fc.Op != "==" {
			continue
		}
		switch {
		case fc.A.String() == ts && core.MatchTerm(pat, fc.B, b):
			return true
		case fc.B.String() == ts && core.MatchTerm(pat, fc.A, b):
			return true
		}
	}
	return false
}

// equalTerms returns t and the terms the facts equate with it.
func equalTerms(at core.FactSet, t *core.Term) []*core.Term {
	if t == nil {
		return nil
	}
	out := []*core.Term{t}
	ts := t.String()
	for _, fc := range at {
		if fc.Kind != "cmp" || fc.Op != "==" {
			continue
		}
		switch {
		case fc.A.String() == ts:
			out = append(out, fc.B)
		case fc.B.String() == ts:
			out = append(out, fc.A)
		}
	}
	return out
}
