package props

import (
	"fmt"
	"go/token"
	"strings"

	"golang.org/x/tools/go/ssa"

	"sidecheck/core"
)

func init() {
	register(&Checker{
		ID: "C04",
		Explanation: "Structural necessary conditions of C04: (deact.state) the all-checks-pass exit of the deactivate applier is the terminal state (empty document, both commitments empty, Deactivated=true) and every failing check is an error; (stop) in Resolve no path leads from the recover/deactivate phase to the update phase without crossing the Deactivated=false edge of the resulting state; (intake) every success path of the default operation decorator is either a create or has resolved the DID and crossed the Deactivated=false edge, and every store/queue effect of ProcessOperation is dominated by the nil-error edges of Parse, validateOperation and Decorate; (recover.fresh) recover applies patches to a fresh document and takes both commitments from the operation (effect rows); (after.full) the predicate that selects updates after the last full operation is executed over all weak orderings of its inputs and equals 'unpublished ∨ (time, number) >lex (lastTime, lastNumber)' — strictly after; the coordinates it is called with come from the state produced by the full phase and the appliers stamp those coordinates from the anchored operation (provenance cells). " +
			"(less) the chronological comparator of the processor is a strict weak order equal to lexicographic (time, number) — a later recover must not be ordered before the deactivate it competes with; " +
			"Not decided: the claim over arbitrary extensions of a history as a metamorphic fact; custom decorators.",
		Run: runC04,
	})
	register(&Checker{
		ID: "C06",
		Explanation: "Structural necessary conditions of C06: (filter.flow) the only operation slice that reaches splitting and applying in Resolve is the third result of processOperations, which forwards applyResolutionOptions' results, whose third result is on every success return either the result of filterOps or the unfiltered slice under the fact len(filtered)=len(all); (filter.time) filterOpsByVersionTime appends an element only under TransactionTime ≤ T with T derived from time.Parse(RFC3339, option), returns an error when nothing was kept, and does not convert a possibly negative Unix time to unsigned without a sign guard; (filter.id) filterOpsByVersionID returns exactly the prefix slice through the first element whose CanonicalReference equals V and an error when no element matches; (sorted.before.filter) both chronological sorts dominate the filter (shared with C02, incl. the comparator tables); (rest) the REST handler forwards the versionId/versionTime query values unmodified. " +
			"(version.handler) DocumentHandler.ResolveDocument and resolveRequestWithID pass the resolution options unchanged to the processor; (version.blind) resolution from the long-form initial state, which ignores versionId/versionTime and is selected by a substring of the processor's error text, is reachable only under VersionID = \"\" ∧ VersionTime = \"\"; " +
			"Not decided: the metamorphic equality itself; time.Parse.",
		Run: runC06,
	})
	register(&Checker{
		ID: "C12",
		Explanation: "Structural necessary conditions of C12: (reuse) non-batch ParseUpdateOperation succeeds only with delta.UpdateCommitment ≠ GetCommitment(signedData.UpdateKey, code(delta.UpdateCommitment)); ParseSignedDataForRecover succeeds only with RecoveryCommitment ≠ GetCommitment(RecoveryKey, code(RecoveryCommitment)) — the algorithm code is the one the next commitment itself names; (distinct) non-batch create/recover succeed only with update commitment ≠ recovery commitment; (skip) in applyFirstValidOperation no path leads from the edge 'next commitment = current' or from the edge 'next commitment already consumed' to the application of that candidate without returning to the loop head; (progress) the chain loop records exactly the commitment it tried (shared with C03) and GetCommitment agrees with the applier on what the next commitment is; the client mirrors of the two intake rules exist. " +
			"Not decided: cycles across parsers of different protocol versions.",
		Run: runC12,
	})
}

func runC04(r *Run) {
	const P = "C04"
	// deactivate rows + recover rows of the effect table
	r.checkEffectTableTypes(P, map[string]bool{"deactivate": true, "recover": true})
	r.checkProvenance(P, map[string]bool{"LastOperationTransactionTime": true, "LastOperationTransactionNumber": true})

	// --- stop: no path full-phase -> update-phase without Deactivated=false
	res := r.fn(P, pkgProcessor, "OperationProcessor.Resolve")
	if res != nil {
		ff := r.E.Facts(res, core.Ctx{})
		var full, upd *ssa.Call
		for _, c := range r.callsIn(res, "OperationProcessor.applyOperations") {
			if cf := closureFn(c.Common().Args[3]); cf != nil {
				s := r.succ(cf, core.Ctx{})
				if core.HasFact(s.Facts, "cmp(<result> == $0.RecoveryCommitment)") {
					full = c
				} else if core.HasFact(s.Facts, "cmp(<result> == $0.UpdateCommitment)") {
					upd = c
				}
			}
		}
		rule := "E8 never-before: every path from the recover/deactivate phase to the update phase crosses the false edge of <state after full phase>.Deactivated"
		why := "if updates are applied after a deactivate, a deactivated DID gets a document again"
		if full == nil || upd == nil {
			r.R.Unk(P+".stop", rule, core.FuncName(res), r.where(res), why, "could not identify the two phases")
		} else {
			fullT := ff.TB.Of(full).String()
			leak := reachesAvoiding(ff, full, upd, func(a, b *ssa.BasicBlock) bool {
				for _, f := range ff.EdgeFacts(a, b) {
					if f.Kind == "false" && f.A.Op == "field" && f.A.Name == "Deactivated" && f.A.Args[0].String() == fullT {
						return true
					}
					if f.Kind == "cmp" && f.A.Op == "field" && f.A.Name == "Deactivated" && f.A.Args[0].String() == fullT &&
						((f.Op == "==" && f.B.Name == "false") || (f.Op == "!=" && f.B.Name == "true")) {
						return true
					}
				}
				return false
			})
			r.R.Check(!leak, P+".stop", rule, core.FuncName(res), r.P.Pos(upd.Pos()), why, "the update phase is reachable from the full phase only through Deactivated=false", "a path reaches the update phase after the full phase without testing Deactivated")
		}
	}

	// --- intake
	if dec := r.fn(P, pkgDocHandler, "defaultOperationDecorator.Decorate"); dec != nil {
		r.requireEachSuccessPath(P+".intake.decorate",
			"if some non-create operation type passes the default decorator without the deactivation test, intake accepts operations for a deactivated DID",
			dec, core.Ctx{},
			[]string{`cmp($1.Type == "create")`},
			[]string{"ok(Resolve(_, $1.UniqueSuffix, ...))", "false(Resolve(_, $1.UniqueSuffix, ...).Deactivated)"},
		)
	}
	r.checkIntakeOrder(P)

	// --- after.full
	r.checkAfterFull(P)
	// a later recover must not be ordered before the deactivate it competes with
	r.checkChrono(P, "sortOperations@processor", r.fn(P, pkgProcessor, "sortOperations"))
	r.checkSortedBeforeGroup(P)
	// coordinates threading (shared with C03.full.then.update)
	r.checkFullThenUpdate(P)
}

// checkEffectTableTypes runs the effect table but reports only some types.
func (r *Run) checkEffectTableTypes(P string, types map[string]bool) {
	effectTypesFilter = types
	r.checkEffectTable(P, false)
	effectTypesFilter = nil
}

// checkIntakeOrder: no store/queue effect before Parse, validateOperation and Decorate succeeded.
func (r *Run) checkIntakeOrder(P string) {
	po := r.fn(P, pkgDocHandler, "DocumentHandler.ProcessOperation")
	if po == nil {
		return
	}
	ff := r.E.Facts(po, core.Ctx{})
	sites := r.effectSites(po, 3, "unpublishedOperationStore.Put", "batchWriter.Add")
	r.R.Floor(P+".intake.order.floor", "instance floor", len(sites), 2, "store/queue effect sites in ProcessOperation")
	for c, what := range sites {
		at := ff.At(c)
		_, ok := core.MatchAll(at, []string{
			"ok(OperationParser.Parse(_, _, $1))",
			"ok(validateOperation(_, ?op, _))",
			"ok(operationDecorator.Decorate(_, ?op))",
		}, nil)
		if !ok {
			// validateOperation as a plain function (it never used its receiver)
			_, ok = core.MatchAll(at, []string{
				"ok(OperationParser.Parse(_, _, $1))",
				"ok(validateOperation(?op, _))",
				"ok(operationDecorator.Decorate(_, ?op))",
			}, nil)
		}
		if !ok {
			// validateOperation written in place: the create branch and the payload branch merge their errors, and that
			// merged error is nil (okany over exactly those two validations)
			if _, okPD := core.MatchAll(at, []string{"ok(OperationParser.Parse(_, _, $1))", "ok(operationDecorator.Decorate(_, _))"}, nil); okPD {
				for _, fc := range at {
					if fc.Kind != "okany" {
						continue
					}
					hasCreate, hasPayload := false, false
					for _, t := range fc.List {
						if t == nil || t.Op != "call" {
							continue
						}
						if core.NameMatches(t.Name, "validateCreateDocument") {
							hasCreate = true
						}
						if core.NameMatches(t.Name, "DocumentValidator.IsValidPayload") || core.NameMatches(t.Name, "IsValidPayload") {
							hasPayload = true
						}
					}
					if hasCreate && hasPayload {
						ok = true
					}
				}
			}
		}
		r.R.Check(ok, P+".intake.order."+what, "E8 never-before: "+what+" only after Ok(Parse) ∧ Ok(validateOperation) ∧ Ok(Decorate)", core.FuncName(po), r.P.Pos(c.Pos()),
			"an operation refused at intake must leave no trace in the unpublished store or the batch queue", "dominated by the three nil-error edges", "effect reachable without the three intake checks having succeeded")
	}
}

// checkAfterFull: the update-selection predicate is strictly-after.
func (r *Run) checkAfterFull(P string) {
	f := r.fn(P, pkgProcessor, "isOpWithTxnGreaterThanOrUnpublished")
	id := P + ".after.full"
	rule := "E4 table: select iff unpublished ∨ time > T ∨ (time = T ∧ number > N), over all weak orderings of {op.time, T, op.number, N, op.ref, \"\"}"
	why := "if the test is not strictly-after, an update anchored in the same transaction as (or before) the recover is applied on top of it"
	if f == nil {
		return
	}
	if hasCycle(f) || len(f.Params) != 3 {
		r.R.Unk(id, rule, core.FuncName(f), r.where(f), why, "unexpected shape")
		return
	}
	op, T, N := f.Params[0], f.Params[1], f.Params[2]
	ev := &scalarEval{fn: f, name: func(v ssa.Value) (string, bool) {
		v = stripConv(v)
		switch {
		case v == T:
			return "T", true
		case v == N:
			return "N", true
		case isZeroConst(v):
			return "0", true
		}
		if u, ok := v.(*ssa.UnOp); ok && u.Op == token.MUL {
			if fa, ok := u.X.(*ssa.FieldAddr); ok && fa.X == op {
				switch fieldName(fa) {
				case "TransactionTime":
					return "time", true
				case "TransactionNumber":
					return "num", true
				case "CanonicalReference":
					return "ref", true
				}
			}
		}
		return "", false
	}}
	names := []string{"time", "T", "num", "N", "ref", "0"}
	good := true
	var det []string
	n := 0
	for _, wo := range weakOrders(6) {
		env := scalarEnv{rank: map[string]int{}}
		for i, nm := range names {
			env.rank[nm] = wo[i]
		}
		ret, _, why2 := ev.walk(env)
		n++
		if ret == nil {
			r.R.Unk(id, rule, core.FuncName(f), r.where(f), why, "cannot evaluate: "+why2)
			return
		}
		got, why3 := ev.retBool(ret, 0)
		if why3 != "" {
			r.R.Unk(id, rule, core.FuncName(f), r.where(f), why, "cannot evaluate the returned value: "+why3)
			return
		}
		want := env.rank["ref"] == env.rank["0"] || env.rank["time"] > env.rank["T"] || (env.rank["time"] == env.rank["T"] && env.rank["num"] > env.rank["N"])
		if got != want && len(det) < 3 {
			good = false
			det = append(det, fmt.Sprintf("published=%v time%sT num%sN: code %v, statement %v", env.rank["ref"] != env.rank["0"], rel(env.rank["time"], env.rank["T"]), rel(env.rank["num"], env.rank["N"]), got, want))
		}
	}
	r.R.Count("E4 abstract environments evaluated", n)
	r.R.Check(good, id, rule, core.FuncName(f), r.where(f), why, fmt.Sprintf("%d weak orderings agree with the statement", n), strings.Join(det, "; "))
	// the selection loop appends exactly under the predicate on the range element
	g := r.fn(P, pkgProcessor, "getOpsWithTxnGreaterThanOrUnpublished")
	if g != nil {
		gf := r.E.Facts(g, core.Ctx{})
		ok := false
		for _, b := range g.Blocks {
			for _, ins := range b.Instrs {
				if c, isC := ins.(*ssa.Call); isC && isBuiltin(c, "append") {
					at := gf.At(c)
					if core.HasFact(at, "true(isOpWithTxnGreaterThanOrUnpublished($0[?i], $1, $2))") {
						for _, e := range variadicElems(c.Common().Args[1]) {
							if core.MatchTerm("$0[_]", gf.TB.Of(e), core.Bind{}) {
								ok = true
							}
						}
					}
				}
			}
		}
		r.R.Check(ok, P+".after.full.loop", "E6 dual: an element is selected only under predicate(element, T, N) with the function's own T and N", core.FuncName(g), r.where(g), why, "append guarded by the predicate on the same element", "selection is not guarded by the predicate on the element with the given coordinates")
	}
}

// ---------------------------------------------------------------- C06

func runC06(r *Run) {
	const P = "C06"
	res := r.fn(P, pkgProcessor, "OperationProcessor.Resolve")
	po := r.fn(P, pkgProcessor, "OperationProcessor.processOperations")
	aro := r.fn(P, pkgProcessor, "OperationProcessor.applyResolutionOptions")
	if res != nil {
		ff := r.E.Facts(res, core.Ctx{})
		calls := r.callsIn(res, "splitOperations")
		r.R.Floor(P+".filter.flow.floor", "instance floor", len(calls), 1, "splitOperations call in Resolve")
		for _, c := range calls {
			t := ff.TB.Of(c.Common().Args[0])
			ok := core.MatchTerm("processOperations(_, _, _, $1, ...)#2", t, core.Bind{})
			r.R.Check(ok, P+".filter.flow.split", "E13 taint: the slice that is split and applied is the third (filtered) result of processOperations", core.FuncName(res), r.P.Pos(c.Pos()),
				"if unfiltered operations are applied, operations anchored after T/V change what the earlier version resolves to", t.String(), "splitOperations receives "+t.String())
		}
		// apply calls take only slices derived from splitOperations
		for _, name := range []string{"OperationProcessor.applyFirstValidCreateOperation", "OperationProcessor.applyOperations"} {
			for _, c := range r.callsIn(res, name) {
				okAll := true
				var det []string
				for _, root := range sliceRoots(c.Common().Args[1]) {
					rt := ff.TB.Of(root)
					if rt.Op == "call" && core.NameMatches(rt.Name, "getOpsWithTxnGreaterThanOrUnpublished") {
						rt = rt.Args[0]
					}
					s := rt.String()
					if !strings.Contains(s, "splitOperations(") {
						okAll = false
						det = append(det, s)
					}
				}
				r.R.Check(okAll, P+".filter.flow.apply."+strings.TrimPrefix(name, "OperationProcessor."), "E13 taint: applied operations derive from splitOperations(filtered) only", core.FuncName(res), r.P.Pos(c.Pos()),
					"an apply call fed from another slice bypasses the version filter", "derived from splitOperations", "fed from "+strings.Join(det, "; "))
			}
		}
	}
	if po != nil {
		r.requireSucc(P+".filter.flow.forward", "processOperations must forward the filtered slice", po, core.Ctx{}, "",
			"cmp(<result2> == applyResolutionOptions(...)#2)")
	}
	if aro != nil {
		ff := r.E.Facts(aro, core.Ctx{})
		n := 0
		good := true
		var det []string
		for _, ri := range ff.Returns() {
			if ri.Class != core.RetSuccess {
				continue
			}
			n++
			t := ff.TB.Of(core.RetOp(ri.Ret, 2))
			if core.MatchTerm("filterOps(...)", t, core.Bind{}) {
				continue
			}
			// unfiltered allowed only when nothing was filtered
			if core.HasFact(ri.Facts, "cmp(len(filterOps(...)) == len(_))") {
				b, ok := core.MatchAll(ri.Facts, []string{"cmp(len(filterOps(_, ?all, ...)) == len(?all2))"}, nil)
				if ok && b["all"].String() == b["all2"].String() && b["all"].String() == t.String() {
					continue
				}
			}
			good = false
			det = append(det, "returns "+t.String()+" at "+r.P.Pos(ri.Ret.Pos()))
		}
		r.R.Check(good && n > 0, P+".filter.flow.result", "E2/E13: the third result of applyResolutionOptions is filterOps' result, or the unfiltered slice only under len(filtered) = len(all)", core.FuncName(aro), r.where(aro),
			"if the unfiltered slice is returned when something was filtered out, later operations influence an earlier version", fmt.Sprintf("%d success returns", n), strings.Join(det, "; "))
		// filterOps dispatch: VersionID -> byVersionID, VersionTime -> byVersionTime with the option values
		if fo := r.fn(P, pkgProcessor, "OperationProcessor.filterOps"); fo != nil {
			r.requireEachSuccess(P+".filter.dispatch", "each option must reach its own filter with the option's value and the given slice", fo, core.Ctx{},
				[]string{`cmp($2.VersionID != "")`, "ok(filterOpsByVersionID($1, $2.VersionID))", "cmp(<result> == filterOpsByVersionID($1, $2.VersionID))"},
				[]string{`cmp($2.VersionTime != "")`, "ok(filterOpsByVersionTime($1, $2.VersionTime))", "cmp(<result> == filterOpsByVersionTime($1, $2.VersionTime))"},
				[]string{`cmp($2.VersionID == "")`, `cmp($2.VersionTime == "")`, "cmp(<result> == $1)"},
			)
		}
	}
	r.checkSortedBeforeGroup(P)
	r.checkChrono(P, "sortOperations@processor", r.fn(P, pkgProcessor, "sortOperations"))
	r.checkVersionBlindPaths(P)

	// --- filter.time
	if ft := r.fn(P, pkgProcessor, "filterOpsByVersionTime"); ft != nil {
		ff := r.E.Facts(ft, core.Ctx{})
		okAppend, nApp := true, 0
		var det []string
		for _, b := range ft.Blocks {
			for _, ins := range b.Instrs {
				c, isC := ins.(*ssa.Call)
				if !isC || !isBuiltin(c, "append") {
					continue
				}
				nApp++
				at := ff.At(c)
				bnd, ok := core.MatchAll(at, []string{"cmp($0[?i].TransactionTime <= ?T)"}, nil)
				if !ok {
					okAppend = false
					det = append(det, "append not guarded by element.TransactionTime <= T")
					continue
				}
				ts := bnd["T"].String()
				if !strings.Contains(ts, "time.Parse(") || !strings.Contains(ts, "$1") && !strings.Contains(ts, "$timeStr") {
					okAppend = false
					det = append(det, "T is not derived from time.Parse(option): "+ts)
				}
				elOK := false
				for _, e := range variadicElems(c.Common().Args[1]) {
					if core.MatchTerm("$0[?i]", ff.TB.Of(e), core.Bind{"i": bnd["i"]}) {
						elOK = true
					}
				}
				if !elOK {
					okAppend = false
					det = append(det, "appended element is not the tested element")
				}
			}
		}
		r.R.Check(okAppend && nApp == 1, P+".filter.time.nf", "E2 normal form: an operation is kept iff TransactionTime ≤ T (inclusive), T from time.Parse(RFC3339, option)", core.FuncName(ft), r.where(ft),
			"an exclusive bound drops the operation anchored exactly at T; a looser one lets later operations in", "append under TransactionTime <= T", strings.Join(det, "; "))
		r.requireSucc(P+".filter.time.empty", "a time before the first operation must be an error", ft, core.Ctx{}, "",
			"ok(time.Parse(_, $1))", "cmp(len(<result>) != 0)")
		// sign guard: int64 -> uint64 conversion of Unix() needs a non-negativity fact
		nConv := 0
		guard := true
		for _, b := range ft.Blocks {
			for _, ins := range b.Instrs {
				cv, isCv := ins.(*ssa.Convert)
				if !isCv {
					continue
				}
				if cv.X.Type().String() == "int64" && cv.Type().String() == "uint64" {
					nConv++
					at := ff.At(cv)
					src := ff.TB.Of(cv.X)
					has := false
					for _, f := range at {
						// exactly non-negativity: x >= 0 (or x > -1); `x > 0` would also exclude the epoch itself
						if f.Kind == "cmp" && (f.A.String() == src.String() && (f.Op == ">=" && f.B.Name == "0" || f.Op == ">" && f.B.Name == "-1") ||
							f.B.String() == src.String() && (f.Op == "<=" && f.A.Name == "0" || f.Op == "<" && f.A.Name == "-1")) {
							has = true
						}
					}
					if !has {
						guard = false
					}
				}
			}
		}
		if nConv > 0 {
			r.R.Check(guard, P+".filter.time.sign", "E3 conversion guard: a signed Unix time is converted to unsigned only under a non-negativity fact", core.FuncName(ft), r.where(ft),
				"a version time before 1970 wraps to a huge unsigned value: every operation is kept and no error is returned, although the time is before the first operation",
				"conversion guarded", "uint64(vt.Unix()) without a dominating vt.Unix() >= 0 test")
		}
	}
	// --- filter.id
	if fi := r.fn(P, pkgProcessor, "filterOpsByVersionID"); fi != nil {
		ff := r.E.Facts(fi, core.Ctx{})
		good := true
		n := 0
		var det []string
		for _, ri := range ff.Returns() {
			if ri.Class != core.RetSuccess {
				continue
			}
			n++
			sl, isSl := core.RetOp(ri.Ret, 0).(*ssa.Slice)
			if !isSl || sl.X != fi.Params[0] || sl.Low != nil || sl.High == nil {
				good = false
				det = append(det, "result is not a prefix slice of the input: "+ff.TB.Of(core.RetOp(ri.Ret, 0)).String())
				continue
			}
			hi := ff.TB.Of(sl.High).String()
			b, ok := core.MatchAll(ri.Facts, []string{"cmp($0[?i].CanonicalReference == $1)"}, nil)
			if !ok {
				good = false
				det = append(det, "prefix returned without a CanonicalReference == versionID match")
				continue
			}
			if hi != "("+b["i"].String()+" + 1)" {
				good = false
				det = append(det, "prefix bound "+hi+" is not matchIndex+1 ("+b["i"].String()+")")
			}
		}
		// no-match => error: the return after the loop is a failure
		fails := 0
		for _, ri := range ff.Returns() {
			if ri.Class == core.RetFail {
				fails++
			}
		}
		r.R.Check(good && n == 1 && fails >= 1, P+".filter.id", "E2/E6 normal form: result = ops[:firstMatch+1]; no match ⇒ error", core.FuncName(fi), r.where(fi),
			"anything but the sorted prefix through V lets operations anchored after V in (or drops earlier ones)", "prefix through the first match; error otherwise", strings.Join(det, "; ")+fmt.Sprintf(" (success returns %d, error returns %d)", n, fails))
	}
	// --- REST passthrough
	if gro := r.fn(P, pkgRestDoc, "getResolutionOptions"); gro != nil {
		ff := r.E.Facts(gro, core.Ctx{})
		for _, w := range []struct{ fn, param string }{{"document.WithVersionID", "versionId"}, {"document.WithVersionTime", "versionTime"}} {
			calls := r.callsIn(gro, w.fn)
			ok := len(calls) == 1
			det := fmt.Sprintf("%d calls", len(calls))
			for _, c := range calls {
				t := ff.TB.Of(c.Common().Args[0])
				det = t.String()
				if !core.MatchTerm(`Values.Get(_, "`+w.param+`")`, t, core.Bind{}) {
					ok = false
				}
			}
			r.R.Check(ok, P+".rest.passthrough."+w.param, "E13 ArgIs: the option value is the raw query parameter", core.FuncName(gro), r.where(gro),
				"a transformed cut point (e.g. re-formatted without converting to UTC) resolves a different version than the one asked for", det, "option value is "+det)
		}
	}
}

// ---------------------------------------------------------------- C12

func runC12(r *Run) {
	const P = "C12"
	// "already consumed earlier in the same chain": one chain, one call, one consumed set (shared with C03)
	r.checkFullThenUpdate(P)
	if f := r.fn(P, pkgParser, "Parser.ParseUpdateOperation"); f != nil {
		ctx, _ := boolParamCtx(f, false)
		r.requireSucc(P+".reuse.update", "if this fails, intake accepts an update whose next commitment is the commitment of the key it reveals", f, ctx, "batch=false",
			"ok(ParseSignedDataForUpdate(_, ?sd))",
			"cmp(?d.UpdateCommitment != commitment.GetCommitment(ParseSignedDataForUpdate(_, ?sd).UpdateKey, hashing.GetMultihashCode(?d.UpdateCommitment)))",
			"cmp(?d == <result>.Delta)",
		)
	}
	if f := r.fn(P, pkgParser, "Parser.ParseSignedDataForRecover"); f != nil {
		r.requireSucc(P+".reuse.recover", "if this fails, a recover whose next recovery commitment is the commitment of the revealed recovery key is accepted", f, core.Ctx{}, "",
			"cmp(<result>.RecoveryCommitment != commitment.GetCommitment(<result>.RecoveryKey, hashing.GetMultihashCode(<result>.RecoveryCommitment)))",
		)
	}
	if f := r.fn(P, pkgParser, "Parser.ParseRecoverOperation"); f != nil {
		ctx, _ := boolParamCtx(f, false)
		r.requireSucc(P+".reuse.recover.intake", "non-batch recover parsing must go through the signed-data rule", f, ctx, "batch=false",
			"ok(ParseSignedDataForRecover(_, ?sd))", "cmp(?sd == <result>.SignedData)")
		r.requireSucc(P+".distinct.recover", "if this fails, a recover whose update and recovery commitments are equal is accepted", f, ctx, "batch=false",
			"cmp(?d.UpdateCommitment != ParseSignedDataForRecover(_, ?sd).RecoveryCommitment)", "cmp(?d == <result>.Delta)", "cmp(?sd == <result>.SignedData)")
	}
	if f := r.fn(P, pkgParser, "Parser.ParseCreateOperation"); f != nil {
		ctx, _ := boolParamCtx(f, false)
		r.requireSucc(P+".distinct.create", "if this fails, a create whose update and recovery commitments are equal is accepted", f, ctx, "batch=false",
			"cmp(?d.UpdateCommitment != ?s.RecoveryCommitment)", "cmp(?d == <result>.Delta)", "cmp(?s == <result>.SuffixData)")
	}
	// --- client mirrors of the two intake rules
	r.checkClientReuse(P)
	// --- skip
	if f := r.fn(P, pkgProcessor, "OperationProcessor.applyFirstValidOperation"); f != nil {
		ff := r.E.Facts(f, core.Ctx{})
		calls := r.callsIn(f, "OperationProcessor.applyOperation")
		r.R.Floor(P+".skip.floor", "instance floor", len(calls), 1, "applyOperation call in applyFirstValidOperation")
		for _, c := range calls {
			// the candidate's next commitment
			at := ff.At(c)
			b, ok := core.MatchAll(at, []string{"ok(getCommitment(_, ?op))"}, nil)
			if !ok || ff.TB.Of(c.Common().Args[1]).String() != b["op"].String() {
				r.R.Bad(P+".skip.next", "E13: the next commitment is extracted from the very candidate that is applied", core.FuncName(f), r.P.Pos(c.Pos()), "-", "applyOperation's candidate has no dominating getCommitment(candidate)")
				continue
			}
			next := "getCommitment(_, ?op)"
			// edges that must not lead to the call
			var badEdges []string
			for _, blk := range f.Blocks {
				for _, s := range blk.Succs {
					for _, ef := range ff.EdgeFacts(blk, s) {
						bad := ""
						if ef.Kind == "cmp" && ef.Op == "==" {
							set := core.FactSet{ef.Key(): ef}
							if _, m := core.MatchAll(set, []string{"cmp($3 == " + next + ")"}, core.Bind{"op": b["op"]}); m {
								bad = "next commitment = current commitment"
							}
						}
						if ef.Kind == "hit" {
							set := core.FactSet{ef.Key(): ef}
							if _, m := core.MatchAll(set, []string{"hit($4, " + next + ")"}, core.Bind{"op": b["op"]}); m {
								bad = "next commitment already consumed"
							}
						}
						if ef.Kind == "true" || ef.Kind == "hit" {
							// `_, processed := m[k]; if processed` shows up as true(lookup#1)
							if strings.Contains(ef.Key(), "$processedCommitments[") || strings.Contains(ef.Key(), "$4[") {
								if ef.Kind == "true" {
									bad = "next commitment already consumed"
								}
							}
						}
						if bad == "" {
							continue
						}
						// does the call remain reachable from s without passing the loop head again?
						head := loopHead(f)
						reach := s == c.Block() || blockReaches(ff, s, c.Block(), head)
						if reach {
							badEdges = append(badEdges, bad+" (edge at "+r.P.Pos(blk.Instrs[len(blk.Instrs)-1].Pos())+")")
						} else {
							badEdges = append(badEdges, "")
						}
					}
				}
			}
			nSkipEdges, leaks := 0, []string{}
			for _, e := range badEdges {
				nSkipEdges++
				if e != "" {
					leaks = append(leaks, e)
				}
			}
			// dual (positive) form, per iteration: from the loop head the application is unreachable without
			// crossing next ≠ current, and unreachable without crossing next = "" or "next not yet consumed"
			if head := loopHead(f); head != nil {
				bound := core.Bind{"op": b["op"]}
				crosses := func(pats ...string) func(a, bb *ssa.BasicBlock) bool {
					return func(a, bb *ssa.BasicBlock) bool {
						// written inline, or decided by a boolean helper (predicate unfolding)
						var plain []string
						for _, pat := range pats {
							plain = append(plain, strings.ReplaceAll(pat, "?op", "_"))
						}
						if r.factsImplyAny(ff.EdgeFacts(a, bb), plain, 2) {
							return true
						}
						for _, ef := range ff.EdgeFacts(a, bb) {
							set := core.FactSet{ef.Key(): ef}
							for _, pat := range pats {
								if _, m := core.MatchAll(set, []string{pat}, bound); m {
									return true
								}
							}
							if ef.Kind == "false" && (strings.Contains(ef.Key(), "$processedCommitments[") || strings.Contains(ef.Key(), "$4[")) {
								for _, pat := range pats {
									if strings.HasPrefix(pat, "miss(") {
										return true
									}
								}
							}
						}
						return false
					}
				}
				selfOK := !reachesAvoiding(ff, head.Instrs[0], c, crosses("cmp($3 != "+next+")"))
				r.R.Check(selfOK, P+".skip.selfloop", "E8 never-before (per iteration): a candidate is applied only after next commitment ≠ current commitment", core.FuncName(f), r.P.Pos(c.Pos()),
					"an operation that re-commits to the commitment it consumes is applied (once per resolution) and its commitment never advances", "guarded on every path of the iteration", "the application is reachable within an iteration without the test next ≠ current")
				consOK := !reachesAvoiding(ff, head.Instrs[0], c, crosses("miss($4, "+next+")", "cmp("+next+` == "")`))
				r.R.Check(consOK, P+".skip.consumed", "E8 never-before (per iteration): a candidate is applied only after its next commitment was found absent from the consumed set (or is empty)", core.FuncName(f), r.P.Pos(c.Pos()),
					"an operation that commits to an already consumed commitment closes a cycle in the commitment chain", "guarded on every path of the iteration", "the application is reachable within an iteration without the consumed-set test")
			}
			r.R.Check(nSkipEdges >= 2 && len(leaks) == 0, P+".skip", "E8: the edges 'next = current' and 'next already consumed' never reach the application of that candidate within the same iteration",
				core.FuncName(f), r.P.Pos(c.Pos()),
				"if either skip is missing, a self-loop or a longer commitment cycle is applied and the chain revisits a commitment",
				fmt.Sprintf("%d skip edge(s), none reaches the apply call", nSkipEdges), fmt.Sprintf("%d skip edge(s) found (need 2), leaking: %s", nSkipEdges, strings.Join(leaks, "; ")))
		}
	}
	r.checkProgress(P)
	r.checkNextAgree(P)
	r.checkCandidateNoTrace(P, "OperationProcessor.applyFirstValidOperation")
}

// loopHead returns the first block that is the target of a back edge.
func loopHead(f *ssa.Function) *ssa.BasicBlock {
	idx := map[*ssa.BasicBlock]int{}
	for i, b := range f.Blocks {
		idx[b] = i
	}
	color := map[*ssa.BasicBlock]int{}
	var head *ssa.BasicBlock
	var dfs func(b *ssa.BasicBlock)
	dfs = func(b *ssa.BasicBlock) {
		color[b] = 1
		for _, s := range b.Succs {
			if color[s] == 1 && head == nil {
				head = s
			}
			if color[s] == 0 {
				dfs(s)
			}
		}
		color[b] = 2
	}
	if len(f.Blocks) > 0 {
		dfs(f.Blocks[0])
	}
	return head
}

// blockReaches: can `to` be reached from `from` without entering `stop`.
func blockReaches(ff *core.FnFacts, from, to, stop *ssa.BasicBlock) bool {
	if from == to {
		return true
	}
	return ff.WalkFeasible([]*ssa.BasicBlock{from}, func(a, b *ssa.BasicBlock) bool { return b == stop }, func(b *ssa.BasicBlock) bool { return b == to })
}

// edgeReaches: is `to` reachable once the edge a→b has been taken (the way of arrival counts at tests of merged values)?
func edgeReaches(ff *core.FnFacts, a, b, to *ssa.BasicBlock) bool {
	if b == to {
		return true
	}
	return ff.WalkFeasible([]*ssa.BasicBlock{a, b}, nil, func(x *ssa.BasicBlock) bool { return x == to })
}

// checkVersionBlindPaths: in DocumentHandler.ResolveDocument the resolution
// options reach the processor on the anchored path; the other way to a result,
// resolution from the long-form initial state, ignores them. That path is
// selected by a substring of the processor's error text, and the version errors
// echo the caller's versionId / versionTime, so it must be reachable only when
// no version was requested.
func (r *Run) checkVersionBlindPaths(P string) {
	rd := r.fn(P, pkgDocHandler, "DocumentHandler.ResolveDocument")
	if rd == nil {
		return
	}
	ff := r.E.Facts(rd, core.Ctx{})
	// (1) the anchored path threads the options
	calls := r.callsIn(rd, "DocumentHandler.resolveRequestWithID")
	r.R.Floor(P+".version.handler.floor", "instance floor", len(calls), 1, "resolveRequestWithID call in ResolveDocument")
	for _, c := range calls {
		args := core.CallArgs(c.Common())
		ok := len(args) > 0 && len(rd.Params) > 0 && args[len(args)-1] == ssa.Value(rd.Params[len(rd.Params)-1])
		r.R.Check(ok, P+".version.handler.thread", "E13: ResolveDocument passes its resolution options unchanged to resolveRequestWithID", core.FuncName(rd), r.P.Pos(c.Pos()),
			"dropped options resolve the latest state whatever version was requested", "opts threaded", "the options argument is "+ff.TB.Of(args[len(args)-1]).String())
	}
	if w := r.fn(P, pkgDocHandler, "DocumentHandler.resolveRequestWithID"); w != nil {
		wf := r.E.Facts(w, core.Ctx{})
		for _, c := range r.callsIn(w, "processor.Resolve") {
			args := core.CallArgs(c.Common())
			ok := args[len(args)-1] == ssa.Value(w.Params[len(w.Params)-1])
			r.R.Check(ok, P+".version.handler.thread.resolve", "E13: resolveRequestWithID passes the resolution options unchanged to the operation processor", core.FuncName(w), r.P.Pos(c.Pos()),
				"dropped options resolve the latest state whatever version was requested", "opts threaded", "the options argument is "+wf.TB.Of(args[len(args)-1]).String())
		}
	}
	// (2) every version-blind result path is under "no version requested"
	blind := r.callsIn(rd, "DocumentHandler.resolveRequestWithInitialState")
	r.R.Floor(P+".version.blind.floor", "instance floor", len(blind), 1, "initial-state resolution call in ResolveDocument")
	for i, c := range blind {
		// decided on the paths (so that the two emptiness tests may be written inline, inverted into an early
		// return, or inside a boolean helper): the call is unreachable without crossing VersionID = "" and
		// unreachable without crossing VersionTime = ""
		ok := !r.reachableWithout(ff, c, []string{`cmp(document.GetResolutionOptions($2).VersionID == "")`}) &&
			!r.reachableWithout(ff, c, []string{`cmp(document.GetResolutionOptions($2).VersionTime == "")`})
		r.R.Check(ok, fmt.Sprintf("%s.version.blind.%d", P, i+1), "E8 never-before: resolution from the long-form initial state (which ignores versionId/versionTime) only under VersionID = \"\" ∧ VersionTime = \"\" of the given options",
			core.FuncName(rd), r.P.Pos(c.Pos()),
			"the fallback is selected by the text \"not found\" in the processor's error, and the unknown-version errors echo the requested version: a long-form DID resolved at versionId \"x not found\" (or an unparsable versionTime containing that text) is answered with the initial-state document instead of an error",
			"dominated by both emptiness tests", "initial-state resolution reachable with a version requested")
	}
}

// checkClientReuse: the client builders succeed only when the next commitment differs from the commitment of the very
// key the request reveals, computed with the request's own multihash code (shared by C12 and C11: a request built in
// violation of it is rejected at intake).
func (r *Run) checkClientReuse(P string) {
	why := "if this fails, the client library hands out a request that re-commits to the key it reveals (rejected at intake, or — built for another code — a chain that loops)"
	if f := r.fn(P, pkgClient, "NewUpdateRequest"); f != nil {
		r.requireSucc(P+".reuse.client.update", why, f, core.Ctx{}, "",
			"cmp($0.UpdateCommitment != commitment.GetCommitment($0.UpdateKey, $0.MultihashCode))")
	}
	if f := r.fn(P, pkgClient, "NewRecoverRequest"); f != nil {
		r.requireSucc(P+".reuse.client.recover", why, f, core.Ctx{}, "",
			"cmp($0.RecoveryCommitment != commitment.GetCommitment($0.RecoveryKey, $0.MultihashCode))")
	}
}
