package props

import (
	"fmt"
	"go/types"
	"sort"
	"strings"

	"golang.org/x/tools/go/ssa"

	"sidecheck/core"
)

func init() {
	register(&Checker{
		ID: "C15",
		Explanation: "Structural necessary conditions of C15: (stamp) the function that copies transaction coordinates into an anchored operation copies every field the two structs have in common by name — TransactionTime, TransactionNumber, ProtocolVersion, CanonicalReference, EquivalentReferences — from the transaction being processed, and every element of the slice handed to the operation store's Put is the result of that stamping; (dedupe) an operation is appended only when its suffix is not yet in the per-transaction set, and the suffix is recorded in the same iteration; (single.put) exactly one Put, outside any loop, whose failure returns (0, error) and which precedes the deletion of unpublished operations; (isolation) no path leaves the observer's per-transaction loop body except back to the loop head — a failing transaction cannot stop later ones; (intake.order / compensate) no store/queue effect of ProcessOperation before Parse, validateOperation and Decorate succeeded; the queue add happens only after the unpublished store accepted the operation, and every path from a failed queue add to the return passes the compensating delete of the same operation. " +
			"Not decided: atomicity of the caller's Put; fault sequences across several transactions (argued from isolation, not enumerated).",
		Run: runC15,
	})
}

func namedStruct(t types.Type) (*types.Named, *types.Struct) {
	if p, ok := t.Underlying().(*types.Pointer); ok {
		t = p.Elem()
	}
	n, _ := t.(*types.Named)
	if n == nil {
		return nil, nil
	}
	st, _ := n.Underlying().(*types.Struct)
	return n, st
}

// fieldCopies returns, for function f, the copy edges Dst.F <- Src.G between
// values of the named struct types dst and src (assignments and literals).
func fieldCopies(f *ssa.Function, dst, src *types.Named) map[string]string {
	out := map[string]string{}
	for _, b := range f.Blocks {
		for _, ins := range b.Instrs {
			st, ok := ins.(*ssa.Store)
			if !ok {
				continue
			}
			fa, ok := st.Addr.(*ssa.FieldAddr)
			if !ok {
				continue
			}
			dn, _ := namedStruct(fa.X.Type())
			if dn == nil || !types.Identical(dn, dst) {
				continue
			}
			// value: load of src.G (possibly through conversions)
			v := stripConv(st.Val)
			u, ok := v.(*ssa.UnOp)
			if !ok {
				if fl, ok := v.(*ssa.Field); ok {
					sn, sst := namedStruct(fl.X.Type())
					if sn != nil && types.Identical(sn, src) {
						out[fieldName(fa)] = sst.Field(fl.Field).Name()
					}
				}
				continue
			}
			sfa, ok := u.X.(*ssa.FieldAddr)
			if !ok {
				continue
			}
			sn, _ := namedStruct(sfa.X.Type())
			if sn != nil && types.Identical(sn, src) {
				out[fieldName(fa)] = fieldName(sfa)
			}
		}
	}
	return out
}

func runC15(r *Run) {
	const P = "C15"
	txnT := r.P.Named(pkgTxn, "SidetreeTxn")
	opT := r.P.Named(pkgOperation, "AnchoredOperation")
	pto := r.fn(P, pkgTxnProc, "TxnProcessor.processTxnOperations")
	if txnT == nil || opT == nil || pto == nil {
		r.R.Unk(P+".anchor", "anchor resolution", "SidetreeTxn/AnchoredOperation/processTxnOperations", "-", "-", "not found")
		return
	}
	// "a transaction that cannot be read or parsed contributes nothing": one whose files do not hold the number of
	// operations its anchor string announces is such a transaction (rule shared with C14)
	r.checkCountsAnchor(P)
	// same-named fields
	var common []string
	ts, os := txnT.Underlying().(*types.Struct), opT.Underlying().(*types.Struct)
	for i := 0; i < ts.NumFields(); i++ {
		for j := 0; j < os.NumFields(); j++ {
			if ts.Field(i).Name() == os.Field(j).Name() && types.Identical(ts.Field(i).Type(), os.Field(j).Type()) {
				common = append(common, ts.Field(i).Name())
			}
		}
	}
	sort.Strings(common)
	r.R.List("fields SidetreeTxn and AnchoredOperation have in common", common...)
	// stamping functions: subject functions copying >= 2 fields SidetreeTxn -> AnchoredOperation
	var stampers []*ssa.Function
	for _, f := range r.P.SubjectFuncs(pkgTxnProc) {
		if len(fieldCopies(f, opT, txnT)) >= 2 {
			stampers = append(stampers, f)
		}
	}
	r.R.Floor(P+".stamp.floor", "instance floor", len(stampers), 1, "functions copying transaction coordinates into an anchored operation")
	for _, f := range stampers {
		cp := fieldCopies(f, opT, txnT)
		var missing, crossed []string
		for _, c := range common {
			g, ok := cp[c]
			if !ok {
				missing = append(missing, c)
			} else if g != c {
				crossed = append(crossed, c+"<-"+g)
			}
		}
		// ... unconditionally: a stamp that is skipped when the field already holds something leaves whatever the
		// reader of the batch files put there
		var conditional []string
		for _, b := range f.Blocks {
			for _, ins := range b.Instrs {
				st, ok := ins.(*ssa.Store)
				if !ok {
					continue
				}
				fa, ok := st.Addr.(*ssa.FieldAddr)
				if !ok {
					continue
				}
				dn, _ := namedStruct(fa.X.Type())
				if dn == nil || !types.Identical(dn, opT) {
					continue
				}
				if _, isCommon := cp[fieldName(fa)]; !isCommon {
					continue
				}
				for _, rb := range f.Blocks {
					if _, isRet := rb.Instrs[len(rb.Instrs)-1].(*ssa.Return); isRet && !b.Dominates(rb) {
						conditional = append(conditional, fieldName(fa)+" (at "+r.P.Pos(st.Pos())+")")
					}
				}
			}
		}
		r.R.Check(len(conditional) == 0, P+".stamp.unconditional", "E8 dominance: every stamping store is executed on all paths through the stamping function", core.FuncName(f), r.where(f),
			"a coordinate that is only stamped when the field is still empty keeps the value an earlier stage wrote (e.g. the provider's own protocol version instead of the transaction's)",
			"all stamping stores dominate the returns", "stamped only on some paths: "+strings.Join(dedupe(conditional), ", "))
		r.R.Check(len(missing) == 0 && len(crossed) == 0, P+".stamp", "E5 src→dst (row SidetreeTxn→AnchoredOperation): every same-named field is copied from the transaction",
			core.FuncName(f), r.where(f),
			"an operation stored without its transaction's canonical/equivalent references looks unpublished to the resolver (it then takes precedence rules meant for unpublished operations and has no version id); a missing time/number/version breaks ordering and parser selection",
			fmt.Sprintf("copies %v", common), fmt.Sprintf("not copied: %v; crossed: %v (copies found: %v)", missing, crossed, cp))
	}
	ff := r.E.Facts(pto, core.Ctx{})
	// --- everything handed to Put is stamped with this transaction
	puts := r.callsIn(pto, "OperationStore.Put")
	r.R.Check(len(puts) == 1, P+".single.put", "E8 at-most-once: exactly one OpStore.Put in the transaction processing function", core.FuncName(pto), r.where(pto),
		"several writes per transaction are not all-or-nothing", "one Put", fmt.Sprintf("%d Put calls", len(puts)))
	for _, c := range puts {
		inLoop := enclosingLoopHead(pto, c.Block()) != nil
		r.R.Check(!inLoop, P+".single.put.noloop", "E8: Put is not inside a loop", core.FuncName(pto), r.P.Pos(c.Pos()), "a Put per operation can store half a transaction", "outside loops", "Put inside a loop")
		// elements appended to the slice
		apps := appendElemsInto(pto, core.CallArgs(c.Common())[1])
		okAll := len(apps) > 0
		var det []string
		for _, a := range apps {
			for _, e := range variadicElems(a.Common().Args[1]) {
				et := ff.TB.Of(e)
				isStamp := false
				if ec, ok := e.(*ssa.Call); ok {
					if sc := ec.Common().StaticCallee(); sc != nil {
						for _, s := range stampers {
							if s == sc {
								// second argument is this function's transaction parameter
								for _, av := range ec.Common().Args {
									if paramIndex(pto, av) >= 0 {
										if n, _ := namedStruct(av.Type()); n != nil && types.Identical(n, txnT) {
											isStamp = true
										}
									}
								}
							}
						}
					}
				}
				if !isStamp {
					okAll = false
					det = append(det, "element "+short(et.String(), 100)+" is not the stamped operation")
				}
				// dedupe guard
				at := ff.At(a)
				if !core.HasFact(at, "miss(_, $1[_].UniqueSuffix)") {
					okAll = false
					det = append(det, "appended without the suffix having been found absent from the per-transaction set")
				}
			}
		}
		r.R.Check(okAll, P+".stamp.all", "E13/E2: every operation handed to Put is the result of stamping with the processed transaction, appended only under miss(suffixes, op.UniqueSuffix)", core.FuncName(pto), r.P.Pos(c.Pos()),
			"an unstamped or duplicate operation in the stored batch", fmt.Sprintf("%d append site(s), all stamped and deduplicated", len(apps)), strings.Join(dedupe(det), "; "))
	}
	// suffix recorded in the same iteration as the append
	var putSlice ssa.Value
	for _, c := range puts {
		putSlice = core.CallArgs(c.Common())[1]
	}
	r.checkLoopRequiresEvents(P+".dedupe.record", pto, putSlice, "the suffix of an included operation is recorded before the next iteration")
	// Put failure => (0, err); Put before DeleteAll
	okFail := false
	for _, ri := range ff.Returns() {
		if core.HasFact(ri.Facts, "fail(OperationStore.Put(...))") {
			c0, isC := core.RetOp(ri.Ret, 0).(*ssa.Const)
			okFail = ri.Class == core.RetFail && isC && c0.Value.String() == "0"
		}
	}
	if !okFail {
		// edge form: behind the failure edge of Put lie only returns of (0, non-nil error)
		retInfo := map[*ssa.BasicBlock]core.ReturnInfo{}
		for _, ri := range ff.Returns() {
			retInfo[ri.Ret.Block()] = ri
		}
		for _, b := range pto.Blocks {
			for _, s2 := range b.Succs {
				isFail := false
				for _, fc := range ff.EdgeFacts(b, s2) {
					if fc.Kind == "fail" && fc.A != nil && core.MatchTerm("OperationStore.Put(...)", fc.A, core.Bind{}) {
						isFail = true
					}
				}
				if !isFail {
					continue
				}
				good, nRet := true, 0
				visit := func(x *ssa.BasicBlock) bool {
					if ri, isRet := retInfo[x]; isRet {
						nRet++
						c0, isC := core.RetOp(ri.Ret, 0).(*ssa.Const)
						if ri.Class != core.RetFail || !isC || c0.Value == nil || c0.Value.String() != "0" {
							good = false
						}
					}
					return false
				}
				visit(s2)
				ff.WalkFeasible([]*ssa.BasicBlock{b, s2}, nil, visit)
				okFail = good && nRet > 0
			}
		}
	}
	r.R.Check(okFail, P+".put.failure", "E8 exit class: a failed Put returns (0, non-nil error)", core.FuncName(pto), r.where(pto), "a transaction that cannot be stored must contribute nothing", "(0, err)", "the path on which Put fails does not return (0, error)")
	okOrder := false
	for _, c := range r.callsIn(pto, "unpublishedOperationStore.DeleteAll") {
		okOrder = core.HasFact(ff.At(c), "ok(OperationStore.Put(...))")
	}
	r.R.Check(okOrder, P+".put.before.delete", "E8 never-before: unpublished operations are deleted only after Ok(Put)", core.FuncName(pto), r.where(pto), "deleting the unpublished copy before the anchored one is stored loses the operation on failure", "DeleteAll under Ok(Put)", "DeleteAll not dominated by a successful Put")
	if f := r.fn(P, pkgTxnProc, "TxnProcessor.Process"); f != nil {
		r.requireSucc(P+".process.flow", "the operations stored are the ones read for this transaction", f, core.Ctx{}, "",
			"ok(OperationProvider.GetTxnOperations(_, _))", "ok(processTxnOperations(_, OperationProvider.GetTxnOperations(_, _), _))")
	}
	// a duplicate suffix is skipped; the remaining operations of the transaction are still stored
	if f := r.fn(P, pkgTxnProc, "TxnProcessor.processTxnOperations"); f != nil {
		okIso, detIso := r.loopBodyIsolated(f)
		r.R.Check(okIso, P+".dedupe.isolation", "E8 loop isolation: the per-operation loop of a transaction is left only through its head (a discarded duplicate does not end the loop)", core.FuncName(f), r.where(f),
			"leaving the loop at the first duplicate drops every later operation of the transaction", "no exit from the loop body", detIso)
	}
	// --- isolation
	if f := r.fn(P, pkgObserver, "Observer.process"); f != nil {
		ok, det := r.loopBodyIsolated(f)
		r.R.Check(ok, P+".isolation", "E8 loop isolation: the per-transaction loop body can only continue with the next transaction", core.FuncName(f), r.where(f),
			"a return or break on a failing transaction stops all later transactions from being processed", "no exit from the loop body", det)
		// each transaction processed with its own protocol version's processor
		calls := r.callsIn(f, "TxnProcessor.Process")
		okP := len(calls) == 1
		for _, c := range calls {
			at := of2(r, f).At(c)
			okP = okP && core.HasFact(at, "ok(Client.Get(_, _.ProtocolVersion))") && core.HasFact(at, "ok(ClientProvider.ForNamespace(_, _.Namespace))")
		}
		r.R.Check(okP, P+".isolation.version", "E13: each transaction is processed by the processor of its own namespace and protocol version", core.FuncName(f), r.where(f), "-", "ForNamespace(txn.Namespace).Get(txn.ProtocolVersion)", "processor not selected by the transaction's namespace/version")
	}
	// --- intake
	r.checkIntakeOrder(P)
	r.checkCompensate(P)
}

func of2(r *Run, f *ssa.Function) *core.FnFacts { return r.E.Facts(f, core.Ctx{}) }

// checkLoopRequiresEvents: in every iteration that appends to a slice, a map
// update with the element's suffix happens before the next iteration.
func (r *Run) checkLoopRequiresEvents(id string, f *ssa.Function, into ssa.Value, what string) {
	feeding := map[*ssa.Call]bool{}
	if into != nil {
		for _, c := range appendElemsInto(f, into) {
			feeding[c] = true
		}
	}
	ff := r.E.Facts(f, core.Ctx{})
	head := loopHead(f)
	rule := "E8: every iteration that includes an operation records its suffix in the per-transaction set (same key) before continuing"
	why := "without recording, a second operation for the same DID in the transaction is stored as well"
	if head == nil {
		r.R.Unk(id, rule, core.FuncName(f), r.where(f), why, "no loop")
		return
	}
	ok := false
	det := "no append in loop"
	for _, b := range f.Blocks {
		for _, ins := range b.Instrs {
			c, isC := ins.(*ssa.Call)
			if !isC || !isBuiltin(c, "append") || enclosingLoopHead(f, b) != head {
				continue
			}
			if len(variadicElems(c.Common().Args[1])) == 0 {
				continue
			}
			if into != nil && !feeding[c] {
				continue
			}
			// from the append, head must not be reachable without passing a MapUpdate whose key is $1[i].UniqueSuffix
			var mus []*ssa.BasicBlock
			for _, b2 := range f.Blocks {
				for _, i2 := range b2.Instrs {
					if mu, isMU := i2.(*ssa.MapUpdate); isMU {
						if core.MatchTerm("$1[_].UniqueSuffix", ff.TB.Of(mu.Key), core.Bind{}) {
							mus = append(mus, b2)
						}
					}
				}
			}
			if len(mus) == 0 {
				det = "no map update keyed by the operation's suffix"
				continue
			}
			// same block or all paths pass a recording block
			passes := false
			for _, mb := range mus {
				if mb == b {
					passes = true
				}
			}
			if !passes {
				reach := false
				seen := map[*ssa.BasicBlock]bool{}
				work := []*ssa.BasicBlock{b}
				for len(work) > 0 {
					x := work[len(work)-1]
					work = work[:len(work)-1]
					for _, s := range x.Succs {
						isMu := false
						for _, mb := range mus {
							if mb == s {
								isMu = true
							}
						}
						if isMu || seen[s] {
							continue
						}
						if s == head {
							reach = true
						}
						seen[s] = true
						work = append(work, s)
					}
				}
				passes = !reach
			}
			if firstOK := passes; firstOK {
				ok = true
				det = what
			} else {
				ok = false
				det = "an iteration can include an operation without recording its suffix"
			}
		}
	}
	r.R.Check(ok, id, rule, core.FuncName(f), r.where(f), why, det, det)
}

// checkCompensate: ProcessOperation's compensation for a failed queue add.
func (r *Run) checkCompensate(P string) {
	po := r.fn(P, pkgDocHandler, "DocumentHandler.ProcessOperation")
	if po == nil {
		return
	}
	ff := r.E.Facts(po, core.Ctx{})
	// "an operation whose enqueueing fails leaves no trace in the batch queue": the writer does not report failure
	// for an operation the queue has accepted (shared with C16)
	if wa := r.fn(P, pkgBatch, "Writer.Add"); wa != nil {
		r.checkEnqueueFinal(P, wa)
	}
	adds := r.effectSites(po, 3, "batchWriter.Add")
	puts := r.effectSites(po, 3, "unpublishedOperationStore.Put")
	dels := r.effectSites(po, 3, "unpublishedOperationStore.Delete")
	rule := "E8 must-call-on-path: every path from the failure edge of the queue add to a return passes the compensating delete of the same unpublished operation; the queue add happens only after Ok(unpublished store add)"
	why := "an operation whose enqueueing fails must leave no trace in the unpublished-operation store"
	if len(adds) != 1 || len(puts) != 1 || len(dels) != 1 {
		r.R.Unk(P+".compensate", rule, core.FuncName(po), r.where(po), why, fmt.Sprintf("expected one add/put/delete site, found %d/%d/%d", len(adds), len(puts), len(dels)))
		return
	}
	var add, put, del *ssa.Call
	for c := range adds {
		add = c
	}
	for c := range puts {
		put = c
	}
	for c := range dels {
		del = c
	}
	putT, addT := ff.TB.Of(put), ff.TB.Of(add)
	okOrder := ff.At(add).Has((&core.Fact{Kind: "ok", A: putT}).Key())
	if !okOrder {
		// the store add may be conditional (nothing to store for operation types that are not configured): then what
		// matters is that the queue add is unreachable from the store add's failure edge
		failEdges, reaches := 0, false
		for _, b := range po.Blocks {
			for _, sx := range b.Succs {
				isFail := false
				for _, fc := range ff.EdgeFacts(b, sx) {
					if fc.Kind == "fail" && fc.A != nil && fc.A.String() == putT.String() {
						isFail = true
					}
				}
				if !isFail {
					continue
				}
				failEdges++
				if sx == add.Block() || ff.WalkFeasible([]*ssa.BasicBlock{b, sx}, nil, func(x *ssa.BasicBlock) bool { return x == add.Block() }) {
					reaches = true
				}
			}
		}
		okOrder = failEdges > 0 && !reaches && put.Block().Dominates(add.Block()) == false && blockPrecedes(po, put.Block(), add.Block())
	}
	// delete is on the failure path of add
	okOnFail := ff.At(del).Has((&core.Fact{Kind: "fail", A: addT}).Key())
	// same unpublished operation
	sameOp := len(core.CallArgs(del.Common())) > 1 && len(core.CallArgs(put.Common())) > 1 &&
		ff.TB.Of(core.CallArgs(del.Common())[1]).String() == ff.TB.Of(core.CallArgs(put.Common())[1]).String()
	// every path from the fail edge to a return passes del's block
	leak := false
	for _, b := range po.Blocks {
		for _, s := range b.Succs {
			isFail := false
			for _, fc := range ff.EdgeFacts(b, s) {
				if fc.Kind == "fail" && fc.A.String() == addT.String() {
					isFail = true
				}
			}
			if !isFail {
				continue
			}
			seen := map[*ssa.BasicBlock]bool{}
			work := []*ssa.BasicBlock{s}
			for len(work) > 0 {
				x := work[len(work)-1]
				work = work[:len(work)-1]
				if x == del.Block() || seen[x] {
					continue
				}
				seen[x] = true
				if _, isRet := x.Instrs[len(x.Instrs)-1].(*ssa.Return); isRet {
					leak = true
				}
				work = append(work, x.Succs...)
			}
		}
	}
	r.R.Check(okOrder && okOnFail && sameOp && !leak, P+".compensate", rule, core.FuncName(po), r.P.Pos(add.Pos()), why,
		"add after Ok(store add); delete of the same operation on every failure path",
		fmt.Sprintf("queue add after Ok(unpublished add): %v; delete on the add-failure path: %v; same operation: %v; a failure path skips the delete: %v", okOrder, okOnFail, sameOp, leak))
	// the failure of the unpublished store returns before the queue is touched
	okEarly := false
	for _, ri := range ff.Returns() {
		if ri.Facts.Has((&core.Fact{Kind: "fail", A: putT}).Key()) && ri.Class == core.RetFail {
			called := ri.Facts.Has((&core.Fact{Kind: "called", A: addT}).Key())
			okEarly = !called
		}
	}
	if !okEarly {
		// edge form (the failure may be merged with others before it is returned): behind the failure edge of the
		// store add lie only error returns, and the queue add is not among what can still be executed
		retClass := map[*ssa.BasicBlock]core.RetClass{}
		for _, ri := range ff.Returns() {
			retClass[ri.Ret.Block()] = ri.Class
		}
		for _, b := range po.Blocks {
			for _, s2 := range b.Succs {
				isFail := false
				for _, fc := range ff.EdgeFacts(b, s2) {
					if fc.Kind == "fail" && fc.A.String() == putT.String() {
						isFail = true
					}
				}
				if !isFail {
					continue
				}
				good, nRet := true, 0
				visit := func(x *ssa.BasicBlock) bool {
					if x == add.Block() {
						good = false
					}
					if cl, isRet := retClass[x]; isRet {
						nRet++
						if cl != core.RetFail {
							good = false
						}
					}
					return false
				}
				visit(s2)
				ff.WalkFeasible([]*ssa.BasicBlock{b, s2}, nil, visit)
				okEarly = good && nRet > 0
			}
		}
	}
	r.R.Check(okEarly, P+".compensate.early", "E8: a failed unpublished-store add returns an error without the queue add having been executed", core.FuncName(po), r.where(po), why, "returns before the queue add", "queue add may already have happened")
}

// loopBodyIsolated: no edge leaves the body of f's (first) loop other than
// through the loop head, and the body does not panic: one bad element cannot
// stop the remaining elements from being processed.
func (r *Run) loopBodyIsolated(f *ssa.Function) (bool, string) {
	head := loopHead(f)
	if head == nil {
		return false, "no loop"
	}
	of := r.E.Facts(f, core.Ctx{})
	var leaks []string
	for _, b := range f.Blocks {
		if b == head || !head.Dominates(b) {
			continue
		}
		if !blockReaches(of, b, head, nil) {
			continue // not in the loop (exit part)
		}
		for _, s := range b.Succs {
			if s != head && !blockReaches(of, s, head, nil) {
				leaks = append(leaks, "an edge leaves the loop body at "+r.P.Pos(firstPos(s)))
			}
		}
		for _, ins := range b.Instrs {
			if _, isP := ins.(*ssa.Panic); isP {
				leaks = append(leaks, "panic in loop body")
			}
		}
	}
	return len(leaks) == 0, strings.Join(leaks, "; ")
}

// blockPrecedes: b is reachable from a (a lies on some way to b).
func blockPrecedes(f *ssa.Function, a, b *ssa.BasicBlock) bool {
	seen := map[*ssa.BasicBlock]bool{a: true}
	work := []*ssa.BasicBlock{a}
	for len(work) > 0 {
		x := work[len(work)-1]
		work = work[:len(work)-1]
		if x == b {
			return true
		}
		for _, s := range x.Succs {
			if !seen[s] {
				seen[s] = true
				work = append(work, s)
			}
		}
	}
	return false
}
