package props

import (
	"fmt"
	"sort"
)

// DebugSinks prints the E3 sink table.
func DebugSinks(r *Run) {
	m, reads := r.protocolSinks()
	fmt.Println("reads:", reads)
	var ks []string
	for k := range m {
		ks = append(ks, k)
	}
	sort.Strings(ks)
	for _, k := range ks {
		for _, s := range m[k] {
			if s.Kind == "message" {
				continue
			}
			fmt.Printf("%-28s %s  @%s\n", k, s.String(), r.P.Pos(s.Instr.Pos()))
		}
	}
}
