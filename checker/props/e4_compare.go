package props

import (
	"fmt"
	"go/token"
	"go/types"
	"sort"
	"strings"

	"golang.org/x/tools/go/ssa"

	"sidecheck/core"
)

// Engine E4: comparator truth tables over the finite set of orderings a
// loop-free comparison function can distinguish.

// operand classifies an SSA value read by a comparator.
type operand struct {
	elem  int    // 0 or 1: which of the two compared elements; -1 for constants
	feat  string // feature (field path) name
	cst   string // constant rendering when elem == -1
	valid bool
}

type cmpFunc struct {
	fn       *ssa.Function
	classify func(v ssa.Value) operand
	ordFeats []string // ordered features (elem0.F vs elem1.F)
	boolKeys []string // boolean feature predicates "F==const" (per element)
	problems []string
}

// assignment of abstract inputs for one evaluation.
type cmpEnv struct {
	ord   map[string]int     // feature -> -1,0,1 (elem0 vs elem1)
	bools [2]map[string]bool // per element: "F==const" -> truth
}

func stripLoads(v ssa.Value) ssa.Value {
	for {
		switch x := v.(type) {
		case *ssa.UnOp:
			if x.Op == token.MUL {
				v = x.X
				continue
			}
		case *ssa.ChangeType:
			v = x.X
			continue
		case *ssa.Convert:
			v = x.X
			continue
		}
		return v
	}
}

// sliceLessClassifier: closure/method less(i, j) indexing one slice.
func sliceLessClassifier(fn *ssa.Function) func(v ssa.Value) operand {
	// the two trailing int parameters
	var ip []*ssa.Parameter
	for _, p := range fn.Params {
		if b, ok := p.Type().Underlying().(*types.Basic); ok && b.Kind() == types.Int {
			ip = append(ip, p)
		}
	}
	if len(ip) < 2 {
		return func(ssa.Value) operand { return operand{} }
	}
	pi, pj := ip[len(ip)-2], ip[len(ip)-1]
	return func(v ssa.Value) operand {
		if c, ok := v.(*ssa.Const); ok {
			return operand{elem: -1, cst: core.ConstString(c), valid: true}
		}
		var path []string
		cur := stripLoads(v)
		for {
			switch x := cur.(type) {
			case *ssa.FieldAddr:
				st := x.X.Type().Underlying().(*types.Pointer).Elem().Underlying().(*types.Struct)
				path = append([]string{st.Field(x.Field).Name()}, path...)
				cur = stripLoads(x.X)
				continue
			case *ssa.Field:
				st := x.X.Type().Underlying().(*types.Struct)
				path = append([]string{st.Field(x.Field).Name()}, path...)
				cur = stripLoads(x.X)
				continue
			case *ssa.IndexAddr:
				idx := x.Index
				if cv, ok := idx.(*ssa.Convert); ok {
					idx = cv.X
				}
				e := -1
				if idx == pi {
					e = 0
				} else if idx == pj {
					e = 1
				}
				if e < 0 {
					return operand{}
				}
				return operand{elem: e, feat: strings.Join(path, "."), valid: true}
			case *ssa.Index:
				e := -1
				if x.Index == pi {
					e = 0
				} else if x.Index == pj {
					e = 1
				}
				if e < 0 {
					return operand{}
				}
				return operand{elem: e, feat: strings.Join(path, "."), valid: true}
			}
			return operand{}
		}
	}
}

// newCmpFunc discovers the features fn reads; problems are recorded when fn
// is not a pure feature comparator.
func newCmpFunc(fn *ssa.Function, classify func(v ssa.Value) operand) *cmpFunc {
	c := &cmpFunc{fn: fn, classify: classify}
	ord := map[string]bool{}
	bl := map[string]bool{}
	// loop-free?
	if hasCycle(fn) {
		c.problems = append(c.problems, "function has a loop")
	}
	for _, b := range fn.Blocks {
		for _, ins := range b.Instrs {
			switch x := ins.(type) {
			case *ssa.BinOp:
				if _, isCmp := cmpTok[x.Op]; !isCmp {
					c.problems = append(c.problems, "non-comparison operator "+x.Op.String())
					continue
				}
				a, bb := classify(x.X), classify(x.Y)
				if !a.valid || !bb.valid {
					c.problems = append(c.problems, fmt.Sprintf("operand of %s is not an element feature or constant", x.Op))
					continue
				}
				switch {
				case a.elem >= 0 && bb.elem >= 0:
					if a.feat != bb.feat {
						c.problems = append(c.problems, "compares different features "+a.feat+" and "+bb.feat)
					} else {
						ord[a.feat] = true
					}
				case a.elem >= 0 && bb.elem < 0:
					if x.Op != token.EQL && x.Op != token.NEQ {
						c.problems = append(c.problems, "ordered comparison with a constant")
					}
					bl[a.feat+"=="+bb.cst] = true
				case a.elem < 0 && bb.elem >= 0:
					if x.Op != token.EQL && x.Op != token.NEQ {
						c.problems = append(c.problems, "ordered comparison with a constant")
					}
					bl[bb.feat+"=="+a.cst] = true
				default:
					c.problems = append(c.problems, "constant-constant comparison")
				}
			case *ssa.Call:
				c.problems = append(c.problems, "calls "+x.Common().Value.String())
			case *ssa.Store, *ssa.MapUpdate, *ssa.Send, *ssa.Go, *ssa.Defer:
				c.problems = append(c.problems, "has side effects")
			}
		}
	}
	for k := range ord {
		c.ordFeats = append(c.ordFeats, k)
	}
	for k := range bl {
		c.boolKeys = append(c.boolKeys, k)
	}
	sort.Strings(c.ordFeats)
	sort.Strings(c.boolKeys)
	return c
}

var cmpTok = map[token.Token]bool{token.EQL: true, token.NEQ: true, token.LSS: true, token.LEQ: true, token.GTR: true, token.GEQ: true}

func hasCycle(fn *ssa.Function) bool {
	color := map[*ssa.BasicBlock]int{}
	var dfs func(b *ssa.BasicBlock) bool
	dfs = func(b *ssa.BasicBlock) bool {
		color[b] = 1
		for _, s := range b.Succs {
			if color[s] == 1 {
				return true
			}
			if color[s] == 0 && dfs(s) {
				return true
			}
		}
		color[b] = 2
		return false
	}
	if len(fn.Blocks) == 0 {
		return false
	}
	return dfs(fn.Blocks[0])
}

func ordHolds(o int, op token.Token) bool {
	switch op {
	case token.EQL:
		return o == 0
	case token.NEQ:
		return o != 0
	case token.LSS:
		return o < 0
	case token.LEQ:
		return o <= 0
	case token.GTR:
		return o > 0
	case token.GEQ:
		return o >= 0
	}
	return false
}

// eval interprets the comparator under env; ok=false if it met something it
// cannot evaluate.
func (c *cmpFunc) eval(env cmpEnv) (result bool, ok bool) {
	fn := c.fn
	var prev *ssa.BasicBlock
	b := fn.Blocks[0]
	vals := map[ssa.Value]bool{}
	var valOf func(v ssa.Value) (bool, bool)
	valOf = func(v ssa.Value) (bool, bool) {
		if x, ok := vals[v]; ok {
			return x, true
		}
		switch x := v.(type) {
		case *ssa.Const:
			if x.Value != nil && types.Identical(x.Type().Underlying(), types.Typ[types.Bool]) {
				return x.Value.String() == "true", true
			}
		case *ssa.UnOp:
			if x.Op == token.NOT {
				r, ok := valOf(x.X)
				return !r, ok
			}
		case *ssa.BinOp:
			a, bb := c.classify(x.X), c.classify(x.Y)
			if !a.valid || !bb.valid {
				return false, false
			}
			switch {
			case a.elem >= 0 && bb.elem >= 0:
				if a.feat != bb.feat {
					return false, false
				}
				o := env.ord[a.feat]
				if a.elem == bb.elem {
					o = 0
				} else if a.elem == 1 {
					o = -o
				}
				return ordHolds(o, x.Op), true
			case a.elem >= 0:
				t := env.bools[a.elem][a.feat+"=="+bb.cst]
				if x.Op == token.NEQ {
					t = !t
				}
				return t, true
			case bb.elem >= 0:
				t := env.bools[bb.elem][bb.feat+"=="+a.cst]
				if x.Op == token.NEQ {
					t = !t
				}
				return t, true
			}
		}
		return false, false
	}
	for steps := 0; steps < 10000; steps++ {
		for _, ins := range b.Instrs {
			switch x := ins.(type) {
			case *ssa.Phi:
				for i, p := range b.Preds {
					if p == prev {
						r, ok := valOf(x.Edges[i])
						if !ok {
							return false, false
						}
						vals[x] = r
					}
				}
			case *ssa.If:
				r, ok := valOf(x.Cond)
				if !ok {
					return false, false
				}
				prev = b
				if r {
					b = b.Succs[0]
				} else {
					b = b.Succs[1]
				}
			case *ssa.Jump:
				prev = b
				b = b.Succs[0]
			case *ssa.Return:
				if len(x.Results) != 1 {
					return false, false
				}
				return valOf(x.Results[0])
			}
		}
	}
	return false, false
}

// weak orderings of three elements: rank vectors.
var weak3 = [][3]int{
	{0, 0, 0},
	{0, 0, 1}, {0, 1, 0}, {1, 0, 0}, {0, 1, 1}, {1, 0, 1}, {1, 1, 0},
	{0, 1, 2}, {0, 2, 1}, {1, 0, 2}, {1, 2, 0}, {2, 0, 1}, {2, 1, 0},
}

func sgn(a, b int) int {
	if a < b {
		return -1
	}
	if a > b {
		return 1
	}
	return 0
}

// tripleEnvs enumerates every abstract triple (a,b,c): a weak ordering per
// ordered feature and a boolean per element per boolean feature.
func (c *cmpFunc) forTriples(f func(rank map[string][3]int, bl [3]map[string]bool) bool) int {
	n := 0
	var recOrd func(i int, rank map[string][3]int) bool
	var recBool func(i int, rank map[string][3]int, bl [3]map[string]bool) bool
	recBool = func(i int, rank map[string][3]int, bl [3]map[string]bool) bool {
		if i == len(c.boolKeys) {
			n++
			return f(rank, bl)
		}
		k := c.boolKeys[i]
		for m := 0; m < 8; m++ {
			for e := 0; e < 3; e++ {
				bl[e][k] = m&(1<<e) != 0
			}
			if !recBool(i+1, rank, bl) {
				return false
			}
		}
		return true
	}
	recOrd = func(i int, rank map[string][3]int) bool {
		if i == len(c.ordFeats) {
			bl := [3]map[string]bool{{}, {}, {}}
			return recBool(0, rank, bl)
		}
		for _, w := range weak3 {
			rank[c.ordFeats[i]] = w
			if !recOrd(i+1, rank) {
				return false
			}
		}
		return true
	}
	recOrd(0, map[string][3]int{})
	return n
}

func (c *cmpFunc) pairEnv(rank map[string][3]int, bl [3]map[string]bool, x, y int) cmpEnv {
	env := cmpEnv{ord: map[string]int{}}
	for f, r := range rank {
		env.ord[f] = sgn(r[x], r[y])
	}
	env.bools[0] = bl[x]
	env.bools[1] = bl[y]
	return env
}

// cmpSpec is a specification comparator over the same abstract inputs.
type cmpSpec func(env cmpEnv) bool

// cmpResult is the outcome of analysing one comparator.
type cmpResult struct {
	Triples   int
	Pairs     int
	SWO       bool
	SWOWhy    string
	EqualSpec bool
	SpecWhy   string
	Undecided string
}

func envString(c *cmpFunc, env cmpEnv) string {
	var parts []string
	for _, f := range c.ordFeats {
		parts = append(parts, fmt.Sprintf("%s:%s", f, map[int]string{-1: "<", 0: "=", 1: ">"}[env.ord[f]]))
	}
	for _, k := range c.boolKeys {
		parts = append(parts, fmt.Sprintf("i.%s:%v j.%s:%v", k, env.bools[0][k], k, env.bools[1][k]))
	}
	return strings.Join(parts, " ")
}

// analyse checks strict-weak-order axioms exhaustively over abstract triples
// and equality with spec over abstract pairs.
func (c *cmpFunc) analyse(spec cmpSpec) cmpResult {
	res := cmpResult{SWO: true, EqualSpec: true}
	if len(c.problems) > 0 {
		res.Undecided = strings.Join(c.problems, "; ")
		return res
	}
	T := func(env cmpEnv) bool {
		r, ok := c.eval(env)
		if !ok {
			res.Undecided = "evaluation met an unsupported construct"
		}
		return r
	}
	res.Triples = c.forTriples(func(rank map[string][3]int, bl [3]map[string]bool) bool {
		ab, ba := T(c.pairEnv(rank, bl, 0, 1)), T(c.pairEnv(rank, bl, 1, 0))
		bc, cb := T(c.pairEnv(rank, bl, 1, 2)), T(c.pairEnv(rank, bl, 2, 1))
		ac, ca := T(c.pairEnv(rank, bl, 0, 2)), T(c.pairEnv(rank, bl, 2, 0))
		aa := T(c.pairEnv(rank, bl, 0, 0))
		fail := func(why string) {
			if res.SWO {
				res.SWO = false
				res.SWOWhy = why + " at abstract input a~b: " + envString(c, c.pairEnv(rank, bl, 0, 1)) + " | b~c: " + envString(c, c.pairEnv(rank, bl, 1, 2))
			}
		}
		if aa {
			fail("not irreflexive: less(a,a)")
		}
		if ab && ba {
			fail("not asymmetric: less(a,b) and less(b,a)")
		}
		if ab && bc && !ac {
			fail("not transitive: less(a,b), less(b,c) but not less(a,c)")
		}
		if !ab && !ba && !bc && !cb && (ac || ca) {
			fail("incomparability not transitive: a~b, b~c but a,c ordered")
		}
		if spec != nil {
			for _, pr := range [][2]int{{0, 1}, {1, 0}, {1, 2}, {2, 1}, {0, 2}, {2, 0}} {
				env := c.pairEnv(rank, bl, pr[0], pr[1])
				if T(env) != spec(env) && res.EqualSpec {
					res.EqualSpec = false
					res.SpecWhy = fmt.Sprintf("less=%v but specification=%v at abstract input %s", T(env), spec(env), envString(c, env))
				}
				res.Pairs++
			}
		}
		return true
	})
	return res
}

// lexSpec is the lexicographic order over the given ordered features.
func lexSpec(feats ...string) cmpSpec {
	return func(env cmpEnv) bool {
		for _, f := range feats {
			if env.ord[f] < 0 {
				return true
			}
			if env.ord[f] > 0 {
				return false
			}
		}
		return false
	}
}

// sortCall is one sort.* call site with a comparator.
type sortCall struct {
	Call   *ssa.Call
	In     *ssa.Function
	Less   *ssa.Function
	Stable bool
	Kind   string
}

// sortCalls finds every sort.Slice/SliceStable/Sort/Stable and slices.Sort*Func call in subject code.
func (r *Run) sortCalls() []sortCall {
	var out []sortCall
	for _, f := range r.P.SubjectFuncs() {
		for _, b := range f.Blocks {
			for _, ins := range b.Instrs {
				c, ok := ins.(*ssa.Call)
				if !ok {
					continue
				}
				sc := c.Common().StaticCallee()
				if sc == nil || sc.Pkg == nil {
					continue
				}
				name := sc.Pkg.Pkg.Path() + "." + sc.Name()
				var less *ssa.Function
				stable := false
				switch name {
				case "sort.Slice", "sort.SliceStable":
					stable = name == "sort.SliceStable"
					if len(c.Common().Args) == 2 {
						less = closureFn(c.Common().Args[1])
					}
				case "sort.Sort", "sort.Stable":
					stable = name == "sort.Stable"
					if len(c.Common().Args) == 1 {
						if mi, ok := c.Common().Args[0].(*ssa.MakeInterface); ok {
							ms := r.P.SSA.MethodSets.MethodSet(mi.X.Type())
							for i := 0; i < ms.Len(); i++ {
								if ms.At(i).Obj().Name() == "Less" {
									less = r.P.SSA.MethodValue(ms.At(i))
								}
							}
						}
					}
				case "sort.Strings", "sort.Ints", "sort.Float64s":
					continue
				default:
					if sc.Pkg.Pkg.Path() == "slices" && strings.HasPrefix(sc.Name(), "Sort") {
						out = append(out, sortCall{Call: c, In: f, Kind: name})
					}
					continue
				}
				out = append(out, sortCall{Call: c, In: f, Less: less, Stable: stable, Kind: name})
			}
		}
	}
	return out
}

func closureFn(v ssa.Value) *ssa.Function {
	switch x := v.(type) {
	case *ssa.MakeClosure:
		f, _ := x.Fn.(*ssa.Function)
		return f
	case *ssa.Function:
		return x
	case *ssa.ChangeType:
		return closureFn(x.X)
	}
	return nil
}

// checkChrono checks that the comparator of the sort call inside function `in`
// is a strict weak order equal to lexicographic (TransactionTime, TransactionNumber).
func (r *Run) checkChrono(P, idSuffix string, in *ssa.Function) {
	if in == nil {
		return
	}
	var found []sortCall
	for _, sc := range r.sortCalls() {
		if sc.In == in {
			found = append(found, sc)
		}
	}
	id := P + ".less." + idSuffix
	rule := "E4 comparator table: strict weak order ∧ equal to lexicographic (TransactionTime, TransactionNumber), exhaustive over abstract orderings"
	why := "if the comparator is not a strict weak order equal to (time, then number), the order after sorting — and hence the winner among operations competing for one commitment — depends on the order the store returned them in"
	if len(found) != 1 || found[0].Less == nil {
		r.R.Unk(id, rule, core.FuncName(in), r.where(in), why, fmt.Sprintf("expected exactly one sort call with a resolvable comparator, found %d", len(found)))
		return
	}
	sc := found[0]
	cf := newCmpFunc(sc.Less, sliceLessClassifier(sc.Less))
	res := cf.analyse(lexSpec("TransactionTime", "TransactionNumber"))
	r.R.Count("E4 abstract triples evaluated", res.Triples)
	r.R.Count("E4 abstract pairs compared with specification", res.Pairs)
	where := r.P.Pos(sc.Call.Pos())
	construct := core.FuncName(in) + " less"
	switch {
	case res.Undecided != "":
		r.R.Unk(id, rule, construct, where, why, "comparator is outside the recognised feature form: "+res.Undecided)
	case !res.SWO:
		r.R.Bad(id, rule, construct, where, why, "not a strict weak order: "+res.SWOWhy)
	case !res.EqualSpec:
		r.R.Bad(id, rule, construct, where, why, "differs from the specification: "+res.SpecWhy)
	default:
		r.R.Ok(id, rule, construct, where, why, fmt.Sprintf("features ordered=%v boolean=%v; %d abstract triples, %d pairs: strict weak order and equal to the specification", cf.ordFeats, cf.boolKeys, res.Triples, res.Pairs))
	}
}

// checkCreateOrder: the create ordering in Resolve is "published before
// unpublished" under a stable sort.
func (r *Run) checkCreateOrder(P string) {
	res := r.fn(P, pkgProcessor, "OperationProcessor.Resolve")
	if res == nil {
		return
	}
	id := P + ".less.createOrder"
	rule := "E4 comparator table: strict weak order ∧ equal to (published(i) ∧ ¬published(j)) under a stable sort"
	why := "if create ordering is not 'published first, otherwise keep chronological order', a later duplicate create (same suffix data, other delta) can become the base state"
	var found []sortCall
	for _, sc := range r.sortCalls() {
		if sc.In == res {
			found = append(found, sc)
		}
	}
	if len(found) == 0 {
		// acceptable alternative: no re-sorting of creates at all is not what the
		// property asks (published first) -> undecided
		r.R.Unk(id, rule, core.FuncName(res), r.where(res), why, "no sort call found in Resolve for create operations")
		return
	}
	for _, sc := range found {
		where := r.P.Pos(sc.Call.Pos())
		if sc.Less == nil {
			r.R.Unk(id, rule, core.FuncName(res), where, why, "comparator not resolvable")
			continue
		}
		cf := newCmpFunc(sc.Less, sliceLessClassifier(sc.Less))
		key := `CanonicalReference==""`
		spec := func(env cmpEnv) bool { return !env.bools[0][key] && env.bools[1][key] }
		cr := cf.analyse(spec)
		r.R.Count("E4 abstract triples evaluated", cr.Triples)
		r.R.Count("E4 abstract pairs compared with specification", cr.Pairs)
		construct := core.FuncName(res) + " create less"
		switch {
		case cr.Undecided != "":
			r.R.Unk(id, rule, construct, where, why, "comparator is outside the recognised feature form: "+cr.Undecided)
		case len(cf.boolKeys) != 1 || cf.boolKeys[0] != key || len(cf.ordFeats) != 0:
			r.R.Bad(id, rule, construct, where, why, fmt.Sprintf("comparator reads features ordered=%v boolean=%v, expected only %s", cf.ordFeats, cf.boolKeys, key))
		case !cr.SWO:
			r.R.Bad(id, rule, construct, where, why, "not a strict weak order: "+cr.SWOWhy)
		case !cr.EqualSpec:
			r.R.Bad(id, rule, construct, where, why, "differs from the specification: "+cr.SpecWhy)
		case !sc.Stable:
			r.R.Bad(id, rule, construct, where, why, "published-first ordering must be applied with a stable sort to keep the chronological order within each class; found "+sc.Kind)
		default:
			r.R.Ok(id, rule, construct, where, why, fmt.Sprintf("%s; %d abstract triples, %d pairs: strict weak order, equals specification, stable", sc.Kind, cr.Triples, cr.Pairs))
		}
	}
}
