package props

import (
	"fmt"
	"strings"

	"golang.org/x/tools/go/ssa"

	"sidecheck/core"
)

// checkCopyFirst (C17 "operations take effect in order"): a JSON-patch 'copy' is carried out as the 'add' that
// copyAsAdd computes from the *current* document. That add is only right if nothing else is applied between the
// moment the value was read and the moment it is added: in the patch that is handed to the library together with it,
// the converted operation must come first (the patch is that result itself, or starts with it).
func (r *Run) checkCopyFirst(P string) {
	ca := r.P.Func(pkgComposer, "copyAsAdd")
	if ca == nil || ca.Blocks == nil {
		return // (the copy rules of C18 report a missing conversion)
	}
	n := 0
	var bad []string
	for _, f := range r.P.SubjectFuncs(pkgComposer) {
		if f.Blocks == nil {
			continue
		}
		ff := r.E.Facts(f, core.Ctx{})
		for _, c := range r.callsIn(f, "copyAsAdd") {
			n++
			// the converted patch: result 0 of the call
			var res ssa.Value
			if refs := c.Referrers(); refs != nil {
				for _, rf := range *refs {
					if ex, ok := rf.(*ssa.Extract); ok && ex.Index == 0 {
						res = ex
					}
				}
			}
			if res == nil {
				continue
			}
			// follow it: into a merge (fine), into append(X, res...) — X must be empty —, or straight into a call
			seen := map[ssa.Value]bool{}
			var follow func(v ssa.Value)
			follow = func(v ssa.Value) {
				if seen[v] {
					return
				}
				seen[v] = true
				refs := v.Referrers()
				if refs == nil {
					return
				}
				for _, rf := range *refs {
					switch x := rf.(type) {
					case *ssa.Phi:
						follow(x)
					case *ssa.Store:
						// kept in a local variable: every read of that variable
						if al, isAl := x.Addr.(*ssa.Alloc); isAl && x.Val == v {
							if arefs := al.Referrers(); arefs != nil {
								for _, ar := range *arefs {
									if ld, isLd := ar.(*ssa.UnOp); isLd && ld.X == ssa.Value(al) {
										follow(ld)
									}
								}
							}
						}
					case *ssa.ChangeType:
						follow(x)
					case *ssa.Convert:
						follow(x)
					case *ssa.Slice:
						follow(x)
					case *ssa.Call:
						if isBuiltin(x, "append") && len(x.Common().Args) == 2 {
							if x.Common().Args[1] == v {
								// appended after something: that something must be an empty list
								if !emptyList(x.Common().Args[0]) {
									bad = append(bad, fmt.Sprintf("%s: the converted copy is appended after %s at %s", core.FuncName(f), short(ff.TB.Of(x.Common().Args[0]).String(), 60), r.P.Pos(x.Pos())))
								}
								follow(x)
							} else if x.Common().Args[0] == v {
								follow(x) // others after it: its value was read from the document they are applied to
							}
						}
					}
				}
			}
			follow(res)
		}
	}
	if n == 0 {
		return
	}
	r.R.Check(len(bad) == 0, P+".order.copy.first", "E13/E8: in the patch handed to the JSON-patch library the operation that copyAsAdd computed from the current document comes first", "doccomposer (callers of copyAsAdd)", "-",
		"the value of a 'copy' is read from the document before the patch is applied; an operation of the same patch that runs before the converted add and touches the source or the target makes the copy read stale data — the operations of one patch no longer take effect in order",
		fmt.Sprintf("%d conversion(s), each first in its patch", n), strings.Join(bad, "; "))
}

// emptyList: nil, or a slice made with length 0.
func emptyList(v ssa.Value) bool {
	switch x := v.(type) {
	case *ssa.Const:
		return x.Value == nil
	case *ssa.MakeSlice:
		n, ok := constInt(x.Len)
		return ok && n == 0
	case *ssa.ChangeType:
		return emptyList(x.X)
	case *ssa.Convert:
		return emptyList(x.X)
	case *ssa.Phi:
		for _, e := range x.Edges {
			if !emptyList(e) {
				return false
			}
		}
		return len(x.Edges) > 0
	}
	return false
}
