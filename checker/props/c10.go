package props

import (
	"fmt"
	"go/token"
	"strings"

	"golang.org/x/tools/go/ssa"

	"sidecheck/core"
)

func init() {
	register(&Checker{
		ID: "C10",
		Explanation: "Structural necessary conditions of C10: (role) every read of every protocol.Protocol field is followed to its sinks (E3); each intake limit has a guard of its own role with the inclusive operator whose violating edge leads only to error returns — MaxOperationSize bounds len(request bytes) before json.Unmarshal, MaxDeltaSize bounds len(JCS(delta)), MaxOperationHashLength bounds the length of the hash string, NonceSize equals the decoded nonce length, the algorithm lists are used for membership tests; a strict operator, a foreign parameter in a guard, or a parameter without a sink of its role is reported; " +
			"(accept) the non-batch success summary of each Parse*Operation (all paths, through all helpers) contains, for every hash field of that type, the length bound and the multihash-algorithm membership, ValidateDelta (whose loop cannot return to its head without the action being enabled and the per-action validator having succeeded), the delta size bound, the protected-header rule (alg present, non-empty, allowed, no other members than alg/kid), the signing-key rule (validated, curve allowed, nonce size), reveal value = hash(signing key) and the key re-use rules; Parse reaches them through ParseOperation's type dispatch with the same bytes; " +
			"(nopanic) every panic-capable instruction in the subject functions reachable (VTA) from Parse, ParseOperation, GetRevealValue, GetCommitment and ParseDID is individually discharged (E10). " +
			"Not decided: what multihash.Decode / json.Unmarshal accept; joint satisfiability of the rules.",
		Run: runC10,
	})
}

func (r *Run) parserEntries(P string) map[string]*ssa.Function {
	return map[string]*ssa.Function{
		"Parser.Parse":          r.fn(P, pkgParser, "Parser.Parse"),
		"Parser.ParseOperation": r.fn(P, pkgParser, "Parser.ParseOperation"),
		"Parser.GetRevealValue": r.fn(P, pkgParser, "Parser.GetRevealValue"),
		"Parser.GetCommitment":  r.fn(P, pkgParser, "Parser.GetCommitment"),
		"Parser.ParseDID":       r.fn(P, pkgParser, "Parser.ParseDID"),
	}
}

// guardEdge: for a comparison sink, which outcome means "limit exceeded" and
// whether that edge leads only to failure returns.
func (r *Run) guardRejects(s sink) (exact bool, rejects bool, detail string) {
	bo, ok := s.Instr.(*ssa.BinOp)
	if !ok {
		return false, false, "not a comparison"
	}
	// s.Op is normalised as X Op P
	var exceededOnTrue bool
	switch s.Op {
	case ">":
		exact, exceededOnTrue = true, true
	case "<=":
		exact, exceededOnTrue = true, false
	case ">=":
		return false, false, "strict limit: the guard rejects a value equal to the limit (X >= P)"
	case "<":
		return false, false, "strict limit: the guard accepts only values below the limit (X < P)"
	case "!=":
		exact, exceededOnTrue = true, true
	case "==":
		exact, exceededOnTrue = true, false
	}
	refs := bo.Referrers()
	if refs == nil {
		return exact, false, "comparison result unused"
	}
	ff := r.E.Facts(s.Fn, core.Ctx{})
	rets := map[*ssa.Return]core.RetClass{}
	for _, ri := range ff.Returns() {
		rets[ri.Ret] = ri.Class
	}
	for _, rf := range *refs {
		iff, ok := rf.(*ssa.If)
		if !ok {
			continue
		}
		start := iff.Block().Succs[1]
		if exceededOnTrue {
			start = iff.Block().Succs[0]
		}
		// all returns reachable from start without passing through the If's block again must be failures
		// (the walk honours tests of merged values: an error assigned on this edge and tested after a join — the
		// shape an inlined helper leaves — is crossed only on its non-nil side)
		okAll := true
		n := 0
		visit := func(b *ssa.BasicBlock) bool {
			if ret, isRet := b.Instrs[len(b.Instrs)-1].(*ssa.Return); isRet {
				n++
				if rets[ret] != core.RetFail {
					okAll = false
				}
			}
			return false
		}
		visit(start)
		ff.WalkFeasible([]*ssa.BasicBlock{iff.Block(), start}, nil, visit)
		if okAll && n > 0 {
			return exact, true, "the exceeding edge leads only to error returns"
		}
		return exact, false, "the exceeding edge can reach a success return"
	}
	return exact, false, "comparison does not guard a branch"
}

type limitRole struct {
	Param   string
	Measure string // term pattern of the measured quantity (the other operand)
	What    string
	Eq      bool // equality role (NonceSize)
}

var intakeLimits = []limitRole{
	{"MaxOperationSize", "len($2)", "length of the operation request bytes", false},
	{"MaxDeltaSize", "len(canonicalizer.MarshalCanonical(_))", "length of the canonical delta", false},
	{"MaxOperationHashLength", "len(_)", "length of the encoded multihash string", false},
	{"NonceSize", "len(encoder.DecodeString(_))", "length of the decoded nonce", true},
}

func runC10(r *Run) {
	const P = "C10"
	sinks, reads := r.protocolSinks()
	r.R.SetCount("E3 protocol parameter reads followed", reads)
	r.R.Floor(P+".params.floor", "instance floor", reads, 30, "reads of protocol.Protocol fields in subject code")
	intakeFns := map[*ssa.Function]bool{}
	var es []*ssa.Function
	for _, f := range r.parserEntries(P) {
		if f != nil {
			es = append(es, f)
		}
	}
	for _, f := range r.P.Reachable(es...) {
		intakeFns[f] = true
	}
	r.checkLimitRoles(P, sinks, intakeFns)
	// membership roles
	for _, mr := range []struct{ Param, What string }{
		{"MultihashAlgorithms", "decoded multihash code"}, {"SignatureAlgorithms", "protected header alg"},
		{"KeyAlgorithms", "signing key curve"}, {"Patches", "patch action"}} {
		n := 0
		for _, s := range sinks[mr.Param] {
			if intakeFns[s.Fn] && s.Kind == "elemcmp" && s.Op == "==" {
				n++
			}
		}
		r.R.Check(n > 0, P+".role."+mr.Param, "E3 role/live: "+mr.Param+" is used for an element-wise equality (membership) test of the "+mr.What, "Protocol."+mr.Param, "pkg/api/protocol/protocol.go",
			"a list nobody consults cannot restrict what intake accepts", fmt.Sprintf("%d membership sink(s)", n), "no membership test over this list in intake code")
	}

	// --- size gate before parsing, type dispatch
	if po := r.fn(P, pkgParser, "Parser.ParseOperation"); po != nil {
		ff := r.E.Facts(po, core.Ctx{})
		calls := r.callsIn(po, "json.Unmarshal")
		okGate := len(calls) > 0
		for _, c := range calls {
			if !core.HasFact(ff.At(c), "cmp(len($2) <= $0.Protocol.MaxOperationSize)") {
				okGate = false
			}
		}
		r.R.Check(okGate, P+".size.gate", "E2 Before: json.Unmarshal of the request only under len(request) ≤ MaxOperationSize", core.FuncName(po), r.where(po),
			"an oversized request must be rejected before it is parsed", fmt.Sprintf("%d unmarshal site(s) gated", len(calls)), "request bytes are decoded without the size gate")
		d := r.dispatchSites(po, core.Ctx{}, "Operation")
		for _, role := range opRoles {
			ok := false
			det := fmt.Sprintf("%d calls", len(d[role.Type]))
			for _, ds := range d[role.Type] {
				if core.NameMatches(ds.Key, role.ParseOp) {
					a := ds.Args
					ok = len(a) == 3 && a[1] == ssa.Value(po.Params[2]) && a[2] == ssa.Value(po.Params[3])
					det = "-> " + ds.Key
				} else {
					ok = false
					det = "-> " + ds.Key
					break
				}
			}
			r.R.Check(ok, P+".dispatch.parse."+role.Type, "E7/E13: ParseOperation routes type to its parser with the same bytes and batch flag", core.FuncName(po)+" case "+role.Type, r.where(po),
				"a type parsed by another type's rules escapes its checks", det, det)
		}
	}
	if pf := r.fn(P, pkgParser, "Parser.Parse"); pf != nil {
		r.requireSucc(P+".accept.entry", "intake must go through the non-batch rules", pf, core.Ctx{}, "", "ok(ParseOperation(_, _, $2, false))")
	}

	// --- accept.<type>
	hashFields := map[string][]string{
		"create":     {"?s.RecoveryCommitment", "?s.DeltaHash", "?d.UpdateCommitment"},
		"update":     {"?rv", "%SD%.DeltaHash", "?d.UpdateCommitment"},
		"recover":    {"?rv", "%SD%.DeltaHash", "%SD%.RecoveryCommitment", "?d.UpdateCommitment"},
		"deactivate": {"?rv"},
	}
	for _, role := range opRoles {
		f := r.fn(P, pkgParser, "Parser."+role.ParseOp)
		if f == nil {
			continue
		}
		ctx, _ := boolParamCtx(f, false)
		sd := role.ParseSD + "(_, ?sd)"
		base := []string{}
		if role.Type == "create" {
			base = append(base, "cmp(?s == <result>.SuffixData)", "cmp(?d == <result>.Delta)")
		} else {
			base = append(base, "cmp(?rv == <result>.RevealValue)", "cmp(?sd == <result>.SignedData)", "ok("+sd+")")
			if role.Type != "deactivate" {
				base = append(base, "cmp(?d == <result>.Delta)")
			}
		}
		for _, hf := range hashFields[role.Type] {
			fld := strings.ReplaceAll(hf, "%SD%", sd)
			pats := append(append([]string{}, base...),
				"cmp($0.Protocol.MaxOperationHashLength >= len("+fld+"))",
				"true(hashing.IsComputedUsingMultihashAlgorithms("+fld+", $0.Protocol.MultihashAlgorithms))",
				"ok(go-multihash.Decode(encoder.DecodeString("+fld+")))")
			name := strings.NewReplacer("?", "", "%SD%.", "signedData.", "s.", "suffixData.", "d.", "delta.", "rv", "revealValue").Replace(hf)
			r.requireSucc(fmt.Sprintf("%s.accept.%s.hash.%s", P, role.Type, name),
				"if this fails, a "+role.Type+" is accepted whose "+name+" is over-long, not a well-formed multihash (multihash.Decode of its base64url decoding), or not of an allowed algorithm", f, ctx, "batch=false", pats...)
		}
		if role.Type != "deactivate" {
			r.requireSucc(P+".accept."+role.Type+".delta", "if this fails, a "+role.Type+" with an invalid, oversized or disabled-action delta is accepted", f, ctx, "batch=false",
				"cmp(?d == <result>.Delta)", "ok(ValidateDelta(_, ?d))", "cmp(?d != nil)", "cmp(len(?d.Patches) != 0)",
				"cmp($0.Protocol.MaxDeltaSize >= len(canonicalizer.MarshalCanonical(?d)))")
		}
		if role.ParseSD != "" {
			k := sd + "." + role.KeyField
			r.requireSucc(P+".accept."+role.Type+".header", "if this fails, a "+role.Type+" signed with a disabled algorithm or carrying extra protected headers is accepted", f, ctx, "batch=false",
				"cmp(?sd == <result>.SignedData)", "ok("+sd+")",
				"ok(validateProtectedHeaders(_, ?h, $0.Protocol.SignatureAlgorithms))",
				"cmp(?h != nil)", `cmp(Headers.Algorithm(?h) != "")`,
				"true(contains($0.Protocol.SignatureAlgorithms, Headers.Algorithm(?h)))")
			r.requireSucc(P+".accept."+role.Type+".key", "if this fails, a "+role.Type+" signed with an invalid key, a disabled curve or a wrong nonce size is accepted", f, ctx, "batch=false",
				"cmp(?sd == <result>.SignedData)", "ok("+sd+")",
				"cmp("+k+" != nil)", "ok(JWK.Validate("+k+"))",
				"true(contains($0.Protocol.KeyAlgorithms, "+k+".Crv))",
				"ok(validateNonce(_, "+k+".Nonce))")
			r.requireSucc(P+".accept."+role.Type+".reveal", "if this fails, a "+role.Type+" whose reveal value is not the hash of its signing key is accepted", f, ctx, "batch=false",
				"cmp(?sd == <result>.SignedData)", "cmp(?rv == <result>.RevealValue)",
				"ok(hashing.IsValidModelMultihash("+k+", ?rv))")
		}
	}
	// required members of the three signed request types, and the binding of a deactivate to the DID it is signed for
	for _, rq := range []struct{ typ, fn, parse string }{
		{"update", "Parser.ParseUpdateOperation", "parseUpdateRequest"},
		{"recover", "Parser.ParseRecoverOperation", "parseRecoverRequest"},
		{"deactivate", "Parser.ParseDeactivateOperation", "parseDeactivateRequest"},
	} {
		f := r.fn(P, pkgParser, rq.fn)
		if f == nil {
			continue
		}
		for _, batch := range []bool{false, true} {
			ctx, _ := boolParamCtx(f, batch)
			pats := []string{"cmp(" + rq.parse + `(_, _).DidSuffix != "")`, "cmp(" + rq.parse + `(_, _).SignedData != "")`}
			if rq.typ == "deactivate" {
				pats = append(pats, "cmp(ParseSignedDataForDeactivate(_, _).DidSuffix == "+rq.parse+"(_, _).DidSuffix)")
			}
			r.requireSucc(fmt.Sprintf("%s.accept.%s.members.batch=%v", P, rq.typ, batch), "if this fails, a "+rq.typ+" request without DID suffix or signed data — or a deactivate signed for another DID — is accepted", f, ctx, fmt.Sprintf("batch=%v", batch), pats...)
		}
	}
	// "its reveal value is the hash of its signing key": the comparison is between the encoded strings
	// (a comparison of decoded bytes would accept non-canonical base64url spellings of the hash)
	if f := r.fn(P, pkgHashing, "IsValidModelMultihash"); f != nil {
		r.requireSucc(P+".reveal.hash.eq", "if this fails, a reveal value (or delta hash) that is not the canonical encoding of the hash is accepted", f, core.Ctx{}, "",
			"ok(hashing.GetMultihashCode($1))",
			"cmp(hashing.CalculateModelMultihash($0, hashing.GetMultihashCode($1)) == $1)")
	}
	// nonce rule inside validateNonce (optional nonce)
	if vn := r.fn(P, pkgParser, "Parser.validateNonce"); vn != nil {
		r.requireEachSuccessPath(P+".accept.nonce", "a present nonce must decode to exactly NonceSize bytes", vn, core.Ctx{},
			[]string{`cmp($1 == "")`},
			[]string{"ok(encoder.DecodeString($1))", "cmp(len(encoder.DecodeString($1)) == $0.Protocol.NonceSize)"})
	}
	// protected header: no other members than alg/kid -> per-element rule in validateProtectedHeaders
	if vh := r.fn(P, pkgParser, "Parser.validateProtectedHeaders"); vh != nil {
		r.checkLoopMembership(P+".accept.header.members", vh, []string{"alg", "kid"}, "a protected header with additional members must be rejected")
	}
	// ValidateDelta loop: every patch enabled and validated
	if vd := r.fn(P, pkgParser, "Parser.ValidateDelta"); vd != nil {
		r.checkLoopRequires(P+".accept.patches", vd, "every patch of the delta has an enabled action and passes its per-action validator",
			"one disabled or invalid patch anywhere in the list must reject the delta",
			[]string{"ok(Patch.GetAction(_))", "true(isPatchEnabled(_, _)) | cmp($0.Protocol.Patches[_] == _)", "ok(patchvalidator.Validate(_))"})
	}
	// (when the membership test is written in place, the element match itself is the required edge above)
	if pe := r.P.Func(pkgParser, "Parser.isPatchEnabled"); pe != nil && pe.Blocks != nil {
		ff := r.E.Facts(pe, core.Ctx{})
		ok := false
		nTrue := 0
		ok = true
		for _, ri := range ff.Returns() {
			v := core.RetOp(ri.Ret, 0)
			if c, isC := v.(*ssa.Const); isC {
				if c.Value.String() == "true" {
					nTrue++
					ok = ok && core.HasFact(ri.Facts, "cmp($0.Protocol.Patches[_] == $1)")
				}
				continue
			}
			// the answer of a membership helper handed on: what its being true implies must contain the element match
			nTrue++
			set := ri.Facts.Clone()
			for _, fc := range ff.CondFacts(v, true, ri.Ret.Block()) {
				set[fc.Key()] = fc
			}
			ok = ok && core.HasFact(set, "cmp($0.Protocol.Patches[_] == $1)")
		}
		ok = ok && nTrue > 0
		r.R.Check(ok, P+".accept.patches.member", "E2: isPatchEnabled returns true only under Protocol.Patches[i] == action", core.FuncName(pe), r.where(pe),
			"enablement must be membership in the protocol's patch list", "true only on an element match", "a true return is not guarded by an element match")
	}

	if r.Universal {
		r.universalE11(P, pkgParser, pkgPatchVal, pkgHashing, pkgCommitment, pkgIJWS, pkgJWS, pkgDocHandler, pkgModel)
	}
	if r.Universal {
		r.universalE6(P)
		r.universalParamsLive(P, sinks)
	}
	r.checkNoPanic(P, r.parserEntries(P), 100)
}

// checkLoopRequires: in a function with one range loop, the loop head cannot
// be re-entered from its body along a path that avoids an edge carrying each
// of the required facts (E6 dual form).
func (r *Run) checkLoopRequires(id string, f *ssa.Function, what, why string, required []string) {
	ff := r.E.Facts(f, core.Ctx{})
	head := loopHead(f)
	rule := "E6 (dual): the loop cannot start another iteration without, for the current element, " + strings.Join(required, " ∧ ")
	if head == nil {
		r.R.Unk(id, rule, core.FuncName(f), r.where(f), why, "no loop found")
		return
	}
	var missing []string
	for _, req := range required {
		// can head reach head avoiding edges that carry req? (feasible ways only: a flag merged from "found" and "not
		// found" and tested afterwards is followed on the value it arrives with)
		rq := req
		cycle := ff.WalkFeasible([]*ssa.BasicBlock{head}, func(a, b *ssa.BasicBlock) bool { return edgeHasAny(ff, a, b, rq) }, func(b *ssa.BasicBlock) bool { return b == head })
		// the required edge must exist at all
		exists := false
		for _, b := range f.Blocks {
			for _, s := range b.Succs {
				if edgeHasAny(ff, b, s, req) {
					exists = true
				}
			}
		}
		if cycle || !exists {
			missing = append(missing, req)
		}
	}
	r.R.Check(len(missing) == 0, id, rule, core.FuncName(f), r.where(f), why, what, "an iteration can complete without "+strings.Join(missing, ", "))
}

var _ = token.ADD

// checkLimitRoles: the four intake limits, each an inclusive bound on its own
// quantity governed by its own parameter (shared by C10 and C11: a request the
// client builds exactly at a limit must be accepted).
func (r *Run) checkLimitRoles(P string, sinks map[string][]sink, intakeFns map[*ssa.Function]bool) {
	for _, lr := range intakeLimits {
		id := P + ".role." + lr.Param
		rule := fmt.Sprintf("E3 role/live/exact/own: %s guards the %s with the inclusive operator and rejects on the exceeding edge", lr.Param, lr.What)
		why := "if the limit is strict, off by one, measured on another quantity or governed by another parameter, requests exactly at the boundary are wrongly rejected or oversized ones accepted"
		n := 0
		var bad []string
		for _, s := range sinks[lr.Param] {
			if !intakeFns[s.Fn] || (s.Kind != "cmp" && s.Kind != "elemcmp") {
				continue
			}
			if !core.MatchTerm(lr.Measure, s.Other, core.Bind{}) {
				bad = append(bad, fmt.Sprintf("%s compared with %s at %s (expected the %s)", lr.Param, short(s.Other.String(), 60), r.P.Pos(s.Instr.Pos()), lr.What))
				continue
			}
			exact, rejects, det := r.guardRejects(s)
			if lr.Eq && s.Op != "!=" && s.Op != "==" {
				exact = false
				det = "size must be compared for equality"
			}
			if !lr.Eq && (s.Op == "!=" || s.Op == "==") {
				exact = false
				det = "limit must be an upper bound, found equality test"
			}
			if !exact || !rejects {
				bad = append(bad, det+" at "+r.P.Pos(s.Instr.Pos()))
				continue
			}
			n++
		}
		// foreign parameters measuring the same quantity in intake code
		if lr.Param != "MaxOperationHashLength" {
			for other, ss := range sinks {
				if other == lr.Param {
					continue
				}
				for _, s := range ss {
					if intakeFns[s.Fn] && s.Kind == "cmp" && s.Other != nil && lr.Measure != "len(_)" && core.MatchTerm(lr.Measure, s.Other, core.Bind{}) && lr.Param != "MaxOperationSize" {
						bad = append(bad, fmt.Sprintf("the %s is compared with foreign parameter %s at %s", lr.What, other, r.P.Pos(s.Instr.Pos())))
					}
				}
			}
		}
		if n == 0 {
			bad = append(bad, "no guard of this role found in intake code (parameter not live)")
		}
		r.R.Check(len(bad) == 0, id, rule, "Protocol."+lr.Param, "pkg/api/protocol/protocol.go", why, fmt.Sprintf("%d guard(s) of this role", n), strings.Join(bad, "; "))
	}
}

// edgeHasAny: the edge carries one of the alternatives of req ("a | b").
func edgeHasAny(ff *core.FnFacts, b, s *ssa.BasicBlock, req string) bool {
	for _, alt := range strings.Split(req, " | ") {
		if edgeHas(ff, b, s, strings.TrimSpace(alt)) {
			return true
		}
	}
	return false
}
