package props

import (
	"fmt"
	"go/types"
	"sort"
	"strings"

	"golang.org/x/tools/go/ssa"

	"sidecheck/core"
)

func init() {
	register(&Checker{
		ID: "C20",
		Explanation: "Composition facts of C20 only (the end-to-end claim itself is a simulation property and is not decided): (version.thread) the protocol version under which an operation is accepted is followed hop by hop — REST handler → ProcessOperation (protocol.Get(version)) → queue add (that version's genesis time) → Writer.Add → cutter.Add → queue item → Cut result → process(ops, version) → protocol.Get(version).OperationHandler().PrepareTxnFiles and WriteAnchor(…, version) → observer: ForNamespace(txn.Namespace).Get(txn.ProtocolVersion).TransactionProcessor() → stamped on stored operations → resolution: protocol.Get(op.ProtocolVersion) selects parser and applier; the unpublished operation carries the same genesis time; " +
			"(stage.copies) every struct hand-off between stages copies every field of its table row (operation → queued operation, queued operation → queue item, operation → unpublished operation, transaction → stored operation); the one field dropped when cutting (QueuedOperation.AnchorOrigin) is a recorded exception; " +
			"(same.path) the create response, long-form resolution and short-form resolution all obtain their state from OperationApplier.Apply and their document from DocumentTransformer.TransformDocument of the same protocol version object. " +
			"(anchoring.order) the operations handed to the state machine are sorted chronologically (published and unpublished separately) on every path before they are grouped by commitment, whatever order the store returned them in. " +
			"Not decided: conformance of resolved state with a reference model over operation sequences, batch boundaries, several live protocol versions.",
		Run: runC20,
	})
}

// literalCopies: for the (single) literal of type dst in f, field -> source term.
func (r *Run) literalFieldTerms(f *ssa.Function, dst *types.Named) (map[string]*core.Term, *ssa.Alloc) {
	ff := r.E.Facts(f, core.Ctx{})
	ls := literalsOf(f, dst)
	if len(ls) != 1 {
		return nil, nil
	}
	for al, m := range ls {
		out := map[string]*core.Term{}
		for k, v := range m {
			out[k] = ff.TB.Of(v)
		}
		return out, al
	}
	return nil, nil
}

func runC20(r *Run) {
	const P = "C20"
	why := "if the version is lost or replaced on the way, an operation is validated, anchored or applied under another protocol version than the one in force when it was accepted"

	// hop 1: REST -> ProcessOperation with the current protocol's genesis time
	if f := r.fn(P, pkgRestDoc, "UpdateHandler.doUpdate"); f != nil {
		r.requireSucc(P+".version.thread.rest", why, f, core.Ctx{}, "",
			"ok(Client.Current(_))", "ok(Processor.ProcessOperation(_, $1, Version.Protocol(Client.Current(_)).GenesisTime))")
	}
	// hop 2: ProcessOperation: parse/validate under protocol.Get(version); queue with that version's genesis time
	if f := r.fn(P, pkgDocHandler, "DocumentHandler.ProcessOperation"); f != nil {
		ff := r.E.Facts(f, core.Ctx{})
		sites := r.effectSites(f, 3, "batchWriter.Add")
		ok := len(sites) == 1
		det := fmt.Sprintf("%d queue-add sites", len(sites))
		for c := range sites {
			at := ff.At(c)
			_, m := core.MatchAll(at, []string{"ok(Client.Get(_, $2))", "ok(OperationParser.Parse(Version.OperationParser(Client.Get(_, $2)), _, $1))"}, nil)
			vt := ff.TB.Of(c.Common().Args[len(c.Common().Args)-1])
			okV := core.MatchTerm("Version.Protocol(Client.Get(_, $2)).GenesisTime", vt, core.Bind{})
			ok = ok && m && okV
			det = "queued with " + vt.String()
		}
		r.R.Check(ok, P+".version.thread.intake", "E13: the operation is parsed by protocol.Get(version)'s parser and queued with that version's genesis time", core.FuncName(f), r.where(f), why, det, det)
	}
	// what is anchored is read back: the count in the anchor string is that of the operations in the files, or the
	// observer drops the whole batch (shared with C13)
	if f := r.fn(P, pkgProvider, "OperationHandler.PrepareTxnFiles"); f != nil {
		r.checkAnchorCount(P, f)
	}
	if f := r.fn(P, pkgDocHandler, "DocumentHandler.addToBatch"); f != nil {
		r.requireSucc(P+".version.thread.addToBatch", why, f, core.Ctx{}, "", "ok(batchWriter.Add(_, _, $2))")
	}
	if f := r.fn(P, pkgBatch, "Writer.Add"); f != nil {
		r.requireSucc(P+".version.thread.writer.add", why, f, core.Ctx{}, "", "ok(batchCutter.Add(_, $1, $2))")
	}
	if f := r.fn(P, pkgCutter, "BatchCutter.Add"); f != nil {
		r.requireSucc(P+".version.thread.cutter.add", why, f, core.Ctx{}, "", "ok(OperationQueue.Add(_, $1, $2))")
	}
	// queue item literal
	qat := r.P.Named(pkgOperation, "QueuedOperationAtTime")
	if f := r.fn(P, pkgOpQueue, "MemQueue.Add"); f != nil && qat != nil {
		m, al := r.literalFieldTerms(f, qat)
		ok := m != nil && m["ProtocolVersion"] != nil && m["ProtocolVersion"].String() == "$protocolVersion" && m["QueuedOperation"] != nil && strings.Contains(m["QueuedOperation"].String(), "$data")
		det := fmt.Sprint(m)
		_ = al
		r.R.Check(ok, P+".version.thread.queue.item", "E5: the queue item stores the whole queued operation and the version it was added with", core.FuncName(f), r.where(f), why, det, det)
	}
	// Cut result carries the prefix's version (C16.cut.version) into process
	if f := r.fn(P, pkgCutter, "BatchCutter.Cut"); f != nil {
		ff := r.E.Facts(f, core.Ctx{})
		ok := false
		for _, ri := range ff.Returns() {
			for _, fc := range ri.Facts {
				if fc.Kind == "stored" && strings.HasSuffix(fc.A.String(), ".ProtocolVersion") {
					// (zero-tolerant: see C16.cut.count — the zero alternative belongs to the empty candidate, for
					// which nothing is removed)
					ok = core.MatchTerm("getOperationsAtProtocolVersion(OperationQueue.Peek(...))#1", core.StripOrZero(fc.B), core.Bind{})
				}
			}
		}
		r.R.Check(ok, P+".version.thread.cut", "E13: the cut result's protocol version is the one the same-version prefix was selected with", core.FuncName(f), r.where(f), why, "Result.ProtocolVersion = prefix version", "Result.ProtocolVersion is another value")
	}
	if f := r.fn(P, pkgBatch, "Writer.cutAndProcess"); f != nil {
		ff := r.E.Facts(f, core.Ctx{})
		ok := false
		for _, c := range r.callsIn(f, "Writer.process") {
			ok = core.MatchTerm("Cut(_, _).ProtocolVersion", ff.TB.Of(c.Common().Args[2]), core.Bind{}) && core.MatchTerm("Cut(_, _).Operations", ff.TB.Of(c.Common().Args[1]), core.Bind{})
		}
		r.R.Check(ok, P+".version.thread.process", "E13: the batch is processed with the cut's own operations and version", core.FuncName(f), r.where(f), why, "process(result.Operations, result.ProtocolVersion)", "other arguments")
	}
	if f := r.fn(P, pkgBatch, "Writer.process"); f != nil {
		r.requireSucc(P+".version.thread.anchor", why, f, core.Ctx{}, "",
			"ok(Client.Get(_, $2))", "ok(OperationHandler.PrepareTxnFiles(Version.OperationHandler(Client.Get(_, $2)), $1))", "ok(WriteAnchor(_, _, _, _, $2))")
	}
	// observer + stamping (shared with C15)
	if f := r.fn(P, pkgObserver, "Observer.process"); f != nil {
		ff := r.E.Facts(f, core.Ctx{})
		ok := false
		for _, c := range r.callsIn(f, "TxnProcessor.Process") {
			at := ff.At(c)
			b, m := core.MatchAll(at, []string{"ok(ClientProvider.ForNamespace(_, ?t.Namespace))", "ok(Client.Get(ClientProvider.ForNamespace(_, ?t.Namespace), ?t.ProtocolVersion))"}, nil)
			if m {
				recv := ff.TB.Of(core.CallArgs(c.Common())[0])
				arg := ff.TB.Of(core.CallArgs(c.Common())[1])
				ok = matchTermVia(at, "Version.TransactionProcessor(Client.Get(_, ?t.ProtocolVersion))", recv, b) && strings.Contains(arg.String(), b["t"].String())
			}
		}
		r.R.Check(ok, P+".version.thread.observer", "E13: each transaction is handed to the transaction processor of protocol.Get(txn.ProtocolVersion) for txn.Namespace", core.FuncName(f), r.where(f), why, "as prescribed", "processor not selected by the transaction's own version")
	}
	txnT := r.P.Named(pkgTxn, "SidetreeTxn")
	opT := r.P.Named(pkgOperation, "AnchoredOperation")
	if txnT != nil && opT != nil {
		okStamp := false
		for _, f := range r.P.SubjectFuncs(pkgTxnProc) {
			if cp := fieldCopies(f, opT, txnT); cp["ProtocolVersion"] == "ProtocolVersion" {
				okStamp = true
			}
		}
		r.R.Check(okStamp, P+".version.thread.stamp", "E5: stored operations are stamped with the transaction's protocol version", "txnprocessor", "-", why, "op.ProtocolVersion = txn.ProtocolVersion", "no such copy")
	}
	// resolution: parser / applier selected by op.ProtocolVersion
	for _, h := range []struct{ fn, pat string }{
		{"OperationProcessor.applyOperation", "ok(OperationApplier.Apply(Version.OperationApplier(Client.Get(_, $1.ProtocolVersion)), $1, $2))"},
		{"OperationProcessor.getRevealValue", "ok(OperationParser.GetRevealValue(Version.OperationParser(Client.Get(_, $1.ProtocolVersion)), $1.OperationRequest))"},
		{"OperationProcessor.getCommitment", "ok(OperationParser.GetCommitment(Version.OperationParser(Client.Get(_, $1.ProtocolVersion)), $1.OperationRequest))"},
	} {
		if f := r.fn(P, pkgProcessor, h.fn); f != nil {
			r.requireSucc(P+".version.thread.resolve."+strings.TrimPrefix(h.fn, "OperationProcessor."), why, f, core.Ctx{}, "", "ok(Client.Get(_, $1.ProtocolVersion))", h.pat)
		}
	}

	// --- stage.copies
	type row struct {
		id, pkg, fn, dstPkg, dst string
		want                     map[string]string
		exceptions               map[string]string
	}
	rows := []row{
		{"operation→queued", pkgDocHandler, "DocumentHandler.addToBatch", pkgOperation, "QueuedOperation",
			map[string]string{"Type": "$1.Type", "Namespace": "$0.namespace", "UniqueSuffix": "$1.UniqueSuffix", "OperationRequest": "$1.OperationRequest", "AnchorOrigin": "$1.AnchorOrigin", "Properties": "$1.Properties"}, nil},
		{"queue→cut", pkgCutter, "getOperationsAtProtocolVersion", pkgOperation, "QueuedOperation",
			map[string]string{"Type": "$0[_].QueuedOperation.Type", "Namespace": "$0[_].QueuedOperation.Namespace", "UniqueSuffix": "$0[_].QueuedOperation.UniqueSuffix", "OperationRequest": "$0[_].QueuedOperation.OperationRequest", "Properties": "$0[_].QueuedOperation.Properties"},
			map[string]string{"AnchorOrigin": "dropped when cutting: for create/recover the anchor origin is taken from the request itself downstream; for update/deactivate it only feeds the anchor origin of OperationReferences handed to WriteAnchor, which no given property constrains (recorded as F7 in DESIGN.md, not a finding)"}},
		{"operation→unpublished", pkgDocHandler, "DocumentHandler.getUnpublishedOperation", pkgOperation, "AnchoredOperation",
			map[string]string{"Type": "$1.Type", "UniqueSuffix": "$1.UniqueSuffix", "OperationRequest": "$1.OperationRequest", "ProtocolVersion": "Version.Protocol($2).GenesisTime", "AnchorOrigin": "$1.AnchorOrigin"},
			map[string]string{"TransactionTime": "set to the current time (unpublished)", "TransactionNumber": "zero for unpublished operations", "CanonicalReference": "empty marks the operation as unpublished", "EquivalentReferences": "none for unpublished operations"}},
		{"operation→create-result", pkgDocHandler, "GetCreateResult", pkgOperation, "AnchoredOperation",
			map[string]string{"Type": "$0.Type", "UniqueSuffix": "$0.UniqueSuffix", "OperationRequest": "$0.OperationRequest", "ProtocolVersion": "Version.Protocol($1).GenesisTime", "AnchorOrigin": "$0.AnchorOrigin"},
			map[string]string{"TransactionTime": "set to the current time (not yet anchored)", "TransactionNumber": "zero", "CanonicalReference": "empty: unpublished", "EquivalentReferences": "none"}},
	}
	for _, rw := range rows {
		f := r.fn(P, rw.pkg, rw.fn)
		T := r.P.Named(rw.dstPkg, rw.dst)
		if f == nil || T == nil {
			continue
		}
		m, al := r.literalFieldTerms(f, T)
		id := P + ".stage.copies." + rw.id
		rule := "E5 dst-complete (row " + rw.id + "): the hand-off literal assigns every field of " + rw.dst + " from the like-named source field (exceptions listed with a reason)"
		if m == nil {
			r.R.Unk(id, rule, core.FuncName(f), r.where(f), "-", "expected exactly one "+rw.dst+" literal")
			continue
		}
		st := T.Underlying().(*types.Struct)
		var missing, wrong []string
		for i := 0; i < st.NumFields(); i++ {
			fld := st.Field(i).Name()
			pat, need := rw.want[fld]
			if !need {
				if _, exc := rw.exceptions[fld]; !exc {
					if _, set := m[fld]; !set {
						missing = append(missing, fld+" (no table entry)")
					}
				}
				continue
			}
			t, set := m[fld]
			if !set {
				missing = append(missing, fld)
				continue
			}
			if !core.MatchTerm(pat, t, core.Bind{}) {
				wrong = append(wrong, fld+" = "+t.String())
			}
		}
		sort.Strings(missing)
		var exc []string
		for k, v := range rw.exceptions {
			exc = append(exc, k+": "+v)
		}
		sort.Strings(exc)
		r.R.List("stage-copy exceptions ("+rw.id+")", exc...)
		r.R.Check(len(missing) == 0 && len(wrong) == 0, id, rule, core.FuncName(f), r.P.Pos(al.Pos()),
			"a field lost at a hand-off (type, suffix, request bytes, version …) changes what is anchored or how it is applied", fmt.Sprintf("%d fields copied", len(rw.want)), fmt.Sprintf("missing %v; wrong %v", missing, wrong))
	}

	// --- composition-critical obligations shared with C16 / C13
	r.checkCut(P)
	r.checkReaderLayout(P, r.checkWriterChunkOrder(P))
	// the reference state machine at both ends of the pipeline: one operation per DID per batch on the way in
	// (the rest is re-queued), recovery chain then update chain on the way out
	r.checkPartition(P)
	r.checkFullThenUpdate(P)
	// 'in anchoring order': what the reference state machine is fed is the chronologically sorted store content (shared with C02)
	r.checkSortedBeforeGroup(P)

	// --- same.path
	if f := r.fn(P, pkgDocHandler, "GetCreateResult"); f != nil {
		r.requireSucc(P+".same.path.create.state", "the create response / long-form state must come from the version's operation applier", f, core.Ctx{}, "",
			"cmp(<result> == OperationApplier.Apply(Version.OperationApplier($1), _, _))")
	}
	for _, h := range []struct{ fn, what string }{
		{"DocumentHandler.getCreateResponse", "create response"},
		{"DocumentHandler.resolveRequestWithInitialState", "long-form resolution"},
	} {
		if f := r.fn(P, pkgDocHandler, h.fn); f != nil {
			r.requireSucc(P+".same.path."+strings.TrimPrefix(h.fn, "DocumentHandler."), "the "+h.what+" must transform the applier's state with the version's document transformer", f, core.Ctx{}, "",
				"ok(GetCreateResult(_, ?pv))", "ok(DocumentTransformer.TransformDocument(Version.DocumentTransformer(?pv), GetCreateResult(_, ?pv), _))")
		}
	}
	if f := r.fn(P, pkgDocHandler, "DocumentHandler.resolveRequestWithID"); f != nil {
		r.requireSucc(P+".same.path.resolveRequestWithID", "short-form resolution must transform the processor's state with the version's document transformer", f, core.Ctx{}, "",
			"ok(operationProcessor.Resolve(_, $2, ...))", "cmp(<result> == DocumentTransformer.TransformDocument(Version.DocumentTransformer($3), operationProcessor.Resolve(_, $2, ...), _))")
	}
	// the processor's state comes from Apply as well (through applyOperation, checked above)
	if f := r.fn(P, pkgProcessor, "OperationProcessor.applyFirstValidCreateOperation"); f != nil {
		ff := r.E.Facts(f, core.Ctx{})
		ok := false
		for _, ri := range ff.Returns() {
			if core.MatchTerm("applyOperation(_, _, $2)", ff.TB.Of(core.RetOp(ri.Ret, 0)), core.Bind{}) {
				ok = true
			}
		}
		r.R.Check(ok, P+".same.path.processor", "E13: the resolved base state is the result of applyOperation → OperationApplier.Apply", core.FuncName(f), r.where(f), "-", "state from Apply", "state from elsewhere")
	}
}
