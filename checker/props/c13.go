package props

import (
	"fmt"
	"go/constant"
	"go/token"
	"sort"
	"strings"

	"golang.org/x/tools/go/ssa"

	"sidecheck/core"
)

func init() {
	register(&Checker{
		ID: "C13",
		Explanation: "Structural necessary conditions of C13 (writer and reader are each other's oracle): (layout) the chunk file's deltas are laid out create, recover, update by the writer and the reader appends the operation groups in the same order before assigning deltas positionally, then appends deactivates — final order create, recover, update, deactivate; each proof list feeds the like-named group on both sides (core proof recover/deactivate, provisional proof update) and each index list is built from the like-named sorted list; the anchor count is Size() = sum of the four lists; " +
			"(partition) every iteration of the batch parsing loop ends in exactly one of {typed list, additional, expired, error}, a typed append happens only when the suffix is not yet in the batch and records the suffix; (request) the request literals that re-create the anchored request assign every field the parser reads, with the prescribed provenance, and the anchored operation carries type, suffix, JCS(request) and anchor origin; anchor-origin provenance for create (suffix data) and recover (signed data) on both sides; " +
			"(special) provisional files are skipped iff every input operation is a deactivate, and the reader's deactivate-only branch is keyed on the same empty reference. " +
			"Not decided: JSON equality of the round-tripped request (serialisation semantics); the compression round trip.",
		Run: runC13,
	})
}

// appendChain follows append(prev, xs...) links backwards from v and returns
// the spread operands in order (oldest first) with the append calls.
func appendChain(v ssa.Value) ([]ssa.Value, []*ssa.Call) {
	var ops []ssa.Value
	var calls []*ssa.Call
	// `for _, g := range []T{a, b, c} { x = append(x, f(g)...) }`: the chain is the literal's elements in order
	if phi, ok := v.(*ssa.Phi); ok {
		if elems, call := loopOverLiteral(phi); len(elems) > 0 {
			for range elems {
				calls = append(calls, call)
			}
			return elems, calls
		}
	}
	for {
		c, ok := v.(*ssa.Call)
		if !ok || !isBuiltin(c, "append") {
			break
		}
		ops = append([]ssa.Value{c.Common().Args[1]}, ops...)
		calls = append([]*ssa.Call{c}, calls...)
		v = c.Common().Args[0]
	}
	return ops, calls
}

// groupOf names the operation group a term denotes (Create/Recover/Update/Deactivate field).
func groupOf(t *core.Term) string {
	for t != nil {
		if t.Op == "field" {
			switch t.Name {
			case "Create", "Recover", "Update", "Deactivate":
				return t.Name
			}
		}
		if t.Op == "call" && len(t.Args) > 0 {
			// helper(ops.X) -> look at its argument
			t = t.Args[len(t.Args)-1]
			continue
		}
		if len(t.Args) == 0 {
			return ""
		}
		t = t.Args[0]
	}
	return ""
}

func runC13(r *Run) {
	const P = "C13"
	why := "if writer and reader disagree on the layout, deltas or signed data are attached to the wrong operation and the batch does not read back as written"

	// --- layout: writer chunk order
	writerSeq := r.checkWriterChunkOrder(P)
	r.checkReaderLayout(P, writerSeq)
	r.checkReaderCountsMismatchOnly(P)
	r.checkWriterProofPresence(P)
	// --- layout: proof / index writers
	type listSpec struct{ fn, field, want string }
	for _, ls := range []listSpec{
		{"CreateCoreProofFile", "Recover", "getSignedData($0)"}, {"CreateCoreProofFile", "Deactivate", "getSignedData($1)"},
		{"CreateProvisionalProofFile", "Update", "getSignedData($0)"},
		{"CreateCoreIndexFile", "Create", "assembleCreateReferences($2.Create)"}, {"CreateCoreIndexFile", "Recover", "getOperationReferences($2.Recover)"}, {"CreateCoreIndexFile", "Deactivate", "getOperationReferences($2.Deactivate)"},
		{"CreateProvisionalIndexFile", "Update", "getOperationReferences($2)"},
	} {
		f := r.fn(P, pkgModels, ls.fn)
		if f == nil {
			continue
		}
		ff := r.E.Facts(f, core.Ctx{})
		ok := false
		det := "field not assigned"
		for _, b := range f.Blocks {
			for _, ins := range b.Instrs {
				if st, isSt := ins.(*ssa.Store); isSt {
					if fa, isFA := st.Addr.(*ssa.FieldAddr); isFA && fieldName(fa) == ls.field {
						t := ff.TB.Of(st.Val)
						det = t.String()
						ok = core.MatchTerm(ls.want, t, core.Bind{})
					}
				}
			}
		}
		r.R.Check(ok, fmt.Sprintf("%s.layout.writer.%s.%s", P, ls.fn, ls.field), "E12: "+ls.fn+" fills "+ls.field+" from "+ls.want, core.FuncName(f), r.where(f), why, det, "filled from "+det)
	}
	// handler threads the like-named sorted lists into the file constructors
	if f := r.fn(P, pkgProvider, "OperationHandler.PrepareTxnFiles"); f != nil {
		ff := r.E.Facts(f, core.Ctx{})
		type thr struct {
			callee string
			want   []string
		}
		for _, th := range []thr{
			{"createCoreProofFile", []string{"", "parseOperations(_, $1).Recover", "parseOperations(_, $1).Deactivate"}},
			{"createProvisionalProofFile", []string{"", "parseOperations(_, $1).Update"}},
			{"createChunkFile", []string{"", "parseOperations(_, $1)"}},
			{"createProvisionalIndexFile", []string{"", "_", "createProvisionalProofFile(...)", "parseOperations(_, $1).Update"}},
			{"createCoreIndexFile", []string{"", "createCoreProofFile(...)", "_", "parseOperations(_, $1)"}},
		} {
			calls := r.callsIn(f, "OperationHandler."+th.callee)
			ok := len(calls) == 1
			det := fmt.Sprintf("%d calls", len(calls))
			for _, c := range calls {
				for i, w := range th.want {
					if w == "" || w == "_" {
						continue
					}
					t := ff.TB.Of(c.Common().Args[i])
					if !core.MatchTerm(w, t, core.Bind{}) {
						ok = false
						det = fmt.Sprintf("argument %d is %s", i, t)
					}
				}
			}
			r.R.Check(ok, P+".layout.thread."+th.callee, "E13 ArgIs: the handler passes the like-named sorted lists / file references", core.FuncName(f), r.where(f), why, "arguments as prescribed", det)
		}
		// helper functions forward their arguments unchanged to the models constructors
		for _, h := range []struct{ fn, want string }{
			{"createCoreProofFile", "models.CreateCoreProofFile($1, $2)"},
			{"createProvisionalProofFile", "models.CreateProvisionalProofFile($1)"},
			{"createChunkFile", "models.CreateChunkFile($1)"},
			{"createProvisionalIndexFile", "models.CreateProvisionalIndexFile($1, $2, $3)"},
			{"createCoreIndexFile", "models.CreateCoreIndexFile($1, $2, $3)"},
		} {
			if g := r.fn(P, pkgProvider, "OperationHandler."+h.fn); g != nil {
				r.requireEachSuccess(P+".layout.forward."+h.fn, "the file written must be built from exactly the lists handed in (or nothing is written for empty lists)", g, core.Ctx{},
					[]string{"ok(writeModelToCAS(_, " + h.want + ", _))"},
					[]string{`cmp(<result> == "")`, "cmp(_ == 0)"})
			}
		}
		r.checkAnchorCount(P, f)
		// special case
		okSpecial := false
		det2 := "createCoreIndexFile not found"
		for _, c := range r.callsIn(f, "OperationHandler.createCoreIndexFile") {
			v := c.Common().Args[2]
			leaves := phiLeaves(v)
			hasEmpty, hasIdx := false, false
			for _, l := range leaves {
				t := ff.TB.Of(l)
				if t.String() == `""` {
					hasEmpty = true
				} else if core.MatchTerm("createProvisionalIndexFile(...)", t, core.Bind{}) {
					hasIdx = true
					if lc, ok := l.(*ssa.Extract); ok {
						if call, ok := lc.Tuple.(*ssa.Call); ok {
							if !core.HasFact(ff.At(call), "cmp(len(parseOperations(_, $1).Deactivate) != len($1))") {
								hasIdx = false
							}
						}
					}
				}
			}
			okSpecial = hasEmpty && hasIdx && len(leaves) == 2
			det2 = fmt.Sprintf("provisional index reference is one of %d values (empty:%v, created under len(deactivates) != len(input ops):%v)", len(leaves), hasEmpty, hasIdx)
		}
		r.R.Check(okSpecial, P+".special.writer", "E2/E13: the provisional index reference is empty iff all input operations are deactivates; otherwise it is the file just created", core.FuncName(f), r.where(f),
			"the reader takes the deactivate-only path exactly when this reference is empty", det2, det2)
	}
	if f := r.fn(P, pkgModels, "SortedOperations.Size"); f != nil {
		ff := r.E.Facts(f, core.Ctx{})
		groups := map[string]bool{}
		for _, b := range f.Blocks {
			for _, ins := range b.Instrs {
				if c, ok := ins.(*ssa.Call); ok && isBuiltin(c, "len") {
					groups[groupOf(ff.TB.Of(c.Common().Args[0]))] = true
				}
			}
		}
		r.R.Check(len(groups) == 4 && groups["Create"] && groups["Update"] && groups["Recover"] && groups["Deactivate"], P+".count.size", "E7: Size() sums all four lists", core.FuncName(f), r.where(f),
			"a list missing from the sum makes the anchor count differ from the number of operations read back", fmt.Sprint(groups), fmt.Sprint(groups))
	}
	// reader special: deactivate-only branch keyed on the empty provisional reference
	if f := r.fn(P, pkgProvider, "OperationProvider.assembleAnchoredOperations"); f != nil {
		ff := r.E.Facts(f, core.Ctx{})
		ok := false
		for _, ri := range ff.Returns() {
			if ri.Class != core.RetSuccess {
				continue
			}
			t := ff.TB.Of(core.RetOp(ri.Ret, 0))
			ops, _ := appendChain(nil)
			_ = ops
			if core.HasFact(ri.Facts, `cmp($1.CoreIndex.ProvisionalIndexFileURI == "")`) {
				ok = core.MatchTerm("createAnchoredOperations(parseCoreIndexOperations(...).Deactivate)", t, core.Bind{})
			}
		}
		r.R.Check(ok, P+".special.reader", "E2: the deactivate-only return is taken exactly under ProvisionalIndexFileURI == \"\" and returns the core index's deactivates", core.FuncName(f), r.where(f),
			"writer and reader must agree on the deactivate-only special case", "keyed on the empty provisional reference", "no success return under the empty reference that returns the deactivates")
	}

	r.checkPartition(P)
	r.checkAnchoredRequest(P)
	r.checkCompressWhole(P)
	// … and the reader's side of the same round trip: the whole stream, only without error, from the algorithm named;
	// every file reference is fetched (primary or alternate source alike); the count announced is the count read back
	r.checkDecompress(P)
	r.checkFetchEveryReference(P)
	r.checkCountsAnchor(P)
	// what is written into the files is what was queued: no partial hand-made copy of a model on the way
	r.checkSameTypeCopies(P, pkgModels, pkgProvider)
}

// checkCompressWhole: what the writer stores is the complete gzip stream of exactly the file content — written, then
// closed (the close writes the last block and the trailer), both without error, and only then taken from the buffer.
func (r *Run) checkCompressWhole(P string) {
	if f := r.fn(P, pkgCompression+"/gzip", "Algorithm.Compress"); f != nil {
		_, ok := r.requireSucc(P+".compress.whole", "if the stream is taken before a successful Close, or a write error is ignored, the stored file is a truncated gzip stream that no reader can decompress", f, core.Ctx{}, "",
			"ok(Writer.Write(?w, $1))", "ok(Writer.Close(?w))", "cmp(<result> == Buffer.Bytes(_))")
		if ok {
			// order: the buffer is read after the writer was closed without error (a fact at the read, so that the close may
			// sit in a helper or a function literal whose error is tested after the join)
			ff := r.E.Facts(f, core.Ctx{})
			reads := r.callsIn(f, "Buffer.Bytes")
			good := len(reads) >= 1
			for _, rd := range reads {
				if !core.HasFact(ff.At(rd), "ok(Writer.Close(_))") {
					good = false
				}
			}
			r.R.Check(good, P+".compress.order", "typestate: the buffer is read only after the gzip writer has been closed", core.FuncName(f), r.where(f),
				"gzip.Writer buffers: before Close the buffer lacks the final block and the CRC/size trailer", "Bytes() after a successful Close()", "a read of the buffer is not preceded, on every path, by a Close of the writer that returned no error")
		}
	}
	if f := r.fn(P, pkgCompression, "Registry.Compress"); f != nil {
		r.requireSucc(P+".compress.registry", "the registry must hand back what an algorithm that accepts the requested name produced (the reader selects by the same name), and only when that algorithm reported no error", f, core.Ctx{}, "",
			"true(Algorithm.Accept(?a, $1))", "ok(Algorithm.Compress(?a, $2))", "cmp(<result> == Algorithm.Compress(?a, $2))")
	}
}

// checkPartition: the batch parsing loop.
func (r *Run) checkPartition(P string) {
	f := r.fn(P, pkgProvider, "OperationHandler.parseOperations")
	if f == nil {
		return
	}
	ff := r.E.Facts(f, core.Ctx{})
	// find the first (main) loop head: the one whose body calls ParseOperation
	var head *ssa.BasicBlock
	for _, c := range r.callsIn(f, "ParseOperation") {
		head = enclosingLoopHead(f, c.Block())
	}
	rule := "E8 exactly-one-of: every iteration of the batch loop ends in exactly one of {append to a typed list, append to additional, append to expired, return error}"
	why := "an operation accounted for twice or not at all is duplicated in, or lost from, the batch"
	if head == nil {
		r.R.Unk(P+".partition", rule, core.FuncName(f), r.where(f), why, "loop over ParseOperation not found")
		return
	}
	// enumerate paths from head back to head or to a return
	type pathRes struct {
		events []string
		ret    bool
		isErr  bool
		blocks []*ssa.BasicBlock
	}
	var results []pathRes
	var rec func(b *ssa.BasicBlock, seen map[*ssa.BasicBlock]bool, ev []string, blocks []*ssa.BasicBlock)
	classify := func(c *ssa.Call) string {
		if !isBuiltin(c, "append") {
			return ""
		}
		// destination: which variable / field is extended
		first := ff.TB.Of(c.Common().Args[0]).String()
		var elems []string
		for _, e := range variadicElems(c.Common().Args[1]) {
			elems = append(elems, ff.TB.Of(e).String())
		}
		el := strings.Join(elems, ",")
		switch {
		case strings.Contains(first, "SortedOperations") && (strings.HasSuffix(first, ".Create") || strings.HasSuffix(first, ".Update") || strings.HasSuffix(first, ".Recover") || strings.HasSuffix(first, ".Deactivate")):
			return "typed:" + first[strings.LastIndex(first, ".")+1:]
		case strings.Contains(el, "$ops[") || strings.Contains(el, "$1["):
			return "queued"
		}
		return ""
	}
	rec = func(b *ssa.BasicBlock, seen map[*ssa.BasicBlock]bool, ev []string, blocks []*ssa.BasicBlock) {
		if len(results) > 4000 {
			return
		}
		blocks = append(blocks, b)
		for _, ins := range b.Instrs {
			switch x := ins.(type) {
			case *ssa.Call:
				if k := classify(x); k != "" {
					ev = append(append([]string{}, ev...), k)
				}
			case *ssa.MapUpdate:
				ev = append(append([]string{}, ev...), "record-suffix")
			case *ssa.Return:
				ei := len(x.Results) - 1
				results = append(results, pathRes{events: ev, ret: true, isErr: !isNilConstV(x.Results[ei]), blocks: blocks})
				return
			}
		}
		for _, s := range b.Succs {
			if !ff.IsLiveEdge(b, s) {
				continue
			}
			if s == head {
				results = append(results, pathRes{events: ev, blocks: append(blocks, s)})
				continue
			}
			if seen[s] {
				continue
			}
			seen[s] = true
			rec(s, seen, ev, blocks)
			delete(seen, s)
		}
	}
	// start from the body successor(s) of head that stay in the loop
	for _, s := range head.Succs {
		if blockReaches(ff, s, head, nil) {
			rec(s, map[*ssa.BasicBlock]bool{s: true}, nil, []*ssa.BasicBlock{head})
		}
	}
	bad := []string{}
	nIter := 0
	infeasible := 0
	for _, pr := range results {
		if pr.ret && !pr.isErr {
			continue // exit of the loop after the range is exhausted is not an iteration
		}
		// a path on which the parsed operation's type differs from all four
		// constants is infeasible: ParseOperation succeeds only through one of
		// the four type parsers, each of which sets its own constant (checked
		// by .partition.types below)
		neq := map[string]bool{}
		for i := 0; i+1 < len(pr.blocks); i++ {
			for _, fc := range ff.EdgeFacts(pr.blocks[i], pr.blocks[i+1]) {
				if fc.Kind == "cmp" && fc.Op == "!=" && fc.A.Op == "field" && fc.A.Name == "Type" && fc.B.Op == "const" {
					neq[fc.B.Name] = true
				}
			}
		}
		if len(neq) >= 4 {
			infeasible++
			continue
		}
		nIter++
		typed, queued, rec2 := 0, 0, 0
		for _, e := range pr.events {
			switch {
			case strings.HasPrefix(e, "typed:"):
				typed++
			case e == "queued":
				queued++
			case e == "record-suffix":
				rec2++
			}
		}
		outcomes := typed + queued
		if pr.ret && pr.isErr {
			outcomes = 1 // the whole batch is rejected: nothing is accounted for
			typed, rec2 = 0, 0
		}
		if outcomes != 1 {
			bad = append(bad, fmt.Sprintf("an iteration has %d outcomes (events %v, error return %v)", outcomes, pr.events, pr.ret && pr.isErr))
		}
		if typed == 1 && !(pr.ret && pr.isErr) && rec2 != 1 {
			bad = append(bad, fmt.Sprintf("a typed append without recording the suffix exactly once (events %v)", pr.events))
		}
		if typed == 0 && rec2 > 0 {
			bad = append(bad, "suffix recorded without including the operation")
		}
	}
	r.R.Count("E8 loop-iteration paths enumerated", nIter)
	r.R.Count("E8 infeasible type-switch fall-through paths pruned", infeasible)
	// premise of the pruning: each type parser returns an operation of its own type
	for _, role := range opRoles {
		if pf := r.fn(P, pkgParser, "Parser."+role.ParseOp); pf != nil {
			r.requireSucc(P+".partition.types."+role.Type, "premise of the partition rule: a parsed operation carries the type of the parser that produced it", pf, core.Ctx{}, "",
				`cmp(<result>.Type == "`+role.Type+`")`)
		}
	}
	r.R.Check(len(bad) == 0 && nIter >= 6, P+".partition", rule, core.FuncName(f), r.where(f), why, fmt.Sprintf("%d iteration paths, each with exactly one outcome", nIter), strings.Join(dedupe(bad), "; ")+fmt.Sprintf(" (%d paths)", nIter))
	// typed append only under miss(batchSuffixes, op.UniqueSuffix); expired only under the sentinel; additional only under hit
	okMiss, okHit, okExp := true, false, false
	nTyped := 0
	for _, b := range f.Blocks {
		for _, ins := range b.Instrs {
			c, ok := ins.(*ssa.Call)
			if !ok {
				continue
			}
			switch k := classify(c); {
			case strings.HasPrefix(k, "typed:"):
				nTyped++
				at := ff.At(c)
				bnd, m := core.MatchAll(at, []string{"ok(ParseOperation(_, ?ns, ?req, false))", "miss(_, ParseOperation(_, ?ns, ?req, false).UniqueSuffix)", `cmp(ParseOperation(_, ?ns, ?req, false).Type == "` + strings.ToLower(strings.TrimPrefix(k, "typed:")) + `")`}, nil)
				if !m {
					okMiss = false
				} else {
					// the appended element is that parsed operation
					elOK := false
					for _, e := range variadicElems(c.Common().Args[1]) {
						if core.MatchTerm("ParseOperation(_, ?ns, ?req, false)", ff.TB.Of(e), bnd) {
							elOK = true
						}
					}
					if !elOK {
						okMiss = false
					}
				}
			case k == "queued":
				at := ff.At(c)
				if core.HasFact(at, "hit(_, ParseOperation(...).UniqueSuffix)") {
					okHit = true
				}
				if core.HasFact(at, "fail(ParseOperation(...))") && core.HasFact(at, "cmp(err(ParseOperation(...)) == operationparser.ErrOperationExpired)") {
					okExp = true
				} else if core.HasFact(at, "fail(ParseOperation(...))") {
					// the sentinel test may sit in an earlier statement (`if e != nil && e != Expired { return }; if e != nil {…}`):
					// then it holds on every feasible way through the iteration to this append, not as one dominating edge
					if head := enclosingLoopHead(f, c.Block()); head != nil {
						nWays, all := 0, true
						for _, ip := range loopIterationPaths(ff, head, 4000) {
							cut := -1
							for i, b := range ip.Blocks {
								if b == c.Block() {
									cut = i
									break
								}
							}
							if cut < 0 {
								continue
							}
							pf := rawPathFacts(ff, ip.Blocks[:cut+1])
							if core.HasFact(pf, "ok(ParseOperation(...))") && core.HasFact(pf, "fail(ParseOperation(...))") {
								continue // contradictory: the error cannot be nil at one test and non-nil at the next
							}
							nWays++
							if !core.HasFact(pf, "cmp(err(ParseOperation(...)) == operationparser.ErrOperationExpired)") {
								all = false
							}
						}
						if nWays > 0 && all {
							okExp = true
						}
					}
				}
			}
		}
	}
	r.R.Check(okMiss && nTyped == 4 && okHit && okExp, P+".partition.guards", "E2 Before: typed append of the parsed operation only under Ok(ParseOperation non-batch) ∧ suffix not yet in the batch ∧ matching type; deferred only when the suffix is present; expired only on ErrOperationExpired",
		core.FuncName(f), r.where(f), "the first queued operation per suffix is the one included; later ones are deferred; only expired ones are dropped",
		"4 typed appends guarded; deferred under hit; expired under the sentinel", fmt.Sprintf("typed appends %d (all guarded: %v), deferred under hit: %v, expired under sentinel: %v", nTyped, okMiss, okHit, okExp))
	// anchor origin provenance in references (writer side)
	okC, okR := false, false
	for _, b := range f.Blocks {
		for _, ins := range b.Instrs {
			if st, ok := ins.(*ssa.Store); ok {
				if fa, ok := st.Addr.(*ssa.FieldAddr); ok && fieldName(fa) == "AnchorOrigin" {
					for _, l := range phiLeaves(st.Val) {
						t := ff.TB.Of(l)
						if core.MatchTerm("ParseOperation(...).SuffixData.AnchorOrigin", t, core.Bind{}) {
							okC = true
						}
						if core.MatchTerm("ParseSignedDataForRecover(_, ParseOperation(...).SignedData).AnchorOrigin", t, core.Bind{}) {
							okR = true
						}
					}
				}
			}
		}
	}
	r.R.Check(okC && okR, P+".request.anchororigin.writer", "E5 provenance: the operation reference's anchor origin is the one embedded in the request (create: suffix data; recover: signed data)", core.FuncName(f), r.where(f),
		"for create and recover the anchor origin must be the one embedded in the request", "create←suffixData, recover←signedData", fmt.Sprintf("create from suffix data: %v; recover from signed data: %v", okC, okR))
}

// enclosingLoopHead returns the head of the innermost loop containing b (a
// block that dominates b and is the target of a back edge from a block
// reachable from b).
func enclosingLoopHead(f *ssa.Function, b *ssa.BasicBlock) *ssa.BasicBlock {
	for d := b; d != nil; d = d.Idom() {
		for _, p := range d.Preds {
			// back edge p->d if d dominates p
			if d.Dominates(p) && (p == b || reachableFrom(b, p, d)) {
				return d
			}
		}
	}
	return nil
}

func reachableFrom(from, to, stop *ssa.BasicBlock) bool {
	seen := map[*ssa.BasicBlock]bool{from: true}
	work := []*ssa.BasicBlock{from}
	for len(work) > 0 {
		x := work[len(work)-1]
		work = work[:len(work)-1]
		if x == to {
			return true
		}
		for _, s := range x.Succs {
			if s == stop || seen[s] {
				continue
			}
			seen[s] = true
			work = append(work, s)
		}
	}
	return false
}

// checkAnchoredRequest: model.GetAnchoredOperation re-creates the request.
func (r *Run) checkAnchoredRequest(P string) {
	f := r.fn(P, pkgModel, "GetAnchoredOperation")
	if f == nil {
		return
	}
	_ = r.E.Facts(f, core.Ctx{})
	consumers := r.P.SubjectFuncs(pkgParser, pkgApplier)
	prov := map[string]map[string]string{
		"CreateRequest":     {"Operation": "$0.Type", "SuffixData": "$0.SuffixData", "Delta": "$0.Delta"},
		"UpdateRequest":     {"Operation": "$0.Type", "DidSuffix": "$0.UniqueSuffix", "Delta": "$0.Delta", "SignedData": "$0.SignedData", "RevealValue": "$0.RevealValue"},
		"RecoverRequest":    {"Operation": "$0.Type", "DidSuffix": "$0.UniqueSuffix", "Delta": "$0.Delta", "SignedData": "$0.SignedData", "RevealValue": "$0.RevealValue"},
		"DeactivateRequest": {"Operation": "$0.Type", "DidSuffix": "$0.UniqueSuffix", "SignedData": "$0.SignedData", "RevealValue": "$0.RevealValue"},
	}
	typeOf := map[string]string{"CreateRequest": "create", "UpdateRequest": "update", "RecoverRequest": "recover", "DeactivateRequest": "deactivate"}
	var names []string
	for n := range prov {
		names = append(names, n)
	}
	sort.Strings(names)
	for _, tn := range names {
		T := r.P.Named(pkgModel, tn)
		if T == nil {
			continue
		}
		lits := r.literalsDeep(f, T, 2)
		id := P + ".request." + typeOf[tn]
		if len(lits) != 1 {
			r.R.Unk(id, "E5 dst-complete", core.FuncName(f), r.where(f), "-", fmt.Sprintf("%d literals of %s", len(lits), tn))
			continue
		}
		for _, lit := range lits {
			al, m := lit.Alloc, lit.Fields
			read := structFieldsRead(consumers, T)
			var missing, wrong []string
			for fld := range read {
				if _, ok := m[fld]; !ok {
					missing = append(missing, fld)
				}
			}
			for fld, pat := range prov[tn] {
				v, ok := m[fld]
				if !ok {
					missing = append(missing, fld)
					continue
				}
				if t := lit.Frame.Term(v); !core.MatchTerm(pat, t, core.Bind{}) {
					wrong = append(wrong, fld+" = "+t.String())
				}
			}
			// literal built under op.Type == that type
			okType := core.HasFact(lit.Frame.Facts(al), `cmp($0.Type == "`+typeOf[tn]+`")`)
			sort.Strings(missing)
			r.R.Check(len(missing) == 0 && len(wrong) == 0 && okType, id, "E5 dst-complete + provenance: the "+tn+" literal (built under op.Type == "+typeOf[tn]+") assigns every field the parser reads, from the like-named operation field",
				core.FuncName(f), r.P.Pos(al.Pos()), "a request re-created with a missing or swapped member is not JSON-equal to the submitted one and may not parse", "complete", fmt.Sprintf("missing %v wrong %v typeGuard %v", dedupe(missing), wrong, okType))
		}
	}
	r.requireSucc(P+".request.anchored", "the anchored operation must carry type, suffix, JCS(request) and anchor origin of the operation", f, core.Ctx{}, "",
		"cmp(<result>.Type == $0.Type)", "cmp(<result>.UniqueSuffix == $0.UniqueSuffix)", "cmp(<result>.AnchorOrigin == $0.AnchorOrigin)",
		"cmp(<result>.OperationRequest == canonicalizer.MarshalCanonical(_))")
	// reader-side operation literals
	if g := r.fn(P, pkgProvider, "OperationProvider.parseCoreIndexOperations"); g != nil {
		gf := r.E.Facts(g, core.Ctx{})
		T := r.P.Named(pkgModel, "Operation")
		want := map[string]map[string]string{
			"create":     {"UniqueSuffix": "model.GetUniqueSuffix(?e.SuffixData, $0.Protocol.MultihashAlgorithms)", "SuffixData": "?e.SuffixData", "AnchorOrigin": "?e.SuffixData.AnchorOrigin"},
			"recover":    {"UniqueSuffix": "?e.DidSuffix", "RevealValue": "?e.RevealValue"},
			"deactivate": {"UniqueSuffix": "?e.DidSuffix", "RevealValue": "?e.RevealValue"},
		}
		seen := map[string]bool{}
		for al, m := range literalsOf(g, T) {
			tv, ok := m["Type"]
			if !ok {
				continue
			}
			typ := strings.Trim(gf.TB.Of(tv).String(), `"`)
			w, known := want[typ]
			if !known {
				continue
			}
			seen[typ] = true
			b := core.Bind{}
			okAll := true
			var det []string
			var flds []string
			for k := range w {
				flds = append(flds, k)
			}
			sort.Strings(flds)
			for _, fld := range flds {
				v, has := m[fld]
				if !has || !core.MatchTerm(w[fld], gf.TB.Of(v), b) {
					okAll = false
					if has {
						det = append(det, fld+" = "+gf.TB.Of(v).String())
					} else {
						det = append(det, fld+" unassigned")
					}
				}
			}
			// element of the like-named list
			if e := b["e"]; e != nil && !strings.Contains(e.String(), ".Operations."+strings.Title(typ)+"[") {
				okAll = false
				det = append(det, "element is "+e.String())
			}
			r.R.Check(okAll, P+".request.reader."+typ, "E5 provenance: the read-back "+typ+" operation takes suffix/reveal value/suffix data from the like-named core index entry", core.FuncName(g), r.P.Pos(al.Pos()),
				"type and suffix of the read-back operation must be those written", "as prescribed", strings.Join(det, "; "))
		}
		for typ := range want {
			if !seen[typ] {
				r.R.Bad(P+".request.reader."+typ, "E7", core.FuncName(g), r.where(g), "-", "no operation literal of type "+typ)
			}
		}
	}
	if g := r.fn(P, pkgProvider, "parseProvisionalIndexOperations"); g != nil {
		gf := r.E.Facts(g, core.Ctx{})
		T := r.P.Named(pkgModel, "Operation")
		ok := false
		for _, m := range literalsOf(g, T) {
			b := core.Bind{}
			tv := m["Type"]
			if tv != nil && gf.TB.Of(tv).String() == `"update"` && m["UniqueSuffix"] != nil && m["RevealValue"] != nil &&
				core.MatchTerm("?e.DidSuffix", gf.TB.Of(m["UniqueSuffix"]), b) && core.MatchTerm("?e.RevealValue", gf.TB.Of(m["RevealValue"]), b) &&
				strings.Contains(b["e"].String(), ".Operations.Update[") {
				ok = true
			}
		}
		r.R.Check(ok, P+".request.reader.update", "E5 provenance: the read-back update takes suffix/reveal value from the provisional index's update entry", core.FuncName(g), r.where(g), "-", "as prescribed", "literal not as prescribed")
	}
}

// checkReaderLayout: the reader side of the layout agreement (shared by C13 and C20).
func (r *Run) checkReaderLayout(P string, writerSeq []string) {
	why := "if writer and reader disagree on the layout, deltas or signed data are attached to the wrong operation and the batch does not read back as written"
	// --- layout: reader order
	if f := r.fn(P, pkgProvider, "OperationProvider.assembleAnchoredOperations"); f != nil {
		ff := r.E.Facts(f, core.Ctx{})
		calls := r.callsIn(f, "createAnchoredOperations")
		var full []string
		var fullCalls []*ssa.Call
		for _, c := range calls {
			ops, cs := appendChain(c.Common().Args[0])
			if len(ops) > len(full) {
				full = nil
				for _, o := range ops {
					full = append(full, groupOf(ff.TB.Of(o)))
				}
				fullCalls = cs
			}
		}
		want := []string{"Create", "Recover", "Update", "Deactivate"}
		r.R.Check(fmt.Sprint(full) == fmt.Sprint(want), P+".layout.reader.order", "E12: read-back order is create, recover, update, deactivate", core.FuncName(f), r.where(f), why, fmt.Sprint(full), fmt.Sprintf("reader order %v, expected %v", full, want))
		// positional delta assignment happens on the slice holding exactly the writer's groups
		okPos := false
		det := "no positional delta assignment found"
		for _, b := range f.Blocks {
			for _, ins := range b.Instrs {
				st, ok := ins.(*ssa.Store)
				if !ok {
					continue
				}
				fa, ok := st.Addr.(*ssa.FieldAddr)
				if !ok || fieldName(fa) != "Delta" {
					continue
				}
				// base: load of IndexAddr(operationsK, i)
				u, ok := fa.X.(*ssa.UnOp)
				if !ok {
					continue
				}
				ia, ok := u.X.(*ssa.IndexAddr)
				if !ok {
					continue
				}
				ops, _ := appendChain(ia.X)
				var seq []string
				for _, o := range ops {
					seq = append(seq, groupOf(ff.TB.Of(o)))
				}
				det = fmt.Sprintf("deltas assigned positionally over %v; writer laid out %v", seq, writerSeq)
				okPos = fmt.Sprint(seq) == fmt.Sprint(writerSeq) && len(seq) > 0
				// the value assigned is Chunk.Deltas[i] with the same index
				vt := ff.TB.Of(st.Val)
				if !strings.Contains(vt.String(), ".Chunk.Deltas") {
					okPos = false
					det += "; assigned value is " + vt.String()
				}
			}
		}
		_ = fullCalls
		r.R.Check(okPos, P+".layout.reader.deltas", "E12: deltas are assigned by position over exactly the groups, in the order, the writer laid them out", core.FuncName(f), r.where(f), why, det, det)
		// proof lists feed like-named groups
		n := 0
		bad := []string{}
		for _, b := range f.Blocks {
			for _, ins := range b.Instrs {
				st, ok := ins.(*ssa.Store)
				if !ok {
					continue
				}
				fa, ok := st.Addr.(*ssa.FieldAddr)
				if !ok || fieldName(fa) != "SignedData" {
					continue
				}
				n++
				dst := groupOf(ff.TB.Of(fa.X))
				srcT := ff.TB.Of(st.Val)
				src := groupOf(srcT)
				file := ""
				switch {
				case strings.Contains(srcT.String(), ".CoreProof."):
					file = "core"
				case strings.Contains(srcT.String(), ".ProvisionalProof."):
					file = "provisional"
				}
				wantFile := map[string]string{"Recover": "core", "Deactivate": "core", "Update": "provisional"}[dst]
				// same index on both sides
				sameIdx := false
				if u, ok := fa.X.(*ssa.UnOp); ok {
					if ia, ok := u.X.(*ssa.IndexAddr); ok {
						if su, ok := st.Val.(*ssa.UnOp); ok {
							if sia, ok := su.X.(*ssa.IndexAddr); ok && sia.Index == ia.Index {
								sameIdx = true
							}
						}
					}
				}
				if dst == "" || dst != src || file != wantFile || !sameIdx {
					bad = append(bad, fmt.Sprintf("%s[i].SignedData <- %s (file %s, same index %v)", dst, short(srcT.String(), 90), file, sameIdx))
				}
			}
		}
		// every hand-off to createAnchoredOperations of a group that needs signed data
		// must have passed that group's signed-data loop
		sdLoop := map[string]*ssa.BasicBlock{}
		for _, b := range f.Blocks {
			for _, ins := range b.Instrs {
				if st, ok := ins.(*ssa.Store); ok {
					if fa, ok := st.Addr.(*ssa.FieldAddr); ok && fieldName(fa) == "SignedData" {
						if g := groupOf(ff.TB.Of(fa.X)); g != "" {
							sdLoop[g] = enclosingLoopHead(f, b)
						}
					}
				}
			}
		}
		for ci, c := range calls {
			ops, _ := appendChain(c.Common().Args[0])
			if len(ops) == 0 {
				ops = []ssa.Value{c.Common().Args[0]}
			}
			for _, o := range ops {
				g := groupOf(ff.TB.Of(o))
				if g == "" || g == "Create" {
					continue
				}
				h := sdLoop[g]
				okDom := h != nil && !blockReaches(ff, f.Blocks[0], c.Block(), h)
				if h != nil && f.Blocks[0] == h {
					okDom = true
				}
				r.R.Check(okDom, fmt.Sprintf("%s.layout.reader.proofs.before.%s.handoff%d", P, g, ci), "E8 never-before: "+g+" operations are handed to createAnchoredOperations only after the loop that attaches their signed data",
					core.FuncName(f), r.P.Pos(c.Pos()), "an operation read back without its signed data is not the request that was submitted (and can never be applied)",
					"signed-data loop passed on every path", "a path reaches this hand-off without passing the "+g+" signed-data loop")
			}
		}
		r.R.Check(n == 3 && len(bad) == 0, P+".layout.reader.proofs", "E12: signed data of group G[i] comes from the like-named list of the right proof file at the same index (recover/deactivate: core proof, update: provisional proof)", core.FuncName(f), r.where(f), why, fmt.Sprintf("%d signed-data assignments consistent", n), fmt.Sprintf("%d assignments; inconsistent: %s", n, strings.Join(bad, "; ")))
		// recover anchor origin from its signed data
		okAO := false
		for _, b := range f.Blocks {
			for _, ins := range b.Instrs {
				if st, ok := ins.(*ssa.Store); ok {
					if fa, ok := st.Addr.(*ssa.FieldAddr); ok && fieldName(fa) == "AnchorOrigin" && groupOf(ff.TB.Of(fa.X)) == "Recover" {
						okAO = core.MatchTerm("ParseSignedDataForRecover(_, _).AnchorOrigin", ff.TB.Of(st.Val), core.Bind{})
					}
				}
			}
		}
		r.R.Check(okAO, P+".request.recover.anchororigin.reader", "E5 provenance: a read-back recover takes its anchor origin from its own signed data", core.FuncName(f), r.where(f), "the anchor origin embedded in the request must be what is reported", "from ParseSignedDataForRecover(signedData)", "no such assignment")
	}
}

// checkWriterChunkOrder: the order in which the chunk file writer appends the
// delta groups (shared by C13 and C20); returns the derived sequence.
func (r *Run) checkWriterChunkOrder(P string) []string {
	why := "if writer and reader disagree on the layout, deltas or signed data are attached to the wrong operation and the batch does not read back as written"
	var writerSeq []string
	if f := r.fn(P, pkgModels, "CreateChunkFile"); f != nil {
		ff := r.E.Facts(f, core.Ctx{})
		// the Deltas field of the returned literal
		for _, b := range f.Blocks {
			for _, ins := range b.Instrs {
				st, ok := ins.(*ssa.Store)
				if !ok {
					continue
				}
				if fa, ok := st.Addr.(*ssa.FieldAddr); ok && fieldName(fa) == "Deltas" {
					ops, _ := appendChain(st.Val)
					for _, o := range ops {
						writerSeq = append(writerSeq, groupOf(ff.TB.Of(o)))
					}
				}
			}
		}
		want := []string{"Create", "Recover", "Update"}
		r.R.Check(fmt.Sprint(writerSeq) == fmt.Sprint(want), P+".layout.writer.chunk", "E12: chunk deltas are appended in the order create, recover, update", core.FuncName(f), r.where(f), why, fmt.Sprint(writerSeq), fmt.Sprintf("writer order %v, expected %v", writerSeq, want))
	}
	return writerSeq
}

// checkReaderCountsMismatchOnly: the reader's count validation may reject a
// batch only because two counts that the writer keeps equal differ. A rejection
// decided by comparing a count with a constant (e.g. "no create/recover/update
// although a provisional index is referenced") is a rule the writer does not
// obey: it emits the provisional files whenever some queued operation is not a
// deactivate, including operations it defers or drops as expired.
func (r *Run) checkReaderCountsMismatchOnly(P string) {
	f := r.fn(P, pkgProvider, "validateBatchFileCounts")
	if f == nil {
		return
	}
	_ = r.E.Facts(f, core.Ctx{})
	var isCount func(v ssa.Value, depth int) bool
	isCount = func(v ssa.Value, depth int) bool {
		if v == nil || depth > 6 {
			return false
		}
		switch x := stripConv(v).(type) {
		case *ssa.Call:
			return isBuiltin(x, "len")
		case *ssa.Phi:
			some := false
			for _, e := range x.Edges {
				if c, ok := e.(*ssa.Const); ok && c.Value != nil && c.Value.ExactString() == "0" {
					continue
				}
				if !isCount(e, depth+1) {
					return false
				}
				some = true
			}
			return some
		case *ssa.BinOp:
			return x.Op == token.ADD && isCount(x.X, depth+1) && isCount(x.Y, depth+1)
		case *ssa.Parameter:
			// a count handed to a helper: every call site passes a count
			fn := x.Parent()
			idx := -1
			for i, p := range fn.Params {
				if p == x {
					idx = i
				}
			}
			callers := r.callersOf(fn)
			if idx < 0 || len(callers) == 0 {
				return false
			}
			for _, c := range callers {
				args := core.CallArgs(c.Common())
				if idx >= len(args) || !isCount(args[idx], depth+1) {
					return false
				}
			}
			return true
		}
		return false
	}
	good := true
	var det []string
	nFail := 0
	var visit func(g *ssa.Function, depth int)
	visit = func(g *ssa.Function, depth int) {
		gf := r.E.Facts(g, core.Ctx{})
		// examine: the rejection that originates in block b (where the error value is made, or the failing return)
		var examine func(b *ssa.BasicBlock, where string, d int)
		examine = func(b *ssa.BasicBlock, where string, d int) {
			// the deciding comparison: the condition of the nearest dominating If whose taken edge leads here
			dec := decidingCond(b)
			bo, isCmp := dec.(*ssa.BinOp)
			if isCmp && d < 4 {
				var ev ssa.Value
				if isNilConst2(bo.Y) {
					ev = bo.X
				} else if isNilConst2(bo.X) {
					ev = bo.Y
				}
				if ev != nil && isErrorTypeV(ev) {
					// an error handed on: from a helper of the package (its rejections are examined instead), or
					// made further up in this function (the merged result of an inlined helper) — then the place
					// where each non-nil value is made is examined
					handled := true
					for _, l := range phiLeaves(ev) {
						if isNilConst2(l) {
							continue
						}
						if ex, isEx := l.(*ssa.Extract); isEx {
							l = ex.Tuple
						}
						c, isCall := l.(*ssa.Call)
						if !isCall {
							handled = false
							continue
						}
						if h := c.Common().StaticCallee(); h != nil && h.Pkg == g.Pkg && len(h.Blocks) > 0 && r.P.IsSubject(h) && depth < 3 {
							visit(h, depth+1)
							continue
						}
						if c.Block() != b {
							examine(c.Block(), r.P.Pos(c.Pos()), d+1)
							continue
						}
						handled = false
					}
					if handled {
						return
					}
				}
			}
			nFail++
			cnt := func(v ssa.Value) bool {
				return isCount(v, 0) || isCountTerm(core.StripOrZero(gf.TB.Of(v)), isCount)
			}
			switch {
			case !isCmp:
				good = false
				det = append(det, where+": rejection not decided by a comparison")
			case cnt(bo.X) && cnt(bo.Y) && (bo.Op == token.NEQ || bo.Op == token.EQL):
				// mismatch between two counts
			default:
				good = false
				det = append(det, where+": rejection decided by "+gf.TB.Of(bo.X).String()+" "+bo.Op.String()+" "+gf.TB.Of(bo.Y).String()+", which is not a mismatch between two counts")
			}
		}
		for _, b := range g.Blocks {
			ret, ok := b.Instrs[len(b.Instrs)-1].(*ssa.Return)
			if !ok || isNilConstV(core.RetOp(ret, len(ret.Results)-1)) {
				continue
			}
			// a tail call `return helper(...)`: the helper's rejections are examined instead
			if depth < 3 {
				tail := false
				for _, l := range phiLeaves(core.RetOp(ret, len(ret.Results)-1)) {
					if c, isCall := l.(*ssa.Call); isCall {
						if h := c.Common().StaticCallee(); h != nil && h.Pkg == g.Pkg && len(h.Blocks) > 0 && r.P.IsSubject(h) {
							visit(h, depth+1)
							tail = true
						}
					}
				}
				if tail {
					continue
				}
			}
			examine(b, r.P.Pos(ret.Pos()), 0)
		}
	}
	visit(f, 0)
	r.R.Check(good && nFail >= 4, P+".counts.reader.mismatch.only", "E12 sibling agreement (reader ↔ writer): every rejection of validateBatchFileCounts is decided by an (in)equality between two list lengths (or sums of lengths) — never by a count compared with a constant", core.FuncName(f), r.where(f),
		"a reader-side rule the writer does not obey makes batches unreadable: a deactivate-only batch written together with deferred or expired operations carries a provisional index and an empty chunk file",
		fmt.Sprintf("%d rejections, all count mismatches", nFail), strings.Join(det, "; "))
}

// decidingCond: the branch condition that immediately decides block b (walking up through single-predecessor jumps).
func decidingCond(b *ssa.BasicBlock) ssa.Value {
	for depth := 0; depth < 8 && b != nil; depth++ {
		if len(b.Preds) != 1 {
			return nil
		}
		p := b.Preds[0]
		if iff, ok := p.Instrs[len(p.Instrs)-1].(*ssa.If); ok {
			c := iff.Cond
			for {
				u, ok := c.(*ssa.UnOp)
				if !ok || u.Op != token.NOT {
					break
				}
				c = u.X
			}
			return c
		}
		b = p
	}
	return nil
}

func isNilConst2(v ssa.Value) bool {
	c, ok := v.(*ssa.Const)
	return ok && c.Value == nil
}

// loopOverLiteral: phi is the loop variable of `x = append(x, …elem…)` where elem
// ranges over a slice literal; returns the literal's elements in index order.
func loopOverLiteral(phi *ssa.Phi) ([]ssa.Value, *ssa.Call) {
	var app *ssa.Call
	for _, e := range phi.Edges {
		if c, ok := e.(*ssa.Call); ok && isBuiltin(c, "append") && len(c.Common().Args) == 2 {
			for _, l := range phiLeaves(c.Common().Args[0]) {
				if l == ssa.Value(phi) {
					app = c
				}
			}
			if c.Common().Args[0] == ssa.Value(phi) {
				app = c
			}
		}
	}
	if app == nil {
		return nil, nil
	}
	// the appended value derives from an element of a literal slice
	var lit *ssa.Slice
	seen := map[ssa.Value]bool{}
	var walk func(v ssa.Value, depth int)
	walk = func(v ssa.Value, depth int) {
		if v == nil || seen[v] || depth > 8 || lit != nil {
			return
		}
		seen[v] = true
		switch x := v.(type) {
		case *ssa.Call:
			for _, a := range x.Common().Args {
				walk(a, depth+1)
			}
		case *ssa.UnOp:
			walk(x.X, depth+1)
		case *ssa.IndexAddr:
			if sl, ok := x.X.(*ssa.Slice); ok {
				if _, isAl := sl.X.(*ssa.Alloc); isAl {
					lit = sl
					return
				}
			}
			walk(x.X, depth+1)
		case *ssa.Extract:
			walk(x.Tuple, depth+1)
		case *ssa.Next:
			walk(x.Iter, depth+1)
		case *ssa.Range:
			walk(x.X, depth+1)
		case *ssa.Slice:
			if _, isAl := x.X.(*ssa.Alloc); isAl {
				lit = x
				return
			}
			walk(x.X, depth+1)
		case *ssa.ChangeType:
			walk(x.X, depth+1)
		case *ssa.Convert:
			walk(x.X, depth+1)
		}
	}
	walk(app.Common().Args[1], 0)
	if lit == nil {
		return nil, nil
	}
	al := lit.X.(*ssa.Alloc)
	type ent struct {
		idx int64
		v   ssa.Value
	}
	var ents []ent
	if refs := al.Referrers(); refs != nil {
		for _, rf := range *refs {
			ia, ok := rf.(*ssa.IndexAddr)
			if !ok {
				continue
			}
			k, isK := ia.Index.(*ssa.Const)
			if !isK || k.Value == nil {
				continue
			}
			n, _ := constant.Int64Val(k.Value)
			if irefs := ia.Referrers(); irefs != nil {
				for _, ir := range *irefs {
					if st, ok := ir.(*ssa.Store); ok && st.Addr == ssa.Value(ia) {
						ents = append(ents, ent{n, st.Val})
					}
				}
			}
		}
	}
	sort.Slice(ents, func(i, j int) bool { return ents[i].idx < ents[j].idx })
	var out []ssa.Value
	for _, e := range ents {
		out = append(out, e.v)
	}
	return out, app
}

// checkWriterProofPresence: the writer-side sibling of the reader's presence
// table — a proof file is written exactly when there are entries that need it:
// the "no file" return is reachable only across count = 0 and the CAS write is
// unreachable across count = 0.
func (r *Run) checkWriterProofPresence(P string) {
	for _, sp := range []struct{ fn, empty, what string }{
		{"OperationHandler.createCoreProofFile", "cmp((len($1) + len($2)) == 0)", "core proof file ⇔ recover + deactivate entries"},
		{"OperationHandler.createProvisionalProofFile", "cmp(len($1) == 0)", "provisional proof file ⇔ update entries"},
	} {
		f := r.fn(P, pkgProvider, sp.fn)
		if f == nil {
			continue
		}
		ff := r.E.Facts(f, core.Ctx{})
		writes := r.callsIn(f, "OperationHandler.writeModelToCAS")
		good := len(writes) == 1
		var det []string
		nonEmpty := strings.Replace(sp.empty, "== 0)", "!= 0)", 1)
		// the sum may be tested as such or list by list (`len(a) == 0 && len(b) == 0`)
		var partsEmpty, partsNonEmpty []string
		if strings.Contains(sp.empty, "+") {
			partsEmpty = []string{"cmp(len($1) == 0)", "cmp(len($2) == 0)"}
			partsNonEmpty = []string{"cmp(len($1) != 0)", "cmp(len($2) != 0)", "cmp(len($1) > 0)", "cmp(len($2) > 0)"}
		}
		for _, w := range writes {
			if r.reachableWithout(ff, w, append([]string{nonEmpty}, partsNonEmpty...)) {
				good = false
				det = append(det, "the file is written although there are no entries that need it")
			}
		}
		nSkip := 0
		for _, ri := range ff.Returns() {
			if ri.Class != core.RetSuccess {
				continue
			}
			isWrite := false
			for _, w := range writes {
				for _, l := range phiLeaves(core.RetOp(ri.Ret, 0)) {
					if ex, ok := l.(*ssa.Extract); ok && ex.Tuple == ssa.Value(w) {
						isWrite = true
					}
				}
			}
			if isWrite {
				continue
			}
			nSkip++
			if r.reachableWithout(ff, ri.Ret, []string{sp.empty}) {
				listwise := len(partsEmpty) > 0
				for _, pe := range partsEmpty {
					if r.reachableWithout(ff, ri.Ret, []string{pe}) {
						listwise = false
					}
				}
				if !listwise {
					good = false
					det = append(det, "no file is written although entries need it")
				}
			}
		}
		r.R.Check(good && nSkip >= 1, P+".presence.writer."+strings.TrimPrefix(sp.fn, "OperationHandler."), "E8 sibling (writer ↔ reader presence table): "+sp.what, core.FuncName(f), r.where(f),
			"the reader rejects a proof reference without entries and entries without their proof reference: a writer that disagrees produces batches that do not read back", "file written iff entries exist", strings.Join(det, "; "))
	}
}

// checkAnchorCount: the operation count written into the anchor string is the size of what was written to the files
// (shared by C13 and C20: the reader drops a whole batch whose count differs).
func (r *Run) checkAnchorCount(P string, f *ssa.Function) {
	ff := r.E.Facts(f, core.Ctx{})
	okCount := false
	det := "NumberOfOperations not assigned"
	for _, b := range f.Blocks {
		for _, ins := range b.Instrs {
			if st, isSt := ins.(*ssa.Store); isSt {
				if fa, isFA := st.Addr.(*ssa.FieldAddr); isFA && fieldName(fa) == "NumberOfOperations" {
					t := ff.TB.Of(st.Val)
					det = t.String()
					okCount = core.MatchTerm("SortedOperations.Size(parseOperations(_, $1))", t, core.Bind{})
				}
			}
		}
	}
	r.R.Check(okCount, P+".count.anchor", "E13: the anchor string's operation count is Size() of the included (sorted) operations", core.FuncName(f), r.where(f),
		"if deferred or expired operations are counted, the reader rejects the batch (count mismatch)", det, "count is "+det)
}

// isCountTerm: t is a list length, a sum of such, or a merged value all of whose operands are counts (or 0).
func isCountTerm(t *core.Term, isCountVal func(ssa.Value, int) bool) bool {
	if t == nil {
		return false
	}
	switch t.Op {
	case "len":
		return true
	case "bin":
		return t.Name == "+" && len(t.Args) == 2 && isCountTerm(t.Args[0], isCountVal) && isCountTerm(t.Args[1], isCountVal)
	case "conv":
		return len(t.Args) == 1 && isCountTerm(t.Args[0], isCountVal)
	case "phi":
		if v, ok := t.Val.(ssa.Value); ok {
			return isCountVal(v, 0)
		}
	}
	return false
}
