package props

import (
	"fmt"
	"go/constant"
	"go/token"
	"go/types"
	"os"
	"reflect"
	"regexp"
	"sort"
	"strings"

	"golang.org/x/tools/go/ssa"

	"sidecheck/core"
)

// Engine E10: panic-capable instructions in the subject functions reachable
// (VTA) from untrusted entry points, each individually discharged by a rule or
// by an audited per-symbol entry with a reason; anything else is undecided.

type panicSite struct {
	Fn     *ssa.Function
	Instr  ssa.Instruction
	Kind   string // index | slice | typeassert | panic | nilderef | div | stdlib
	Desc   string
	By     string // discharge rule ("" = not discharged)
	Symbol string // audit key: kind@function:detail (no line numbers)
}

// auditEntry is one audited exception of E10: sites of Kind in Func (closure
// ordinals stripped) whose operand contains Operand cannot fire for Reason.
// Count is the exact number of such sites confirmed by reading; a different
// count fails. NeedUpper keeps the rule-based upper-bound proof mandatory and
// waives only the lower bound.
type auditEntry struct {
	Kind, Func, Operand string
	Count               int
	NeedUpper           bool
	// NeedStrict: the argument made by reading rests on a strict test `index < bound` that dominates the site; the
	// site must still carry such a fact for its index (the bound itself is what was read)
	NeedStrict bool
	// Cursor: the waived lower bound rests on an invariant of the indexing variable, which is re-established on every
	// run instead of counting the sites that rely on it: every store to the variable is its initialisation with a
	// non-negative constant, an increment, the restoration of a value read from it earlier, or — at most once — a decrement
	Cursor bool
	Reason string
}

var auditTable = []auditEntry{
	{Kind: "index", Func: "internal/jsoncanonicalizer.NumberToJSON", Count: 4,
		Reason: "vendored ES6 number formatter (cyberphone reference code): indexes the output of strconv.FormatFloat, whose 'e' form is d[.d…]e±dd (so e+2 and e+3 exist) and whose long integer 'f' form has ≥ 12 digits ending in a non-zero digit before the scanned zeros"},
	{Kind: "slice", Func: "internal/jsoncanonicalizer.NumberToJSON", Count: 4,
		Reason: "same shape argument as the index sites of NumberToJSON"},
	{Kind: "index", Func: "internal/jsoncanonicalizer.Transform$", Operand: "^$jsonData[^index]", Count: -1, NeedUpper: true, Cursor: true,
		Reason: "lower bound: index starts at 0, is only incremented, and is decremented exactly once in parseSimpleType immediately after scan() consumed at least one character; the upper bound index < len(jsonData) is still proven by rule"},
	{Kind: "index", Func: "internal/jsoncanonicalizer.Transform", Operand: "$jsonData[new:int]", Count: -1, NeedUpper: true, Cursor: true,
		Reason: "trailing-content loop: index is the same never-negative cursor; the upper bound index < len(jsonData) is still proven by rule"},
	{Kind: "slice", Func: "internal/jsoncanonicalizer.Transform$", Operand: "^$jsonData[^index:^index]", Count: 1,
		Reason: "getUEscape: low is an earlier value of index, and index never exceeds len(jsonData) because every increment is guarded by index < jsonDataLength"},
	{Kind: "index", Func: "internal/jsoncanonicalizer.Transform$", Operand: "binaryEscapes[", Count: 1,
		Reason: "indexed by the range variable of asciiEscapes; the two escape tables have equal length (checked by C07.tables)"},
	{Kind: "index", Func: "internal/jsoncanonicalizer.Transform$", Operand: "asciiEscapes[", Count: 1,
		Reason: "indexed by the range variable of binaryEscapes; the two escape tables have equal length (checked by C07.tables)"},
	{Kind: "slice", Func: "internal/jws.verifyECSignature", Operand: "$signature[", Count: 2,
		Reason: "len(signature) = 2·keySize is established on every path (C09.size.ec) and keySize is one of the positive constants of parseEllipticCurve's table (C09.tables.verifier)"},
	{Kind: "slice", Func: "(*operationparser.Parser).ParseDID", Operand: "strings.LastIndex($shortOrLongFormDID", Count: 2,
		Reason: "reached only when the DID with the namespace prefix removed still contains ':'; removing substrings cannot create a ':', so LastIndex(did, \":\") ≥ 0, and LastIndex+1 ≤ len"},
}

// nilableField: a pointer-typed struct field that JSON decoding may leave nil.
func nilableField(st *types.Struct, i int) bool {
	f := st.Field(i)
	if _, ok := f.Type().Underlying().(*types.Pointer); !ok {
		return false
	}
	tag := reflect.StructTag(st.Tag(i))
	_, has := tag.Lookup("json")
	return has
}

// isRangeIndex: v = phi(-1, v') + 1  (the induction variable of a range loop) or a phi of non-negative values.
func nonNegative(v ssa.Value, depth int) bool {
	if depth > 6 {
		return false
	}
	switch x := v.(type) {
	case *ssa.Const:
		if x.Value != nil && x.Value.Kind() == constant.Int {
			return constant.Sign(x.Value) >= 0
		}
	case *ssa.BinOp:
		if x.Op == token.ADD {
			// phi(-1, self) + 1
			if c, ok := x.Y.(*ssa.Const); ok && c.Value != nil && c.Value.String() == "1" {
				if p, ok := x.X.(*ssa.Phi); ok {
					all := true
					for _, e := range p.Edges {
						if e == ssa.Value(x) {
							continue
						}
						if ec, ok := e.(*ssa.Const); ok && ec.Value != nil && (ec.Value.String() == "-1" || constant.Sign(ec.Value) >= 0) {
							continue
						}
						all = false
					}
					if all {
						return true
					}
				}
				return nonNegative(x.X, depth+1)
			}
			return nonNegative(x.X, depth+1) && nonNegative(x.Y, depth+1)
		}
		if x.Op == token.MUL || x.Op == token.QUO || x.Op == token.REM || x.Op == token.AND {
			return nonNegative(x.X, depth+1) && nonNegative(x.Y, depth+1)
		}
	case *ssa.Phi:
		for _, e := range x.Edges {
			if e == v {
				continue
			}
			if !nonNegativeNoCycle(e, v, depth+1) {
				return false
			}
		}
		return true
	case *ssa.Call:
		if b, ok := x.Common().Value.(*ssa.Builtin); ok && (b.Name() == "len" || b.Name() == "cap") {
			return true
		}
	case *ssa.Convert:
		if b, ok := x.X.Type().Underlying().(*types.Basic); ok && b.Info()&types.IsUnsigned != 0 {
			return true
		}
		return nonNegative(x.X, depth+1)
	case *ssa.UnOp:
		if x.Op == token.MUL {
			// loads of unsigned / length-like values are not known
			if b, ok := x.Type().Underlying().(*types.Basic); ok && b.Info()&types.IsUnsigned != 0 {
				return true
			}
		}
	case *ssa.Field, *ssa.Extract, *ssa.Parameter:
		if b, ok := v.Type().Underlying().(*types.Basic); ok && b.Info()&types.IsUnsigned != 0 {
			return true
		}
	}
	return false
}

func nonNegativeNoCycle(e, self ssa.Value, depth int) bool {
	if b, ok := e.(*ssa.BinOp); ok && b.Op == token.ADD {
		if b.X == self || b.Y == self {
			other := b.Y
			if b.Y == self {
				other = b.X
			}
			return nonNegative(other, depth)
		}
	}
	return nonNegative(e, depth)
}

func constInt(v ssa.Value) (int64, bool) {
	if c, ok := v.(*ssa.Const); ok && c.Value != nil && c.Value.Kind() == constant.Int {
		n, ok := constant.Int64Val(c.Value)
		return n, ok
	}
	return 0, false
}

// upperBounded: facts prove idx < len(x) (or idx <= len(x) when inclusive).
func upperBounded(facts core.FactSet, idx, x *core.Term, inclusive bool) (string, bool) {
	// t + 1 <= len(x) follows from t < len(x)
	if inclusive && idx.Op == "bin" && idx.Name == "+" && len(idx.Args) == 2 && idx.Args[1].Op == "const" && idx.Args[1].Name == "1" {
		if w, ok := upperBounded(facts, idx.Args[0], x, false); ok {
			return w + " ⇒ +1 within the length", true
		}
	}
	is, xs := idx.String(), "len("+x.String()+")"
	for _, f := range facts {
		if f.Kind != "cmp" {
			continue
		}
		a, b, op := f.A.String(), f.B.String(), f.Op
		lt := (a == is && b == xs && (op == "<" || (inclusive && op == "<="))) ||
			(a == xs && b == is && (op == ">" || (inclusive && op == ">=")))
		if lt {
			return f.Key(), true
		}
	}
	// idx < len(y) together with len(x) == len(y)
	for _, f := range facts {
		if f.Kind != "cmp" {
			continue
		}
		var other string
		a, b, op := f.A.String(), f.B.String(), f.Op
		switch {
		case a == is && (op == "<" || (inclusive && op == "<=")) && strings.HasPrefix(b, "len("):
			other = b
		case b == is && (op == ">" || (inclusive && op == ">=")) && strings.HasPrefix(a, "len("):
			other = a
		}
		if other == "" {
			continue
		}
		for _, g := range facts {
			if g.Kind == "cmp" && g.Op == "==" && ((g.A.String() == xs && g.B.String() == other) || (g.B.String() == xs && g.A.String() == other)) {
				return f.Key() + " ∧ " + g.Key(), true
			}
		}
	}
	// constant index against a length fact
	if idx.Op == "const" {
		var k int64
		fmt.Sscanf(idx.Name, "%d", &k)
		for _, f := range facts {
			if f.Kind != "cmp" {
				continue
			}
			if f.A.String() != xs || f.B.Op != "const" {
				continue
			}
			var n int64
			if _, err := fmt.Sscanf(f.B.Name, "%d", &n); err != nil {
				continue
			}
			need := k + 1
			if inclusive {
				need = k
			}
			switch f.Op {
			case "==":
				if n >= need {
					return f.Key(), true
				}
			case ">=":
				if n >= need {
					return f.Key(), true
				}
			case ">":
				if n+1 >= need {
					return f.Key(), true
				}
			case "!=":
				if n == 0 && need <= 1 {
					return f.Key(), true
				}
			}
		}
	}
	return "", false
}

// panicSitesIn scans one function.
func (r *Run) panicSitesIn(f *ssa.Function, nilableParams map[*ssa.Parameter]bool) []panicSite {
	ff := r.E.Facts(f, core.Ctx{})
	var out []panicSite
	add := func(ins ssa.Instruction, kind, desc, by, detail string) {
		out = append(out, panicSite{Fn: f, Instr: ins, Kind: kind, Desc: desc, By: by,
			Symbol: kind + "@" + core.FuncName(f) + ":" + detail})
	}
	nilable := func(v ssa.Value) (string, bool) {
		v0 := v
		for {
			if ct, ok := v0.(*ssa.ChangeType); ok {
				v0 = ct.X
				continue
			}
			break
		}
		if p, ok := v0.(*ssa.Parameter); ok && nilableParams[p] {
			return "parameter " + p.Name() + " (a caller passes a possibly-nil decoded pointer)", true
		}
		if u, ok := v0.(*ssa.UnOp); ok && u.Op == token.MUL {
			if fa, ok := u.X.(*ssa.FieldAddr); ok {
				st := derefStructT(fa.X.Type())
				if st != nil && nilableField(st, fa.Field) {
					return "decoded field " + st.Field(fa.Field).Name(), true
				}
			}
		}
		if fl, ok := v0.(*ssa.Field); ok {
			st, _ := fl.X.Type().Underlying().(*types.Struct)
			if st != nil && nilableField(st, fl.Field) {
				return "decoded field " + st.Field(fl.Field).Name(), true
			}
		}
		// the pointer result of a module function that can return, without an error, a pointer it let a JSON decoder
		// fill in (`var p *T; json.Unmarshal(b, &p)`: the document `null` leaves it nil), or nil itself
		{
			cv := v0
			if ex, ok := cv.(*ssa.Extract); ok && ex.Index == 0 {
				cv = ex.Tuple
			}
			if c, ok := cv.(*ssa.Call); ok {
				if g := c.Common().StaticCallee(); g != nil && r.P.IsSubject(g) && r.mayReturnNilPointer(g, 0) {
					return "result of " + core.FuncName(g) + ", which may be nil without an error (decoded into a nil pointer)", true
				}
			}
		}
		// a pointer value looked up in a map: absent keys and JSON null both give nil
		lv := v0
		if ex, ok := lv.(*ssa.Extract); ok && ex.Index == 0 {
			lv = ex.Tuple
		}
		if lk, ok := lv.(*ssa.Lookup); ok {
			if mt, isMap := lk.X.Type().Underlying().(*types.Map); isMap {
				if _, isPtr := mt.Elem().Underlying().(*types.Pointer); isPtr {
					return "pointer stored in a decoded map (nil for JSON null)", true
				}
			}
		}
		return "", false
	}
	// aliasOfNilable: a pointer field whose value is known (by a result-field
	// equality fact) to be a decoded, possibly-nil pointer field.
	aliasOfNilable := func(at core.FactSet, v ssa.Value) (*core.Term, bool) {
		u, ok := v.(*ssa.UnOp)
		if !ok || u.Op != token.MUL {
			return nil, false
		}
		if _, isFA := u.X.(*ssa.FieldAddr); !isFA {
			return nil, false
		}
		if _, isPtr := v.Type().Underlying().(*types.Pointer); !isPtr {
			return nil, false
		}
		ts := ff.TB.Of(v).String()
		for _, fc := range at {
			if fc.Kind != "cmp" || fc.Op != "==" {
				continue
			}
			var other *core.Term
			if fc.A.String() == ts {
				other = fc.B
			} else if fc.B.String() == ts {
				other = fc.A
			}
			if other == nil || other.Op != "field" {
				continue
			}
			if fv, ok := other.Obj.(*types.Var); ok && r.jsonNilableFields()[fv] {
				return other, true
			}
		}
		return nil, false
	}
	nonNilFact := func(at core.FactSet, v ssa.Value) (string, bool) {
		t := ff.TB.Of(v)
		ts := t.String()
		for _, fc := range at {
			if fc.Kind == "cmp" && fc.Op == "!=" && fc.A.String() == ts && fc.B.Name == "nil" {
				return fc.Key(), true
			}
		}
		// caller precondition: the value is (a field of) a parameter and every static call site of this
		// unexported function establishes it non-nil (the block was extracted from a caller that had the check)
		if root := t.Root(); root != nil && root.Op == "param" && f.Object() != nil && !f.Object().Exported() {
			callers := r.callersOf(f)
			if len(callers) == 0 {
				return "", false
			}
			for _, c := range callers {
				g := c.Parent()
				gf := r.E.Facts(g, core.Ctx{})
				var actual []*core.Term
				for _, a := range core.CallArgs(c.Common()) {
					actual = append(actual, gf.TB.Of(a))
				}
				want := t.Subst(actual).String()
				okSite := false
				for _, fc := range gf.At(c) {
					if fc.Kind == "cmp" && fc.Op == "!=" && fc.A.String() == want && fc.B.Name == "nil" {
						okSite = true
					}
				}
				if !okSite {
					return "", false
				}
			}
			return "caller precondition: every call site has " + ts + " != nil", true
		}
		return "", false
	}
	for _, b := range f.Blocks {
		if !ff.Live[b] {
			continue
		}
		for _, ins := range b.Instrs {
			switch x := ins.(type) {
			case *ssa.Panic:
				add(x, "panic", "explicit panic", "", ff.TB.Of(x.X).Stable())
			case *ssa.TypeAssert:
				if !x.CommaOk {
					add(x, "typeassert", "single-result type assertion "+ff.TB.Of(x).String(), "", ff.TB.Of(x).Stable())
				}
			case *ssa.BinOp:
				if (x.Op == token.QUO || x.Op == token.REM) && isIntType(x.Type()) {
					if n, ok := constInt(x.Y); ok && n != 0 {
						continue
					}
					add(x, "div", "integer division by "+ff.TB.Of(x.Y).String(), "", ff.TB.Of(x.Y).Stable())
				}
			case *ssa.IndexAddr, *ssa.Index, *ssa.Lookup:
				var X, I ssa.Value
				switch y := x.(type) {
				case *ssa.IndexAddr:
					X, I = y.X, y.Index
				case *ssa.Index:
					X, I = y.X, y.Index
				case *ssa.Lookup:
					if _, isMap := y.X.Type().Underlying().(*types.Map); isMap {
						continue
					}
					X, I = y.X, y.Index
				}
				// fixed-size arrays with constant index
				if n, isArr := arrayLen(X.Type()); isArr {
					if k, ok := constInt(I); ok && k >= 0 && k < n {
						continue
					}
				}
				// a package-level table (slice literal nobody assigns) indexed by a constant below the literal's length
				if ld, isLd := X.(*ssa.UnOp); isLd && ld.Op == token.MUL {
					if g, isG := ld.X.(*ssa.Global); isG {
						if k, ok := constInt(I); ok && k >= 0 && k < core.GlobalLiteralLen(g) {
							continue
						}
					}
				}
				// the whole of a fixed-size array (a slice literal) indexed by a constant below its length
				if sl, isSl := X.(*ssa.Slice); isSl && sl.Low == nil && sl.High == nil && sl.Max == nil {
					if n, isArr := arrayLen(sl.X.Type()); isArr {
						if k, ok := constInt(I); ok && k >= 0 && k < n {
							continue
						}
					}
				}
				at := ff.At(ins)
				xt, it := ff.TB.Of(X), ff.TB.Of(I)
				desc := fmt.Sprintf("%s[%s]", short(xt.String(), 60), short(it.String(), 60))
				by := ""
				if nonNegative(I, 0) || factNonNegative(at, it) {
					if w, ok := r.upperBoundedX(ff, at, it, xt, false); ok {
						by = "bounds: index ≥ 0 by construction and " + short(w, 120)
					}
				}
				add(ins, "index", desc, by, xt.Stable()+"["+it.Stable()+"]")
			case *ssa.Slice:
				if _, isArr := arrayLen(x.X.Type()); isArr && x.Low == nil && x.High == nil {
					continue // &arr[:] of a fresh array (variadic packing)
				}
				at := ff.At(ins)
				xt := ff.TB.Of(x.X)
				ok := true
				var why []string
				lo, hi := x.Low, x.High
				if hi != nil {
					ht := ff.TB.Of(hi)
					if w, good := r.upperBoundedX(ff, at, ht, xt, true); good && nonNegative(hi, 0) {
						why = append(why, "high: "+short(w, 100))
					} else {
						ok = false
					}
				}
				if lo != nil {
					lt := ff.TB.Of(lo)
					if !nonNegative(lo, 0) {
						ok = false
					}
					if hi == nil {
						if w, good := upperBounded(at, lt, xt, true); good {
							why = append(why, "low: "+short(w, 100))
						} else {
							ok = false
						}
					} else if !(lo == hi) {
						// low <= high
						ls, hs := lt.String(), ff.TB.Of(hi).String()
						good := hs == "("+ls+" + 1)"
						if kl, okl := constInt(lo); okl {
							if kh, okh := constInt(hi); okh && kl <= kh {
								good = true
							}
							if kl == 0 {
								good = true
							}
						}
						for _, fc := range at {
							if fc.Kind == "cmp" && ((fc.A.String() == ls && fc.B.String() == hs && (fc.Op == "<" || fc.Op == "<=")) || (fc.A.String() == hs && fc.B.String() == ls && (fc.Op == ">" || fc.Op == ">="))) {
								good = true
							}
						}
						if !good {
							ok = false
						}
					}
				}
				by := ""
				if ok {
					by = "bounds: " + strings.Join(why, "; ")
					if len(why) == 0 {
						by = "bounds: full slice"
					}
				}
				loS, hiS := "", ""
				loT, hiT := "", ""
				if lo != nil {
					loS = ff.TB.Of(lo).String()
					loT = ff.TB.Of(lo).Stable()
				}
				if hi != nil {
					hiS = ff.TB.Of(hi).String()
					hiT = ff.TB.Of(hi).Stable()
				}
				add(ins, "slice", fmt.Sprintf("%s[%s:%s]", short(xt.String(), 50), short(loS, 40), short(hiS, 40)), by, xt.Stable()+"["+loT+":"+hiT+"]")
			case *ssa.FieldAddr:
				if u, isLoad := x.X.(*ssa.UnOp); isLoad && u.Op == token.MUL {
					if bfa, isFA := u.X.(*ssa.FieldAddr); isFA {
						base := bfa.X
						if ex, ok := base.(*ssa.Extract); ok {
							base = ex.Tuple
						}
						if _, isCall := base.(*ssa.Call); isCall {
							if _, isPtr := x.X.Type().Underlying().(*types.Pointer); isPtr {
								at := ff.At(ins)
								fv := derefStructT(bfa.X.Type()).Field(bfa.Field)
								if !r.jsonNilableFields()[fv] && r.mayNilField(ff, at, base, fv, 0) {
									by := ""
									if w, ok := nonNilFact(at, x.X); ok {
										by = "non-nil: " + short(w, 120)
									}
									add(ins, "nilderef", "field access through "+short(ff.TB.Of(x.X).String(), 90)+", which the callee may leave nil (assigned from a decoded, possibly absent member, or not assigned)", by, ff.TB.Of(x.X).Stable())
									continue
								}
							}
						}
					}
				}
				if alias, is := aliasOfNilable(ff.At(ins), x.X); is {
					at := ff.At(ins)
					by := ""
					if w, ok := nonNilFact(at, x.X); ok {
						by = "non-nil: " + short(w, 120)
					}
					as := alias.String()
					for _, fc := range at {
						if fc.Kind == "cmp" && fc.Op == "!=" && fc.A.String() == as && fc.B.Name == "nil" {
							by = "non-nil: " + short(fc.Key(), 120)
						}
					}
					add(ins, "nilderef", "field access through "+short(ff.TB.Of(x.X).String(), 80)+", which is the decoded (possibly absent) "+short(as, 80), by, ff.TB.Of(x.X).Stable())
				} else if what, is := nilable(x.X); is {
					at := ff.At(ins)
					by := ""
					if w, ok := nonNilFact(at, x.X); ok {
						by = "non-nil: " + short(w, 120)
					}
					add(ins, "nilderef", "field access through "+what+": "+short(ff.TB.Of(x.X).String(), 80), by, ff.TB.Of(x.X).Stable())
				} else if u, isLoad := x.X.(*ssa.UnOp); isLoad && u.Op == token.MUL {
					// a pointer field of a struct handed in as a parameter: nil if some function of the module that makes
					// such structs can leave the field nil (the parser leaves Operation.Delta nil for a request without
					// delta); discharged by a non-nil fact here or at every static call site
					if bfa, isFA := u.X.(*ssa.FieldAddr); isFA {
						if prm, isParam := bfa.X.(*ssa.Parameter); isParam {
							if _, isPtr := x.X.Type().Underlying().(*types.Pointer); isPtr {
								if st := derefStructT(prm.Type()); st != nil {
									fv := st.Field(bfa.Field)
									// (only for functions that are reached through a function value alone: where there are
									// static call sites, which fields are set together is the callers' invariant — e.g. the
									// batch files present according to the references — and is left to the rules about it)
									if !r.jsonNilableFields()[fv] && f.Object() != nil && !f.Object().Exported() && len(r.callersOf(f)) == 0 && r.producersMayLeaveNil(prm.Type(), fv) {
										at := ff.At(ins)
										by := ""
										if w, ok := nonNilFact(at, x.X); ok {
											by = "non-nil: " + short(w, 120)
										} else if w, ok := r.callersHaveNonNil(f, ff.TB.Of(x.X)); ok {
											by = w
										}
										add(ins, "nilderef", "field access through "+short(ff.TB.Of(x.X).String(), 80)+", a field of a parameter that the module's constructors of "+prm.Type().String()+" may leave nil", by, ff.TB.Of(x.X).Stable())
									}
								}
							}
						}
					}
				}
			case *ssa.UnOp:
				if x.Op == token.MUL {
					if _, isPtr := x.X.Type().Underlying().(*types.Pointer); isPtr {
						if what, is := nilable(x.X); is {
							at := ff.At(ins)
							by := ""
							if w, ok := nonNilFact(at, x.X); ok {
								by = "non-nil: " + short(w, 120)
							}
							add(ins, "nilderef", "dereference of "+what+": "+short(ff.TB.Of(x.X).String(), 80), by, ff.TB.Of(x.X).Stable())
						}
					}
				}
			case *ssa.Call:
				if sc := x.Common().StaticCallee(); sc != nil && sc.String() == "crypto/ed25519.Verify" {
					at := ff.At(ins)
					kt := ff.TB.Of(x.Common().Args[0])
					by := ""
					for _, fc := range at {
						if fc.Kind == "cmp" && fc.Op == "==" && fc.A.String() == "len("+kt.String()+")" && fc.B.Name == "32" {
							by = "precondition: " + fc.Key()
						}
					}
					add(ins, "stdlib", "ed25519.Verify panics unless len(publicKey) == 32", by, kt.Stable())
				}
			}
		}
	}
	return out
}

func isIntType(t types.Type) bool {
	b, ok := t.Underlying().(*types.Basic)
	return ok && b.Info()&types.IsInteger != 0
}

func arrayLen(t types.Type) (int64, bool) {
	t = t.Underlying()
	if p, ok := t.(*types.Pointer); ok {
		t = p.Elem().Underlying()
	}
	if a, ok := t.(*types.Array); ok {
		return a.Len(), true
	}
	return 0, false
}

// nilableParamsOf computes, over the reachable functions, which pointer
// parameters may receive a possibly-nil decoded pointer without the call site
// having a non-nil fact (interprocedural fixpoint).
func (r *Run) nilableParamsOf(fns []*ssa.Function) map[*ssa.Parameter]bool {
	out := map[*ssa.Parameter]bool{}
	inSet := map[*ssa.Function]bool{}
	for _, f := range fns {
		inSet[f] = true
	}
	changed := true
	for iter := 0; changed && iter < 10; iter++ {
		changed = false
		for _, f := range fns {
			ff := r.E.Facts(f, core.Ctx{})
			for _, b := range f.Blocks {
				for _, ins := range b.Instrs {
					c, ok := ins.(ssa.CallInstruction)
					if !ok {
						continue
					}
					cc := c.Common()
					var callees []*ssa.Function
					if cc.IsInvoke() {
						callees = r.P.Impls(cc.Method)
					} else if sc := cc.StaticCallee(); sc != nil {
						callees = []*ssa.Function{sc}
					}
					args := core.CallArgs(cc)
					for ai, a := range args {
						if _, isPtr := a.Type().Underlying().(*types.Pointer); !isPtr {
							continue
						}
						isNilable := false
						if p, ok := a.(*ssa.Parameter); ok && out[p] {
							isNilable = true
						}
						if u, ok := a.(*ssa.UnOp); ok && u.Op == token.MUL {
							if fa, ok := u.X.(*ssa.FieldAddr); ok {
								if st := derefStructT(fa.X.Type()); st != nil && nilableField(st, fa.Field) {
									isNilable = true
								}
							}
						}
						if fl, ok := a.(*ssa.Field); ok {
							if st, _ := fl.X.Type().Underlying().(*types.Struct); st != nil && nilableField(st, fl.Field) {
								isNilable = true
							}
						}
						// the result of a module function that may hand back a nil pointer without an error
						{
							cv := a
							if ex, ok := cv.(*ssa.Extract); ok && ex.Index == 0 {
								cv = ex.Tuple
							}
							if rc, ok := cv.(*ssa.Call); ok {
								if g := rc.Common().StaticCallee(); g != nil && r.P.IsSubject(g) && r.mayReturnNilPointer(g, 0) {
									isNilable = true
								}
							}
						}
						if !isNilable {
							continue
						}
						// proven non-nil at the call site?
						ts := ff.TB.Of(a).String()
						proven := false
						for _, fc := range ff.At(ins) {
							if fc.Kind == "cmp" && fc.Op == "!=" && fc.A.String() == ts && fc.B.Name == "nil" {
								proven = true
							}
						}
						if proven {
							continue
						}
						for _, cal := range callees {
							if !inSet[cal] || ai >= len(cal.Params) {
								continue
							}
							if !out[cal.Params[ai]] {
								out[cal.Params[ai]] = true
								changed = true
							}
						}
					}
				}
			}
		}
	}
	return out
}

var closureOrdinal = regexp.MustCompile(`\$[0-9]+`)

func normFunc(name string) string { return closureOrdinal.ReplaceAllString(name, "$") }

// listValueAssertOK: a single-result assertion x.(T) on (*list.Element).Value is
// safe when every value ever pushed into a container/list in the same
// top-level function (and its closures) is a T boxed into an interface.
func (r *Run) listValueAssertOK(site panicSite) (string, bool) {
	ta, ok := site.Instr.(*ssa.TypeAssert)
	if !ok {
		return "", false
	}
	// operand must be a load of (*list.Element).Value
	u, ok := ta.X.(*ssa.UnOp)
	if !ok {
		return "", false
	}
	fa, ok := u.X.(*ssa.FieldAddr)
	if !ok || !strings.HasSuffix(fa.X.Type().String(), "container/list.Element") || fieldName(fa) != "Value" {
		return "", false
	}
	root := site.Fn
	for root.Parent() != nil {
		root = root.Parent()
	}
	var fns []*ssa.Function
	var collect func(f *ssa.Function)
	collect = func(f *ssa.Function) {
		fns = append(fns, f)
		for _, a := range f.AnonFuncs {
			collect(a)
		}
	}
	collect(root)
	// a helper at package level that is handed the element (a closure moved out of its function): the lists it can be
	// given are those of its package
	hasInsert := func(fs []*ssa.Function) bool {
		for _, f := range fs {
			for _, b := range f.Blocks {
				for _, ins := range b.Instrs {
					if c, ok := ins.(*ssa.Call); ok {
						if sc := c.Common().StaticCallee(); sc != nil && sc.Pkg != nil && sc.Pkg.Pkg.Path() == "container/list" && strings.HasPrefix(sc.Name(), "Push") {
							return true
						}
					}
				}
			}
		}
		return false
	}
	if !hasInsert(fns) && root.Pkg != nil {
		fns = nil
		for _, m := range root.Pkg.Members {
			if h, isF := m.(*ssa.Function); isF {
				collect(h)
			}
		}
	}
	n := 0
	for _, f := range fns {
		for _, b := range f.Blocks {
			for _, ins := range b.Instrs {
				c, ok := ins.(*ssa.Call)
				if !ok {
					continue
				}
				sc := c.Common().StaticCallee()
				if sc == nil || sc.Pkg == nil || sc.Pkg.Pkg.Path() != "container/list" {
					continue
				}
				switch sc.Name() {
				case "PushBack", "PushFront", "InsertBefore", "InsertAfter":
					n++
					v := c.Common().Args[1]
					mi, ok := v.(*ssa.MakeInterface)
					if !ok || !types.Identical(mi.X.Type(), ta.AssertedType) {
						return "", false
					}
				case "PushBackList", "PushFrontList":
					return "", false
				}
			}
		}
	}
	if n == 0 {
		return "", false
	}
	return fmt.Sprintf("every one of the %d container/list insertions in %s boxes a %s", n, core.FuncName(root), types.TypeString(ta.AssertedType, nil)), true
}

// callerDischarge: an index site whose operands are parameters is safe when
// every call site (in the reachable set) proves the bound for the actuals.
func (r *Run) callerDischarge(site panicSite, fns []*ssa.Function) (string, bool) {
	var X, I ssa.Value
	switch y := site.Instr.(type) {
	case *ssa.IndexAddr:
		X, I = y.X, y.Index
	case *ssa.Index:
		X, I = y.X, y.Index
	case *ssa.Lookup:
		X, I = y.X, y.Index
	default:
		return "", false
	}
	k, isConst := constInt(I)
	if !isConst || k < 0 {
		return "", false
	}
	pi := paramIndex(site.Fn, X)
	if pi < 0 {
		return "", false
	}
	n := 0
	for _, g := range fns {
		gf := r.E.Facts(g, core.Ctx{})
		for _, b := range g.Blocks {
			for _, ins := range b.Instrs {
				c, ok := ins.(*ssa.Call)
				if !ok || c.Common().StaticCallee() != site.Fn {
					continue
				}
				n++
				args := core.CallArgs(c.Common())
				if pi >= len(args) {
					return "", false
				}
				xt := gf.TB.Of(args[pi])
				it := &core.Term{Op: "const", Name: fmt.Sprint(k)}
				if _, ok := upperBounded(gf.At(c), it, xt, false); !ok {
					return "", false
				}
			}
		}
	}
	if n == 0 {
		return "", false
	}
	return fmt.Sprintf("all %d call site(s) establish len(argument) > %d", n, k), true
}

// checkNoPanic scans everything reachable from the entries and records one
// obligation per site.
func (r *Run) checkNoPanic(P string, entries map[string]*ssa.Function, floorFns int) {
	var es []*ssa.Function
	var names []string
	for n, f := range entries {
		if f != nil {
			es = append(es, f)
			names = append(names, n)
		}
	}
	sort.Strings(names)
	fns := r.P.Reachable(es...)
	r.R.SetCount("E10 entry points", len(es))
	r.R.SetCount("E10 reachable subject functions", len(fns))
	if os.Getenv("SIDECHECK_DEBUG_REACH") != "" {
		for _, f := range fns {
			fmt.Fprintln(os.Stderr, "reach", core.FuncName(f))
		}
	}
	r.R.List("E10 entry points", names...)
	r.R.Floor(P+".nopanic.floor", "instance floor", len(fns), floorFns, "subject functions reachable from the untrusted entry points")
	np := r.nilableParamsOf(fns)
	total, byRule, byAudit := 0, 0, 0
	auditHits := map[int]int{}
	auditSeen := map[string]bool{}
	auditWhere := map[int][]string{}
	kinds := map[string]int{}
	seenSym := map[string]int{}
	for _, f := range fns {
		for _, s := range r.panicSitesIn(f, np) {
			total++
			kinds[s.Kind]++
			seenSym[s.Symbol]++
			id := P + ".nopanic." + s.Symbol
			rule := "E10: a panic-capable instruction reachable from an untrusted entry point is discharged by a bounds / non-nil / precondition fact on every path, or by an audited per-symbol entry"
			why := "if the instruction can fire, arbitrary input crashes the caller instead of yielding an error"
			where := r.P.Pos(s.Instr.Pos())
			if !s.Instr.Pos().IsValid() {
				where = r.where(f)
			}
			by := s.By
			if by == "" {
				if w, ok := r.listValueAssertOK(s); ok {
					by = "list discipline: " + w
				} else if w, ok := r.callerDischarge(s, fns); ok {
					by = "caller precondition: " + w
				}
			}
			if by != "" {
				byRule++
				r.R.Ok(id, rule, s.Symbol, where, why, s.Desc+" — "+by)
				continue
			}
			// audited entries
			matched := -1
			for ai, a := range auditTable {
				if a.Kind == s.Kind && normFunc(core.FuncName(s.Fn)) == a.Func && strings.Contains(s.Symbol, a.Operand) {
					matched = ai
					break
				}
			}
			if matched >= 0 {
				a := auditTable[matched]
				if a.NeedUpper {
					// upper bound must still be proven
					var X, I ssa.Value
					switch y := s.Instr.(type) {
					case *ssa.IndexAddr:
						X, I = y.X, y.Index
					case *ssa.Lookup:
						X, I = y.X, y.Index
					case *ssa.Index:
						X, I = y.X, y.Index
					}
					ff := r.E.Facts(s.Fn, core.Ctx{})
					if X == nil {
						matched = -1
					} else if _, ok := upperBounded(ff.At(s.Instr), ff.TB.Of(I), ff.TB.Of(X), false); !ok {
						r.R.Add(&core.Obligation{ID: id, Rule: rule, Construct: s.Symbol, Status: core.Violated, Where: where, Why: why,
							Detail: s.Kind + " site: the audited entry waives only the lower bound; the upper bound index < len is not established on every path: " + s.Desc})
						continue
					}
				}
			}
			if matched >= 0 && auditTable[matched].Cursor {
				var I ssa.Value
				switch y := s.Instr.(type) {
				case *ssa.IndexAddr:
					I = y.Index
				case *ssa.Index:
					I = y.Index
				case *ssa.Lookup:
					I = y.Index
				}
				if why, ok := cursorInvariant(s.Fn, I); !ok {
					r.R.Add(&core.Obligation{ID: id, Rule: rule, Construct: s.Symbol, Status: core.Violated, Where: where, Why: why,
						Detail: s.Kind + " site: the audited lower bound rests on the cursor never being negative, which no longer holds: " + why + " — " + s.Desc})
					continue
				}
			}
			if matched >= 0 && auditTable[matched].NeedStrict {
				var I ssa.Value
				switch y := s.Instr.(type) {
				case *ssa.IndexAddr:
					I = y.Index
				case *ssa.Index:
					I = y.Index
				}
				ff := r.E.Facts(s.Fn, core.Ctx{})
				strict := false
				if I != nil {
					it := ff.TB.Of(I).String()
					for _, fc := range ff.At(s.Instr) {
						if fc.Kind == "cmp" && fc.A != nil && fc.B != nil && ((fc.Op == "<" && fc.A.String() == it) || (fc.Op == ">" && fc.B.String() == it)) {
							strict = true
						}
					}
				}
				if !strict {
					auditHits[matched]++
					r.R.Add(&core.Obligation{ID: id, Rule: rule, Construct: s.Symbol, Status: core.Violated, Where: where, Why: why,
						Detail: s.Kind + " site: the audited argument needs a strict test index < bound before the access, and none holds here: " + s.Desc})
					continue
				}
			}
			if matched >= 0 {
				byAudit++
				// a helper inlined at several call sites (normalisation) repeats the audited instruction at one source position
				pk := fmt.Sprintf("%d|%s", matched, r.P.Fset.Position(s.Instr.Pos()).String())
				auditWhere[matched] = append(auditWhere[matched], r.P.Fset.Position(s.Instr.Pos()).String())
				if !auditSeen[pk] {
					auditSeen[pk] = true
					auditHits[matched]++
				}
				r.R.Ok(id, rule, s.Symbol, where, why, s.Desc+" — audited: "+auditTable[matched].Reason)
				continue
			}
			r.R.Add(&core.Obligation{ID: id, Rule: rule, Construct: s.Symbol, Status: core.Violated, Where: where, Why: why,
				Detail: s.Kind + " site not discharged: " + s.Desc})
		}
	}
	// audited entries must match exactly the number of sites confirmed by reading
	reachableFn := map[string]bool{}
	for _, f := range fns {
		reachableFn[normFunc(core.FuncName(f))] = true
	}
	for ai, a := range auditTable {
		if !reachableFn[a.Func] {
			continue
		}
		if a.Count >= 0 && auditHits[ai] != a.Count {
			r.R.Unk(P+".nopanic.audit."+a.Kind+"@"+a.Func+":"+a.Operand, "E10 audited entry count", a.Func, "-",
				"an audited exception that matches more (or fewer) sites than were confirmed by reading is no longer the audited code",
				fmt.Sprintf("audited entry matched %d site(s), %d were confirmed by reading (%s)", auditHits[ai], a.Count, strings.Join(auditWhere[ai], " ")))
		}
	}
	r.R.SetCount("E10 panic-capable sites", total)
	r.R.SetCount("E10 discharged by rule", byRule)
	r.R.SetCount("E10 discharged by audited entry", byAudit)
	for k, n := range kinds {
		r.R.SetCount("E10 sites of kind "+k, n)
	}
}

// jsonNilableFields: pointer-typed, json-tagged struct fields of module types.
func (r *Run) jsonNilableFields() map[*types.Var]bool {
	if r.nilableCache != nil {
		return r.nilableCache
	}
	m := map[*types.Var]bool{}
	for _, pk := range r.P.Pkgs {
		sc := pk.Types.Scope()
		for _, n := range sc.Names() {
			tn, ok := sc.Lookup(n).(*types.TypeName)
			if !ok {
				continue
			}
			st, ok := tn.Type().Underlying().(*types.Struct)
			if !ok {
				continue
			}
			for i := 0; i < st.NumFields(); i++ {
				if nilableField(st, i) {
					m[st.Field(i)] = true
				}
			}
		}
	}
	r.nilableCache = m
	return m
}

// mayNilResultField: may field fv of the struct returned (result 0) by fn under
// ctx be nil at a success return? (bottom-up may-analysis with recursion guard)
func (r *Run) mayNilResultField(fn *ssa.Function, ctx core.Ctx, fv *types.Var, depth int) bool {
	if fn == nil || fn.Blocks == nil || !r.P.IsSubject(fn) || depth > 6 {
		return true
	}
	key := fmt.Sprintf("%s|%v|%s", fn.String(), ctx.ParamBool, fv.Name())
	if r.mayNilMemo == nil {
		r.mayNilMemo = map[string]int{}
	}
	switch r.mayNilMemo[key] {
	case 1:
		return true
	case 2:
		return false
	case 3:
		return false // in progress: optimistic for recursion
	}
	r.mayNilMemo[key] = 3
	ff := r.E.Facts(fn, ctx)
	res := false
	for _, ri := range ff.Returns() {
		if ri.Class != core.RetSuccess || len(ri.Ret.Results) == 0 {
			continue
		}
		for _, leaf := range phiLeaves(core.RetOp(ri.Ret, 0)) {
			if r.mayNilField(ff, ri.Facts, leaf, fv, depth) {
				res = true
			}
		}
	}
	if res {
		r.mayNilMemo[key] = 1
	} else {
		r.mayNilMemo[key] = 2
	}
	return res
}

// mayNilField: may field fv of the struct value v (in ff's function, with
// facts holding) be nil?
func (r *Run) mayNilField(ff *core.FnFacts, facts core.FactSet, v ssa.Value, fv *types.Var, depth int) bool {
	switch x := v.(type) {
	case *ssa.Alloc:
		n := 0
		// a field that is only assigned on some paths may still hold its zero value
		definite := false
		prefix := "stored(" + ff.TB.Of(x).String() + "." + fv.Name() + ","
		for k := range facts {
			if strings.HasPrefix(k, prefix) {
				definite = true
			}
		}
		if refs := x.Referrers(); refs != nil {
			for _, rf := range *refs {
				fa, ok := rf.(*ssa.FieldAddr)
				if !ok || derefStructT(fa.X.Type()).Field(fa.Field) != fv {
					continue
				}
				if frefs := fa.Referrers(); frefs != nil {
					for _, fr := range *frefs {
						if st, ok := fr.(*ssa.Store); ok && st.Addr == ssa.Value(fa) {
							n++
							if r.mayNilValue(ff, facts, st.Val, depth) {
								return true
							}
						}
					}
				}
			}
		}
		if n > 0 && !definite {
			return true // assigned only conditionally
		}
		return n == 0 // never assigned: zero value
	case *ssa.Extract:
		return r.mayNilField(ff, facts, x.Tuple, fv, depth)
	case *ssa.Call:
		cc := x.Common()
		var callees []*ssa.Function
		if cc.IsInvoke() {
			callees = r.P.Impls(cc.Method)
		} else if sc := cc.StaticCallee(); sc != nil {
			callees = []*ssa.Function{sc}
		}
		if len(callees) == 0 {
			return true
		}
		for _, cal := range callees {
			if r.mayNilResultField(cal, ff.CalleeCtx(cc, cal), fv, depth+1) {
				return true
			}
		}
		return false
	case *ssa.Const:
		return false // nil struct pointer: the deref of the struct itself is another site
	}
	return true
}

// mayNilValue: may the pointer value v be nil, given facts?
func (r *Run) mayNilValue(ff *core.FnFacts, facts core.FactSet, v ssa.Value, depth int) bool {
	if c, ok := v.(*ssa.Const); ok {
		return c.Value == nil
	}
	ts := ff.TB.Of(v).String()
	for _, fc := range facts {
		if fc.Kind == "cmp" && fc.Op == "!=" && fc.A.String() == ts && fc.B.Name == "nil" {
			return false
		}
	}
	switch x := v.(type) {
	case *ssa.Alloc, *ssa.MakeMap, *ssa.MakeSlice:
		return false
	case *ssa.UnOp:
		if x.Op == token.MUL {
			if fa, ok := x.X.(*ssa.FieldAddr); ok {
				st := derefStructT(fa.X.Type())
				fv := st.Field(fa.Field)
				if r.jsonNilableFields()[fv] {
					return true
				}
				// field of a call result
				base := fa.X
				if ex, ok := base.(*ssa.Extract); ok {
					base = ex.Tuple
				}
				if _, ok := base.(*ssa.Call); ok {
					return r.mayNilField(ff, facts, base, fv, depth)
				}
				return false
			}
		}
	case *ssa.Phi:
		for _, e := range x.Edges {
			if r.mayNilValue(ff, facts, e, depth) {
				return true
			}
		}
		return false
	case *ssa.Extract:
		if c, ok := x.Tuple.(*ssa.Call); ok && x.Index == 0 {
			if g := c.Common().StaticCallee(); g != nil && r.P.IsSubject(g) {
				return r.mayReturnNilPointer(g, 0)
			}
		}
	case *ssa.Call:
		if g := x.Common().StaticCallee(); g != nil && r.P.IsSubject(g) {
			return r.mayReturnNilPointer(g, 0)
		}
	}
	return false
}

// mayReturnNilPointer: some return of g whose error result can be nil hands back, as result 0, a pointer that a JSON
// decoder filled through its address (nil after decoding `null`), or the result of a module function that does.
func (r *Run) mayReturnNilPointer(g *ssa.Function, depth int) bool {
	if g == nil || len(g.Blocks) == 0 || depth > 3 || g.Signature.Results().Len() == 0 {
		return false
	}
	if _, isPtr := g.Signature.Results().At(0).Type().Underlying().(*types.Pointer); !isPtr {
		return false
	}
	if r.nilResultCache == nil {
		r.nilResultCache = map[*ssa.Function]int{}
	}
	if v, ok := r.nilResultCache[g]; ok {
		return v == 1
	}
	r.nilResultCache[g] = 0
	gf := r.E.Facts(g, core.Ctx{})
	res := false
	for _, ri := range gf.Returns() {
		if ri.Class != core.RetSuccess || len(ri.Ret.Results) == 0 && g.Signature.Results().Len() > 1 {
			continue
		}
		for _, l := range phiLeaves(core.RetOp(ri.Ret, 0)) {
			if ex, ok := l.(*ssa.Extract); ok && ex.Index == 0 {
				l = ex.Tuple
			}
			switch x := l.(type) {
			case *ssa.UnOp:
				al, isAl := x.X.(*ssa.Alloc)
				if x.Op != token.MUL || !isAl || al.Referrers() == nil {
					continue
				}
				for _, rf := range *al.Referrers() {
					mi, isMI := rf.(*ssa.MakeInterface)
					if !isMI || mi.Referrers() == nil {
						continue
					}
					for _, mr := range *mi.Referrers() {
						if c, isC := mr.(*ssa.Call); isC {
							if sc := c.Common().StaticCallee(); sc != nil && (sc.Name() == "Unmarshal" || sc.Name() == "Decode") {
								res = true
							}
						}
					}
				}
			case *ssa.Call:
				if h := x.Common().StaticCallee(); h != nil && r.P.IsSubject(h) && r.mayReturnNilPointer(h, depth+1) {
					res = true
				}
			}
		}
	}
	if res {
		r.nilResultCache[g] = 1
	}
	return res
}

// producersMayLeaveNil: some subject function whose first result has type t can return, without an error, a value
// whose field fv is nil.
func (r *Run) producersMayLeaveNil(t types.Type, fv *types.Var) bool {
	if r.producerMemo == nil {
		r.producerMemo = map[*types.Var]int{}
	}
	if v, ok := r.producerMemo[fv]; ok {
		return v == 1
	}
	r.producerMemo[fv] = 0
	for _, g := range r.P.SubjectFuncs() {
		res := g.Signature.Results()
		if res.Len() == 0 || !types.Identical(res.At(0).Type(), t) || g.Parent() != nil {
			continue
		}
		if r.mayNilResultField(g, core.Ctx{}, fv, 0) {
			r.producerMemo[fv] = 1
			return true
		}
	}
	return false
}

// callersHaveNonNil: every static call site of f in subject code carries `<term with f's parameters replaced by the
// arguments> != nil`; false when f has no static call site (called through a function value, or exported and unused).
func (r *Run) callersHaveNonNil(f *ssa.Function, t *core.Term) (string, bool) {
	callers := r.callersOf(f)
	if len(callers) == 0 {
		return "", false
	}
	for _, c := range callers {
		cf := c.Parent()
		cff := r.E.Facts(cf, core.Ctx{})
		var actual []*core.Term
		for _, a := range core.CallArgs(c.Common()) {
			actual = append(actual, cff.TB.Of(a))
		}
		ts := t.Subst(actual).String()
		found := false
		for _, fc := range cff.At(c) {
			if fc.Kind == "cmp" && fc.Op == "!=" && fc.A.String() == ts && fc.B.Name == "nil" {
				found = true
			}
		}
		if !found {
			return "", false
		}
	}
	return "caller precondition: every call site has " + t.String() + " != nil", true
}

// upperBoundedX: upperBounded, extended by the minimum idiom. `m := len(a); if m > len(b) { m = len(b) }` makes m a
// merged value every operand of which is len(x) itself or, on the way it comes in by, known not to exceed len(x); an
// index below m (or below the length of `y[:m]`) is then below len(x).
func (r *Run) upperBoundedX(ff *core.FnFacts, facts core.FactSet, idx, x *core.Term, inclusive bool) (string, bool) {
	if w, ok := upperBounded(facts, idx, x, inclusive); ok {
		return w, true
	}
	// candidates: M with idx < M (idx ≤ M when inclusive); idx itself when inclusive
	type cand struct {
		m   *core.Term
		why string
	}
	var cands []cand
	if inclusive {
		cands = append(cands, cand{idx, "the bound itself"})
	}
	is := idx.String()
	for _, f := range facts {
		if f.Kind != "cmp" || f.A == nil || f.B == nil {
			continue
		}
		switch {
		case f.A.String() == is && (f.Op == "<" || (inclusive && f.Op == "<=")):
			cands = append(cands, cand{f.B, f.Key()})
		case f.B.String() == is && (f.Op == ">" || (inclusive && f.Op == ">=")):
			cands = append(cands, cand{f.A, f.Key()})
		}
	}
	for _, c := range cands {
		m := c.m
		// len(y[:h]) is h
		if m.Op == "len" && len(m.Args) == 1 && m.Args[0].Op == "slice" && len(m.Args[0].Args) > 2 && m.Args[0].Args[2] != nil && m.Args[0].Args[1] == nil {
			m = m.Args[0].Args[2]
		}
		if m.Op != "phi" {
			continue
		}
		phi, ok := m.Val.(*ssa.Phi)
		if !ok || phi.Parent() != ff.Fn {
			continue
		}
		if r.minPhi(ff, phi, x) {
			return c.why + " ∧ " + m.String() + " ≤ len(" + short(x.String(), 40) + ") on every way in (minimum idiom)", true
		}
	}
	return "", false
}

// minPhi: every operand of phi is len(x) or is known, on its edge, to be at most len(x).
func (r *Run) minPhi(ff *core.FnFacts, phi *ssa.Phi, x *core.Term) bool {
	xs := "len(" + x.String() + ")"
	for i, e := range phi.Edges {
		et := ff.TB.Of(e).String()
		if et == xs {
			continue
		}
		set := phiEdgeFacts(ff, phi, i)
		ok := false
		for _, f := range set {
			if f.Kind != "cmp" || f.A == nil || f.B == nil {
				continue
			}
			a, b := f.A.String(), f.B.String()
			if (a == et && b == xs && (f.Op == "<" || f.Op == "<=")) || (a == xs && b == et && (f.Op == ">" || f.Op == ">=")) {
				ok = true
			}
		}
		if !ok {
			return false
		}
	}
	return len(phi.Edges) > 0
}

// factNonNegative: the facts say the term is at least 0 (the "index or -1" result tested before use).
func factNonNegative(at core.FactSet, t *core.Term) bool {
	ts := t.String()
	for _, f := range at {
		if f.Kind != "cmp" || f.A == nil || f.B == nil || f.B.Op != "const" || f.A.String() != ts {
			continue
		}
		switch {
		case f.Op == ">=" && f.B.Name == "0", f.Op == ">" && f.B.Name == "-1", f.Op == "!=" && f.B.Name == "-1" && rangeIndexTerm(t):
			return true
		}
	}
	// the index of a range loop
	return rangeIndexTerm(t)
}

// rangeIndexTerm: (φ + 1) where φ merges -1 and the term's own value — the index of a range loop over a slice.
func rangeIndexTerm(t *core.Term) bool {
	if t.Op != "bin" || t.Name != "+" || len(t.Args) != 2 || t.Args[1].Op != "const" || t.Args[1].Name != "1" {
		return false
	}
	phi, ok := t.Args[0].Val.(*ssa.Phi)
	if !ok || len(phi.Edges) != 2 {
		return false
	}
	hasInit, hasSelf := false, false
	for _, e := range phi.Edges {
		if c, isC := e.(*ssa.Const); isC && c.Value != nil && c.Value.ExactString() == "-1" {
			hasInit = true
		}
		if b, isB := e.(*ssa.BinOp); isB && b.Op == token.ADD && b.X == ssa.Value(phi) {
			hasSelf = true
		}
	}
	return hasInit && hasSelf
}

// cursorInvariant: idx is a load of a local variable of the root function (directly or as a captured variable) all of
// whose stores keep it non-negative: a non-negative constant, the variable plus one, a value loaded from the variable
// earlier (save / restore), and at most one decrement in the whole function tree.
func cursorInvariant(fn *ssa.Function, idx ssa.Value) (string, bool) {
	ld, ok := idx.(*ssa.UnOp)
	if !ok || ld.Op != token.MUL {
		return "the index is not a load of the cursor variable", false
	}
	var al *ssa.Alloc
	switch a := ld.X.(type) {
	case *ssa.Alloc:
		al = a
	case *ssa.FreeVar:
		al = allocOfFreeVar(fn, a)
	}
	if al == nil {
		return "the cursor variable could not be identified", false
	}
	root := al.Parent()
	var fns []*ssa.Function
	var collect func(f *ssa.Function)
	collect = func(f *ssa.Function) {
		fns = append(fns, f)
		for _, a := range f.AnonFuncs {
			collect(a)
		}
	}
	collect(root)
	isCursor := func(f *ssa.Function, addr ssa.Value) bool {
		if addr == ssa.Value(al) {
			return true
		}
		if fv, ok := addr.(*ssa.FreeVar); ok && freeVarBinds(f, fv, al) {
			return true
		}
		return false
	}
	loadOfCursor := func(f *ssa.Function, v ssa.Value) bool {
		u, ok := v.(*ssa.UnOp)
		return ok && u.Op == token.MUL && isCursor(f, u.X)
	}
	dec := 0
	decAt := map[string]bool{}
	for _, f := range fns {
		for _, b := range f.Blocks {
			for _, ins := range b.Instrs {
				st, ok := ins.(*ssa.Store)
				if !ok || !isCursor(f, st.Addr) {
					continue
				}
				switch v := st.Val.(type) {
				case *ssa.Const:
					if n, ok := constInt(v); !ok || n < 0 {
						return "the cursor is set to a constant that may be negative at " + f.Prog.Fset.Position(st.Pos()).String(), false
					}
				case *ssa.BinOp:
					one, isOne := constInt(v.Y)
					switch {
					case v.Op == token.ADD && loadOfCursor(f, v.X) && isOne && one >= 0:
					case v.Op == token.SUB && loadOfCursor(f, v.X) && isOne && one == 1:
						// (a helper inlined at two call sites repeats one decrement: counted by source position)
						if pos := f.Prog.Fset.Position(st.Pos()).String(); !decAt[pos] {
							decAt[pos] = true
							dec++
						}
					default:
						return "the cursor is assigned a computed value at " + f.Prog.Fset.Position(st.Pos()).String(), false
					}
				case *ssa.UnOp:
					// restoring a saved value: the saved value is itself a load of the cursor (possibly kept in a local)
					if loadOfCursor(f, v) {
						continue
					}
					if inner, ok := v.X.(*ssa.Alloc); ok && v.Op == token.MUL {
						good := true
						if refs := inner.Referrers(); refs != nil {
							for _, rf := range *refs {
								if s2, isSt := rf.(*ssa.Store); isSt && s2.Addr == ssa.Value(inner) && !loadOfCursor(f, s2.Val) {
									good = false
								}
							}
						}
						if good {
							continue
						}
					}
					return "the cursor is assigned a value that is not one of its own earlier values at " + f.Prog.Fset.Position(st.Pos()).String(), false
				default:
					if loadOfCursor(f, st.Val) {
						continue
					}
					return "the cursor is assigned a computed value at " + f.Prog.Fset.Position(st.Pos()).String(), false
				}
			}
		}
	}
	if dec > 1 {
		return fmt.Sprintf("the cursor is decremented at %d places", dec), false
	}
	return "", true
}
