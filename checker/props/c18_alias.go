package props

import (
	"fmt"
	"strings"

	"golang.org/x/tools/go/ssa"

	"sidecheck/core"
)

// checkCopyAliasing (C18, termination and no-panic at the engine boundary).
//
// Premise A (derived from the engine's source on every run): the JSON-patch
// engine pinned by the module implements `copy` by storing at the destination
// the very node it got from the source (the value passed to container.set is
// the result of container.get, no deep copy in between). Two locations then
// share a node; a copy whose destination lies inside its source — however the
// two pointers are spelled: "/arr/0" vs "/arr/00", "/a~0" vs "/a~" — makes the
// document contain itself, and serializing it recurses without bound (fatal
// stack overflow, not recoverable). No textual comparison of the two pointers
// in the subject can mirror the engine's token semantics reliably, so under
// premise A the obligation is: **no `copy` operation reaches the engine** —
// every Apply call is dominated by a loop over the patch it applies whose every
// completing iteration established kind(op) ≠ "copy".
//
// Premise B (derived likewise): the engine indexes arrays with the result of
// strconv.Atoi after testing only the upper bound (a negative index panics).
// Under premise B every Apply call must sit in a function that recovers and
// turns the panic into its error result.
//
// When a premise is false (a newer engine release) its obligation is vacuous.
func (r *Run) checkCopyAliasing(P string) {
	var eng *ssa.Package
	for _, sp := range r.P.SSA.AllPackages() {
		if sp.Pkg.Path() == "github.com/evanphx/json-patch" {
			eng = sp
		}
	}
	why := "[{\"op\":\"copy\",\"from\":\"/arr/0\",\"path\":\"/arr/00/b\"}] (or from /a~0 to /a~/b, or copy /a→/b/x followed by copy /b→/a/y) passes validation and makes the composer's document cyclic: Apply overflows the stack and kills the process"
	whyB := "[{\"op\":\"replace\",\"path\":\"/arr/-2\",\"value\":1}] or a `test` operation without value passes validation and panics inside the engine: ApplyPatches panics instead of returning an error"
	if eng == nil {
		r.R.Unk(P+".alias.engine", "engine premise", "github.com/evanphx/json-patch", "-", why, "engine package not loaded")
		return
	}
	aliasing, deep, found := false, false, false
	negIndex := false
	for f := range r.P.AllFuncs {
		if f.Pkg != eng || f.Blocks == nil {
			continue
		}
		if f.Name() == "copy" && f.Signature.Recv() != nil {
			found = true
			for _, b := range f.Blocks {
				for _, ins := range b.Instrs {
					c, ok := ins.(ssa.CallInstruction)
					if !ok {
						continue
					}
					cc := c.Common()
					if sc := cc.StaticCallee(); sc != nil && strings.Contains(strings.ToLower(sc.Name()), "deepcopy") {
						deep = true
					}
					if cc.IsInvoke() && cc.Method.Name() == "set" && len(cc.Args) == 2 {
						for _, root := range valueRoots(cc.Args[1]) {
							if rc, ok := root.(*ssa.Call); ok && rc.Common().IsInvoke() && rc.Common().Method.Name() == "get" {
								aliasing = true
							}
						}
					}
				}
			}
		}
		// premise B: an index derived from strconv.Atoi used without a lower-bound test
		ff := r.E.Facts(f, core.Ctx{})
		for _, b := range f.Blocks {
			for _, ins := range b.Instrs {
				var idx ssa.Value
				switch x := ins.(type) {
				case *ssa.IndexAddr:
					idx = x.Index
				case *ssa.Index:
					idx = x.Index
				}
				if idx == nil {
					continue
				}
				fromAtoi := false
				for _, root := range valueRoots(idx) {
					if rc, ok := root.(*ssa.Call); ok && rc.Common().StaticCallee() != nil && rc.Common().StaticCallee().String() == "strconv.Atoi" {
						fromAtoi = true
					}
				}
				if !fromAtoi {
					continue
				}
				it := ff.TB.Of(idx).String()
				lower := false
				for _, fc := range ff.At(ins) {
					if fc.Kind == "cmp" && fc.B.Op == "const" && fc.B.Name == "0" && fc.A.String() == it && (fc.Op == ">=" || fc.Op == ">") {
						lower = true
					}
				}
				if !lower {
					negIndex = true
				}
			}
		}
	}
	if !found {
		r.R.Unk(P+".alias.engine", "engine premise", "github.com/evanphx/json-patch.(Patch).copy", "-", why, "the engine's copy implementation was not found: re-derive the premise")
		return
	}
	premiseA := aliasing && !deep
	r.R.List("engine premises (derived from the JSON-patch library source)",
		fmt.Sprintf("(Patch).copy stores the node returned by container.get at the destination without copying it: %v", premiseA),
		fmt.Sprintf("an array index obtained from strconv.Atoi is used without a lower-bound test (a negative index panics): %v", negIndex))
	n := 0
	for _, f := range r.P.SubjectFuncs() {
		ff := r.E.Facts(f, core.Ctx{})
		for _, b := range f.Blocks {
			for _, ins := range b.Instrs {
				c, ok := ins.(*ssa.Call)
				if !ok {
					continue
				}
				sc := c.Common().StaticCallee()
				if sc == nil || sc.Pkg != eng || (sc.Name() != "Apply" && sc.Name() != "ApplyIndent") {
					continue
				}
				n++
				recv := core.CallArgs(c.Common())[0]
				idA := fmt.Sprintf("%s.alias.nocopy.%s", P, core.FuncName(f))
				ruleA := "sibling agreement (composer ↔ engine) + E6 dual: the engine's copy shares nodes, so no copy operation reaches it — the Apply call is dominated by a loop over the applied patch whose every completing iteration has kind(operation) ≠ \"copy\""
				if !premiseA {
					r.R.Ok(idA, "vacuous: the engine copies deeply", core.FuncName(f), r.P.Pos(c.Pos()), why, "not needed")
				} else {
					ok, det := r.noCopyLoopBefore(ff, c, recv)
					r.R.Check(ok, idA, ruleA, core.FuncName(f), r.P.Pos(c.Pos()), why, det, det)
				}
				idB := fmt.Sprintf("%s.engine.recover.%s", P, core.FuncName(f))
				ruleB := "E8 pairing: a call into the engine (which can panic on attacker-controlled operations) sits in a function whose deferred closure recovers and assigns the function's error result"
				if !negIndex {
					r.R.Ok(idB, "vacuous: no unguarded Atoi-derived index in the engine", core.FuncName(f), r.P.Pos(c.Pos()), whyB, "not needed")
				} else {
					ok, det := recoversIntoError(f)
					r.R.Check(ok, idB, ruleB, core.FuncName(f), r.P.Pos(c.Pos()), whyB, det, det)
				}
			}
		}
	}
	r.R.Floor(P+".alias.floor", "instance floor", n, 1, "calls of the JSON-patch engine's Apply in the subject")
}

// noCopyLoopBefore: call c (applying patch value recv) is dominated by a loop
// over recv, lies outside that loop, and every iteration path that returns to
// the loop head carries cmp(K(elem of recv, "op") != "copy").
func (r *Run) noCopyLoopBefore(ff *core.FnFacts, c *ssa.Call, recv ssa.Value) (bool, string) {
	f := ff.Fn
	rt := ff.TB.Of(recv).String()
	for _, head := range allLoopHeads(f) {
		if !head.Dominates(c.Block()) || blockReaches(ff, c.Block(), head, nil) {
			continue
		}
		paths := loopIterationPaths(ff, head, 2000)
		nBack, good := 0, true
		for _, ip := range paths {
			if ip.Ret != nil {
				continue
			}
			nBack++
			okPath := false
			for _, fc := range rawPathFacts(ff, ip.Blocks) {
				if fc.Kind != "cmp" || fc.Op != "!=" || fc.B.Op != "const" || fc.B.Name != `"copy"` || fc.A.Op != "call" {
					continue
				}
				hasOp, hasElem := false, false
				for _, a := range fc.A.Args {
					as := a.String()
					if as == `"op"` {
						hasOp = true
					}
					if strings.HasPrefix(as, "range:") || strings.HasPrefix(as, rt+"[") {
						hasElem = true
					}
				}
				if hasOp && hasElem {
					okPath = true
				}
			}
			if !okPath {
				good = false
			}
		}
		// the loop must range over recv itself
		overRecv := false
		for _, ins := range head.Instrs {
			_ = ins
		}
		for _, b := range f.Blocks {
			for _, ins := range b.Instrs {
				switch x := ins.(type) {
				case *ssa.Range:
					if x.X == recv {
						overRecv = true
					}
				case *ssa.IndexAddr:
					if x.X == recv {
						overRecv = true
					}
				case *ssa.Index:
					if x.X == recv {
						overRecv = true
					}
				}
			}
		}
		if good && nBack > 0 && overRecv {
			return true, fmt.Sprintf("dominated by a loop over the patch with kind ≠ copy on all %d completing iteration paths", nBack)
		}
	}
	// the rejecting loop may live in a helper: Apply under ok(g(recv)) where g succeeds only after its own
	// loop over the patch completed with kind ≠ copy for every element (no success return inside the loop)
	for _, fc := range ff.At(c) {
		if fc.Kind != "ok" || fc.A == nil || fc.A.Op != "call" || fc.A.Callee == nil || !r.P.IsSubject(fc.A.Callee) {
			continue
		}
		g := fc.A.Callee
		for k, a := range fc.A.Args {
			if a.String() != rt || k >= len(g.Params) || len(g.Blocks) == 0 {
				continue
			}
			gf := r.E.Facts(g, core.Ctx{})
			for _, head := range allLoopHeads(g) {
				nBack, good := 0, true
				for _, ip := range loopIterationPaths(gf, head, 2000) {
					if ip.Ret != nil {
						// a return from inside the loop must be a failure
						for _, ri := range gf.Returns() {
							if ri.Ret == ip.Ret && ri.Class == core.RetSuccess {
								good = false
							}
						}
						continue
					}
					nBack++
					okPath := false
					for _, pf := range rawPathFacts(gf, ip.Blocks) {
						if pf.Kind != "cmp" || pf.Op != "!=" || pf.B.Op != "const" || pf.B.Name != `"copy"` || pf.A.Op != "call" {
							continue
						}
						hasOp, hasElem := false, false
						for _, x := range pf.A.Args {
							xs := x.String()
							if xs == `"op"` {
								hasOp = true
							}
							if strings.HasPrefix(xs, "range:") || strings.HasPrefix(xs, "$"+g.Params[k].Name()+"[") {
								hasElem = true
							}
						}
						if hasOp && hasElem {
							okPath = true
						}
					}
					if !okPath {
						good = false
					}
				}
				over := false
				for _, b := range g.Blocks {
					for _, ins := range b.Instrs {
						switch x := ins.(type) {
						case *ssa.Range:
							over = over || x.X == ssa.Value(g.Params[k])
						case *ssa.IndexAddr:
							over = over || x.X == ssa.Value(g.Params[k])
						case *ssa.Index:
							over = over || x.X == ssa.Value(g.Params[k])
						}
					}
				}
				if good && nBack > 0 && over {
					return true, fmt.Sprintf("under ok(%s(patch)), whose loop over the patch has kind ≠ copy on all %d completing iteration paths and no success return inside", core.FuncName(g), nBack)
				}
			}
		}
	}
	return false, "Apply receives " + rt + " without a dominating loop that rejects copy operations: a copy reaches the engine"
}

// recoversIntoError: f defers a closure that calls recover() and stores into an error-typed variable of f.
func recoversIntoError(f *ssa.Function) (bool, string) {
	for _, b := range f.Blocks {
		for _, ins := range b.Instrs {
			d, ok := ins.(*ssa.Defer)
			if !ok {
				continue
			}
			var cl *ssa.Function
			switch v := d.Call.Value.(type) {
			case *ssa.MakeClosure:
				cl, _ = v.Fn.(*ssa.Function)
			case *ssa.Function:
				cl = v
			}
			if cl == nil {
				continue
			}
			rec, sets := false, false
			for _, cb := range cl.Blocks {
				for _, ci := range cb.Instrs {
					if c, ok := ci.(*ssa.Call); ok && isBuiltin(c, "recover") {
						rec = true
					}
					if st, ok := ci.(*ssa.Store); ok && isErrorTypeV(st.Val) {
						if _, isFV := st.Addr.(*ssa.FreeVar); isFV {
							sets = true
						}
					}
				}
			}
			if rec && sets {
				return true, "deferred closure recovers and assigns the error result"
			}
		}
	}
	return false, "no deferred recover that assigns the error result: a panic inside the engine propagates to the caller"
}
