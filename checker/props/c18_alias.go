package props

import (
	"fmt"
	"go/token"
	"strings"

	"golang.org/x/tools/go/ssa"

	"sidecheck/core"
)

// checkCopyAliasing (C18, termination): the JSON-patch engine pinned by the
// module implements `copy` by storing at the destination the very node it got
// from the source (derived from the engine's source: the value passed to
// container.set is the result of container.get, no deep copy in between). Two
// locations of the document then share a node, and a later write through one of
// them — or a copy whose destination lies inside its source — makes the
// document contain itself; serializing it recurses without bound (fatal stack
// overflow, not recoverable). Under that premise the subject must
//   (single)     hand the engine one operation per Apply call, each on the
//                re-serialized result of the previous one, so that sharing never
//                spans operations, and
//   (descendant) reach Apply only after a check on that operation that rejects a
//                copy whose path lies inside its from.
// When the engine deep-copies (a newer release) both obligations are vacuous.
func (r *Run) checkCopyAliasing(P string) {
	var eng *ssa.Package
	for _, sp := range r.P.SSA.AllPackages() {
		if sp.Pkg.Path() == "github.com/evanphx/json-patch" {
			eng = sp
		}
	}
	why := "[{\"op\":\"copy\",\"from\":\"/a\",\"path\":\"/a/x\"}] — or copy /a→/b/x followed by copy /b→/a/y — passes validation and makes the composer's document cyclic: Apply overflows the stack and kills the process"
	if eng == nil {
		r.R.Unk(P+".alias.engine", "engine premise", "github.com/evanphx/json-patch", "-", why, "engine package not loaded")
		return
	}
	aliasing, deep, found := false, false, false
	for f := range r.P.AllFuncs {
		if f.Pkg != eng || f.Blocks == nil || f.Name() != "copy" || f.Signature.Recv() == nil {
			continue
		}
		found = true
		for _, b := range f.Blocks {
			for _, ins := range b.Instrs {
				c, ok := ins.(ssa.CallInstruction)
				if !ok {
					continue
				}
				cc := c.Common()
				if sc := cc.StaticCallee(); sc != nil && strings.Contains(strings.ToLower(sc.Name()), "deepcopy") {
					deep = true
				}
				if cc.IsInvoke() && cc.Method.Name() == "set" && len(cc.Args) == 2 {
					for _, root := range valueRoots(cc.Args[1]) {
						if rc, ok := root.(*ssa.Call); ok && rc.Common().IsInvoke() && rc.Common().Method.Name() == "get" {
							aliasing = true
						}
					}
				}
			}
		}
	}
	if !found {
		r.R.Unk(P+".alias.engine", "engine premise", "github.com/evanphx/json-patch.(Patch).copy", "-", why, "the engine's copy implementation was not found: re-derive the premise")
		return
	}
	premise := aliasing && !deep
	r.R.List("engine premises (derived from the JSON-patch library source)", fmt.Sprintf("(Patch).copy stores the node returned by container.get at the destination without copying it: %v", premise))
	n := 0
	for _, f := range r.P.SubjectFuncs() {
		ff := r.E.Facts(f, core.Ctx{})
		for _, b := range f.Blocks {
			for _, ins := range b.Instrs {
				c, ok := ins.(*ssa.Call)
				if !ok {
					continue
				}
				sc := c.Common().StaticCallee()
				if sc == nil || sc.Pkg != eng || (sc.Name() != "Apply" && sc.Name() != "ApplyIndent") {
					continue
				}
				n++
				recv := core.CallArgs(c.Common())[0]
				sl, low := singleOpSlice(recv)
				idS := fmt.Sprintf("%s.alias.single.%s", P, core.FuncName(f))
				r.R.Check(!premise || sl != nil, idS, "sibling agreement (composer ↔ engine): the engine's copy shares nodes, so each Apply call receives exactly one operation (patch[i:i+1]) and the next one starts from re-serialized bytes",
					core.FuncName(f), r.P.Pos(c.Pos()), why, "one operation per Apply call", "Apply receives "+ff.TB.Of(recv).String()+": several operations are applied to one shared node graph")
				idD := fmt.Sprintf("%s.alias.descendant.%s", P, core.FuncName(f))
				if !premise {
					r.R.Ok(idD, "vacuous: the engine copies deeply", core.FuncName(f), r.P.Pos(c.Pos()), why, "not needed")
					continue
				}
				guard := ""
				if sl != nil {
					if low == "#low" {
						low = ff.TB.Of(sl.Low).String()
					}
					elem := ff.TB.Of(sl.X).String() + "[" + low + "]"
					for _, fc := range ff.At(c) {
						if fc.Kind != "ok" || fc.A == nil || fc.A.Op != "call" || fc.A.Callee == nil || !r.P.IsSubject(fc.A.Callee) {
							continue
						}
						for k, a := range fc.A.Args {
							if a.String() == elem && r.rejectsCopyIntoDescendant(fc.A.Callee, k) {
								guard = core.FuncName(fc.A.Callee)
							}
						}
					}
				}
				r.R.Check(guard != "", idD, "E8 never-before + E2: Apply is reached only after a check of that operation whose every success path has op ≠ \"copy\" or ¬HasPrefix(path, from + \"/\")",
					core.FuncName(f), r.P.Pos(c.Pos()), why, "guarded by "+guard, "no dominating check that rejects a copy whose destination lies inside its source")
			}
		}
	}
	r.R.Floor(P+".alias.floor", "instance floor", n, 1, "calls of the JSON-patch engine's Apply in the subject")
}

// singleOpSlice: v is x[i:i+1] (or x[:1]); returns the slice instruction and the low index term.
func singleOpSlice(v ssa.Value) (*ssa.Slice, string) {
	sl, ok := v.(*ssa.Slice)
	if !ok || sl.High == nil || sl.Max != nil {
		return nil, ""
	}
	if sl.Low == nil {
		if k, ok := sl.High.(*ssa.Const); ok && k.Value != nil && k.Value.ExactString() == "1" {
			return sl, "0"
		}
		return nil, ""
	}
	bo, ok := sl.High.(*ssa.BinOp)
	if !ok || bo.Op != token.ADD {
		return nil, ""
	}
	one := func(v ssa.Value) bool {
		k, ok := v.(*ssa.Const)
		return ok && k.Value != nil && k.Value.ExactString() == "1"
	}
	if (bo.X == sl.Low && one(bo.Y)) || (bo.Y == sl.Low && one(bo.X)) {
		return sl, "#low"
	}
	return nil, ""
}

// rejectsCopyIntoDescendant: every success path of g establishes, about its
// k-th parameter (a patch operation), op ≠ "copy" or ¬HasPrefix(path, from+"/").
func (r *Run) rejectsCopyIntoDescendant(g *ssa.Function, k int) bool {
	if len(g.Blocks) == 0 || hasCycle(g) || k >= len(g.Params) {
		return false
	}
	gf := r.E.Facts(g, core.Ctx{})
	pn := "$" + g.Params[k].Name()
	about := func(t *core.Term, member string) bool {
		s := t.String()
		return strings.Contains(s, pn) && strings.Contains(s, `"`+member+`"`)
	}
	paths, complete := enumPaths(gf, 2000)
	if !complete || len(paths) == 0 {
		return false
	}
	nSucc := 0
	for _, p := range paths {
		last := p[len(p)-1]
		ret := last.Instrs[len(last.Instrs)-1].(*ssa.Return)
		ev := core.RetOp(ret, len(ret.Results)-1)
		if ph, isPhi := ev.(*ssa.Phi); isPhi {
			ev = resolveOnPath(ph, p)
		}
		if c, isC := ev.(*ssa.Const); !isC || c.Value != nil {
			continue // an error return
		}
		nSucc++
		ok := false
		for _, fc := range pathFacts(gf, p) {
			switch {
			case fc.Kind == "cmp" && fc.Op == "!=" && fc.B.Op == "const" && fc.B.Name == `"copy"` && about(fc.A, "op"):
				ok = true
			case fc.Kind == "false" && fc.A.Op == "call" && strings.HasSuffix(fc.A.Name, "strings.HasPrefix") && len(fc.A.Args) == 2 && about(fc.A.Args[0], "path"):
				pre := fc.A.Args[1]
				if pre.Op == "bin" && pre.Name == "+" && about(pre.Args[0], "from") && pre.Args[1].Op == "const" && pre.Args[1].Name == `"/"` {
					ok = true
				}
			}
		}
		if !ok {
			return false
		}
	}
	return nSucc > 0
}
