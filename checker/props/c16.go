package props

import (
	"fmt"
	"go/token"
	"go/types"
	"strings"

	"golang.org/x/tools/go/ssa"

	"sidecheck/core"
)

func init() {
	register(&Checker{
		ID: "C16",
		Explanation: "Structural necessary conditions of C16 (intra-procedural, all paths; no interleavings): (ack.nack) in cutAndProcess every path from a non-empty cut to a return calls exactly one of Ack/Nack — Ack only after process succeeded, Nack on its failure; process succeeds only after PrepareTxnFiles and WriteAnchor succeeded, and deferred operations are re-added only after the anchor was written; " +
			"(lock) every access to MemQueue.items — including inside the ack/nack closures — happens after the queue's mutex was taken in the same function (exclusively for writes) and released only by a deferred unlock; Writer.stopped is touched only through sync/atomic; (fifo) Peek and Remove take a prefix starting at 0, Add appends at the tail, nack restores removed ++ current; " +
			"(cut) without force a batch is cut only when pending ≥ MaxOperationCount; the peek size is min(pending, MaxOperationCount) with a correct min; the batch is the same-version prefix: an element is appended only under version = reference, the mismatch edge leaves the loop, and the reference version is fixed by the first element; the number removed equals the number returned and the returned operations are the removed ones; " +
			"(force.sites) a forced cut is requested only at start-up and on the batch-timeout ticker. " +
			"Not decided: the exactly-once claim over interleavings of Add, ticks and failures (a scheduler/model checker); data races (needs -race); caller-supplied queues.",
		Run: runC16,
	})
}

// fieldCallName: for a call through a func-typed struct field (x.F()), returns the field name.
func fieldCallName(c *ssa.Call) string {
	v := c.Common().Value
	switch x := v.(type) {
	case *ssa.UnOp:
		if fa, ok := x.X.(*ssa.FieldAddr); ok && x.Op == token.MUL {
			return fieldName(fa)
		}
	case *ssa.Field:
		st, _ := x.X.Type().Underlying().(*types.Struct)
		if st != nil {
			return st.Field(x.Field).Name()
		}
	case *ssa.Extract:
		return ""
	}
	return ""
}

func runC16(r *Run) {
	const P = "C16"
	// "unless the operation handler discards it as expired": expiry is a discard, never a refusal of the batch — the
	// handler fails a batch only because something it called failed (a refused batch returns to the queue and is
	// retried for ever, blocking everything behind it)
	r.checkHandlerErrorsPropagated(P)
	// "none lost, none duplicated ... deferred operations are re-queued": each queued operation of a cut has exactly
	// one outcome in the handler — included under its own type, deferred (handed back as the very queued operation of
	// that iteration) or discarded as expired (partition of the batch, shared with C13)
	r.checkPartition(P)
	// --- ack.nack
	if f := r.fn(P, pkgBatch, "Writer.cutAndProcess"); f != nil {
		ff := r.E.Facts(f, core.Ctx{})
		paths, complete := enumPaths(ff, 5000)
		rule := "E8 exactly-one-of: every path from a non-empty cut to a return calls exactly one of Result.Ack / Result.Nack; Ack only under Ok(process), Nack under its failure"
		why := "a batch neither acknowledged nor returned is lost from the queue view; both, or Ack after a failure, anchors operations twice or drops them"
		if !complete || hasCycle(f) {
			r.R.Unk(P+".ack.nack", rule, core.FuncName(f), r.where(f), why, "function is not loop-free")
		} else {
			var bad []string
			n := 0
			for _, p := range paths {
				raw := rawPathFacts(ff, p)
				cutOK := core.HasFact(raw, "ok(Cut(_, _))") && core.HasFact(raw, "cmp(len(Cut(_, _).Operations) != 0)")
				ack, nack := 0, 0
				for _, b := range p {
					for _, ins := range b.Instrs {
						if c, ok := ins.(*ssa.Call); ok {
							switch fieldCallName(c) {
							case "Ack":
								ack++
							case "Nack":
								nack++
							}
						}
					}
				}
				if !cutOK {
					if ack+nack > 0 {
						bad = append(bad, "Ack/Nack called without a non-empty cut")
					}
					continue
				}
				n++
				procOK := core.HasFact(raw, "ok(Writer.process(...))")
				procFail := core.HasFact(raw, "fail(Writer.process(...))")
				switch {
				case ack+nack != 1:
					bad = append(bad, fmt.Sprintf("a path after a non-empty cut calls Ack %d and Nack %d times", ack, nack))
				case ack == 1 && !procOK:
					bad = append(bad, "Ack without Ok(process)")
				case nack == 1 && !procFail:
					bad = append(bad, "Nack without a failed process")
				}
			}
			r.R.Count("E8 cutAndProcess paths enumerated", len(paths))
			r.R.Check(len(bad) == 0 && n >= 2, P+".ack.nack", rule, core.FuncName(f), r.where(f), why, fmt.Sprintf("%d paths after a non-empty cut, each with exactly one of Ack/Nack", n), strings.Join(dedupe(bad), "; "))
		}
		// process receives the cut's operations and version
		okArgs := false
		for _, c := range r.callsIn(f, "Writer.process") {
			a := c.Common().Args
			okArgs = core.MatchTerm("Cut(_, _).Operations", ff.TB.Of(a[1]), core.Bind{}) && core.MatchTerm("Cut(_, _).ProtocolVersion", ff.TB.Of(a[2]), core.Bind{})
		}
		r.R.Check(okArgs, P+".ack.nack.args", "E13: process is given the cut's operations and the cut's protocol version", core.FuncName(f), r.where(f), "-", "process(result.Operations, result.ProtocolVersion)", "other arguments")
	}
	if f := r.fn(P, pkgBatch, "Writer.process"); f != nil {
		r.requireSucc(P+".process.succ", "a batch counts as processed only when its files were written and its anchor string was written", f, core.Ctx{}, "",
			"ok(Client.Get(_, $2))", "ok(OperationHandler.PrepareTxnFiles(_, $1))",
			"ok(WriteAnchor(_, OperationHandler.PrepareTxnFiles(_, $1).AnchorString, OperationHandler.PrepareTxnFiles(_, $1).Artifacts, OperationHandler.PrepareTxnFiles(_, $1).OperationReferences, $2))")
		ff := r.E.Facts(f, core.Ctx{})
		adds := r.callsIn(f, "Writer.Add")
		ok := len(adds) == 1
		det := fmt.Sprintf("%d re-add sites", len(adds))
		for _, c := range adds {
			at := ff.At(c)
			if !core.HasFact(at, "ok(WriteAnchor(...))") {
				ok = false
				det = "deferred operations are re-queued before the anchor is known to be written"
			}
			el := ff.TB.Of(c.Common().Args[1])
			if !core.MatchTerm("OperationHandler.PrepareTxnFiles(_, $1).AdditionalOperations[_]", el, core.Bind{}) || ff.TB.Of(c.Common().Args[2]).String() != "$protocolVersion" {
				ok = false
				det = "re-queued value is " + el.String()
			}
		}
		r.R.Check(ok, P+".process.requeue", "E8 never-before: deferred (additional) operations are re-queued only after Ok(WriteAnchor), under the batch's protocol version", core.FuncName(f), r.where(f),
			"re-queuing before the anchor write means a failed batch returns to the queue while its deferred operations are queued a second time: anchored twice", "re-add under Ok(WriteAnchor)", det)
	}

	// --- lock discipline
	r.checkLocks(P)

	// --- fifo
	if f := r.fn(P, pkgOpQueue, "MemQueue.Add"); f != nil {
		ff := r.E.Facts(f, core.Ctx{})
		ok := false
		for _, b := range f.Blocks {
			for _, ins := range b.Instrs {
				if st, isSt := ins.(*ssa.Store); isSt {
					if fa, isFA := st.Addr.(*ssa.FieldAddr); isFA && fieldName(fa) == "items" {
						if c, isC := st.Val.(*ssa.Call); isC && isBuiltin(c, "append") {
							first := ff.TB.Of(c.Common().Args[0]).String()
							ok = first == "$q.items" && len(variadicElems(c.Common().Args[1])) == 1
						}
					}
				}
			}
		}
		r.R.Check(ok, P+".fifo.add", "E13: Add stores append(q.items, newItem) — at the tail", core.FuncName(f), r.where(f), "operations must leave the queue in the order they entered", "append at the tail", "items is not extended at the tail")
	}
	for _, name := range []string{"MemQueue.Peek", "MemQueue.Remove"} {
		if f := r.fn(P, pkgOpQueue, name); f != nil {
			ff := r.E.Facts(f, core.Ctx{})
			okPrefix := false
			var n ssa.Value
			for _, b := range f.Blocks {
				for _, ins := range b.Instrs {
					if sl, isSl := ins.(*ssa.Slice); isSl && ff.TB.Of(sl.X).String() == "$q.items" && sl.High != nil {
						if sl.Low == nil || isZeroConst(sl.Low) {
							okPrefix = true
							n = sl.High
						}
					}
				}
			}
			r.R.Check(okPrefix, P+".fifo.prefix."+strings.TrimPrefix(name, "MemQueue."), "E13: the operations taken are the prefix q.items[0:n]", core.FuncName(f), r.where(f), "FIFO order", "prefix from 0", "not a prefix of items")
			if name == "MemQueue.Remove" && n != nil {
				okRest := false
				for _, b := range f.Blocks {
					for _, ins := range b.Instrs {
						if st, isSt := ins.(*ssa.Store); isSt {
							if fa, isFA := st.Addr.(*ssa.FieldAddr); isFA && fieldName(fa) == "items" {
								if sl, isSl := st.Val.(*ssa.Slice); isSl && sl.Low == n && sl.High == nil {
									okRest = true
								}
							}
						}
					}
				}
				r.R.Check(okRest, P+".fifo.remove.rest", "E13: after Remove the queue is q.items[n:] for the same n", core.FuncName(f), r.where(f), "removing another range loses or duplicates operations", "items = items[n:]", "remaining queue is not items[n:]")
				// nack closure restores removed ++ current
				okNack := false
				for _, af := range f.AnonFuncs {
					af2 := r.E.Facts(af, core.Ctx{})
					for _, b := range af.Blocks {
						for _, ins := range b.Instrs {
							if st, isSt := ins.(*ssa.Store); isSt {
								if fa, isFA := st.Addr.(*ssa.FieldAddr); isFA && fieldName(fa) == "items" {
									if c, isC := st.Val.(*ssa.Call); isC && isBuiltin(c, "append") {
										first := af2.TB.Of(c.Common().Args[0]).String()
										second := af2.TB.Of(c.Common().Args[1]).String()
										okNack = strings.Contains(first, "$q.items[") && strings.HasSuffix(second, ".items") && !strings.Contains(second, "[")
									}
								}
							}
						}
					}
				}
				if !okNack {
					okNack = r.nackThroughMethod(f, ff)
				}
				r.R.Check(okNack, P+".fifo.nack", "E13: nack restores append(removed, q.items...) — the failed batch returns to the head in its original order", core.FuncName(f), r.where(f),
					"a failed batch must be retried before operations queued later", "removed first", "nack does not put the removed prefix in front of the current queue")
			}
		}
	}

	// --- cut
	r.checkCut(P)

	// --- force.sites
	if f := r.fn(P, pkgBatch, "Writer.main"); f != nil {
		ff := r.E.Facts(f, core.Ctx{})
		var forced, unforced int
		var forcedOK = true
		for _, c := range r.callsIn(f, "Writer.processAvailable") {
			k, isC := c.Common().Args[1].(*ssa.Const)
			if !isC {
				forcedOK = false
				continue
			}
			if k.Value.String() == "true" {
				forced++
				// either before the loop or in the batch-timeout case
				inLoop := enclosingLoopHead(f, c.Block()) != nil
				if inLoop {
					// the select case must be the batchTimeoutTicker channel: find the fact on the select index
					at := ff.At(c)
					_ = at
					if !selectCaseIs(f, c, "batchTimeoutTicker") {
						forcedOK = false
					}
				}
			} else {
				unforced++
			}
		}
		r.R.Check(forcedOK && forced == 2 && unforced == 1, P+".force.sites", "constant-argument call-site table: processAvailable(true) only at start-up and on the batch-timeout ticker; the monitor ticker passes false", core.FuncName(f), r.where(f),
			"a forced cut on every monitor tick produces batches smaller than the maximum without a timeout", "2 forced sites (start-up, timeout), 1 unforced (monitor)", fmt.Sprintf("forced=%d unforced=%d placement ok=%v", forced, unforced, forcedOK))
	}
	// every tick looks at the queue: from the entry of a ticker's select case the way back to the select passes the
	// processAvailable call (a tick skipped on the strength of a cached "nothing pending" loses an operation that was
	// added after the cache was written)
	if f := r.fn(P, pkgBatch, "Writer.main"); f != nil {
		ff := r.E.Facts(f, core.Ctx{})
		n, skip := 0, 0
		for _, c := range r.callsIn(f, "Writer.processAvailable") {
			head := enclosingLoopHead(f, c.Block())
			if head == nil {
				continue
			}
			// the case entry: the true successor of the test `select index == k` that dominates the call
			var entry *ssa.BasicBlock
			for d := c.Block(); d != nil && entry == nil; d = d.Idom() {
				for _, p := range d.Preds {
					if iff, ok := p.Instrs[len(p.Instrs)-1].(*ssa.If); ok && p.Succs[0] == d {
						if bo, ok := iff.Cond.(*ssa.BinOp); ok && bo.Op == token.EQL {
							if ex, ok := bo.X.(*ssa.Extract); ok && ex.Index == 0 {
								if _, isSel := ex.Tuple.(*ssa.Select); isSel {
									entry = d
								}
							}
						}
					}
				}
			}
			if entry == nil {
				continue
			}
			n++
			if entry != c.Block() && ff.WalkFeasible([]*ssa.BasicBlock{entry}, func(a, b *ssa.BasicBlock) bool { return b == c.Block() }, func(b *ssa.BasicBlock) bool { return b == head }) {
				skip++
			}
		}
		r.R.Check(n >= 2 && skip == 0, P+".tick.unconditional", "E8 must-pass-through: in the writer's select loop every ticker case reaches its processAvailable call on all ways back to the select", core.FuncName(f), r.where(f),
			"a tick that is skipped because a cached counter says the queue is empty never sees an operation added after the counter was written: the operation stays queued until some later Add", fmt.Sprintf("%d ticker case(s), none can skip", n), fmt.Sprintf("%d ticker case(s) found (need 2), %d can return to the select without calling processAvailable", n, skip))
	}
	if f := r.fn(P, pkgBatch, "Writer.processAvailable"); f != nil {
		ff := r.E.Facts(f, core.Ctx{})
		ok := false
		for _, c := range r.callsIn(f, "Writer.cutAndProcess") {
			k, isC := c.Common().Args[1].(*ssa.Const)
			ok = isC && k.Value.String() == "true" && core.HasFact(ff.At(c), "true($1)")
		}
		r.R.Check(ok, P+".force.thread", "E2: the forced cut inside processAvailable happens only under forceCut = true", core.FuncName(f), r.where(f), "-", "cutAndProcess(true) under forceCut", "forced cut not guarded by the parameter")
		// the other direction (liveness of the timeout): after a successful drain, the return that skips the
		// forced cut is reachable only across pending = 0 or forceCut = false
		for _, c := range r.callsIn(f, "Writer.cutAndProcess") {
			skipOK := true
			var det []string
			for _, ri := range ff.Returns() {
				if c.Block().Dominates(ri.Ret.Block()) {
					continue // a return after the forced cut
				}
				// early returns: the drain-error return is identified by the failure edge of drain
				if core.HasFact(ri.Facts, "fail(Writer.drain(_))") {
					continue
				}
				if r.reachableWithout(ff, ri.Ret, []string{"false($1)", "cmp(Writer.drain(_) == 0)", "fail(Writer.drain(_))"}) {
					skipOK = false
					det = append(det, r.P.Pos(ri.Ret.Pos())+": the forced cut is skipped although the cut is forced and operations are pending")
				}
			}
			r.R.Check(skipOK, P+".force.live", "E8: with forceCut = true and operations still pending after the drain, processAvailable goes on to the forced cut (the skipping return needs pending = 0 or forceCut = false)", core.FuncName(f), r.where(f),
				"if the timeout does not cut the remaining operations, a partially filled batch is never anchored", "skip only when nothing is pending or the cut is not forced", strings.Join(det, "; "))
		}
	}
	// a stopped writer refuses operations (an operation accepted after Stop would never be anchored)
	if f := r.fn(P, pkgBatch, "Writer.Add"); f != nil {
		ff := r.E.Facts(f, core.Ctx{})
		okStop := false
		for _, c := range r.callsIn(f, "BatchCutter.Add", "batchCutter.Add", "cutter.Add") {
			okStop = core.HasFact(ff.At(c), "false(Writer.Stopped(_))")
		}
		r.R.Check(okStop, P+".add.stopped", "E8 never-before: the writer queues an operation only under Stopped() = false", core.FuncName(f), r.where(f),
			"an operation accepted by a stopped writer is acknowledged to the client and never anchored", "queued only while running", "the operation is queued without the Stopped() test")
		r.checkEnqueueFinal(P, f)
	}
	if f := r.fn(P, pkgBatch, "Writer.drain"); f != nil {
		ok := false
		for _, c := range r.callsIn(f, "Writer.cutAndProcess") {
			k, isC := c.Common().Args[1].(*ssa.Const)
			ok = isC && k.Value.String() == "false"
		}
		r.R.Check(ok, P+".force.drain", "constant argument: drain never forces a cut", core.FuncName(f), r.where(f), "-", "cutAndProcess(false)", "drain forces cuts")
		// the drain loop goes round only after a cut that produced a batch without error
		df := r.E.Facts(f, core.Ctx{})
		okLoop, nBack := true, 0
		for _, head := range allLoopHeads(f) {
			for _, ip := range loopIterationPaths(df, head, 500) {
				if ip.Ret != nil {
					continue
				}
				// "goes round" means the body is entered again: the way round extended by the entry of the next round (a
				// test at the loop head of what the round just produced decides here, on the value it arrives with)
				var ext []*ssa.BasicBlock
				for _, s2 := range head.Succs {
					if df.IsLiveEdge(head, s2) && blockReaches(df, s2, head, nil) && df.PathFeasible(ip.Blocks, s2) {
						ext = append(append([]*ssa.BasicBlock{}, ip.Blocks...), s2)
					}
				}
				if ext == nil {
					continue // after this way round the loop is left
				}
				nBack++
				pf := rawPathFacts(df, ext)
				nonEmpty := core.HasFact(pf, "cmp(Writer.cutAndProcess(_, _) != 0)")
				noError := core.HasFact(pf, "ok(Writer.cutAndProcess(_, _))")
				// the loop may test the results of the previous round's call at its head (`for err == nil && n != 0`):
				// a merged value all of whose operands are that result of a cutAndProcess call
				for _, fc := range pf {
					if fc.Kind == "okany" && len(fc.List) > 0 {
						// the merged error of several calls, all of them cutAndProcess, is nil
						all := true
						for _, t := range fc.List {
							if t == nil || t.Op != "call" || !core.NameMatches(t.Name, "Writer.cutAndProcess") {
								all = false
							}
						}
						if all {
							noError = true
						}
					}
					if fc.Kind != "cmp" || fc.A == nil || fc.B == nil || fc.A.Op != "phi" {
						continue
					}
					ph, isPhi := fc.A.Val.(*ssa.Phi)
					if !isPhi {
						continue
					}
					if fc.Op == "!=" && fc.B.Name == "0" && phiOfCallResults(ph, "Writer.cutAndProcess", 0, r) {
						nonEmpty = true
					}
					if fc.Op == "==" && fc.B.Name == "nil" && phiOfCallResults(ph, "Writer.cutAndProcess", 2, r) {
						noError = true
					}
				}
				if !nonEmpty || !noError {
					okLoop = false
				}
			}
		}
		r.R.Check(okLoop && nBack > 0, P+".drain.terminates", "E8: the drain loop starts another round only after cutAndProcess returned without error and with a non-empty batch", core.FuncName(f), r.where(f),
			"a drain loop that goes round after an empty cut (or after an error) never returns: the writer goroutine spins and no timeout cut is ever made", fmt.Sprintf("%d back edge path(s), all under n != 0 and a nil error", nBack), "the loop can go round after an empty cut or an error")
	}
}

// selectCaseIs: is call c inside the select case that receives from the ticker field named name?
func selectCaseIs(f *ssa.Function, c *ssa.Call, name string) bool {
	// find the Select instruction and the index tested on the path to c's block
	for _, b := range f.Blocks {
		for _, ins := range b.Instrs {
			sel, ok := ins.(*ssa.Select)
			if !ok {
				continue
			}
			for i, st := range sel.States {
				// channel operand: load of field C of load of field <name>
				s := st.Chan.String()
				_ = s
				if chanFromField(st.Chan, name) {
					// c's block must be dominated by the edge index == i
					for d := c.Block(); d != nil; d = d.Idom() {
						for _, p := range d.Preds {
							if iff, ok := p.Instrs[len(p.Instrs)-1].(*ssa.If); ok {
								if bo, ok := iff.Cond.(*ssa.BinOp); ok && bo.Op == token.EQL {
									if k, ok := constInt(bo.Y); ok && int(k) == i && p.Succs[0] == d {
										if ex, ok := bo.X.(*ssa.Extract); ok && ex.Tuple == ssa.Value(sel) && ex.Index == 0 {
											return true
										}
									}
								}
							}
						}
					}
				}
			}
		}
	}
	return false
}

func chanFromField(v ssa.Value, name string) bool {
	for depth := 0; depth < 6 && v != nil; depth++ {
		switch x := v.(type) {
		case *ssa.UnOp:
			v = x.X
		case *ssa.FieldAddr:
			if fieldName(x) == name {
				return true
			}
			v = x.X
		case *ssa.Field:
			st, _ := x.X.Type().Underlying().(*types.Struct)
			if st != nil && st.Field(x.Field).Name() == name {
				return true
			}
			v = x.X
		default:
			return false
		}
	}
	return false
}

// checkLocks: lock discipline on MemQueue.items and Writer.stopped.
func (r *Run) checkLocks(P string) {
	r.checkLockPairing(P)
	T := r.P.Named(pkgOpQueue, "MemQueue")
	if T == nil {
		r.R.Unk(P+".lock", "anchor", "opqueue.MemQueue", "-", "-", "type not found")
		return
	}
	n := 0
	for _, f := range r.P.SubjectFuncs(pkgOpQueue) {
		ff := r.E.Facts(f, core.Ctx{})
		for _, b := range f.Blocks {
			for _, ins := range b.Instrs {
				fa, ok := ins.(*ssa.FieldAddr)
				if !ok || fieldName(fa) != "items" {
					continue
				}
				if n2, _ := namedStruct(fa.X.Type()); n2 == nil || !types.Identical(n2, T) {
					continue
				}
				// classify: write if some referrer stores to it
				write := false
				if refs := fa.Referrers(); refs != nil {
					for _, rf := range *refs {
						if st, ok := rf.(*ssa.Store); ok && st.Addr == ssa.Value(fa) {
							write = true
						}
					}
				}
				n++
				held, exclusive, released := mutexHeldAt(ff, fa)
				if !held && !released {
					// lock-held helper: an unexported function that is only ever called
					// (never stored) from sites of the package that hold the mutex
					held, exclusive = r.callersHoldMutex(f, pkgOpQueue, 2)
				}
				ok2 := held && !released && (!write || exclusive)
				kind := "read"
				if write {
					kind = "write"
				}
				r.R.Check(ok2, fmt.Sprintf("%s.lock.items.%s.%s", P, core.FuncName(f), kind), "lock discipline: MemQueue.items is accessed only with q.mutex held (exclusively for writes) and released only by defer — held in the same function, or in every caller of an unexported helper that is never used as a value",
					core.FuncName(f)+" "+kind+" of items", r.P.Pos(fa.Pos()), "an unlocked access races with Add/Remove from the batch writer's goroutine and corrupts or loses queued operations",
					fmt.Sprintf("held=%v exclusive=%v", held, exclusive), fmt.Sprintf("%s of items with mutex held=%v exclusive=%v released-before=%v", kind, held, exclusive, released))
			}
		}
	}
	r.R.Floor(P+".lock.floor", "instance floor", n, 8, "accesses to MemQueue.items")
	// Writer.stopped only via sync/atomic
	bad := []string{}
	m := 0
	for _, f := range r.P.SubjectFuncs(pkgBatch) {
		for _, b := range f.Blocks {
			for _, ins := range b.Instrs {
				fa, ok := ins.(*ssa.FieldAddr)
				if !ok || fieldName(fa) != "stopped" {
					continue
				}
				m++
				if refs := fa.Referrers(); refs != nil {
					for _, rf := range *refs {
						c, isC := rf.(*ssa.Call)
						if _, isDbg := rf.(*ssa.DebugRef); isDbg {
							continue
						}
						if !isC || c.Common().StaticCallee() == nil || c.Common().StaticCallee().Pkg == nil || c.Common().StaticCallee().Pkg.Pkg.Path() != "sync/atomic" {
							bad = append(bad, core.FuncName(f)+" at "+r.P.Pos(fa.Pos()))
						}
					}
				}
			}
		}
	}
	r.R.Check(len(bad) == 0 && m >= 2, P+".lock.stopped", "lock discipline: Writer.stopped is accessed only through sync/atomic", "batch.Writer.stopped", "pkg/batch/writer.go", "a plain access races with Stop", fmt.Sprintf("%d atomic accesses", m), strings.Join(bad, "; "))
}

// checkCut: the batch cutter.
func (r *Run) checkCut(P string) {
	cut := r.fn(P, pkgCutter, "BatchCutter.Cut")
	if cut == nil {
		return
	}
	ff := r.E.Facts(cut, core.Ctx{})
	// no cut below max without force: the queue is consumed (Peek/Remove) only
	// on paths that crossed `force` or `pending >= MaxOperationCount` — written
	// inline or through a boolean helper (predicate unfolding)
	alts := []string{"true($1)", "cmp(OperationQueue.Len(_) >= Version.Protocol(_).MaxOperationCount)"}
	consume := append(r.callsIn(cut, "OperationQueue.Peek"), r.callsIn(cut, "OperationQueue.Remove")...)
	okNoCut := len(consume) >= 2
	var detCut []string
	for _, c := range consume {
		if r.reachableWithout(ff, c, alts) {
			okNoCut = false
			detCut = append(detCut, r.P.Pos(c.Pos())+" reachable without force and without pending >= MaxOperationCount")
		}
	}
	// and a return that crossed neither carries no operations
	for _, ri := range ff.Returns() {
		if ri.Class != core.RetSuccess || !r.reachableWithout(ff, ri.Ret, alts) {
			continue
		}
		for _, fc := range ri.Facts {
			if fc.Kind == "stored" && strings.HasSuffix(fc.A.String(), ".Operations") {
				okNoCut = false
				detCut = append(detCut, "the below-threshold return carries operations")
			}
		}
	}
	// the other direction: a success return that precedes the consuming calls ("nothing to cut") is reachable
	// only under ¬force ∧ pending < max — with force or a full batch pending, Cut must go on to cut
	if len(consume) > 0 {
		first := consume[0]
		for _, c := range consume {
			if c.Block().Dominates(first.Block()) {
				first = c
			}
		}
		for _, ri := range ff.Returns() {
			if ri.Class != core.RetSuccess || first.Block().Dominates(ri.Ret.Block()) {
				continue
			}
			if r.reachableWithout(ff, ri.Ret, []string{"false($1)"}) {
				okNoCut = false
				detCut = append(detCut, r.P.Pos(ri.Ret.Pos())+": 'nothing to cut' can be returned although the cut is forced")
			}
			if r.reachableWithout(ff, ri.Ret, []string{"cmp(OperationQueue.Len(_) < Version.Protocol(_).MaxOperationCount)"}) {
				okNoCut = false
				detCut = append(detCut, r.P.Pos(ri.Ret.Pos())+": 'nothing to cut' can be returned although a full batch is pending")
			}
		}
	}
	r.R.Check(okNoCut, P+".cut.threshold", "E3 role (MaxOperationCount) + E8 never-before: the queue is peeked/removed only after force ∨ pending ≥ MaxOperationCount; the return below the threshold carries no operations", core.FuncName(cut), r.where(cut),
		"cutting below the maximum without a timeout produces undersized batches", fmt.Sprintf("%d consuming calls guarded", len(consume)), strings.Join(detCut, "; "))
	// peek size = min(pending, max); Remove(len(operations)); result operations = removed
	peekOK, removeOK, resOK := false, false, false
	for _, c := range r.callsIn(cut, "OperationQueue.Peek") {
		t := ff.TB.Of(core.CallArgs(c.Common())[1])
		peekOK = core.MatchTerm("min(OperationQueue.Len(_), Version.Protocol(_).MaxOperationCount)", t, core.Bind{}) || core.MatchTerm("min(Version.Protocol(_).MaxOperationCount, OperationQueue.Len(_))", t, core.Bind{})
	}
	for _, c := range r.callsIn(cut, "OperationQueue.Remove") {
		t := ff.TB.Of(core.CallArgs(c.Common())[1])
		// (zero-tolerant: where the prefix travels in a struct that is empty on the peek-error path, the count is
		// the prefix length or 0, and removing 0 operations removes nothing)
		removeOK = core.MatchTerm("len(getOperationsAtProtocolVersion(OperationQueue.Peek(...)))", core.StripOrZero(t), core.Bind{})
	}
	s := r.succ(cut, core.Ctx{})
	_ = s
	for _, ri := range ff.Returns() {
		if ri.Class != core.RetSuccess {
			continue
		}
		for _, fc := range ri.Facts {
			if fc.Kind == "stored" && strings.HasSuffix(fc.A.String(), ".Operations") {
				resOK = core.MatchTerm("QueuedOperationsAtTime.QueuedOperations(OperationQueue.Remove(...))", fc.B, core.Bind{})
			}
		}
	}
	r.R.Check(peekOK, P+".cut.max", "E3 role: the peek size is min(pending, MaxOperationCount)", core.FuncName(cut), r.where(cut), "a larger window lets a batch exceed the protocol's maximum operation count", "Peek(min(pending, max))", "peek size is not min(pending, MaxOperationCount)")
	r.R.Check(removeOK && resOK, P+".cut.count", "E13: the number removed is the length of the same-version prefix, and the operations returned are the removed ones", core.FuncName(cut), r.where(cut),
		"removing another count than was batched loses queued operations or leaves batched ones in the queue (anchored twice)", "Remove(len(prefix)); Operations = removed", fmt.Sprintf("remove count ok=%v, result operations ok=%v", removeOK, resOK))
	if mn := r.fn(P, pkgCutter, "min"); mn != nil {
		a, b := mn.Params[0], mn.Params[1]
		ev := &scalarEval{fn: mn, name: func(v ssa.Value) (string, bool) {
			switch v {
			case ssa.Value(a):
				return "a", true
			case ssa.Value(b):
				return "b", true
			}
			return "", false
		}}
		ok := true
		for _, wo := range weakOrders(2) {
			env := scalarEnv{rank: map[string]int{"a": wo[0], "b": wo[1]}}
			ret, _, why := ev.walk(env)
			if ret == nil {
				ok = false
				_ = why
				continue
			}
			res := ev.ret(ret, 0)
			wantA := wo[0] <= wo[1]
			if wo[0] == wo[1] {
				continue
			}
			if (res == ssa.Value(a)) != wantA {
				ok = false
			}
		}
		r.R.Check(ok, P+".cut.min", "E4: min returns the smaller argument (all orderings)", core.FuncName(mn), r.where(mn), "-", "correct", "min is not the minimum")
	}
	// same-version prefix
	g := r.fn(P, pkgCutter, "getOperationsAtProtocolVersion")
	if g == nil {
		return
	}
	gf := r.E.Facts(g, core.Ctx{})
	head := loopHead(g)
	rule := "E6/E8: an element is appended only under element.ProtocolVersion = reference; the mismatch edge leaves the loop (prefix, not filter); the reference version is fixed by the first element only"
	why := "a batch mixing operations queued under different protocol versions is validated, written and anchored under the wrong version's rules"
	if head == nil {
		r.R.Unk(P+".cut.prefix", rule, core.FuncName(g), r.where(g), why, "no loop")
		return
	}
	var det []string
	ok := true
	// reference version: the value compared with element.ProtocolVersion
	var ref ssa.Value
	var refTerm *core.Term
	for _, b := range g.Blocks {
		for _, ins := range b.Instrs {
			c, isC := ins.(*ssa.Call)
			if !isC || !isBuiltin(c, "append") {
				continue
			}
			at := gf.At(c)
			found := false
			for _, fc := range at {
				if fc.Kind == "cmp" && fc.Op == "==" {
					for _, pair := range [][2]*core.Term{{fc.A, fc.B}, {fc.B, fc.A}} {
						if core.MatchTerm("$0[_].ProtocolVersion", pair[0], core.Bind{}) {
							// (when the reference is itself read from the slice — its first element — the element of
							// this iteration is the other side)
							if core.MatchTerm("$0[0].ProtocolVersion", pair[0], core.Bind{}) && core.MatchTerm("$0[_].ProtocolVersion", pair[1], core.Bind{}) {
								continue
							}
							found = true
							refTerm = pair[1]
							if v, isV := pair[1].Val.(ssa.Value); isV {
								ref = v
							}
						}
					}
				}
			}
			if !found {
				ok = false
				det = append(det, "append not guarded by element.ProtocolVersion == reference")
			}
		}
	}
	// mismatch edge leaves the loop
	for _, b := range g.Blocks {
		for _, s := range b.Succs {
			for _, fc := range gf.EdgeFacts(b, s) {
				if fc.Kind == "cmp" && fc.Op == "!=" && (core.MatchTerm("$0[_].ProtocolVersion", fc.A, core.Bind{}) || core.MatchTerm("$0[_].ProtocolVersion", fc.B, core.Bind{})) {
					if blockReaches(gf, s, head, nil) {
						ok = false
						det = append(det, "after a version mismatch the loop continues (later same-version operations are taken: not a prefix)")
					}
				}
			}
		}
	}
	// reference fixed by the first element: ref is $0[0].ProtocolVersion, or a loop phi whose update edge is guarded by index == 0
	if ref == nil && refTerm != nil && core.MatchTerm("$0[0].ProtocolVersion", refTerm, core.Bind{}) {
		// the reference is read from the first element before the loop
	} else if ref != nil {
		okRef := false
		if core.MatchTerm("$0[0].ProtocolVersion", gf.TB.Of(ref), core.Bind{}) {
			okRef = true
		}
		for _, leaf := range phiLeavesWithBlocks(ref) {
			_ = leaf
		}
		if phi, isPhi := ref.(*ssa.Phi); isPhi {
			okRef = r.refFixedByFirst(gf, phi, head)
		}
		if !okRef {
			ok = false
			det = append(det, "the reference version is not fixed by the first element (it can be re-assigned by a later element)")
		}
	} else {
		ok = false
		det = append(det, "reference version not identified")
	}
	r.R.Check(ok, P+".cut.prefix", rule, core.FuncName(g), r.where(g), why, "same-version prefix with the first element's version", strings.Join(dedupe(det), "; "))
	// result version is that reference
	okVer := false
	for _, ri := range gf.Returns() {
		if ref != nil && len(ri.Ret.Results) == 2 {
			for _, l := range phiLeaves(core.RetOp(ri.Ret, 1)) {
				if l == ref || core.RetOp(ri.Ret, 1) == ref {
					okVer = true
				}
			}
			if p1, isPhi := core.RetOp(ri.Ret, 1).(*ssa.Phi); isPhi && ref == ssa.Value(p1) {
				okVer = true
			}
			if sameLoopVar(core.RetOp(ri.Ret, 1), ref) {
				okVer = true
			}
		}
		if refTerm != nil && len(ri.Ret.Results) == 2 && gf.TB.Of(core.RetOp(ri.Ret, 1)).String() == refTerm.String() {
			okVer = true
		}
	}
	r.R.Check(okVer, P+".cut.version", "E13: the version returned with the batch is the reference version the elements were compared with", core.FuncName(g), r.where(g), "the batch must be processed under the version its operations were queued with", "returned version = reference", "returned version is another value")
}

func phiLeavesWithBlocks(v ssa.Value) []ssa.Value { return phiLeaves(v) }

// sameLoopVar: a and b are phis of the same loop variable (header phi vs. its in-loop update).
func sameLoopVar(a, b ssa.Value) bool {
	if a == b {
		return true
	}
	for _, x := range phiLeaves(a) {
		if x == b {
			return true
		}
	}
	for _, x := range phiLeaves(b) {
		if x == a {
			return true
		}
	}
	pa, okA := a.(*ssa.Phi)
	pb, okB := b.(*ssa.Phi)
	if okA && okB {
		for _, e := range pa.Edges {
			if e == ssa.Value(pb) {
				return true
			}
		}
		for _, e := range pb.Edges {
			if e == ssa.Value(pa) {
				return true
			}
		}
	}
	return false
}

// refFixedByFirst: the phi carrying the reference version is only updated
// (with an element's version) on an edge taken in the first iteration.
func (r *Run) refFixedByFirst(gf *core.FnFacts, phi *ssa.Phi, head *ssa.BasicBlock) bool {
	// collect the phi web (header phi and in-body phis)
	web := map[*ssa.Phi]bool{}
	var collect func(p *ssa.Phi)
	collect = func(p *ssa.Phi) {
		if web[p] {
			return
		}
		web[p] = true
		for _, e := range p.Edges {
			if q, ok := e.(*ssa.Phi); ok {
				collect(q)
			}
		}
		if refs := p.Referrers(); refs != nil {
			for _, rf := range *refs {
				if q, ok := rf.(*ssa.Phi); ok {
					collect(q)
				}
			}
		}
	}
	collect(phi)
	okAll := true
	updates := 0
	for p := range web {
		for i, e := range p.Edges {
			if q, ok := e.(*ssa.Phi); ok && web[q] {
				continue
			}
			if _, isC := e.(*ssa.Const); isC {
				continue
			}
			// an update from an element: must be under index == 0 (first iteration), on a live edge,
			// and under no further condition (the first element always fixes the reference)
			pred := p.Block().Preds[i]
			if !gf.IsLiveEdge(pred, p.Block()) || !gf.Live[pred] {
				continue
			}
			updates++
			in := gf.In[pred]
			var bodyEntry core.FactSet
			for _, hs := range head.Succs {
				if blockReaches(gf, hs, head, nil) {
					bodyEntry = gf.In[hs]
					for _, fc := range gf.EdgeFacts(head, hs) {
						if bodyEntry == nil {
							bodyEntry = core.FactSet{}
						}
						bodyEntry[fc.Key()] = fc
					}
				}
			}
			for k, fc := range in {
				if _, atEntry := bodyEntry[k]; atEntry || fc.Kind == "called" || fc.Kind == "stored" {
					continue
				}
				isFirst := fc.Kind == "cmp" && fc.Op == "==" && fc.B.Op == "const" && fc.B.Name == "0" && loopIndexTerm(fc.A)
				if !isFirst {
					okAll = false // a further condition on the update of the reference
				}
			}
			first := false
			for _, fc := range in {
				if fc.Kind == "cmp" && fc.Op == "==" && fc.B.Op == "const" && fc.B.Name == "0" && loopIndexTerm(fc.A) {
					first = true // (phi + 1) == 0  i.e. range index == 0; or i == 0 of `for i := 0; …; i++`
				}
			}
			for _, fc := range gf.EdgeFacts(pred, p.Block()) {
				if fc.Kind == "cmp" && fc.Op == "==" && fc.B.Op == "const" && fc.B.Name == "0" && loopIndexTerm(fc.A) {
					first = true
				}
			}
			if !first {
				okAll = false
			}
		}
	}
	return okAll && updates > 0
}

// mutexHeldAt: the must-facts at ins say that a .mutex was locked (and not unlocked) on every path.
func mutexHeldAt(ff *core.FnFacts, ins ssa.Instruction) (held, exclusive, released bool) {
	for _, fc := range ff.At(ins) {
		if fc.Kind != "called" || fc.A.Op != "call" {
			continue
		}
		nm := fc.A.Name
		onMutex := len(fc.A.Args) > 0 && strings.HasSuffix(fc.A.Args[0].String(), ".mutex")
		if !onMutex {
			continue
		}
		switch {
		case strings.HasSuffix(nm, "RWMutex).Lock"):
			held, exclusive = true, true
		case strings.HasSuffix(nm, "RWMutex).RLock"):
			held = true
		case strings.HasSuffix(nm, "RWMutex).Unlock"), strings.HasSuffix(nm, "RWMutex).RUnlock"):
			released = true
		}
	}
	return
}

// callersHoldMutex: f is an unexported function of package rel that is only
// called statically (never taken as a value), and every call site holds the
// mutex (directly or, up to depth, through such a helper again). exclusive is
// true when every site holds it exclusively.
func (r *Run) callersHoldMutex(f *ssa.Function, rel string, depth int) (held, exclusive bool) {
	if depth <= 0 || f.Object() == nil || f.Object().Exported() || f.Parent() != nil {
		return false, false
	}
	sites := 0
	exclusive = true
	for _, g := range r.P.SubjectFuncs(rel) {
		gf := r.E.Facts(g, core.Ctx{})
		for _, b := range g.Blocks {
			for _, ins := range b.Instrs {
				var ops []*ssa.Value
				for _, op := range ins.Operands(ops) {
					if op == nil || *op != ssa.Value(f) {
						continue
					}
					c, isCall := ins.(ssa.CallInstruction)
					if !isCall || c.Common().StaticCallee() != f {
						return false, false // used as a value
					}
					if _, isPlain := ins.(*ssa.Call); !isPlain {
						return false, false // go / defer: runs outside the caller's critical section
					}
					h, ex, rel2 := mutexHeldAt(gf, ins)
					if !h && !rel2 {
						h, ex = r.callersHoldMutex(g, rel, depth-1)
					}
					if !h || rel2 {
						return false, false
					}
					if !ex {
						exclusive = false
					}
					sites++
				}
			}
		}
	}
	return sites > 0, exclusive
}

// checkLockPairing: every Lock / RLock of the queue's mutex is paired with a
// deferred Unlock / RUnlock of the same mutex in the same function (the only
// release idiom the package uses). A lock that is never released blocks every
// later Add / Peek / Remove: accepted operations are never anchored.
func (r *Run) checkLockPairing(P string) {
	n := 0
	for _, f := range r.P.SubjectFuncs(pkgOpQueue) {
		ff := r.E.Facts(f, core.Ctx{})
		for _, b := range f.Blocks {
			for _, ins := range b.Instrs {
				c, ok := ins.(*ssa.Call)
				if !ok {
					continue
				}
				sc := c.Common().StaticCallee()
				if sc == nil {
					continue
				}
				want := ""
				switch {
				case strings.HasSuffix(sc.String(), "Mutex).Lock"):
					want = "Unlock"
				case strings.HasSuffix(sc.String(), "Mutex).RLock"):
					want = "RUnlock"
				default:
					continue
				}
				n++
				mt := ff.TB.Of(c.Common().Args[0]).String()
				paired := false
				for _, b2 := range f.Blocks {
					for _, i2 := range b2.Instrs {
						d, isD := i2.(*ssa.Defer)
						if !isD {
							continue
						}
						dc := d.Call.StaticCallee()
						if dc == nil || !strings.HasSuffix(dc.String(), "Mutex)."+want) || len(d.Call.Args) == 0 {
							continue
						}
						if ff.TB.Of(d.Call.Args[0]).String() == mt && c.Block().Dominates(b2) {
							paired = true
						}
					}
				}
				if !paired {
					// explicit release: every way from the lock to a return (or to a panic exit) passes a call of the
					// matching unlock on the same mutex, and nothing between them can panic past it (no call other than
					// builtins — len, append, copy — in between)
					isUnlock := func(ins ssa.Instruction) bool {
						uc, isC := ins.(*ssa.Call)
						if !isC {
							return false
						}
						us := uc.Common().StaticCallee()
						return us != nil && strings.HasSuffix(us.String(), "Mutex)."+want) && len(uc.Common().Args) > 0 && ff.TB.Of(uc.Common().Args[0]).String() == mt
					}
					ok2, found := true, false
					var walk func(blk *ssa.BasicBlock, from int, seen map[*ssa.BasicBlock]bool)
					walk = func(blk *ssa.BasicBlock, from int, seen map[*ssa.BasicBlock]bool) {
						for i := from; i < len(blk.Instrs); i++ {
							ins := blk.Instrs[i]
							if isUnlock(ins) {
								found = true
								return
							}
							switch x := ins.(type) {
							case *ssa.Call:
								if _, isB := x.Common().Value.(*ssa.Builtin); !isB {
									ok2 = false // a call while the lock is held without a deferred release
								}
							case *ssa.Return, *ssa.Panic:
								ok2 = false
							}
						}
						for _, s2 := range blk.Succs {
							if !seen[s2] {
								seen[s2] = true
								walk(s2, 0, seen)
							}
						}
					}
					start := 0
					for i, ins := range c.Block().Instrs {
						if ins == ssa.Instruction(c) {
							start = i + 1
						}
					}
					walk(c.Block(), start, map[*ssa.BasicBlock]bool{})
					paired = ok2 && found
				}
				r.R.Check(paired, fmt.Sprintf("%s.lock.pairing.%s.%s", P, core.FuncName(f), want), "E8 pairing: every "+strings.TrimSuffix(strings.TrimPrefix(sc.Name(), ""), "")+" of the queue mutex is followed by a deferred "+want+" of the same mutex in the same function",
					core.FuncName(f), r.P.Pos(c.Pos()), "a queue lock that is never released blocks every later Add, Peek and Remove: accepted operations are never anchored",
					"deferred "+want, "no deferred "+want+" of "+mt+" after this lock")
			}
		}
	}
	// (six on the pinned tree; two of them are textually identical read-locked length queries, so a merge of duplicates leaves five)
	r.R.Floor(P+".lock.pairing.floor", "instance floor", n, 5, "Lock/RLock calls in the queue package")
}

// checkEnqueueFinal: once the queue has accepted the operation, Writer.Add reports success — an error reported after
// a successful enqueue makes the caller undo its side (compensating delete, error to the client) while the operation
// stays in the queue and is anchored later.
func (r *Run) checkEnqueueFinal(P string, f *ssa.Function) {
	ff := r.E.Facts(f, core.Ctx{})
	rets := map[*ssa.BasicBlock]core.RetClass{}
	for _, ri := range ff.Returns() {
		rets[ri.Ret.Block()] = ri.Class
	}
	n := 0
	var bad []string
	for _, c := range r.callsIn(f, "BatchCutter.Add", "batchCutter.Add", "cutter.Add") {
		ct := ff.TB.Of(c).String()
		for _, b := range f.Blocks {
			for _, s2 := range b.Succs {
				isOK := false
				for _, fc := range ff.EdgeFacts(b, s2) {
					if fc.Kind == "ok" && fc.A != nil && fc.A.String() == ct {
						isOK = true
					}
				}
				if !isOK {
					continue
				}
				n++
				visit := func(x *ssa.BasicBlock) bool {
					if cl, isRet := rets[x]; isRet && cl == core.RetFail {
						bad = append(bad, "an error is returned at "+r.P.Pos(x.Instrs[len(x.Instrs)-1].Pos())+" after the queue accepted the operation")
					}
					return false
				}
				visit(s2)
				ff.WalkFeasible([]*ssa.BasicBlock{b, s2}, nil, visit)
			}
		}
	}
	// `return err` of the queue's own error, untested: its nil and non-nil outcomes are the function's
	for _, c := range r.callsIn(f, "BatchCutter.Add", "batchCutter.Add", "cutter.Add") {
		for _, ri := range ff.Returns() {
			nres := len(ri.Ret.Results)
			if nres == 0 {
				continue
			}
			if ex, ok := ri.Ret.Results[nres-1].(*ssa.Extract); ok && ex.Tuple == ssa.Value(c) {
				n++
			}
		}
	}
	r.R.Check(n >= 1 && len(bad) == 0, P+".add.final", "E8 exit classes: from the nil-error edge of the queue's Add only success returns of Writer.Add are reachable", core.FuncName(f), r.where(f),
		"the caller treats an error as 'not queued' (it deletes the unpublished operation and reports failure); if the operation is in the queue nevertheless, it is anchored although the client was told it was refused",
		fmt.Sprintf("%d accepting edge(s), only success returns behind them", n), strings.Join(dedupe(bad), "; "))
}

// checkHandlerErrorsPropagated: every error return of PrepareTxnFiles (and of the operation parsing it starts with)
// hands on the failure of a call; the only rejection of its own is the empty input.
func (r *Run) checkHandlerErrorsPropagated(P string) {
	n := 0
	var bad []string
	for _, name := range []string{"OperationHandler.PrepareTxnFiles", "OperationHandler.parseOperations"} {
		f := r.fn(P, pkgProvider, name)
		if f == nil {
			return
		}
		ff := r.E.Facts(f, core.Ctx{})
		for _, ri := range ff.Returns() {
			if ri.Class != core.RetFail {
				continue
			}
			n++
			okRet := false
			for _, fc := range ri.Facts {
				if fc.Kind == "fail" {
					okRet = true
				}
			}
			if !okRet && core.HasFact(ri.Facts, "cmp(len($1) == 0)") {
				okRet = true // nothing to anchor was handed in
			}
			if !okRet {
				bad = append(bad, core.FuncName(f)+" rejects the batch on its own at "+r.P.Pos(ri.Ret.Pos()))
			}
		}
	}
	r.R.Check(n >= 6 && len(bad) == 0, P+".handler.errors.propagated", "E8 exit classes: every error return of the operation handler's batch preparation carries the failure of a call it made (or the empty input)", "OperationHandler.PrepareTxnFiles / parseOperations", "pkg/versions/1_0/txnprovider/handler.go",
		"a batch the handler refuses is put back at the head of the queue and cut again on the next tick: a refusal that depends on the operations themselves (all of them expired, say) repeats for ever and nothing behind them is anchored",
		fmt.Sprintf("%d error returns, all propagated", n), strings.Join(bad, "; "))
}

// phiOfCallResults: every operand of the (possibly nested) phi is result idx of a call to the named function.
func phiOfCallResults(ph *ssa.Phi, name string, idx int, r *Run) bool {
	n := 0
	for _, l := range phiLeaves(ph) {
		ex, ok := l.(*ssa.Extract)
		if !ok || ex.Index != idx {
			return false
		}
		c, ok := ex.Tuple.(*ssa.Call)
		if !ok {
			return false
		}
		key, _, _ := r.P.CalleeKey(c.Common())
		if !core.NameMatches(key, name) {
			return false
		}
		n++
	}
	return n > 0
}

// nackThroughMethod: Remove hands out, as its nack, a method value of a small struct it has just filled (queue and
// removed items); in that method the store into <queue>.items is append(<removed items>, <queue>.items...), where the
// two fields are what Remove stored into them.
func (r *Run) nackThroughMethod(f *ssa.Function, ff *core.FnFacts) bool {
	for _, b := range f.Blocks {
		ret, ok := b.Instrs[len(b.Instrs)-1].(*ssa.Return)
		if !ok || len(ret.Results) < 3 {
			continue
		}
		for _, l := range phiLeaves(core.RetOp(ret, 2)) {
			for {
				ct, isCT := l.(*ssa.ChangeType)
				if !isCT {
					break
				}
				l = ct.X
			}
			mc, isMC := l.(*ssa.MakeClosure)
			if !isMC || len(mc.Bindings) != 1 {
				continue
			}
			wrapper, _ := mc.Fn.(*ssa.Function)
			if wrapper == nil || !strings.HasSuffix(wrapper.Name(), "$bound") {
				continue
			}
			mo, _ := wrapper.Object().(*types.Func)
			if mo == nil {
				continue
			}
			m := r.P.SSA.FuncValue(mo)
			al, isAl := mc.Bindings[0].(*ssa.Alloc)
			if m == nil || !r.P.IsSubject(m) || len(m.Params) == 0 || !isAl {
				continue
			}
			// what Remove stored into the fields of the receiver struct
			stored := map[string]string{}
			for fld, v := range literalFields(al) {
				stored[fld] = ff.TB.Of(v).String()
			}
			mf := r.E.Facts(m, core.Ctx{})
			recv := "$" + m.Params[0].Name()
			subst := func(t string) string {
				// longest field names first is not needed: the field names are distinct words followed by . [ or end
				for fld, val := range stored {
					t = strings.ReplaceAll(t, recv+"."+fld, val)
				}
				return t
			}
			for _, mb := range m.Blocks {
				for _, ins := range mb.Instrs {
					st, isSt := ins.(*ssa.Store)
					if !isSt {
						continue
					}
					fa, isFA := st.Addr.(*ssa.FieldAddr)
					if !isFA || fieldName(fa) != "items" {
						continue
					}
					c, isC := st.Val.(*ssa.Call)
					if !isC || !isBuiltin(c, "append") || len(c.Common().Args) != 2 {
						continue
					}
					target := subst(mf.TB.Of(fa.X).String())
					first := subst(mf.TB.Of(c.Common().Args[0]).String())
					second := subst(mf.TB.Of(c.Common().Args[1]).String())
					if target == "$q" && strings.Contains(first, "$q.items[") && second == "$q.items" {
						return true
					}
				}
			}
		}
	}
	return false
}

// loopIndexTerm: the index of a range loop ((φ + 1), φ starting at -1) or of a counting loop (φ merging 0 and φ + 1).
func loopIndexTerm(t *core.Term) bool {
	if t == nil {
		return false
	}
	if t.Op == "bin" && t.Name == "+" {
		return true
	}
	if t.Op != "phi" {
		return false
	}
	phi, ok := t.Val.(*ssa.Phi)
	if !ok || len(phi.Edges) != 2 {
		return false
	}
	zero, step := false, false
	for _, e := range phi.Edges {
		if k, isK := constInt(e); isK && k == 0 {
			zero = true
		}
		if b, isB := e.(*ssa.BinOp); isB && b.Op == token.ADD && b.X == ssa.Value(phi) {
			if k, isK := constInt(b.Y); isK && k == 1 {
				step = true
			}
		}
	}
	return zero && step
}
