package props

import (
	"golang.org/x/tools/go/ssa"

	"sidecheck/core"
)

// mapStore is one key/value store into a map under construction, expressed in
// the parameter space of the root function it was collected for.
type mapStore struct {
	Key   string
	Val   *core.Term
	ValX  *core.Term   // Val with single-expression helpers of the module unfolded
	Facts core.FactSet // must-facts at the store (root space; includes the facts at every call site on the way)
	Pos   string
	Fn    *ssa.Function
}

// mapBuild collects every store into map value m of function f. The map is
// followed into helpers of the analysed module: the helper that makes and
// returns it and helpers it is passed to; terms and facts of a helper frame are
// rewritten into the caller's space by substituting the actual argument terms
// (so extracting part of a construction into a function changes nothing).
// ok=false when the map's origin is not a single make (undecidable here).
func (r *Run) mapBuild(f *ssa.Function, m ssa.Value, depth int) ([]mapStore, bool) {
	ff := r.E.Facts(f, core.Ctx{})
	m = stripIface(m)
	var out []mapStore
	into := func(c *ssa.Call, g *ssa.Function, gm ssa.Value) bool {
		sub, ok := r.mapBuild(g, gm, depth-1)
		if !ok {
			return false
		}
		var actual []*core.Term
		for _, a := range core.CallArgs(c.Common()) {
			actual = append(actual, ff.TB.Of(a))
		}
		at := ff.At(c)
		for _, s := range sub {
			fs := core.FactSet{}
			for _, fc := range s.Facts {
				g := fc.Subst(actual)
				fs[g.Key()] = g
			}
			for k, fc := range at {
				fs[k] = fc
			}
			out = append(out, mapStore{Key: s.Key, Val: s.Val.Subst(actual), ValX: s.ValX.Subst(actual), Facts: fs, Pos: s.Pos, Fn: s.Fn})
		}
		return true
	}
	switch x := m.(type) {
	case *ssa.MakeMap, *ssa.Parameter:
		for _, b := range f.Blocks {
			for _, ins := range b.Instrs {
				switch y := ins.(type) {
				case *ssa.MapUpdate:
					if y.Map == m {
						vt := ff.TB.Of(stripIface(y.Value))
						out = append(out, mapStore{Key: trimQ(ff.TB.Of(y.Key).String()), Val: vt, ValX: r.expandTerm(vt, 2), Facts: ff.At(y), Pos: r.P.Pos(y.Pos()), Fn: f})
					}
				case *ssa.Call:
					g := y.Common().StaticCallee()
					if g == nil || len(g.Blocks) == 0 || !r.P.IsSubject(g) {
						continue
					}
					for i, a := range core.CallArgs(y.Common()) {
						if stripIface(a) == m && i < len(g.Params) {
							if depth <= 0 || !into(y, g, g.Params[i]) {
								return nil, false
							}
						}
					}
				}
			}
		}
		return out, true
	case *ssa.Call:
		g := x.Common().StaticCallee()
		if g == nil || len(g.Blocks) == 0 || !r.P.IsSubject(g) || depth <= 0 {
			return nil, false
		}
		var gm ssa.Value
		for _, b := range g.Blocks {
			if ret, ok := b.Instrs[len(b.Instrs)-1].(*ssa.Return); ok && len(ret.Results) > 0 {
				v := stripIface(core.RetOp(ret, 0))
				if c, isC := v.(*ssa.Const); isC && c.Value == nil {
					continue
				}
				if gm != nil && gm != v {
					return nil, false
				}
				gm = v
			}
		}
		if gm == nil || !into(x, g, gm) {
			return nil, false
		}
		return out, true
	}
	return nil, false
}

func trimQ(s string) string {
	if len(s) >= 2 && s[0] == '"' && s[len(s)-1] == '"' {
		return s[1 : len(s)-1]
	}
	return s
}

// expandTerm replaces calls to single-expression helpers of the analysed
// module (every return yields the same term over the parameters) by that
// expression with the actual arguments substituted.
func (r *Run) expandTerm(t *core.Term, depth int) *core.Term {
	if t == nil || depth <= 0 {
		return t
	}
	changed := false
	na := make([]*core.Term, len(t.Args))
	for i, a := range t.Args {
		na[i] = r.expandTerm(a, depth)
		if na[i] != a {
			changed = true
		}
	}
	cur := t
	if changed {
		cur = &core.Term{Op: t.Op, Name: t.Name, Idx: t.Idx, Args: na, Obj: t.Obj, Callee: t.Callee, Val: t.Val}
	}
	if cur.Op != "call" || cur.Callee == nil || len(cur.Callee.Blocks) == 0 || !r.P.IsSubject(cur.Callee) || hasCycle(cur.Callee) {
		return cur
	}
	g := cur.Callee
	if g.Signature.Results().Len() != 1 || len(g.Params) != len(cur.Args) {
		return cur
	}
	gf := r.E.Facts(g, core.Ctx{})
	var body *core.Term
	for _, b := range g.Blocks {
		if ret, ok := b.Instrs[len(b.Instrs)-1].(*ssa.Return); ok {
			rt := gf.TB.Of(core.RetOp(ret, 0))
			if body != nil && body.String() != rt.String() {
				return cur
			}
			body = rt
		}
	}
	if body == nil || body.Contains(func(x *core.Term) bool { return x.Op == "phi" || x.Op == "unk" || x.Op == "new" || x.Op == "fv" }) {
		return cur
	}
	return r.expandTerm(body.Subst(cur.Args), depth-1)
}

// Match matches pat against the stored value as written or with helpers unfolded.
func (s mapStore) Match(pat string, b core.Bind) bool {
	if core.MatchTerm(pat, s.Val, b) {
		return true
	}
	return s.ValX != nil && s.ValX != s.Val && core.MatchTerm(pat, s.ValX, b)
}
