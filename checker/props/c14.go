package props

import (
	"fmt"
	"go/ast"
	"go/token"
	"sort"
	"strings"

	"golang.org/x/tools/go/ssa"

	"sidecheck/core"
)

func init() {
	register(&Checker{
		ID: "C14",
		Explanation: "Structural necessary conditions of C14: (role) each batch file is read under its own size parameter and parsed by its own parser (type-indexed pairing get<X>File ↔ Max<X>FileSize ↔ Parse<X>File ↔ validate<X>File); on every success path of the CAS reader — primary and alternate source alike — the bytes that are decompressed satisfy len ≤ limit and the decompressed bytes satisfy len ≤ limit × MaxMemoryDecompressionFactor, with inclusive operators whose exceeding edge only reaches errors; MaxCasURILength bounds len(uri); " +
			"(validated.before.use / elem) every file model is returned only after its validator succeeded; no validating loop has a success return inside it and no loop of a validator can start another iteration without the nil-error edge of a check on the current element; (uri.taint) every URI passed to a file getter carries a validateURI fact at the call or at every caller (precondition lifting) — including the core index URI taken from the anchor string; " +
			"(counts) validateBatchFileCounts succeeds only if, whenever a proof/provisional reference is present, the paired lists have equal length and deltas = create+recover+update; the final operation count equals the anchor string's; (presence) each optional file reference has a guard that rejects 'operations that need the file but no reference' (core proof, provisional proof, provisional index, chunk); (dups) duplicate-suffix detection covers all core and provisional entries; (anchor) anchor string = two parts, positive integer; " +
			"(nopanic) every panic-capable instruction in the 71 functions reachable from GetTxnOperations is discharged (bounds, equal-length, non-nil facts) or audited with a reason that names the obligation establishing its premise. " +
			"Not decided: robustness of encoding/json and gzip; memory use of io.ReadAll before the post-decompression check.",
		Run: runC14,
	})
	auditTable = append(auditTable,
		auditEntry{Kind: "index", Func: "(*txnprovider.OperationProvider).assembleAnchoredOperations", Operand: "Proof.Operations.", Count: 3,
			Reason: "positional zip of a proof list with the like-named index list: equal lengths are established by validateBatchFileCounts whenever the proof reference is present (C14.counts.*), the reference is present whenever the index list is non-empty (C14.presence.*), and the parsed group has one element per index entry (C13.request.reader.*)"},
		auditEntry{Kind: "nilderef", Func: "(*txnprovider.OperationProvider).parseCoreIndexOperations", Operand: ".SuffixData", Count: 1,
			Reason: "every create entry's SuffixData was nil-checked by ValidateSuffixData in validateCoreIndexOperations before the core index file was returned (C14.elem.* and C14.validated.coreindex)"},
	)
}

// allLoopHeads returns the heads of all natural loops of f.
func allLoopHeads(f *ssa.Function) []*ssa.BasicBlock {
	var out []*ssa.BasicBlock
	seen := map[*ssa.BasicBlock]bool{}
	for _, b := range f.Blocks {
		for _, s := range b.Succs {
			if s.Dominates(b) && !seen[s] {
				seen[s] = true
				out = append(out, s)
			}
		}
	}
	sort.Slice(out, func(i, j int) bool { return out[i].Index < out[j].Index })
	return out
}

// validatingLoops returns the loop heads of f whose body has a branch with one
// side reaching only error returns (i.e. loops that can reject).
func (r *Run) validatingLoops(f *ssa.Function) []*ssa.BasicBlock {
	ff := r.E.Facts(f, core.Ctx{})
	var out []*ssa.BasicBlock
	for _, head := range allLoopHeads(f) {
		found := false
		for _, b := range f.Blocks {
			if !head.Dominates(b) || !blockReaches(ff, b, head, nil) {
				continue
			}
			if enclosingLoopHead(f, b) != head && b != head {
				continue // belongs to an inner loop
			}
			for _, s := range b.Succs {
				if !blockReaches(ff, s, head, nil) && onlyErrors(ff, s) {
					found = true
				}
			}
		}
		if found {
			out = append(out, head)
		}
	}
	return out
}

// checkEveryElementChecked: E6 dual — for every validating loop of f (a loop
// that can reject), another iteration cannot start without passing the
// accepting side of a branch whose rejecting side only reaches error returns
// and whose condition is about the current element. minLoops is the number of
// validating loops confirmed by reading (a deleted check turns a validating
// loop into a plain one, which the floor catches).
func (r *Run) checkEveryElementChecked(id string, f *ssa.Function, why string, minLoops int) {
	ff := r.E.Facts(f, core.Ctx{})
	heads := r.validatingLoops(f)
	rule := "E6 (dual): a validating loop cannot start another iteration without the accepting edge of a check on the current element"
	if len(heads) < minLoops {
		r.R.Bad(id, rule, core.FuncName(f), r.where(f), why, fmt.Sprintf("%d validating loop(s) found, %d were confirmed by reading: a per-element check has been removed", len(heads), minLoops))
		return
	}
	mentionsElem := func(fc core.Fact) bool {
		has := func(t *core.Term) bool {
			return t != nil && t.Contains(func(x *core.Term) bool { return x.Op == "idx" || x.Op == "range" || x.Op == "lookup" })
		}
		if has(fc.A) || has(fc.B) {
			return true
		}
		for _, t := range fc.List {
			if has(t) {
				return true
			}
		}
		return false
	}
	var bad []string
	for li, head := range heads {
		head := head
		// per-iteration state computed inside the loop (e.g. a flag set by an inner loop) counts as being about the element
		loopLocal := func(fc core.Fact) bool {
			chk := func(t *core.Term) bool {
				return t != nil && t.Contains(func(x *core.Term) bool {
					if x.Op != "phi" {
						return false
					}
					if pv, ok := x.Val.(*ssa.Phi); ok {
						return pv.Block() != head && head.Dominates(pv.Block())
					}
					return false
				})
			}
			return chk(fc.A) || chk(fc.B)
		}
		isCheckEdge := func(a, b *ssa.BasicBlock) bool {
			if len(a.Succs) != 2 {
				return false
			}
			// a decision about the current element (or per-iteration state): either the accepting side of a
			// rejecting check, or a test that decides whether the element is subject to the check at all
			for _, fc := range ff.EdgeFacts(a, b) {
				if mentionsElem(fc) || loopLocal(fc) {
					return true
				}
			}
			return false
		}
		seen := map[*ssa.BasicBlock]bool{}
		work := []*ssa.BasicBlock{head}
		cycle := false
		for len(work) > 0 && !cycle {
			b := work[len(work)-1]
			work = work[:len(work)-1]
			for _, s := range b.Succs {
				if !ff.IsLiveEdge(b, s) || isCheckEdge(b, s) {
					continue
				}
				if s == head {
					cycle = true
					break
				}
				if !seen[s] && head.Dominates(s) {
					seen[s] = true
					work = append(work, s)
				}
			}
		}
		if cycle {
			bad = append(bad, fmt.Sprintf("validating loop %d (at %s) can iterate without checking its element", li+1, r.P.Pos(firstPos(head))))
		}
	}
	r.R.Check(len(bad) == 0, id, rule, core.FuncName(f), r.where(f), why, fmt.Sprintf("%d validating loop(s), each iteration gated by a check on the element", len(heads)), strings.Join(bad, "; "))
}

func firstPos(b *ssa.BasicBlock) token.Pos {
	for _, ins := range b.Instrs {
		if ins.Pos().IsValid() {
			return ins.Pos()
		}
	}
	for _, s := range b.Succs {
		for _, ins := range s.Instrs {
			if ins.Pos().IsValid() {
				return ins.Pos()
			}
		}
	}
	return token.NoPos
}

// checkNoEarlySuccess: E6 — in an error-only function, a return lexically
// inside a for/range statement must be a failure return.
func (r *Run) checkNoEarlySuccess(id string, f *ssa.Function, why string) {
	rule := "E6: no success return lexically inside a validating loop (the remaining elements would never be examined)"
	decl := r.P.Decl(f)
	if decl == nil || decl.Body == nil {
		r.R.Unk(id, rule, core.FuncName(f), r.where(f), why, "no syntax")
		return
	}
	ff := r.E.Facts(f, core.Ctx{})
	class := map[token.Pos]core.RetClass{}
	for _, ri := range ff.Returns() {
		class[ri.Ret.Pos()] = ri.Class
	}
	var bad []string
	nLoops, nRets := 0, 0
	var walk func(n ast.Node, inLoop bool)
	walk = func(n ast.Node, inLoop bool) {
		ast.Inspect(n, func(x ast.Node) bool {
			switch y := x.(type) {
			case *ast.FuncLit:
				return false
			case *ast.RangeStmt:
				nLoops++
				walk(y.Body, true)
				return false
			case *ast.ForStmt:
				nLoops++
				walk(y.Body, true)
				return false
			case *ast.ReturnStmt:
				if inLoop {
					nRets++
					if c, ok := class[y.Return]; !ok || c != core.RetFail {
						bad = append(bad, "return at "+r.P.Pos(y.Return)+" inside a loop is not provably an error")
					}
				}
			}
			return true
		})
	}
	walk(decl.Body, false)
	r.R.Check(len(bad) == 0 && nLoops > 0, id, rule, core.FuncName(f), r.where(f), why, fmt.Sprintf("%d loop(s), %d return(s) inside, all errors", nLoops, nRets), strings.Join(bad, "; ")+fmt.Sprintf(" (%d loops)", nLoops))
}

// factAtCallOrCallers: does a fact matching mk(term) hold at call c for the
// argument value v — or, when v is (a field of) a parameter, at every call site
// of the enclosing function with the parameter substituted (depth-limited)?
func (r *Run) factAtCallOrCallers(f *ssa.Function, c ssa.Instruction, v ssa.Value, mk func(t *core.Term) string, depth int) (bool, string) {
	ff := r.E.Facts(f, core.Ctx{})
	t := ff.TB.Of(v)
	if t.String() == `""` {
		return true, "constant empty"
	}
	at := ff.At(c)
	if at != nil && at.Has(mk(t)) {
		return true, "at the call in " + core.FuncName(f)
	}
	root := t.Root()
	if root == nil || root.Op != "param" || depth <= 0 {
		return false, "no " + mk(t) + " in " + core.FuncName(f)
	}
	callers := r.callersOf(f)
	if len(callers) == 0 {
		return false, "parameter of a function without callers: " + t.String()
	}
	for _, cc := range callers {
		g := cc.Parent()
		gf := r.E.Facts(g, core.Ctx{})
		var actual []*core.Term
		for _, a := range core.CallArgs(cc.Common()) {
			actual = append(actual, gf.TB.Of(a))
		}
		st := t.Subst(actual)
		gat := gf.At(cc)
		if gat != nil && gat.Has(mk(st)) {
			continue
		}
		// lift further if still parameter-rooted
		if rt := st.Root(); rt != nil && rt.Op == "param" && depth > 1 {
			// find the SSA value is not available after substitution; check textually one more level
			ok := false
			for _, c3 := range r.callersOf(g) {
				h := c3.Parent()
				hf := r.E.Facts(h, core.Ctx{})
				var act2 []*core.Term
				for _, a := range core.CallArgs(c3.Common()) {
					act2 = append(act2, hf.TB.Of(a))
				}
				if hat := hf.At(c3); hat != nil && hat.Has(mk(st.Subst(act2))) {
					ok = true
				} else {
					ok = false
					break
				}
			}
			if ok {
				continue
			}
		}
		return false, "caller " + core.FuncName(g) + " lacks " + short(mk(st), 200)
	}
	return true, fmt.Sprintf("at all %d caller(s) of %s", len(callers), core.FuncName(f))
}

// mentionsLenOfField: does v's operand tree contain len(x.<field>)?
func mentionsLenOfField(v ssa.Value, field string, depth int) bool {
	if v == nil || depth > 10 {
		return false
	}
	if c, ok := v.(*ssa.Call); ok {
		if b, ok := c.Common().Value.(*ssa.Builtin); ok && b.Name() == "len" {
			a := c.Common().Args[0]
			if u, ok := a.(*ssa.UnOp); ok {
				if fa, ok := u.X.(*ssa.FieldAddr); ok && fieldName(fa) == field {
					return true
				}
			}
			if fl, ok := a.(*ssa.Field); ok {
				st := derefStructT(fl.X.Type())
				if st != nil && st.Field(fl.Field).Name() == field {
					return true
				}
			}
			return false
		}
		return false
	}
	ins, ok := v.(ssa.Instruction)
	if !ok {
		return false
	}
	switch ins.(type) {
	case *ssa.BinOp, *ssa.Phi, *ssa.Convert, *ssa.ChangeType:
	default:
		return false
	}
	for _, op := range ins.Operands(nil) {
		if op != nil && *op != nil && *op != v && mentionsLenOfField(*op, field, depth+1) {
			return true
		}
	}
	return false
}

// checkPresenceGuard: somewhere in fns there is a branch whose condition
// combines "count of <fields> > 0" with "<uriField> == \"\"" and whose taken
// edge only reaches error returns.
func (r *Run) checkPresenceGuard(id string, fns []*ssa.Function, uriField string, countFields []string, what string) {
	rule := "presence consistency: entries that need the " + what + " but an empty reference ⇒ error (a guard on count(" + strings.Join(countFields, "+") + ") > 0 ∧ " + uriField + " == \"\" whose taken edge only reaches error returns)"
	why := "without it, index entries that need the missing file are silently dropped (or a nil file is dereferenced) instead of the batch being rejected"
	found := ""
	for _, f := range fns {
		ff := r.E.Facts(f, core.Ctx{})
		rets := map[*ssa.Return]core.RetClass{}
		for _, ri := range ff.Returns() {
			rets[ri.Ret] = ri.Class
		}
		uriEmptyOn := func(a, b *ssa.BasicBlock) bool {
			for _, fc := range ff.EdgeFacts(a, b) {
				if fc.Kind == "cmp" && fc.Op == "==" && fc.B.Name == `""` && fc.A.Op == "field" && fc.A.Name == uriField {
					return true
				}
				// len(uri) == 0 spelling
				if fc.Kind == "cmp" && fc.Op == "==" && fc.B.Name == "0" && fc.A.Op == "len" && len(fc.A.Args) == 1 && fc.A.Args[0].Op == "field" && fc.A.Args[0].Name == uriField {
					return true
				}
			}
			return false
		}
		countBranch := func(d *ssa.BasicBlock) bool {
			iff, ok := d.Instrs[len(d.Instrs)-1].(*ssa.If)
			if !ok {
				return false
			}
			bo, ok := iff.Cond.(*ssa.BinOp)
			if !ok {
				return false
			}
			for _, cf := range countFields {
				if !mentionsLenOfField(bo.X, cf, 0) && !mentionsLenOfField(bo.Y, cf, 0) &&
					!termMentionsLenOf(ff.TB.Of(bo.X), cf) && !termMentionsLenOf(ff.TB.Of(bo.Y), cf) {
					return false
				}
			}
			return bo.Op == token.GTR || bo.Op == token.NEQ || bo.Op == token.LSS || bo.Op == token.EQL || bo.Op == token.LEQ || bo.Op == token.GEQ
		}
		for _, b := range f.Blocks {
			for _, s := range b.Succs {
				// the edge b->s only reaches error returns ...
				onlyErr, n := true, 0
				visit := func(x *ssa.BasicBlock) bool {
					if ret, ok := x.Instrs[len(x.Instrs)-1].(*ssa.Return); ok {
						n++
						if rets[ret] != core.RetFail {
							onlyErr = false
						}
					}
					return false
				}
				visit(s)
				ff.WalkFeasible([]*ssa.BasicBlock{b, s}, nil, visit)
				if !onlyErr || n == 0 {
					continue
				}
				// ... and it, together with the branches that necessarily lead to it, says: reference empty, and a
				// decision on the count of the entries that need the file (the two tests may be nested either way)
				hasURI, hasCount := uriEmptyOn(b, s), countBranch(b)
				for x, depth := b, 0; len(x.Preds) == 1 && depth < 6; x, depth = x.Preds[0], depth+1 {
					if uriEmptyOn(x.Preds[0], x) {
						hasURI = true
					}
					if countBranch(x.Preds[0]) {
						hasCount = true
					}
				}
				// (the original shape: a dominating count branch anywhere above)
				if hasURI && !hasCount {
					for d := b; d != nil; d = d.Idom() {
						if countBranch(d) {
							hasCount = true
						}
					}
				}
				if hasURI && hasCount {
					found = core.FuncName(f) + " at " + r.P.Pos(firstPos(s))
				}
			}
		}
	}
	r.R.Check(found != "", id, rule, what, "-", why, "guard found in "+found, "no such guard in the functions reachable from GetTxnOperations")
}

func runC14(r *Run) {
	const P = "C14"
	entry := r.fn(P, pkgProvider, "OperationProvider.GetTxnOperations")
	if entry == nil {
		return
	}
	fns := r.P.Reachable(entry)

	// --- role: type-indexed pairing
	type fileSpec struct{ getter, param, parser, validator string }
	for _, fs := range []fileSpec{
		{"getCoreIndexFile", "MaxCoreIndexFileSize", "ParseCoreIndexFile", "validateCoreIndexFile"},
		{"getCoreProofFile", "MaxProofFileSize", "ParseCoreProofFile", "validateCoreProofFile"},
		{"getProvisionalIndexFile", "MaxProvisionalIndexFileSize", "ParseProvisionalIndexFile", "validateProvisionalIndexFile"},
		{"getProvisionalProofFile", "MaxProofFileSize", "ParseProvisionalProofFile", "validateProvisionalProofFile"},
		{"getChunkFile", "MaxChunkFileSize", "ParseChunkFile", "validateChunkFile"},
	} {
		f := r.fn(P, pkgProvider, "OperationProvider."+fs.getter)
		if f == nil {
			continue
		}
		r.requireSucc(P+".validated."+strings.TrimPrefix(fs.getter, "get"),
			"if a file is read under another file's limit, parsed by another parser, or returned without validation, oversized or malformed content is accepted", f, core.Ctx{}, "",
			"ok(readFromCAS(_, $1, $0.Protocol."+fs.param+", ...))",
			"ok(models."+fs.parser+"(readFromCAS(_, $1, $0.Protocol."+fs.param+", ...)))",
			"cmp(<result> == models."+fs.parser+"(readFromCAS(_, $1, $0.Protocol."+fs.param+", ...)))",
			"ok("+fs.validator+"(_, <result>))")
	}
	// --- role: CAS reader, every success path (primary and alternate)
	if f := r.fn(P, pkgProvider, "OperationProvider.readFromCAS"); f != nil {
		r.requireEachSuccessPath(P+".role.readFromCAS", "on every source, a file larger than its limit, or decompressing to more than limit × factor, must be rejected", f, core.Ctx{},
			[]string{"ok(DCAS.Read(_, $1))", "cmp(len(DCAS.Read(_, $1)) <= $2)",
				"ok(decompressionProvider.Decompress(_, $0.Protocol.CompressionAlgorithm, _))",
				"cmp(len(decompressionProvider.Decompress(_, _, _)) <= ($2 * $0.Protocol.MaxMemoryDecompressionFactor))"},
			[]string{"fail(DCAS.Read(_, $1))", "ok(readFromAlternateCASSources(_, $1, $3))", "cmp(len(readFromAlternateCASSources(_, $1, $3)) <= $2)",
				"ok(decompressionProvider.Decompress(_, $0.Protocol.CompressionAlgorithm, _))",
				"cmp(len(decompressionProvider.Decompress(_, _, _)) <= ($2 * $0.Protocol.MaxMemoryDecompressionFactor))"})
		// the decompressed bytes are the bounded ones, and the result is the decompressed content
		ff := r.E.Facts(f, core.Ctx{})
		ok := true
		var det []string
		for _, c := range r.callsIn(f, "decompressionProvider.Decompress") {
			at := ff.At(c)
			bt := ff.TB.Of(core.CallArgs(c.Common())[2])
			if _, bounded := upperBounded(at, &core.Term{Op: "const", Name: "0"}, bt, true); !bounded {
				// need cmp(len(b) <= $2): check directly
				has := false
				for _, fc := range at {
					if fc.Kind == "cmp" && fc.A.String() == "$maxSize" && fc.Op == ">=" && fc.B.String() == "len("+bt.String()+")" {
						has = true
					}
					if fc.Kind == "cmp" && fc.B.String() == "$maxSize" && fc.Op == "<=" && fc.A.String() == "len("+bt.String()+")" {
						has = true
					}
				}
				if !has {
					ok = false
					det = append(det, "bytes handed to Decompress ("+bt.String()+") are not bounded by the limit at "+r.P.Pos(c.Pos()))
				}
			}
		}
		r.R.Check(ok, P+".role.readFromCAS.before", "E2 Before: Decompress is only given bytes with len ≤ limit", core.FuncName(f), r.where(f), "decompressing an oversized file defeats the pre-decompression limit", "bounded before decompression", strings.Join(det, "; "))
	}
	r.checkDecompress(P)
	// E3: operators and roles of the file-size parameters
	sinks, reads := r.protocolSinks()
	r.R.SetCount("E3 protocol parameter reads followed", reads)
	inSet := map[*ssa.Function]bool{}
	for _, f := range fns {
		inSet[f] = true
	}
	for _, prm := range []string{"MaxCoreIndexFileSize", "MaxProofFileSize", "MaxProvisionalIndexFileSize", "MaxChunkFileSize", "MaxCasURILength"} {
		n := 0
		var bad []string
		for _, s := range sinks[prm] {
			if !inSet[s.Fn] || s.Kind != "cmp" {
				continue
			}
			exact, rejects, det := r.guardRejects(s)
			if !core.MatchTerm("len(_)", s.Other, core.Bind{}) {
				bad = append(bad, "compared with "+short(s.Other.String(), 60))
				continue
			}
			if !exact || !rejects {
				bad = append(bad, det+" at "+r.P.Pos(s.Instr.Pos()))
				continue
			}
			n++
		}
		min := 2
		if prm == "MaxCasURILength" {
			min = 1
		}
		r.R.Check(len(bad) == 0 && n >= min, P+".role."+prm, "E3 role/live/exact: "+prm+" is an inclusive upper bound on a length whose exceeding edge only reaches errors", "Protocol."+prm, "pkg/api/protocol/protocol.go",
			"a strict or missing bound accepts oversized content or rejects content exactly at the limit", fmt.Sprintf("%d guard(s)", n), strings.Join(bad, "; ")+fmt.Sprintf(" (%d good guards, need %d)", n, min))
	}
	// decompression factor only as multiplier
	okF := len(sinks["MaxMemoryDecompressionFactor"]) > 0
	for _, s := range sinks["MaxMemoryDecompressionFactor"] {
		if s.Kind == "arith" && s.Op != "*" {
			okF = false
		}
	}
	r.R.Check(okF, P+".role.MaxMemoryDecompressionFactor", "E3 role: the factor is used only as the multiplier of the file limit", "Protocol.MaxMemoryDecompressionFactor", "pkg/api/protocol/protocol.go", "-", "multiplier only", "other use")

	// --- elem
	for _, v := range []struct {
		fn    string
		loops int
	}{{"validateCoreIndexOperations", 3}, {"validateCoreProofFile", 2}, {"validateProvisionalProofFile", 1}, {"validateProvisionalIndexOperations", 1}, {"validateChunkFile", 1}} {
		if f := r.fn(P, pkgProvider, "OperationProvider."+v.fn); f != nil {
			why := "if validation stops at the first element or skips elements, a later malformed entry is accepted"
			r.checkNoEarlySuccess(P+".elem.noearly."+v.fn, f, why)
			// the rejecting loops may be written in the function itself or in helpers of the package it calls
			// (one instance per call site); the E6 rule is applied to each function that holds one
			total, holders := r.validatingLoopInstances(f, 2)
			if total < v.loops {
				r.R.Bad(P+".elem.every."+v.fn, "E6 instance count", core.FuncName(f), r.where(f), why, fmt.Sprintf("%d validating loop instance(s) found (own + helpers), %d were confirmed by reading: a per-element check has been removed", total, v.loops))
				continue
			}
			r.checkEveryElementChecked(P+".elem.every."+v.fn, f, why, 0)
			for _, h := range holders {
				if h != f {
					r.checkNoEarlySuccess(P+".elem.noearly."+v.fn+"."+h.Name(), h, why)
					r.checkEveryElementChecked(P+".elem.every."+v.fn+"."+h.Name(), h, why, 1)
				}
			}
		}
	}
	if f := r.fn(P, pkgProvider, "OperationProvider.validateOperationReference"); f != nil {
		r.requireSucc(P+".elem.reference", "an operation reference needs a suffix and a reveal value within the hash length", f, core.Ctx{}, "",
			`cmp($1.DidSuffix != "")`, `cmp($1.RevealValue != "")`,
			"cmp($0.Protocol.MaxOperationHashLength >= len($1.DidSuffix))", "cmp($0.Protocol.MaxOperationHashLength >= len($1.RevealValue))")
	}

	// --- uri.taint
	getters := []string{"getCoreIndexFile", "getCoreProofFile", "getProvisionalIndexFile", "getProvisionalProofFile", "getChunkFile"}
	nURI := 0
	for _, f := range fns {
		for _, g := range getters {
			for _, c := range r.callsIn(f, "OperationProvider."+g) {
				nURI++
				uri := c.Common().Args[1]
				ok, det := r.factAtCallOrCallers(f, c, uri, func(t *core.Term) string {
					// find the validateURI fact by scanning keys for the URI term
					return "ok((*txnprovider.OperationProvider).validateURI($h, " + t.String() + "))"
				}, 2)
				if !ok {
					// receiver name may differ: textual search
					ok2, det2 := r.uriValidatedLoose(f, c, uri)
					ok, det = ok2, det2
				}
				if !ok && g == "getChunkFile" {
					// conditional validation: the chunk URI is validated whenever the chunk list is non-empty
					// (obligation .uri.taint.chunk.conditional), and the list is non-empty at the call
					ff := r.E.Facts(f, core.Ctx{})
					at := ff.At(c)
					b := core.Bind{}
					ut := ff.TB.Of(uri)
					if core.MatchTerm("?pi.Chunks[0].ChunkFileURI", ut, b) {
						_, m := core.MatchAll(at, []string{"ok(validateProvisionalIndexCASReferences(_, ?pi))", "cmp(len(?pi.Chunks) != 0)"}, b)
						if !m {
							// (the reference checks written into the file validator itself)
							_, m = core.MatchAll(at, []string{"ok(validateProvisionalIndexFile(_, ?pi))", "cmp(len(?pi.Chunks) != 0)"}, b)
						}
						if m && r.chunkURIConditional(P) {
							ok, det = true, "validated whenever the chunk list is non-empty, and it is non-empty here"
						}
					}
				}
				r.R.Check(ok, P+".uri.taint."+g+"@"+core.FuncName(f), "E13 taint: the URI handed to "+g+" carries Ok(validateURI) at the call or at every caller", core.FuncName(f)+" → "+g, r.P.Pos(c.Pos()),
					"an over-long CAS URI (taken from a decoded file or from the anchor string) must be rejected before it is dereferenced", det, "URI "+short(r.E.Facts(f, core.Ctx{}).TB.Of(uri).String(), 120)+": "+det)
			}
		}
	}
	r.R.Floor(P+".uri.taint.floor", "instance floor", nURI, 5, "file getter call sites")

	// --- counts
	if f := r.fn(P, pkgProvider, "validateBatchFileCounts"); f != nil {
		ff := r.E.Facts(f, core.Ctx{})
		paths, complete := enumPaths(ff, 5000)
		ok := complete
		var det []string
		n := 0
		for _, p := range paths {
			ret := p[len(p)-1].Instrs[len(p[len(p)-1].Instrs)-1].(*ssa.Return)
			if !isNilConstV(core.RetOp(ret, 0)) {
				continue
			}
			n++
			pf := pathFacts(ff, p)
			// core proof
			if !core.HasFact(pf, `cmp($0.CoreIndex.CoreProofFileURI == "")`) {
				if !pathHasEq(ff, p, "Recover", "CoreIndex", "CoreProof") || !pathHasEq(ff, p, "Deactivate", "CoreIndex", "CoreProof") {
					ok = false
					det = append(det, "a success path with a core proof reference lacks recover/deactivate count equality")
				}
			}
			if !core.HasFact(pf, `cmp($0.CoreIndex.ProvisionalIndexFileURI == "")`) {
				if !core.HasFact(pf, `cmp($0.ProvisionalIndex.ProvisionalProofFileURI == "")`) && !pathHasEq(ff, p, "Update", "ProvisionalIndex", "ProvisionalProof") {
					ok = false
					det = append(det, "a success path with a provisional proof reference lacks update count equality")
				}
				if !pathHasDeltaEq(ff, p) {
					ok = false
					det = append(det, "a success path with a provisional index reference lacks deltas = create+recover+update")
				}
			}
		}
		r.R.Count("E8 count-validation paths enumerated", len(paths))
		r.R.Check(ok && n > 0, P+".counts.validate", "E2 path-sensitive: validateBatchFileCounts succeeds only with proof lists equal in length to their index lists (when the proof reference is present) and deltas = create+recover+update (when the provisional index reference is present)", core.FuncName(f), r.where(f),
			"index, proof and chunk files whose counts disagree lead to operations with the wrong delta/signed data, or to an out-of-range index", fmt.Sprintf("%d success path(s) all carry the equalities", n), strings.Join(dedupe(det), "; "))
	}
	if f := r.fn(P, pkgProvider, "OperationProvider.getBatchFiles"); f != nil {
		r.requireSucc(P+".counts.called", "the count validation must gate the batch files", f, core.Ctx{}, "", "ok(validateBatchFileCounts(<result>))", "cmp(<result>.CoreIndex == $1)")
	}
	r.checkCountsAnchor(P)
	if f := r.fn(P, pkgProvider, "OperationProvider.assembleAnchoredOperations"); f != nil {
		// delta zip guarded by equal length
		ff := r.E.Facts(f, core.Ctx{})
		ok := false
		for _, b := range f.Blocks {
			for _, ins := range b.Instrs {
				if st, isSt := ins.(*ssa.Store); isSt {
					if fa, isFA := st.Addr.(*ssa.FieldAddr); isFA && fieldName(fa) == "Delta" {
						if core.HasFact(ff.At(st), "cmp(len(_) == len($1.Chunk.Deltas))") {
							ok = true
						}
					}
				}
			}
		}
		r.R.Check(ok, P+".counts.deltas.zip", "E2 Before: deltas are assigned positionally only under len(operations) = len(deltas)", core.FuncName(f), r.where(f), "-", "guarded", "positional delta assignment without the equal-length fact")
	}

	// --- presence
	r.checkPresenceTable(P)
	r.checkFetchEveryReference(P)
	r.checkPresenceGuard(P+".presence.coreproof", fns, "CoreProofFileURI", []string{"Recover", "Deactivate"}, "core proof file")
	r.checkPresenceGuard(P+".presence.provisionalproof", fns, "ProvisionalProofFileURI", []string{"Update"}, "provisional proof file")
	r.checkPresenceGuard(P+".presence.provisionalindex", fns, "ProvisionalIndexFileURI", []string{"Create", "Recover"}, "provisional index (and chunk) file")
	if f := r.fn(P, pkgProvider, "OperationProvider.getProvisionalFiles"); f != nil {
		r.requireSucc(P+".presence.chunk", "a provisional index without a chunk reference must be rejected", f, core.Ctx{}, "",
			"cmp(<result>.ProvisionalIndex == ?pi)", "cmp(len(?pi.Chunks) != 0)", "ok(getChunkFile(_, ?pi.Chunks[0].ChunkFileURI, ...))")
	}
	// superfluous references
	if f := r.fn(P, pkgProvider, "OperationProvider.validateCoreIndexFile"); f != nil {
		r.requireSucc(P+".presence.validate.coreindex", "reference validation must run for every core index file", f, core.Ctx{}, "",
			"ok(validateURI(_, $1.CoreProofFileURI))", "ok(validateURI(_, $1.ProvisionalIndexFileURI))", "ok(validateCoreIndexOperations(_, $1.Operations))")
	}
	if f := r.fn(P, pkgProvider, "OperationProvider.validateProvisionalIndexFile"); f != nil {
		r.requireSucc(P+".presence.validate.provisionalindex", "reference validation must run for every provisional index file", f, core.Ctx{}, "",
			"ok(validateURI(_, $1.ProvisionalProofFileURI))", "ok(validateProvisionalIndexOperations(_, $1.Operations))")
	}

	// --- dups
	if f := r.fn(P, pkgProvider, "checkForDuplicates"); f != nil {
		r.requireSucc(P+".dups.rule", "duplicates must make the check fail", f, core.Ctx{}, "", "cmp(len(_) <= 0)")
		ff := r.E.Facts(f, core.Ctx{})
		// the duplicates list grows on a hit of the element in the seen map
		ok := false
		for _, b := range f.Blocks {
			for _, ins := range b.Instrs {
				if c, isC := ins.(*ssa.Call); isC && isBuiltin(c, "append") {
					if core.HasFact(ff.At(c), "hit(_, $0[_])") {
						ok = true
					}
				}
			}
		}
		r.R.Check(ok, P+".dups.detect", "E2: a value already seen is recorded as duplicate", core.FuncName(f), r.where(f), "-", "append under hit(seen, element)", "no such append")
		// … and a value not seen before is entered into the seen set: on every iteration path that misses, the set is updated with the element
		okRec, nMiss := true, 0
		for _, head := range allLoopHeads(f) {
			for _, ip := range loopIterationPaths(ff, head, 2000) {
				if ip.Ret != nil {
					continue
				}
				var seenMap ssa.Value
				var key string
				for _, fc := range rawPathFacts(ff, ip.Blocks) {
					if fc.Kind == "miss" && fc.A != nil {
						if mk, isMk := fc.A.Val.(*ssa.MakeMap); isMk {
							seenMap, key = mk, fc.B.String()
						}
					}
				}
				if seenMap == nil {
					continue
				}
				nMiss++
				rec := false
				for _, b := range ip.Blocks[:len(ip.Blocks)-1] {
					for _, ins := range b.Instrs {
						if mu, isMU := ins.(*ssa.MapUpdate); isMU && mu.Map == seenMap && ff.TB.Of(mu.Key).String() == key {
							rec = true
						}
					}
				}
				if !rec {
					okRec = false
				}
			}
		}
		r.R.Check(okRec && nMiss > 0, P+".dups.record", "E6 dual: a value that was not in the seen set is entered into it in the same iteration", core.FuncName(f), r.where(f),
			"if values are never entered, no value is ever found to be a duplicate", fmt.Sprintf("%d missing-iteration path(s) record the value", nMiss), "an iteration that misses does not record the value")
	}
	if f := r.fn(P, pkgProvider, "OperationProvider.parseCoreIndexOperations"); f != nil {
		r.requireEachSuccess(P+".dups.core", "all core index suffixes must be checked for duplicates", f, core.Ctx{},
			[]string{"cmp($1.Operations == nil)"},
			[]string{"ok(checkForDuplicates(_))"})
		ff := r.E.Facts(f, core.Ctx{})
		// each loop appends the element's suffix to the suffix list handed to checkForDuplicates
		n := 0
		for _, c := range r.callsIn(f, "checkForDuplicates") {
			roots := sliceRootsAll(c.Common().Args[0])
			_ = roots
			n = len(appendElemsInto(f, c.Common().Args[0]))
		}
		_ = ff
		r.R.Check(n >= 3, P+".dups.core.all", "E6: the suffix of every create, recover and deactivate entry is appended to the list that is checked", core.FuncName(f), r.where(f), "an entry whose suffix is not collected escapes duplicate detection", fmt.Sprintf("%d append sites feed the checked list", n), fmt.Sprintf("%d append sites feed the checked list, expected 3", n))
	}
	if f := r.fn(P, pkgProvider, "OperationProvider.assembleAnchoredOperations"); f != nil {
		r.requireEachSuccess(P+".dups.combined", "core and provisional suffixes together must be duplicate-free", f, core.Ctx{},
			[]string{`cmp($1.CoreIndex.ProvisionalIndexFileURI == "")`},
			[]string{"ok(checkForDuplicates(_))"})
		ff := r.E.Facts(f, core.Ctx{})
		ok := false
		for _, c := range r.callsIn(f, "checkForDuplicates") {
			t := ff.TB.Of(c.Common().Args[0]).String()
			ok = strings.Contains(t, "parseCoreIndexOperations(") && strings.Contains(t, ".Suffixes") && strings.Contains(t, "parseProvisionalIndexOperations(")
		}
		r.R.Check(ok, P+".dups.combined.args", "E13: the combined check covers core ++ provisional suffixes", core.FuncName(f), r.where(f), "-", "core.Suffixes ++ provisional.Suffixes", "other argument")
	}

	// --- anchor
	if f := r.fn(P, pkgProvider, "ParseAnchorData"); f != nil {
		r.requireSucc(P+".anchor", "an anchor string must be '<positive integer>.<uri>'", f, core.Ctx{}, "",
			`cmp(len(strings.Split($0, ".")) == 2)`, `true(Regexp.MatchString(_, strings.Split($0, ".")[0]))`, `ok(strconv.Atoi(strings.Split($0, ".")[0]))`,
			`cmp(<result>.NumberOfOperations == strconv.Atoi(strings.Split($0, ".")[0]))`, `cmp(<result>.CoreIndexFileURI == strings.Split($0, ".")[1])`)
	}

	if r.Universal {
		r.universalE11(P, pkgProvider, pkgModels, pkgTxnProc, pkgObserver, pkgCompression)
	}
	if r.Universal {
		r.universalE6(P)
		r.universalParamsLive(P, sinks)
	}
	r.checkNoPanic(P, map[string]*ssa.Function{"OperationProvider.GetTxnOperations": entry}, 40)
}

// uriValidatedLoose: validateURI fact for the URI term, tolerant to the
// receiver's name (matches by callee + argument term), at the call or callers.
func (r *Run) uriValidatedLoose(f *ssa.Function, c *ssa.Call, uri ssa.Value) (bool, string) {
	check := func(g *ssa.Function, at core.FactSet, t *core.Term) bool {
		for _, fc := range at {
			if fc.Kind == "ok" && fc.A.Op == "call" && core.NameMatches(fc.A.Name, "validateURI") && len(fc.A.Args) == 2 && fc.A.Args[1].String() == t.String() {
				return true
			}
		}
		return false
	}
	ff := r.E.Facts(f, core.Ctx{})
	t := ff.TB.Of(uri)
	if check(f, ff.At(c), t) {
		return true, "validated in " + core.FuncName(f)
	}
	if rt := t.Root(); rt == nil || rt.Op != "param" {
		return false, "not validated in " + core.FuncName(f)
	}
	callers := r.callersOf(f)
	if len(callers) == 0 {
		return false, "no callers"
	}
	for _, cc := range callers {
		g := cc.Parent()
		gf := r.E.Facts(g, core.Ctx{})
		var actual []*core.Term
		for _, a := range core.CallArgs(cc.Common()) {
			actual = append(actual, gf.TB.Of(a))
		}
		st := t.Subst(actual)
		if check(g, gf.At(cc), st) {
			continue
		}
		// one more level
		if rt := st.Root(); rt != nil && rt.Op == "param" {
			ok := true
			cs := r.callersOf(g)
			if len(cs) == 0 {
				ok = false
			}
			for _, c3 := range cs {
				h := c3.Parent()
				hf := r.E.Facts(h, core.Ctx{})
				var act2 []*core.Term
				for _, a := range core.CallArgs(c3.Common()) {
					act2 = append(act2, hf.TB.Of(a))
				}
				if !check(h, hf.At(c3), st.Subst(act2)) {
					ok = false
				}
			}
			if ok {
				continue
			}
		}
		return false, "not validated at caller " + core.FuncName(g) + " (" + short(st.String(), 100) + ")"
	}
	return true, fmt.Sprintf("validated at all %d caller(s)", len(callers))
}

// pathHasEq: the path carries len(<A>.Operations.<list>) == len(<B>.Operations.<list>) (possibly through a count variable).
func pathHasEq(ff *core.FnFacts, p []*ssa.BasicBlock, list, fileA, fileB string) bool {
	for i := 0; i+1 < len(p); i++ {
		for _, fc := range ff.EdgeFacts(p[i], p[i+1]) {
			if fc.Kind != "cmp" || fc.Op != "==" {
				continue
			}
			s := fc.Key()
			if strings.Contains(s, "."+fileB+".Operations."+list) {
				// the other side must be the index count for the same list: a phi(0, len(index list)) or the len itself
				other := fc.A
				if strings.Contains(fc.A.String(), "."+fileB+".") {
					other = fc.B
				}
				if other.Val != nil {
					if v, ok := other.Val.(ssa.Value); ok && mentionsLenOfField(v, list, 0) {
						return true
					}
				}
				if termMentionsLenOf(other, list) && strings.Contains(other.String(), "."+fileA+".") {
					return true
				}
				if strings.Contains(other.String(), "."+fileA+".Operations."+list) {
					return true
				}
			}
		}
	}
	return false
}

func pathHasDeltaEq(ff *core.FnFacts, p []*ssa.BasicBlock) bool {
	for i := 0; i+1 < len(p); i++ {
		for _, fc := range ff.EdgeFacts(p[i], p[i+1]) {
			if fc.Kind != "cmp" || fc.Op != "==" {
				continue
			}
			var sum *core.Term
			if strings.Contains(fc.A.String(), ".Chunk.Deltas") {
				sum = fc.B
			} else if strings.Contains(fc.B.String(), ".Chunk.Deltas") {
				sum = fc.A
			}
			if sum == nil {
				continue
			}
			if v, ok := sum.Val.(ssa.Value); ok && mentionsLenOfField(v, "Create", 0) && mentionsLenOfField(v, "Recover", 0) && mentionsLenOfField(v, "Update", 0) {
				return true
			}
			// the counts may travel through a small struct: then the term names them
			if termMentionsLenOf(sum, "Create") && termMentionsLenOf(sum, "Recover") && termMentionsLenOf(sum, "Update") {
				return true
			}
		}
	}
	return false
}

// sliceRootsAll is sliceRoots (kept for readability at call sites).
func sliceRootsAll(v ssa.Value) []ssa.Value { return sliceRoots(v) }

// appendElemsInto returns the append calls in f whose result may flow into v.
func appendElemsInto(f *ssa.Function, v ssa.Value) []*ssa.Call {
	reach := map[ssa.Value]bool{}
	var rec func(x ssa.Value)
	rec = func(x ssa.Value) {
		if x == nil || reach[x] {
			return
		}
		reach[x] = true
		switch y := x.(type) {
		case *ssa.Phi:
			if rv := core.ResolvedPhi(y); rv != nil {
				rec(rv)
				return
			}
			for _, e := range y.Edges {
				rec(e)
			}
		case *ssa.Call:
			if isBuiltin(y, "append") {
				rec(y.Common().Args[0])
			}
		case *ssa.UnOp:
			// a list kept in a field of a local struct: every value stored into that field of that struct
			fa, isFA := y.X.(*ssa.FieldAddr)
			if y.Op != token.MUL || !isFA {
				return
			}
			base := stripResolved(fa.X)
			if _, isAl := base.(*ssa.Alloc); !isAl {
				return
			}
			for _, b := range f.Blocks {
				for _, ins := range b.Instrs {
					st, isSt := ins.(*ssa.Store)
					if !isSt {
						continue
					}
					sfa, isSFA := st.Addr.(*ssa.FieldAddr)
					if isSFA && sfa.Field == fa.Field && stripResolved(sfa.X) == base {
						rec(st.Val)
					}
				}
			}
		}
	}
	rec(v)
	var out []*ssa.Call
	for x := range reach {
		if c, ok := x.(*ssa.Call); ok && isBuiltin(c, "append") {
			out = append(out, c)
		}
	}
	return out
}

// chunkURIConditional: validateProvisionalIndexCASReferences succeeds either
// with an empty chunk list or after validateURI(chunks[0].ChunkFileURI).
func (r *Run) chunkURIConditional(P string) bool {
	if r.chunkCondDone {
		return r.chunkCondOK
	}
	r.chunkCondDone = true
	f := r.P.Func(pkgProvider, "OperationProvider.validateProvisionalIndexCASReferences")
	if f == nil || f.Blocks == nil {
		f = r.fn(P, pkgProvider, "OperationProvider.validateProvisionalIndexFile")
	}
	if f == nil {
		return false
	}
	r.chunkCondOK = r.requireEachSuccessPath(P+".uri.taint.chunk.conditional", "the first chunk URI must be validated whenever a chunk is referenced", f, core.Ctx{},
		[]string{"cmp(len($1.Chunks) <= 0)"},
		[]string{"ok(validateURI(_, $1.Chunks[0].ChunkFileURI))"})
	return r.chunkCondOK
}

// universalE6: module-wide form of the early-success rule (thorough tier):
// every error-only subject function with a loop.
func (r *Run) universalE6(P string) {
	n := 0
	for _, f := range r.P.SubjectFuncs() {
		if f.Parent() != nil || !errResultOnly(f) || len(allLoopHeads(f)) == 0 {
			continue
		}
		n++
		r.checkNoEarlySuccess(P+".universal.noearly."+core.FuncName(f), f, "a success return inside a loop of an error-returning function skips the remaining elements")
	}
	r.R.Floor(P+".universal.noearly.floor", "instance floor", n, 20, "error-only subject functions with loops (module-wide)")
}

// universalParamsLive: every field of protocol.Protocol has at least one
// non-message sink in subject code (thorough tier).
func (r *Run) universalParamsLive(P string, sinks map[string][]sink) {
	_, fields := r.protocolStruct()
	var names []string
	for _, n := range fields {
		names = append(names, n)
	}
	sort.Strings(names)
	for _, n := range names {
		live := 0
		for _, s := range sinks[n] {
			if s.Kind != "message" {
				live++
			}
		}
		r.R.Check(live > 0, P+".universal.param.live."+n, "E3 (universal): every protocol parameter governs something — it has a non-message sink in subject code", "Protocol."+n, "pkg/api/protocol/protocol.go",
			"a parameter that is never read cannot enforce its limit", fmt.Sprintf("%d sink(s)", live), "never read outside messages")
	}
}

// universalE11: error discipline (thorough tier) — in the given packages every
// call whose callee returns an error has that error consumed (tested, returned,
// wrapped or passed on); an error value without any use is dropped.
func (r *Run) universalE11(P string, rels ...string) {
	n := 0
	var dropped []string
	for _, f := range r.P.SubjectFuncs(rels...) {
		for _, b := range f.Blocks {
			for _, ins := range b.Instrs {
				c, ok := ins.(*ssa.Call)
				if !ok {
					continue
				}
				sig := c.Common().Signature()
				res := sig.Results()
				if res.Len() == 0 || res.At(res.Len()-1).Type().String() != "error" {
					continue
				}
				// writers documented never to fail
				if sc := c.Common().StaticCallee(); sc != nil && (strings.HasPrefix(sc.String(), "(*strings.Builder).") || strings.HasPrefix(sc.String(), "(*bytes.Buffer).") || strings.HasPrefix(sc.String(), "fmt.Fprint")) {
					continue
				}
				n++
				var ev ssa.Value
				if res.Len() == 1 {
					ev = c
				} else if refs := c.Referrers(); refs != nil {
					for _, rf := range *refs {
						if ex, ok := rf.(*ssa.Extract); ok && ex.Index == res.Len()-1 {
							ev = ex
						}
					}
				}
				used := false
				if ev != nil {
					if refs := ev.Referrers(); refs != nil {
						for _, rf := range *refs {
							if _, isDbg := rf.(*ssa.DebugRef); !isDbg {
								used = true
							}
						}
					}
				}
				if !used {
					key, _, _ := r.P.CalleeKey(c.Common())
					dropped = append(dropped, fmt.Sprintf("%s drops the error of %s at %s", core.FuncName(f), key, r.P.Pos(c.Pos())))
				}
			}
		}
	}
	r.R.SetCount("E11 error-returning call sites examined", n)
	r.R.Check(len(dropped) == 0 && n > 50, P+".universal.errors", "E11 (universal): no error returned by a callee is dropped in "+strings.Join(rels, ", "), "error discipline", "-",
		"a dropped validation / storage / decoding error turns a rejection into an acceptance", fmt.Sprintf("%d error-returning call sites, all consumed", n), strings.Join(dropped, "; "))
}

// validatingLoopInstances counts the rejecting loops of f plus, per call site,
// those of the same-package helpers it calls (depth-limited); holders are the
// functions that contain at least one.
func (r *Run) validatingLoopInstances(f *ssa.Function, depth int) (int, []*ssa.Function) {
	n := len(r.validatingLoops(f))
	var holders []*ssa.Function
	if n > 0 {
		holders = append(holders, f)
	}
	if depth <= 0 {
		return n, holders
	}
	seen := map[*ssa.Function]bool{}
	for _, b := range f.Blocks {
		for _, ins := range b.Instrs {
			c, ok := ins.(*ssa.Call)
			if !ok {
				continue
			}
			g := c.Common().StaticCallee()
			if g == nil || g == f || g.Pkg != f.Pkg || len(g.Blocks) == 0 || !r.P.IsSubject(g) || !errResultOnly(g) {
				continue
			}
			k, hs := r.validatingLoopInstances(g, depth-1)
			n += k
			for _, h := range hs {
				if !seen[h] {
					seen[h] = true
					holders = append(holders, h)
				}
			}
		}
	}
	return n, holders
}

// checkPresenceTable (C14, missing or superfluous references): the two
// reference validators are evaluated over every combination of "count is zero
// / positive" and "reference is empty / present" (E4-style abstract evaluation
// of their branch conditions) and must reject exactly the prescribed
// combinations. Whatever comes after the presence tests (URI length, per-entry
// validation) is outside the table: reaching it counts as "not rejected here".
func (r *Run) checkPresenceTable(P string) {
	type spec struct {
		fn     string
		counts []string // field names of the count lists
		uris   []string // field names of the references
		reject func(c map[string]int64, u map[string]int64) bool
	}
	specs := []spec{
		{"OperationProvider.validateCoreIndexFile", []string{"Create", "Recover", "Deactivate"}, []string{"ProvisionalIndexFileURI", "CoreProofFileURI"},
			func(c, u map[string]int64) bool {
				return (c["Create"]+c["Recover"] > 0 && u["ProvisionalIndexFileURI"] == 0) ||
					(c["Recover"]+c["Deactivate"] > 0 && u["CoreProofFileURI"] == 0) ||
					(c["Recover"]+c["Deactivate"] == 0 && u["CoreProofFileURI"] > 0)
			}},
		{"OperationProvider.validateProvisionalIndexFile", []string{"Update"}, []string{"ProvisionalProofFileURI"},
			func(c, u map[string]int64) bool {
				return (c["Update"] > 0 && u["ProvisionalProofFileURI"] == 0) || (c["Update"] == 0 && u["ProvisionalProofFileURI"] > 0)
			}},
	}
	for _, sp := range specs {
		f := r.fn(P, pkgProvider, sp.fn)
		if f == nil {
			continue
		}
		id := P + ".presence.table." + strings.TrimPrefix(sp.fn, "OperationProvider.")
		rule := "E4 table: over all combinations of zero/positive counts and empty/present references, the validator rejects exactly: entries that need a file whose reference is empty, and a proof reference without entries that need it"
		why := "a missing reference makes the reader drop or mis-assign operations; a superfluous one lets unreferenced content ride along with the batch"
		ff := r.E.Facts(f, core.Ctx{})
		fieldOf := func(v ssa.Value) string {
			// the last field name on the access path of v (through loads)
			t := ff.TB.Of(v)
			for t != nil {
				if t.Op == "field" {
					return t.Name
				}
				if len(t.Args) == 0 {
					return ""
				}
				t = t.Args[0]
			}
			return ""
		}
		ev := &scalarEval{fn: f}
		ev.num = func(v ssa.Value, env scalarEnv) (int64, bool) {
			if c, ok := v.(*ssa.Call); ok && isBuiltin(c, "len") {
				fl := fieldOf(c.Common().Args[0])
				if n, has := env.rank[fl]; has {
					return int64(n), true
				}
			}
			return 0, false
		}
		ev.name = func(v ssa.Value) (string, bool) {
			if isZeroConst(v) {
				return "0", true
			}
			fl := fieldOf(stripConv(v))
			switch fl {
			case "Operations":
				return "Operations", true
			}
			for _, u := range sp.uris {
				if fl == u {
					return u, true
				}
			}
			return "", false
		}
		good := true
		var det []string
		nEnv := 0
		var combos func(i int, cur map[string]int)
		names := append(append([]string{}, sp.counts...), sp.uris...)
		names = append(names, "Operations")
		combos = func(i int, cur map[string]int) {
			if i < len(names) {
				for v := 0; v <= 1; v++ {
					cur[names[i]] = v
					combos(i+1, cur)
				}
				return
			}
			env := scalarEnv{rank: map[string]int{"0": 0}}
			for k, v := range cur {
				env.rank[k] = v
			}
			// a nil operations object has no entries
			if cur["Operations"] == 0 {
				for _, c := range sp.counts {
					if cur[c] != 0 {
						return
					}
				}
			}
			nEnv++
			ret, _, whyStop := ev.walk(env)
			got := false
			switch {
			case ret != nil:
				if c, ok := ev.ret(ret, 0).(*ssa.Call); ok {
					if sc := c.Common().StaticCallee(); sc != nil && (sc.String() == "errors.New" || sc.String() == "fmt.Errorf" || strings.HasSuffix(sc.String(), "errors.New") || strings.HasSuffix(sc.String(), "errors.Errorf")) {
						got = true
					}
				}
				// a package-level sentinel (`var errX = errors.New(…)`) is an error too
				if u, ok := ev.ret(ret, 0).(*ssa.UnOp); ok && u.Op == token.MUL {
					if _, isG := u.X.(*ssa.Global); isG && u.Type().String() == "error" {
						got = true
					}
				}
			case strings.HasPrefix(whyStop, "unsupported condition"):
				// reached what follows the presence tests
			default:
				good = false
				det = append(det, "cannot evaluate: "+whyStop)
				return
			}
			c := map[string]int64{}
			u := map[string]int64{}
			for _, k := range sp.counts {
				c[k] = int64(cur[k])
			}
			for _, k := range sp.uris {
				u[k] = int64(cur[k])
			}
			if want := sp.reject(c, u); got != want && len(det) < 4 {
				good = false
				det = append(det, fmt.Sprintf("counts %v references %v: rejected=%v, prescribed %v", c, u, got, want))
			}
		}
		combos(0, map[string]int{})
		r.R.Count("E4 abstract environments evaluated", nEnv)
		r.R.Check(good && nEnv >= 4, id, rule, core.FuncName(f), r.where(f), why, fmt.Sprintf("%d combinations agree with the table", nEnv), strings.Join(det, "; "))
	}
}

// checkFetchEveryReference (C14/C13 reader): in getBatchFiles every file the
// core index references is fetched and installed before the counts are
// validated — the fetch is bypassed only across "reference is empty", and on a
// path that fetched the provisional files all three of them are installed.
func (r *Run) checkFetchEveryReference(P string) {
	f := r.fn(P, pkgProvider, "OperationProvider.getBatchFiles")
	if f == nil {
		return
	}
	ff := r.E.Facts(f, core.Ctx{})
	why := "a referenced file that is not fetched (or fetched and dropped) makes the reader return fewer operations than the anchor string announces, or dereference a missing file"
	vcalls := r.callsIn(f, "validateBatchFileCounts")
	if len(vcalls) != 1 {
		r.R.Unk(P+".fetch", "anchor", core.FuncName(f), r.where(f), why, fmt.Sprintf("%d calls of validateBatchFileCounts", len(vcalls)))
		return
	}
	vc := vcalls[0]
	for _, g := range []struct{ getter, uri string }{{"OperationProvider.getCoreProofFile", "CoreProofFileURI"}, {"OperationProvider.getProvisionalFiles", "ProvisionalIndexFileURI"}} {
		gcs := r.callsIn(f, g.getter)
		id := P + ".fetch." + g.uri
		if len(gcs) != 1 {
			r.R.Bad(id, "E8: the referenced file is fetched", core.FuncName(f), r.where(f), why, fmt.Sprintf("%d calls of %s", len(gcs), g.getter))
			continue
		}
		gc := gcs[0]
		bypass := reachesAvoiding(ff, f.Blocks[0].Instrs[0], vc, func(a, b *ssa.BasicBlock) bool {
			if b == gc.Block() {
				return true
			}
			return r.factsImplyAny(ff.EdgeFacts(a, b), []string{"cmp($1." + g.uri + ` == "")`}, 1)
		})
		r.R.Check(!bypass, id, "E8: between entry and the count validation, fetching the file named by "+g.uri+" is bypassed only across "+g.uri+" = \"\"", core.FuncName(f), r.P.Pos(gc.Pos()), why,
			"bypass only when the reference is empty", "the fetch can be bypassed although the reference is present")
	}
	// installation of the fetched provisional files
	paths, complete := enumPaths(ff, 2000)
	okInst := complete
	nThrough := 0
	pcs := r.callsIn(f, "OperationProvider.getProvisionalFiles")
	for _, p := range paths {
		through, reachesV := false, false
		for _, b := range p {
			if len(pcs) == 1 && b == pcs[0].Block() {
				through = true
			}
			if b == vc.Block() {
				reachesV = true
			}
		}
		if !through || !reachesV {
			continue
		}
		nThrough++
		got := map[string]bool{}
		for _, b := range p {
			for _, ins := range b.Instrs {
				st, ok := ins.(*ssa.Store)
				if !ok {
					continue
				}
				fa, ok := st.Addr.(*ssa.FieldAddr)
				if !ok {
					continue
				}
				vt := ff.TB.Of(st.Val).String()
				if strings.Contains(vt, "getProvisionalFiles(") && strings.HasSuffix(vt, "."+fieldName(fa)) {
					got[fieldName(fa)] = true
				}
			}
		}
		for _, want := range []string{"ProvisionalIndex", "ProvisionalProof", "Chunk"} {
			if !got[want] {
				okInst = false
			}
		}
	}
	r.R.Check(okInst && nThrough > 0, P+".fetch.install", "E5 field copies on paths: after the provisional files were fetched, ProvisionalIndex, ProvisionalProof and Chunk are each installed from the like-named fetched field before the counts are validated", core.FuncName(f), r.where(f), why,
		fmt.Sprintf("%d paths through the fetch install all three", nThrough), "a path through the fetch does not install all of ProvisionalIndex, ProvisionalProof, Chunk")
}

// termMentionsLenOf: the term contains len(<something>.<list>) — directly, under "or zero", or as an operand of a
// merged value.
func termMentionsLenOf(t *core.Term, list string) bool {
	found := false
	core.StripOrZero(t).Walk(func(x *core.Term) {
		if found {
			return
		}
		if x.Op == "len" && len(x.Args) == 1 && strings.HasSuffix(x.Args[0].String(), "."+list) {
			found = true
		}
		if x.Op == "phi" {
			if v, ok := x.Val.(ssa.Value); ok && mentionsLenOfField(v, list, 0) {
				found = true
			}
		}
	})
	return found
}

// stripResolved follows phis that are pinned to one operand wherever they are used.
func stripResolved(v ssa.Value) ssa.Value {
	for i := 0; i < 8; i++ {
		p, ok := v.(*ssa.Phi)
		if !ok {
			return v
		}
		rv := core.ResolvedPhi(p)
		if rv == nil {
			return v
		}
		v = rv
	}
	return v
}

// checkDecompress: the reader's side of the compression round trip (shared by C14 and C13).
func (r *Run) checkDecompress(P string) {
	// the decompressed-size limit is only as good as the decompressor: what it returns is the whole decompressed
	// stream (a reader capped inside Decompress would hand back a silently truncated prefix that passes the limit)
	if dz := r.fn(P, pkgCompression+"/gzip", "Algorithm.Decompress"); dz != nil {
		r.requireSucc(P+".decompress.whole", "if this fails, a file that decompresses to more than limit × factor is cut to an acceptable prefix inside the decompressor and then accepted", dz, core.Ctx{}, "",
			"cmp(<result> == io.ReadAll(compress/gzip.NewReader(_)))")
		r.requireSucc(P+".decompress.errors", "if this fails, a stream that gzip reports as corrupt (bad header, bad checksum, truncated) is handed on as if it had been read completely", dz, core.Ctx{}, "",
			"ok(compress/gzip.NewReader(_))", "ok(io.ReadAll(compress/gzip.NewReader(_)))")
	}
	if rd := r.fn(P, pkgCompression, "Registry.Decompress"); rd != nil {
		r.requireSucc(P+".decompress.registry", "the registry must hand back what an algorithm that accepts the requested name produced, and only when that algorithm reported no error", rd, core.Ctx{}, "",
			"true(Algorithm.Accept(?a, $1))", "ok(Algorithm.Decompress(?a, $2))", "cmp(<result> == Algorithm.Decompress(?a, $2))")
	}
}

// checkCountsAnchor: GetTxnOperations returns as many operations as the anchor string announces (shared by C14, C13, C15).
func (r *Run) checkCountsAnchor(P string) {
	entry := r.fn(P, pkgProvider, "OperationProvider.GetTxnOperations")
	if entry == nil {
		return
	}
	r.requireSucc(P+".counts.anchor", "the number of operations returned must equal the anchor string's count: a transaction whose files do not match its anchor string is malformed and must contribute nothing", entry, core.Ctx{}, "",
		"ok(ParseAnchorData($1.AnchorString))", "cmp(len(<result>) == ParseAnchorData($1.AnchorString).NumberOfOperations)")
}
