package props

import (
	"fmt"
	"sort"
	"strings"

	"golang.org/x/tools/go/ssa"

	"sidecheck/core"
)

func init() {
	register(&Checker{
		ID: "C03",
		Explanation: "Structural necessary conditions of C03, computed from all entry→return paths of the four loop-free applier functions and of the processor's chain loop: " +
			"(effect) for every operation type and every check (parse, signed data, delta hash, signature, delta validation, anchoring window, patch application, preconditions) the path on which that check fails ends in exactly the exit the statement prescribes — error (ignored), advance-only, empty document with/without update commitment, or terminal — and the all-pass path yields the full effect; unknown exits fail; " +
			"(prov) every other field of each returned state has the prescribed provenance (previous state / anchored operation / signed data); " +
			"(next.agree) Parser.GetCommitment returns per type the same access path the applier stores as the chain's next commitment; " +
			"(full.then.update) Resolve applies recover/deactivate first on the recovery chain and then only updates selected with the coordinates of the resulting state, on the update chain; splitOperations routes each type to its list; " +
			"(progress) the chain loop records as consumed exactly the commitment it handed to applyFirstValidOperation, stops on an empty next commitment or when no candidate applies. " +
			"Not decided: conformance on composite histories against an executable reference model (a different technique); what ApplyPatches computes.",
		Assumptions: []string{"ResolutionModel literals are the only writers of the returned state (checked: stores to the returned allocation only)"},
		Run:         runC03,
	})
}

// provenance table: type -> field -> expected term pattern (matched on the
// last store to the field on every state-returning path).
var provTable = map[string]map[string]string{
	"create": {
		"CreatedTime":                    "$1.TransactionTime",
		"LastOperationTransactionTime":   "$1.TransactionTime",
		"LastOperationTransactionNumber": "$1.TransactionNumber",
		"LastOperationProtocolVersion":   "$1.ProtocolVersion",
		"VersionID":                      "$1.CanonicalReference",
		"CanonicalReference":             "$1.CanonicalReference",
		"EquivalentReferences":           "$1.EquivalentReferences",
		"AnchorOrigin":                   "ParseCreateOperation(_, $1.OperationRequest, true).SuffixData.AnchorOrigin",
		"PublishedOperations":            "$2.PublishedOperations",
		"UnpublishedOperations":          "$2.UnpublishedOperations",
	},
	"update": {
		"CreatedTime":                    "$2.CreatedTime",
		"UpdatedTime":                    "$1.TransactionTime",
		"LastOperationTransactionTime":   "$1.TransactionTime",
		"LastOperationTransactionNumber": "$1.TransactionNumber",
		"LastOperationProtocolVersion":   "$1.ProtocolVersion",
		"VersionID":                      "$1.CanonicalReference",
		"CanonicalReference":             "$2.CanonicalReference",
		"EquivalentReferences":           "$2.EquivalentReferences",
		"AnchorOrigin":                   "$2.AnchorOrigin",
		"PublishedOperations":            "$2.PublishedOperations",
		"UnpublishedOperations":          "$2.UnpublishedOperations",
	},
	"recover": {
		"CreatedTime":                    "$2.CreatedTime",
		"UpdatedTime":                    "$1.TransactionTime",
		"LastOperationTransactionTime":   "$1.TransactionTime",
		"LastOperationTransactionNumber": "$1.TransactionNumber",
		"LastOperationProtocolVersion":   "$1.ProtocolVersion",
		"VersionID":                      "$1.CanonicalReference",
		"CanonicalReference":             "$1.CanonicalReference",
		"EquivalentReferences":           "$1.EquivalentReferences",
		"AnchorOrigin":                   "ParseSignedDataForRecover(_, ParseRecoverOperation(_, $1.OperationRequest, true).SignedData).AnchorOrigin",
		"PublishedOperations":            "$2.PublishedOperations",
		"UnpublishedOperations":          "$2.UnpublishedOperations",
	},
	"deactivate": {
		"CreatedTime":                    "$2.CreatedTime",
		"UpdatedTime":                    "$1.TransactionTime",
		"LastOperationTransactionTime":   "$1.TransactionTime",
		"LastOperationTransactionNumber": "$1.TransactionNumber",
		"LastOperationProtocolVersion":   "$1.ProtocolVersion",
		"VersionID":                      "$1.CanonicalReference",
		"CanonicalReference":             "$2.CanonicalReference",
		"EquivalentReferences":           "$2.EquivalentReferences",
		"AnchorOrigin":                   "$2.AnchorOrigin",
		"PublishedOperations":            "$2.PublishedOperations",
		"UnpublishedOperations":          "$2.UnpublishedOperations",
	},
}

func runC03(r *Run) {
	const P = "C03"
	r.checkEffectTable(P, false)
	r.checkProvenance(P, nil)
	r.checkNextAgree(P)
	r.checkFullThenUpdate(P)
	r.checkProgress(P)
	r.checkResolveFlow(P)
	// the candidates of one commitment are tried in order until one applies (shared with C02): an authorised operation
	// is not lost behind a rejected one that reveals the same commitment
	r.checkFirstApplicable(P, "OperationProcessor.applyFirstValidOperation")
	r.checkFirstApplicable(P, "OperationProcessor.applyFirstValidCreateOperation")
	// "anchored outside its window": the window test is the inclusive one of the statement (shared with C05)
	r.checkApplierWindow(P, r.applierFuncs(P+".window"), map[*ssa.Function]bool{})
	// "leaves the document unchanged" when patches fail: the composer works on a copy, always
	r.checkComposerPure(P)
	// the earliest anchored candidate consumes a commitment: the chronological order is lexicographic (time, number)
	r.checkChrono(P, "sortOperations@processor", r.fn(P, pkgProcessor, "sortOperations"))
}

// checkProvenance checks provTable; only restricts to the given fields when non-nil.
func (r *Run) checkProvenance(P string, only map[string]bool) {
	appl := r.applierFuncs(P + ".prov")
	cells := 0
	for _, role := range opRoles {
		f := appl[role.Type]
		if f == nil {
			continue
		}
		ff := r.E.Facts(f, core.Ctx{})
		paths, complete := enumPaths(ff, 4000)
		if !complete {
			r.R.Unk(P+".prov."+role.Type, "E5 provenance", core.FuncName(f), r.where(f), "-", "too many paths")
			continue
		}
		ei := f.Signature.Results().Len() - 1
		var fields []string
		for fld := range provTable[role.Type] {
			fields = append(fields, fld)
		}
		sort.Strings(fields)
		for _, fld := range fields {
			if only != nil && !only[fld] {
				continue
			}
			pat := provTable[role.Type][fld]
			ok := true
			var det []string
			n := 0
			for _, path := range paths {
				ret := path[len(path)-1].Instrs[len(path[len(path)-1].Instrs)-1].(*ssa.Return)
				if !isNilConstV(core.RetOp(ret, ei)) {
					continue
				}
				n++
				t := r.effectiveFields(ff, core.RetOp(ret, 0), path)[fld]
				if t == nil {
					ok = false
					det = append(det, "field not assigned on the path returning at "+r.P.Pos(ret.Pos()))
					continue
				}
				if !core.MatchTerm(pat, t, core.Bind{}) {
					ok = false
					det = append(det, fmt.Sprintf("%s at %s", t, r.P.Pos(ret.Pos())))
				}
			}
			cells++
			r.R.Check(ok && n > 0, fmt.Sprintf("%s.prov.%s.%s", P, role.Type, fld),
				"E5 provenance: on every state-returning path the field holds "+pat, core.FuncName(f)+" ResolutionModel."+fld, r.where(f),
				"if the field comes from elsewhere, the resolved state (or the coordinates later filters rely on) differs from the state machine's",
				fmt.Sprintf("%d state-returning path(s): %s", n, pat), "expected "+pat+", found "+strings.Join(dedupe(det), "; "))
		}
	}
	if only == nil {
		r.R.Floor(P+".prov.floor", "instance floor", cells, 43, "provenance cells")
	}
}

// checkNextAgree: GetCommitment's per-type result is the applier's next-commitment path.
func (r *Run) checkNextAgree(P string) {
	f := r.fn(P, pkgParser, "Parser.GetCommitment")
	if f == nil {
		return
	}
	ff := r.E.Facts(f, core.Ctx{})
	want := map[string]string{
		"update":     "ParseOperation(_, _, $1, true).Delta.UpdateCommitment",
		"recover":    "ParseSignedDataForRecover(_, ParseOperation(_, _, $1, true).SignedData).RecoveryCommitment",
		"deactivate": `""`,
	}
	got := map[string]string{}
	for _, ri := range ff.Returns() {
		if ri.Class != core.RetSuccess {
			continue
		}
		typ := ""
		for _, fc := range ri.Facts {
			if fc.Kind == "cmp" && fc.Op == "==" && fc.B.Op == "const" && core.MatchTerm("ParseOperation(_, _, $1, true).Type", fc.A, core.Bind{}) {
				typ = strings.Trim(fc.B.Name, `"`)
			}
		}
		t := ff.TB.Of(core.RetOp(ri.Ret, 0))
		ok := typ != "" && core.MatchTerm(want[typ], t, core.Bind{})
		got[typ] = t.String()
		r.R.Check(ok, P+".next.agree."+typ, "E1 sibling agreement: Parser.GetCommitment returns, for this type, the access path the applier stores as next commitment ("+want[typ]+")",
			core.FuncName(f)+" case "+typ, r.P.Pos(ri.Ret.Pos()),
			"if the processor's cycle test and the applier's effect talk about different values, a commitment can be consumed twice or a valid operation skipped",
			t.String(), fmt.Sprintf("type %q returns %s", typ, t))
	}
	for typ := range want {
		if _, ok := got[typ]; !ok {
			r.R.Bad(P+".next.agree."+typ, "E7: GetCommitment has a success return for this type", core.FuncName(f), r.where(f), "an operation type without next-commitment extraction is never applied", "no success return under op.Type == "+typ)
		}
	}
	if _, ok := got["create"]; ok {
		r.R.Bad(P+".next.agree.create", "E7: GetCommitment must not succeed for create", core.FuncName(f), r.where(f), "create has no consumed commitment", "success return for create")
	}
}

// checkFullThenUpdate: Resolve's two-phase application.
func (r *Run) checkFullThenUpdate(P string) {
	res := r.fn(P, pkgProcessor, "OperationProcessor.Resolve")
	sp := r.fn(P, pkgProcessor, "splitOperations")
	if res == nil || sp == nil {
		return
	}
	// splitOperations routing
	sff := r.E.Facts(sp, core.Ctx{})
	// per loop-iteration path (so that `a || b` conditions and switch/if-chain
	// forms are the same thing): the type the path has established and the
	// result list its appends feed.
	route := map[string]int{}
	feeds := func(c *ssa.Call) int {
		idx := -1
		for _, rb := range sp.Blocks {
			if ret, ok := rb.Instrs[len(rb.Instrs)-1].(*ssa.Return); ok {
				for i, rv := range ret.Results {
					for _, l := range phiLeaves(rv) {
						if l == ssa.Value(c) {
							idx = i
						}
					}
				}
			}
		}
		return idx
	}
	routeConflict := ""
	for _, head := range allLoopHeads(sp) {
		for _, ip := range loopIterationPaths(sff, head, 4000) {
			typ := ""
			for _, fc := range rawPathFacts(sff, ip.Blocks) {
				if fc.Kind == "cmp" && fc.Op == "==" && fc.B.Op == "const" && fc.A.Op == "field" && fc.A.Name == "Type" {
					typ = strings.Trim(fc.B.Name, `"`)
				}
			}
			var idxs []int
			for _, b := range ip.Blocks[:len(ip.Blocks)-1] {
				for _, ins := range b.Instrs {
					if c, ok := ins.(*ssa.Call); ok && isBuiltin(c, "append") {
						idxs = append(idxs, feeds(c))
					}
				}
			}
			switch {
			case typ == "" && len(idxs) > 0:
				routeConflict = "an operation of no established type is appended"
			case typ != "" && len(idxs) == 1:
				if old, has := route[typ]; has && old != idxs[0] {
					routeConflict = typ + " is routed to two lists"
				}
				route[typ] = idxs[0]
			case typ != "" && len(idxs) > 1:
				routeConflict = typ + " is appended more than once"
			}
		}
	}
	wantRoute := map[string]int{"create": 0, "update": 1, "recover": 2, "deactivate": 2}
	okRoute := len(route) == 4 && routeConflict == ""
	for k, v := range wantRoute {
		if route[k] != v {
			okRoute = false
		}
	}
	// the partition keeps the (sorted) order of its input: every append into a result list happens inside the
	// single loop and appends the current element — no list is built aside and concatenated afterwards
	okStable := true
	detStable := ""
	for _, b := range sp.Blocks {
		for _, ins := range b.Instrs {
			c, ok := ins.(*ssa.Call)
			if !ok || !isBuiltin(c, "append") {
				continue
			}
			if enclosingLoopHead(sp, b) == nil {
				okStable = false
				detStable = "a list is appended to outside the loop at " + r.P.Pos(c.Pos()) + " (lists concatenated after the partition)"
				continue
			}
			elems := variadicElems(c.Common().Args[1])
			if len(elems) != 1 || !core.MatchTerm("$0[_]", sff.TB.Of(elems[0]), core.Bind{}) {
				okStable = false
				detStable = "an append at " + r.P.Pos(c.Pos()) + " does not append the current element"
			}
		}
	}
	r.R.Check(okStable, P+".split.stable", "E6: splitOperations is an order-preserving partition — each result list grows only by appending the current element inside the loop", core.FuncName(sp), r.where(sp),
		"if one group is collected aside and concatenated later (e.g. deactivates after recovers), two operations competing for one commitment are no longer tried in anchoring order", "stable partition", detStable)
	r.R.Check(okRoute, P+".split.route", "E7: splitOperations routes create→createOps, update→updateOps, recover/deactivate→fullOps", core.FuncName(sp), r.where(sp),
		"a type routed to the wrong list is applied in the wrong phase or never", fmt.Sprint(route), fmt.Sprintf("routing %v %s, expected %v", route, routeConflict, wantRoute))

	rff := r.E.Facts(res, core.Ctx{})
	calls := r.callsIn(res, "OperationProcessor.applyOperations")
	r.R.Floor(P+".full.then.update.floor", "instance floor", len(calls), 2, "applyOperations calls in Resolve")
	var fullCall, updCall *ssa.Call
	nSel := map[string]int{}
	for _, c := range calls {
		fnArg := c.Common().Args[3]
		cf := closureFn(fnArg)
		which := ""
		if cf != nil {
			s := r.succ(cf, core.Ctx{})
			if core.HasFact(s.Facts, "cmp(<result> == $0.RecoveryCommitment)") {
				which = "recovery"
			} else if core.HasFact(s.Facts, "cmp(<result> == $0.UpdateCommitment)") {
				which = "update"
			}
		}
		opsT := rff.TB.Of(c.Common().Args[1])
		nSel[which]++
		switch which {
		case "recovery":
			fullCall = c
			ok := core.MatchTerm("splitOperations(_)#2", opsT, core.Bind{})
			r.R.Check(ok, P+".full.then.update.full", "E13: the recovery chain is applied to splitOperations' full (recover/deactivate) list", core.FuncName(res), r.P.Pos(c.Pos()),
				"recover/deactivate must be chained on the recovery commitment", opsT.String(), "operations passed with the recovery-commitment selector: "+opsT.String())
		case "update":
			updCall = c
			b := core.Bind{}
			ok := core.MatchTerm("getOpsWithTxnGreaterThanOrUnpublished(splitOperations(_)#1, ?t, ?n)", opsT, b)
			det := opsT.String()
			if ok {
				// ?t/?n must be fields of the state that results from the full phase
				tt, nn := b["t"], b["n"]
				ok = tt.Op == "field" && tt.Name == "LastOperationTransactionTime" && nn.Op == "field" && nn.Name == "LastOperationTransactionNumber" && tt.Args[0].String() == nn.Args[0].String()
				if ok && fullCall != nil {
					// the state must be (a phi that includes) the result of the full phase
					stateV := c.Common().Args[2]
					inc := false
					for _, l := range phiLeaves(stateV) {
						if l == ssa.Value(fullCall) {
							inc = true
						}
					}
					if !inc {
						ok = false
						det = "the update phase does not start from the state produced by the full phase"
					}
					if tt.Args[0].Val != stateV {
						if tv, isV := tt.Args[0].Val.(ssa.Value); !isV || tv != stateV {
							ok = false
							det = "the coordinates used to select updates are not those of the state the update phase starts from: " + tt.String()
						}
					}
				}
			}
			r.R.Check(ok, P+".full.then.update.update", "E13: updates are selected with (LastOperationTransactionTime, LastOperationTransactionNumber) of the state resulting from the full phase and chained on the update commitment", core.FuncName(res), r.P.Pos(c.Pos()),
				"if updates are selected against older coordinates, an update anchored before the last recover is re-applied on top of it", det, det)
		default:
			r.R.Bad(P+".full.then.update.selector", "E13: commitment selector is RecoveryCommitment or UpdateCommitment of the state", core.FuncName(res), r.P.Pos(c.Pos()), "-", "unrecognised commitment selector "+rff.TB.Of(fnArg).String())
		}
	}
	// the set of consumed commitments lives inside one applyOperations call: a chain applied in several calls
	// (published first, then unpublished, say) forgets what the earlier call consumed
	r.R.Check(nSel["recovery"] == 1 && nSel["update"] == 1, P+".full.then.update.once", "E13: each commitment chain (recovery, update) is applied by exactly one applyOperations call", core.FuncName(res), r.where(res),
		"a chain split over several calls starts each call with an empty consumed-commitment set, so a later operation can return to a commitment the earlier call consumed", "one call per chain", fmt.Sprintf("recovery chain: %d call(s), update chain: %d call(s)", nSel["recovery"], nSel["update"]))
	if fullCall == nil || updCall == nil {
		r.R.Bad(P+".full.then.update.phases", "E8: both phases present", core.FuncName(res), r.where(res), "-", "Resolve does not apply both a recovery-chain and an update-chain phase")
	}
}

// checkProgress: the chain loop consumes exactly the commitment it tried.
func (r *Run) checkProgress(P string) {
	ao := r.fn(P, pkgProcessor, "OperationProcessor.applyOperations")
	if ao == nil {
		return
	}
	ff := r.E.Facts(ao, core.Ctx{})
	calls := r.callsIn(ao, "OperationProcessor.applyFirstValidOperation")
	rule := "E8: the map update marking a commitment consumed uses the very value passed as current commitment to applyFirstValidOperation, into the very map passed as consumed set, under newState != nil"
	why := "if another commitment is recorded (e.g. the next one), the chain's first commitment is never marked consumed and a cycle back to it is applied: a commitment is consumed twice"
	for _, c := range calls {
		args := c.Common().Args
		if len(args) < 5 {
			r.R.Unk(P+".progress.consume", rule, core.FuncName(ao), r.P.Pos(c.Pos()), why, "applyFirstValidOperation is no longer called with (operations, state, current commitment, consumed set): the rule has to be re-pointed")
			continue
		}
		cur, consumed := args[3], args[4]
		n := 0
		ok := true
		var det []string
		for _, b := range ao.Blocks {
			for _, ins := range b.Instrs {
				mu, isMU := ins.(*ssa.MapUpdate)
				if !isMU || mu.Map != consumed {
					continue
				}
				n++
				if mu.Key != cur {
					ok = false
					det = append(det, "consumed key is "+ff.TB.Of(mu.Key).String()+" but the commitment tried is "+ff.TB.Of(cur).String())
				}
				at := ff.At(mu)
				if !core.HasFact(at, "cmp(applyFirstValidOperation(...) != nil)") {
					ok = false
					det = append(det, "commitment recorded as consumed without a state having been produced")
				}
			}
		}
		if n != 1 {
			ok = false
			det = append(det, fmt.Sprintf("%d updates of the consumed set", n))
		}
		r.R.Check(ok, P+".progress.consume", rule, core.FuncName(ao), r.P.Pos(c.Pos()), why, "consumed[c] = true for the c that was tried, after a state was produced", strings.Join(det, "; "))
		// stop conditions: loop exits when newState == nil; returns when next commitment is ""
		okStop := false
		for _, ri := range ff.Returns() {
			if core.HasFact(ri.Facts, `cmp(_ == "")`) {
				okStop = true
			}
		}
		r.R.Check(okStop, P+".progress.stop", "E8: the loop returns when the next commitment is empty", core.FuncName(ao), r.where(ao),
			"an empty commitment (deactivated, or bad-delta create/recover) must end the chain", "return under next commitment == \"\"", "no return guarded by an empty next commitment")
	}
	r.R.Floor(P+".progress.floor", "instance floor", len(calls), 1, "applyFirstValidOperation call in the chain loop")
}

// checkResolveFlow: the three phases of Resolve are chained through the state
// (create → full → update → result), a phase is skipped only when its operation
// list is empty, and the chain loop of applyOperations advances state and
// commitment from the state it just produced.
func (r *Run) checkResolveFlow(P string) {
	res := r.fn(P, pkgProcessor, "OperationProcessor.Resolve")
	ao := r.fn(P, pkgProcessor, "OperationProcessor.applyOperations")
	if res == nil || ao == nil {
		return
	}
	ff := r.E.Facts(res, core.Ctx{})
	why := "a phase whose result is dropped, that starts from a stale state, or that is skipped although it has operations, leaves the resolved state behind the anchored history"
	// --- phases
	var createCall, fullCall, updCall *ssa.Call
	for _, c := range r.callsIn(res, "OperationProcessor.applyFirstValidCreateOperation") {
		createCall = c
	}
	for _, c := range r.callsIn(res, "OperationProcessor.applyOperations") {
		if cf := closureFn(c.Common().Args[3]); cf != nil {
			s := r.succ(cf, core.Ctx{})
			switch {
			case core.HasFact(s.Facts, "cmp(<result> == $0.RecoveryCommitment)"):
				fullCall = c
			case core.HasFact(s.Facts, "cmp(<result> == $0.UpdateCommitment)"):
				updCall = c
			}
		}
	}
	if createCall == nil || fullCall == nil || updCall == nil {
		r.R.Unk(P+".flow.phases", "anchor", core.FuncName(res), r.where(res), why, "create / full / update phase calls not identified")
		return
	}
	leavesOf := func(v ssa.Value) map[ssa.Value]bool {
		out := map[ssa.Value]bool{}
		for _, l := range phiLeaves(v) {
			out[l] = true
		}
		return out
	}
	only := func(m map[ssa.Value]bool, allowed ...ssa.Value) (bool, string) {
		for l := range m {
			ok := false
			for _, a := range allowed {
				if l == a {
					ok = true
				}
			}
			if !ok {
				return false, ff.TB.Of(l).String()
			}
		}
		return true, ""
	}
	fullState := leavesOf(fullCall.Common().Args[2])
	ok1, bad1 := only(fullState, createCall)
	r.R.Check(ok1 && fullState[createCall], P+".flow.state.full", "E13 threading: the recover/deactivate phase starts from the state produced by the create phase", core.FuncName(res), r.P.Pos(fullCall.Pos()), why,
		"state = create phase result", "the full phase starts from "+bad1)
	updState := leavesOf(updCall.Common().Args[2])
	ok2, bad2 := only(updState, createCall, fullCall)
	r.R.Check(ok2 && updState[createCall] && updState[fullCall], P+".flow.state.update", "E13 threading: the update phase starts from the state produced by the full phase, or by the create phase when there are no full operations", core.FuncName(res), r.P.Pos(updCall.Pos()), why,
		"state = φ(create result, full result)", "the update phase starts from "+bad2+fmt.Sprintf(" (create result used: %v, full result used: %v)", updState[createCall], updState[fullCall]))
	var finalRet *ssa.Return
	okRet := true
	badRet := ""
	sawUpd := false
	for _, ri := range ff.Returns() {
		if ri.Class != core.RetSuccess {
			continue
		}
		ls := leavesOf(core.RetOp(ri.Ret, 0))
		if o, b := only(ls, createCall, fullCall, updCall); !o {
			okRet = false
			badRet = b
		}
		if ls[updCall] {
			sawUpd = true
			finalRet = ri.Ret
		}
	}
	r.R.Check(okRet && sawUpd, P+".flow.state.result", "E13 threading: Resolve returns the state produced by its last executed phase (the update phase's result on the final return)", core.FuncName(res), r.where(res), why,
		"returned state ∈ {create, full, update results}, final return carries the update result", "returned state derives from "+badRet+fmt.Sprintf(" (update result returned: %v)", sawUpd))
	// --- a phase is skipped only when it has nothing to apply
	inBlock := func(c *ssa.Call) func(a, b *ssa.BasicBlock) bool {
		return func(a, b *ssa.BasicBlock) bool { return b == c.Block() }
	}
	filterCalls := r.callsIn(res, "getOpsWithTxnGreaterThanOrUnpublished")
	if len(filterCalls) == 1 && finalRet != nil {
		fc := filterCalls[0]
		emptyFull := "cmp(len(splitOperations(_)#2) == 0)"
		skipFull := reachesAvoiding(ff, createCall, fc, func(a, b *ssa.BasicBlock) bool {
			return inBlock(fullCall)(a, b) || r.factsImplyAny(ff.EdgeFacts(a, b), []string{emptyFull}, 1)
		})
		r.R.Check(!skipFull, P+".flow.guard.full", "E8: between the create phase and the update filter, the recover/deactivate phase is bypassed only across len(full operations) = 0", core.FuncName(res), r.P.Pos(fullCall.Pos()), why,
			"bypass only when empty", "the full phase can be bypassed although there are full operations")
		emptyUpd := "cmp(len(getOpsWithTxnGreaterThanOrUnpublished(...)) == 0)"
		skipUpd := reachesAvoiding(ff, fc, finalRet, func(a, b *ssa.BasicBlock) bool {
			return inBlock(updCall)(a, b) || r.factsImplyAny(ff.EdgeFacts(a, b), []string{emptyUpd}, 1)
		})
		r.R.Check(!skipUpd, P+".flow.guard.update", "E8: between the update filter and the final return, the update phase is bypassed only across len(filtered updates) = 0", core.FuncName(res), r.P.Pos(updCall.Pos()), why,
			"bypass only when empty", "the update phase can be bypassed although there are updates to apply")
	} else {
		r.R.Unk(P+".flow.guard", "anchor", core.FuncName(res), r.where(res), why, fmt.Sprintf("%d update-filter calls, final return found: %v", len(filterCalls), finalRet != nil))
	}
	// --- indexing by revealed commitment skips a bad operation, not the rest
	if hm := r.fn(P, pkgProcessor, "OperationProcessor.createOperationHashMap"); hm != nil {
		okIso, detIso := r.loopBodyIsolated(hm)
		r.R.Check(okIso, P+".flow.index.isolation", "E8 loop isolation: while operations are indexed by the commitment their revealed key hashes to, an operation that cannot be indexed is skipped and the loop goes on", core.FuncName(hm), r.where(hm),
			"leaving the loop at the first unparsable operation hides every later operation of the DID from resolution", "no exit from the loop body", detIso)
	}
	// --- chain loop of applyOperations
	af := r.E.Facts(ao, core.Ctx{})
	for _, c := range r.callsIn(ao, "OperationProcessor.applyFirstValidOperation") {
		args := c.Common().Args // recv, ops, state, current commitment, consumed
		st := map[ssa.Value]bool{}
		for _, l := range phiLeaves(args[2]) {
			st[l] = true
		}
		okState := len(st) == 2 && st[ssa.Value(ao.Params[2])] && st[ssa.Value(c)]
		r.R.Check(okState, P+".flow.loop.state", "E13 threading: each round of the chain starts from φ(initial state, state produced by the previous round)", core.FuncName(ao), r.P.Pos(c.Pos()),
			"if the produced state is not carried into the next round, only the first operation of a chain takes effect", "state = φ(rm, newState)", "the loop's state argument is "+af.TB.Of(args[2]).String())
		okC, sawNew := true, false
		var cKeys []ssa.Value
		for _, l := range phiLeaves(args[3]) {
			cKeys = append(cKeys, l)
			cc, isCall := l.(*ssa.Call)
			if !isCall || len(cc.Common().Args) != 1 || cc.Common().Value != ssa.Value(ao.Params[3]) {
				okC = false
				continue
			}
			for _, sl := range phiLeaves(cc.Common().Args[0]) {
				switch sl {
				case ssa.Value(c):
					sawNew = true
				case ssa.Value(ao.Params[2]):
				default:
					okC = false
				}
			}
		}
		r.R.Check(okC && sawNew, P+".flow.loop.commitment", "E13 threading: the commitment of the next round is commitmentFnc(state produced by this round)", core.FuncName(ao), r.P.Pos(c.Pos()),
			"a commitment that is not recomputed from the new state makes the chain stop after one operation or retry the consumed commitment", "c = φ(commitmentFnc(rm), commitmentFnc(newState))", "the commitment argument is "+short(af.TB.Of(args[3]).String(), 160))
		// every value the commitment can take is looked up
		looked := map[ssa.Value]bool{}
		for _, ov := range phiLeaves(args[1]) {
			if ex, isEx := ov.(*ssa.Extract); isEx {
				if lk, isLk := ex.Tuple.(*ssa.Lookup); isLk {
					looked[lk.Index] = true
					for _, kl := range phiLeaves(lk.Index) {
						looked[kl] = true
					}
				}
			}
		}
		okLk := true
		for _, k := range cKeys {
			if !looked[k] && !looked[args[3]] {
				okLk = false
			}
		}
		r.R.Check(okLk, P+".flow.loop.lookup", "E13: the candidates of every round are looked up under that round's commitment (no stale candidate list)", core.FuncName(ao), r.P.Pos(c.Pos()),
			"a candidate list that is not refreshed applies the operations of the previous commitment again", "one lookup per commitment value", "a commitment value is never used as lookup key")
		// no candidate applied => the loop is left
		head := loopHead(ao)
		okBreak := head != nil
		for _, b := range ao.Blocks {
			for _, s := range b.Succs {
				for _, fc := range af.EdgeFacts(b, s) {
					if fc.Kind == "cmp" && fc.Op == "==" && fc.B.Op == "const" && fc.B.Name == "nil" && fc.A.Val == ssa.Value(c) {
						if head != nil && edgeReaches(af, b, s, head) {
							okBreak = false
						}
					}
				}
			}
		}
		r.R.Check(okBreak, P+".flow.loop.break", "E8: when no candidate could be applied the chain loop is left (the nil-state edge does not reach the loop head)", core.FuncName(ao), r.P.Pos(c.Pos()),
			"continuing with the same commitment and an unchanged consumed set never terminates", "nil state leaves the loop", "the nil-state edge returns to the loop head")
	}
}
