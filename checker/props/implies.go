package props

import (
	"go/types"
	"golang.org/x/tools/go/ssa"

	"sidecheck/core"
)

// factsImplyAny: one of the facts is, or implies, one of the alternatives
// (fact patterns in the root function's parameter space). A fact
// true(g(args)) / false(g(args)) about a loop-free boolean helper g of the
// analysed module implies the alternatives when every way g can return that
// value does (predicate unfolding, actual arguments substituted).
func (r *Run) factsImplyAny(facts []core.Fact, alts []string, depth int) bool {
	for _, fc := range facts {
		set := core.FactSet{fc.Key(): fc}
		for _, a := range alts {
			if core.HasFact(set, a) {
				return true
			}
		}
		if (fc.Kind == "true" || fc.Kind == "false") && depth > 0 && fc.A != nil {
			call := fc.A
			if call.Op == "res" && call.Idx == 0 && len(call.Args) == 1 {
				call = call.Args[0] // the boolean first result of `v, err := g(...)`
			}
			if call.Op == "call" && call.Callee != nil && r.resultImplies(call.Callee, call.Args, fc.Kind == "true", alts, depth-1) {
				return true
			}
		}
	}
	return false
}

// resultImplies: whenever g(actual...) returns val, one of alts holds.
func (r *Run) resultImplies(g *ssa.Function, actual []*core.Term, val bool, alts []string, depth int) bool {
	if len(g.Blocks) == 0 || !r.P.IsSubject(g) || hasCycle(g) || len(actual) != len(g.Params) {
		return false
	}
	// a single boolean result, or (bool, error)
	if rs := g.Signature.Results(); rs.Len() < 1 || rs.Len() > 2 || !types.Identical(rs.At(0).Type().Underlying(), types.Typ[types.Bool]) || (rs.Len() == 2 && rs.At(1).Type().String() != "error") {
		return false
	}
	gf := r.E.Facts(g, core.Ctx{})
	subst := func(fs []core.Fact) []core.Fact {
		out := make([]core.Fact, len(fs))
		for i, f := range fs {
			out[i] = f.Subst(actual)
		}
		return out
	}
	avoid := func(a, b *ssa.BasicBlock) bool {
		return r.factsImplyAny(subst(gf.EdgeFacts(a, b)), alts, depth)
	}
	failing := map[*ssa.Return]bool{}
	if g.Signature.Results().Len() == 2 {
		for _, ri := range gf.Returns() {
			if ri.Class == core.RetFail {
				failing[ri.Ret] = true
			}
		}
	}
	nRet := 0
	for _, b := range g.Blocks {
		ret, ok := b.Instrs[len(b.Instrs)-1].(*ssa.Return)
		if !ok {
			continue
		}
		if failing[ret] {
			continue // (value, error) helper: the caller uses the value only under a nil error
		}
		nRet++
		v := core.RetOp(ret, 0)
		valueOK := func(l ssa.Value) bool {
			if c, isC := l.(*ssa.Const); isC {
				return c.Value == nil || (c.Value.String() == "true") != val // cannot yield val
			}
			return r.factsImplyAny(subst(gf.CondFacts(l, val, b)), alts, depth)
		}
		blockReachable := func(x *ssa.BasicBlock) bool {
			return x == g.Blocks[0] || reachesAvoiding(gf, g.Blocks[0].Instrs[0], x.Instrs[len(x.Instrs)-1], avoid)
		}
		if ph, isPhi := v.(*ssa.Phi); isPhi && ph.Block() == b {
			// per incoming edge: the value flowing in, the edge, or the way to the predecessor implies alts
			for i, p := range b.Preds {
				if !gf.IsLiveEdge(p, b) || valueOK(ph.Edges[i]) || avoid(p, b) || !blockReachable(p) {
					continue
				}
				return false
			}
			continue
		}
		if valueOK(v) {
			continue
		}
		if blockReachable(b) {
			return false
		}
	}
	return nRet > 0
}

// reachableWithout: instruction `to` of f can be reached from f's entry without
// crossing an edge whose facts imply one of alts.
func (r *Run) reachableWithout(ff *core.FnFacts, to ssa.Instruction, alts []string) bool {
	f := ff.Fn
	if to.Block() == f.Blocks[0] {
		return true
	}
	tb := to.Block()
	return ff.WalkFeasiblePath([]*ssa.BasicBlock{f.Blocks[0]}, func(path []*ssa.BasicBlock, next *ssa.BasicBlock) bool {
		fs := append([]core.Fact{}, ff.EdgeFacts(path[len(path)-1], next)...)
		fs = append(fs, ff.PathTestFacts(path, next)...)
		return r.factsImplyAny(fs, alts, 2)
	}, func(b *ssa.BasicBlock) bool { return b == tb })
}
