package props

import (
	"fmt"
	"go/types"
	"reflect"
	"strings"

	"golang.org/x/tools/go/ssa"

	"sidecheck/core"
)

func init() {
	register(&Checker{
		ID: "C08",
		Explanation: "Structural necessary conditions of C08, as term equalities that hold at every success return (E2 summaries): CalculateModelMultihash(v, alg) = enc(ComputeMultihash(alg, JCS(v))); ComputeMultihash(code, b) = multihash.Encode(GetHash(hashOf(code), b), code) with hashOf the table {SHA2-256→SHA-256, SHA2-512→SHA-512}; GetHash writes exactly its data argument into the hash; " +
			"(canon.only) every byte string that reaches GetHash/ComputeMultihash anywhere in subject code is the result of canonicalizer.MarshalCanonical, a digest produced by those functions, the Digest of a decoded multihash, or a parameter whose every caller satisfies the same rule — json.Marshal / docutil output never reaches a hash; " +
			"(alg.from.hash) IsValidModelMultihash succeeds only under CalculateModelMultihash(model, code(supplied)) = supplied; (commit.terms) GetCommitment(k, c) = enc(ComputeMultihash(c, GetHash(hashOf(c), JCS(k)))), GetRevealValue(k, c) = CalculateModelMultihash(k, c) and GetCommitmentFromRevealValue(rv) = enc(ComputeMultihash(mh.Code, mh.Digest)) for mh = GetMultihash(rv) — which coincide given Decode∘Encode = id; " +
			"(suffix) GetUniqueSuffix = CalculateModelMultihash(suffixData, algs[0]); parseInitialState succeeds only under enc(JCS(decoded)) = segment (string equality on the encoded form); the create parser binds UniqueSuffix to GetUniqueSuffix(suffixData, protocol algorithms) and in non-batch mode requires IsValidModelMultihash(delta, suffixData.DeltaHash); resolveRequestWithInitialState succeeds only under didSuffix = parsed.UniqueSuffix with the suffix and initial state that ResolveDocument extracted from the same DID string. " +
			"(sortkey) the JCS member ordering obligations of C07 (UTF-16 code-unit comparator evaluated over all orderings, key provenance, insertion rule) because the canonical form must not depend on member order; (suffix.initial.members) every member of the type the long-form initial state is decoded into, other than suffixData and delta, is established empty on success (one obligation per member; the type member is a recorded known finding); " +
			"Not decided: collision resistance; that JCS is value-canonical (C07); Decode∘Encode = id in go-multihash/base64.",
		Run: runC08,
	})
}

func runC08(r *Run) {
	const P = "C08"
	if f := r.fn(P, pkgHashing, "CalculateModelMultihash"); f != nil {
		r.requireSucc(P+".hash.term.model", "if the model hash is not enc(mh(H(JCS(model)))), identifiers depend on the serialization instead of the JSON value", f, core.Ctx{}, "",
			"cmp(<result> == encoder.EncodeToString(hashing.ComputeMultihash($1, canonicalizer.MarshalCanonical($0))))")
	}
	if f := r.fn(P, pkgHashing, "ComputeMultihash"); f != nil {
		r.requireSucc(P+".hash.term.compute", "the multihash must wrap the digest of exactly the given bytes under the hash the code names, and carry that code", f, core.Ctx{}, "",
			"cmp(<result> == go-multihash.Encode(hashing.GetHash(hashing.GetHashFromMultihash($0), $1), $0))")
	}
	if f := r.fn(P, pkgHashing, "GetHash"); f != nil {
		r.requireSucc(P+".hash.term.digest", "the digest must be over exactly the data argument with the given hash", f, core.Ctx{}, "",
			"true(Hash.Available($0))", "ok(Writer.Write(Hash.New($0), $1))", "cmp(<result> == Hash.Sum(Hash.New($0), nil))")
	}
	r.checkHashTable(P)
	r.checkCanonOnly(P)
	// the canonical form must not depend on the member order of the input
	if tr := r.fn(P, pkgJCS, "Transform"); tr != nil {
		var fns []*ssa.Function
		var collect func(f *ssa.Function)
		collect = func(f *ssa.Function) {
			fns = append(fns, f)
			for _, a := range f.AnonFuncs {
				collect(a)
			}
		}
		collect(tr)
		fns = r.withPackageHelpers(fns)
		r.checkSortKey(P, tr, fns)
		// ... nor on the spelling of a number (1.0 / 1e0 / -0): every number goes through ParseFloat -> NumberToJSON
		r.checkNumberRoute(P, fns)
		// strings: a serializer that copies a byte it should have escaped maps two JSON values to one canonical form
		r.checkEscapeTables(P)
		r.checkEscapeControl(P, fns)
	}
	if f := r.fn(P, pkgHashing, "IsValidModelMultihash"); f != nil {
		r.requireSucc(P+".alg.from.hash", "if this fails, a model is accepted against a multihash that is not its hash under the algorithm the multihash names", f, core.Ctx{}, "",
			"ok(hashing.GetMultihashCode($1))",
			"cmp(hashing.CalculateModelMultihash($0, hashing.GetMultihashCode($1)) == $1)")
	}
	// --- commit.terms
	if f := r.fn(P, pkgCommitment, "GetCommitment"); f != nil {
		r.requireSucc(P+".commit.terms.commitment", "commitment(k) must be enc(mh(H(H(JCS k)))) under one algorithm code", f, core.Ctx{}, "",
			"cmp(<result> == encoder.EncodeToString(hashing.ComputeMultihash($1, hashing.GetHash(hashing.GetHashFromMultihash($1), canonicalizer.MarshalCanonical($0)))))")
	}
	if f := r.fn(P, pkgCommitment, "GetRevealValue"); f != nil {
		r.requireSucc(P+".commit.terms.reveal", "reveal(k) must be the model multihash of k", f, core.Ctx{}, "",
			"cmp(<result> == hashing.CalculateModelMultihash($0, $1))")
	}
	if f := r.fn(P, pkgCommitment, "GetCommitmentFromRevealValue"); f != nil {
		r.requireSucc(P+".commit.terms.fromreveal", "commitment-from-reveal must re-hash exactly the digest the reveal value carries, under the code it names", f, core.Ctx{}, "",
			"ok(hashing.GetMultihash($0))",
			"cmp(<result> == encoder.EncodeToString(hashing.ComputeMultihash(hashing.GetMultihash($0).Code, hashing.GetMultihash($0).Digest)))")
	}
	if f := r.fn(P, pkgHashing, "GetMultihash"); f != nil {
		r.requireSucc(P+".commit.terms.decode", "the decoded multihash is multihash.Decode of the base64url decoding", f, core.Ctx{}, "",
			"cmp(<result> == go-multihash.Decode(encoder.DecodeString($0)))")
	}
	// --- suffix
	if f := r.fn(P, pkgModel, "GetUniqueSuffix"); f != nil {
		r.requireSucc(P+".suffix.term", "the unique suffix must be the model multihash of the suffix data", f, core.Ctx{}, "",
			"cmp(len($1) != 0)", "cmp(<result> == hashing.CalculateModelMultihash($0, $1[0]))")
	}
	if f := r.fn(P, pkgParser, "parseInitialState"); f != nil {
		r.requireSucc(P+".suffix.initial.canonical", "if the check is not a string comparison of the re-encoded canonical form with the segment, altered spellings of the initial state resolve", f, core.Ctx{}, "",
			"ok(encoder.DecodeString($0))",
			"ok(json.Unmarshal(encoder.DecodeString($0), ?req))",
			"cmp(encoder.EncodeToString(canonicalizer.MarshalCanonical(_)) == $0)")
	}
	// the initial state has exactly the members suffixData and delta: any other
	// member of the type it is decoded into would survive the re-encoding
	// comparison, so it must be established empty on every success path
	if f := r.fn(P, pkgParser, "parseInitialState"); f != nil {
		if T := r.P.Named(pkgModel, "CreateRequest"); T != nil {
			st, _ := T.Underlying().(*types.Struct)
			succ := r.succ(f, core.Ctx{})
			n := 0
			for i := 0; st != nil && i < st.NumFields(); i++ {
				fld := st.Field(i)
				tag := reflectTagName(st.Tag(i))
				if tag == "-" || tag == "suffixData" || tag == "delta" {
					continue
				}
				n++
				empty := core.HasFact(succ.Facts, `cmp(_.`+fld.Name()+` == "")`) || core.HasFact(succ.Facts, `cmp(_.`+fld.Name()+` == nil)`)
				r.R.Check(empty && succ.HasSuccess, P+".suffix.initial.members."+fld.Name(), "E5 field coverage + E2: every member of the type the initial state is decoded into, other than suffixData and delta, is established empty on success", core.FuncName(f), r.where(f),
					"a member the decoded type knows round-trips through the canonical re-encoding, so an initial state altered by adding it still resolves: several long-form DID strings for one DID",
					fmt.Sprintf("member %q established empty", tag), fmt.Sprintf("member %q (field %s) is not established empty on success", tag, fld.Name()))
			}
			r.R.SetCount("members of the initial-state type besides suffixData/delta", n)
		}
	}
	if f := r.fn(P, pkgParser, "Parser.ParseCreateOperation"); f != nil {
		for _, batch := range []bool{true, false} {
			ctx, _ := boolParamCtx(f, batch)
			r.requireSucc(fmt.Sprintf("%s.suffix.bind.batch=%v", P, batch), "the operation's unique suffix must be the hash of its own suffix data under the protocol's algorithm", f, ctx, fmt.Sprintf("batch=%v", batch),
				"cmp(?s == <result>.SuffixData)", "cmp(<result>.UniqueSuffix == model.GetUniqueSuffix(?s, $0.Protocol.MultihashAlgorithms))")
		}
		ctx, _ := boolParamCtx(f, false)
		r.requireSucc(P+".suffix.delta.bind", "the embedded delta must match the delta hash in the suffix data", f, ctx, "batch=false",
			"cmp(?s == <result>.SuffixData)", "cmp(?d == <result>.Delta)", "ok(hashing.IsValidModelMultihash(?d, ?s.DeltaHash))")
	}
	if f := r.fn(P, pkgDocHandler, "DocumentHandler.resolveRequestWithInitialState"); f != nil {
		r.requireSucc(P+".suffix.longform.eq", "a long-form DID must resolve only if its suffix equals the suffix derived from the embedded initial state", f, core.Ctx{}, "",
			"ok(OperationParser.Parse(_, _, $3))", "cmp($1 == OperationParser.Parse(_, _, $3).UniqueSuffix)")
	}
	if f := r.fn(P, pkgDocHandler, "DocumentHandler.ResolveDocument"); f != nil {
		ff := r.E.Facts(f, core.Ctx{})
		calls := r.callsIn(f, "DocumentHandler.resolveRequestWithInitialState")
		ok := len(calls) == 1
		det := fmt.Sprintf("%d calls", len(calls))
		for _, c := range calls {
			a := c.Common().Args
			suffix, state := ff.TB.Of(a[1]), ff.TB.Of(a[3])
			b := core.Bind{}
			ok = core.MatchTerm("getSuffix(_, ParseDID(_, ?ns, $1))", suffix, b) && core.MatchTerm("ParseDID(_, ?ns, $1)#1", state, b)
			det = "suffix=" + short(suffix.String(), 120) + " state=" + short(state.String(), 120)
		}
		r.R.Check(ok, P+".suffix.longform.thread", "E13 ArgIs: the suffix compared and the initial state parsed come from ParseDID of the same DID string", core.FuncName(f), r.where(f),
			"if another part of the DID (or the whole DID) is compared, forged DIDs that merely end with the real suffix resolve", det, det)
	}
	if f := r.fn(P, pkgParser, "Parser.ParseDID"); f != nil {
		// every success return either claims no initial state (nil bytes, the DID returned as given) or went
		// through parseInitialState and re-canonicalisation — however the short/long decision is spelled
		ff := r.E.Facts(f, core.Ctx{})
		good, n := true, 0
		var det []string
		for _, ri := range ff.Returns() {
			if ri.Class != core.RetSuccess {
				continue
			}
			n++
			if c, isC := core.RetOp(ri.Ret, 1).(*ssa.Const); isC && c.Value == nil {
				if ff.TB.Of(core.RetOp(ri.Ret, 0)).String() != "$"+f.Params[2].Name() {
					good = false
					det = append(det, r.P.Pos(ri.Ret.Pos())+": short-form return does not return the DID as given")
				}
				continue
			}
			if !core.HasFact(ri.Facts, "ok(parseInitialState(_))") || !core.HasFact(ri.Facts, "ok(canonicalizer.MarshalCanonical(parseInitialState(_)))") {
				good = false
				det = append(det, r.P.Pos(ri.Ret.Pos())+": initial state returned without parseInitialState + MarshalCanonical")
			}
		}
		r.R.Check(good && n >= 2, P+".suffix.longform.parse", "E2: a success return of ParseDID has nil initial state and the DID as given, or is under ok(parseInitialState(segment)) ∧ ok(MarshalCanonical(…))", core.FuncName(f), r.where(f),
			"long-form parsing must go through parseInitialState on the last segment", fmt.Sprintf("%d success returns", n), strings.Join(det, "; "))
	}
}

// checkHashTable: GetHashFromMultihash maps SHA2-256→crypto.SHA256, SHA2-512→crypto.SHA512 and nothing else.
func (r *Run) checkHashTable(P string) {
	f := r.fn(P, pkgHashing, "GetHashFromMultihash")
	if f == nil {
		return
	}
	ff := r.E.Facts(f, core.Ctx{})
	paths, _ := enumPaths(ff, 100)
	got := map[string]string{}
	for _, p := range paths {
		key := "default"
		for i := 0; i+1 < len(p); i++ {
			for _, fc := range ff.EdgeFacts(p[i], p[i+1]) {
				if fc.Kind == "cmp" && fc.Op == "==" && fc.A.Op == "param" && fc.B.Op == "const" {
					key = fc.B.Name
				}
			}
		}
		ret := p[len(p)-1].Instrs[len(p[len(p)-1].Instrs)-1].(*ssa.Return)
		h := resolveOnPath(core.RetOp(ret, 0), p)
		e := resolveOnPath(core.RetOp(ret, 1), p)
		hs := "?"
		if c, ok := h.(*ssa.Const); ok {
			hs = core.ConstString(c)
		}
		if !isNilConstV(e) {
			hs = "error"
		}
		got[key] = hs
	}
	want := map[string]string{"18": "5", "19": "7", "default": "error"}
	ok := len(got) == len(want)
	for k, v := range want {
		if got[k] != v {
			ok = false
		}
	}
	r.R.Check(ok, P+".hash.table", "E7 table: multihash code → hash function is {0x12 SHA2-256 → crypto.SHA256(5), 0x13 SHA2-512 → crypto.SHA512(7)}, anything else an error", core.FuncName(f), r.where(f),
		"a wrong pairing makes every hash under that code unverifiable by other implementations (and by this one's own verifier table)", fmt.Sprint(got), fmt.Sprintf("table is %v, expected %v", got, want))
}

// resolveOnPath resolves phis along a concrete path.
func resolveOnPath(v ssa.Value, path []*ssa.BasicBlock) ssa.Value {
	for depth := 0; depth < 10; depth++ {
		phi, ok := v.(*ssa.Phi)
		if !ok {
			return v
		}
		blk := phi.Block()
		var prev *ssa.BasicBlock
		for i, b := range path {
			if b == blk && i > 0 {
				prev = path[i-1]
			}
		}
		if prev == nil {
			return v
		}
		found := false
		for i, p := range blk.Preds {
			if p == prev {
				v = phi.Edges[i]
				found = true
				break
			}
		}
		if !found {
			return v
		}
	}
	return v
}

// checkCanonOnly: what reaches a hash.
func (r *Run) checkCanonOnly(P string) {
	rule := "E13 who-may-flow: the bytes hashed are JCS output, a digest of these functions, a decoded multihash digest, or a parameter (then every caller is checked)"
	why := "if json.Marshal / raw request bytes are hashed, identifiers depend on member order and whitespace"
	n := 0
	var check func(f *ssa.Function, c *ssa.Call, argIdx int, depth int) (bool, string)
	check = func(f *ssa.Function, c *ssa.Call, argIdx int, depth int) (bool, string) {
		tb := r.E.Facts(f, core.Ctx{}).TB
		t := tb.Of(c.Common().Args[argIdx])
		switch {
		case core.MatchTerm("canonicalizer.MarshalCanonical(_)", t, core.Bind{}),
			core.MatchTerm("hashing.GetHash(_, _)", t, core.Bind{}),
			core.MatchTerm("hashing.GetMultihash(_).Digest", t, core.Bind{}),
			core.MatchTerm("Hash.Sum(_, _)", t, core.Bind{}):
			return true, t.String()
		case t.Op == "param" && depth < 4:
			callers := r.callersOf(f)
			if len(callers) == 0 {
				// exported hashing primitive without callers in subject code: its contract is "bytes in"
				return true, "parameter of an API function without subject callers"
			}
			for _, cc := range callers {
				if ok, det := check(cc.Parent(), cc, t.Idx, depth+1); !ok {
					return false, det + " (via " + core.FuncName(cc.Parent()) + ")"
				}
			}
			return true, "all callers ok"
		}
		return false, t.String()
	}
	for _, name := range []string{"hashing.GetHash", "hashing.ComputeMultihash"} {
		for _, c := range r.allCallsTo(name) {
			n++
			ok, det := check(c.Parent(), c, 1, 0)
			r.R.Check(ok, P+".canon.only."+core.FuncName(c.Parent()), rule, name+" called in "+core.FuncName(c.Parent()), r.P.Pos(c.Pos()), why, short(det, 160), "hashed bytes are "+short(det, 200))
		}
	}
	r.R.Floor(P+".canon.only.floor", "instance floor", n, 5, "call sites of GetHash/ComputeMultihash in subject code")
	// no direct use of crypto hash constructors on request data outside pkg/hashing
	var stray []string
	for _, f := range r.P.SubjectFuncs() {
		if strings.HasSuffix(core.FuncName(f), "hashing.GetHash") {
			continue
		}
		for _, b := range f.Blocks {
			for _, ins := range b.Instrs {
				if c, ok := ins.(*ssa.Call); ok {
					if sc := c.Common().StaticCallee(); sc != nil {
						switch sc.String() {
						case "crypto/sha256.Sum256", "crypto/sha512.Sum512", "crypto/sha256.New", "crypto/sha512.New":
							stray = append(stray, core.FuncName(f)+" at "+r.P.Pos(c.Pos()))
						}
					}
				}
			}
		}
	}
	r.R.Check(len(stray) == 0, P+".canon.only.stray", "who-may-call: SHA-2 constructors are used only through hashing.GetHash", "crypto/sha256, crypto/sha512", "-", why, "no direct SHA-2 use outside hashing.GetHash", strings.Join(stray, "; "))
}

// reflectTagName returns the JSON member name of a struct tag ("" if none).
func reflectTagName(tag string) string {
	v := reflect.StructTag(tag).Get("json")
	if i := strings.Index(v, ","); i >= 0 {
		v = v[:i]
	}
	return v
}
