package props

import (
	"fmt"
	"go/ast"
	"go/constant"
	"go/token"
	"go/types"
	"sort"
	"strings"

	"golang.org/x/tools/go/ssa"

	"sidecheck/core"
)

func init() {
	register(&Checker{
		ID: "C07",
		Explanation: "Spec-derived structural conditions of C07 (these are necessary conditions on the shape of the canonicalizer, NOT the input/output relation, which needs differential testing against an independent RFC 8785 implementation): (err.flow) every error value produced inside Transform and its closures is handed to checkError, the only writer of the captured error variable that Transform returns; canonicalizer.MarshalCanonical returns Transform's result of the (marshalled) value; (reject.sites) the rejections the statement lists exist as setError sites guarded by their condition — duplicate member (equal length after a common prefix), raw control character (< 0x20) in a string, unknown escape (escape table exhausted), missing low surrogate, premature end of input, non-whitespace trailing content; " +
			"(tables) the two escape tables have equal length and pair exactly the RFC 8259 §7 escapes; control characters use \\u%04x; (es6.switch) NumberToJSON rejects NaN/Inf by the exponent bit pattern, maps ±0 to \"0\" by a value comparison, and selects fixed notation exactly for 1e-6 ≤ |x| < 1e21; (sortkey) member names are ordered by the uint16 code units of utf16.Encode of the name's runes; the ordering function returns true on the first smaller unit, false on the first larger, shorter-prefix-first otherwise; new members are inserted before the first member they precede and appended otherwise; (det) no map iteration in the canonicalizer. " +
			"(number.route) every return of the literal/number closure is a JSON literal equal to the token or NumberToJSON(strconv.ParseFloat(token, 64)) — no number token is emitted as written; (sortkey.nf) the ordering function is evaluated over the three orderings of the two code units per loop-iteration path and of the two lengths per exit path (a subtraction is accepted only when signed and wider than the units; same index on both keys); " +
			"Not decided: the RFC 8785 serialization equality for any input (number shortest round-trip, ordering on all keys, idempotence); reversed surrogate pairs and non-JSON number spellings accepted through strconv.ParseFloat (recorded in DESIGN.md section 5 as observed, not decidable structurally).",
		Run: runC07,
	})
}

// byteSliceLiteral returns the constant byte values of a package-level []byte literal.
func (r *Run) byteSliceLiteral(rel, name string) ([]int64, bool) {
	pk := r.P.Pkg(rel)
	if pk == nil {
		return nil, false
	}
	for _, f := range pk.Syntax {
		for _, d := range f.Decls {
			gd, ok := d.(*ast.GenDecl)
			if !ok || gd.Tok != token.VAR {
				continue
			}
			for _, sp := range gd.Specs {
				vs := sp.(*ast.ValueSpec)
				for i, nm := range vs.Names {
					if nm.Name != name || i >= len(vs.Values) {
						continue
					}
					cl, ok := vs.Values[i].(*ast.CompositeLit)
					if !ok {
						return nil, false
					}
					var out []int64
					for _, el := range cl.Elts {
						tv := pk.TypesInfo.Types[el]
						if tv.Value == nil {
							return nil, false
						}
						n, ok := constant.Int64Val(constant.ToInt(tv.Value))
						if !ok {
							return nil, false
						}
						out = append(out, n)
					}
					return out, true
				}
			}
		}
	}
	return nil, false
}

func runC07(r *Run) {
	const P = "C07"
	tr := r.fn(P, pkgJCS, "Transform")
	if tr == nil {
		return
	}
	// collect Transform and its closures
	var fns []*ssa.Function
	var collect func(f *ssa.Function)
	collect = func(f *ssa.Function) {
		fns = append(fns, f)
		for _, a := range f.AnonFuncs {
			collect(a)
		}
	}
	collect(tr)
	fns = r.withPackageHelpers(fns)
	r.R.SetCount("Transform closures analysed", len(fns)-1)
	r.R.Floor(P+".closures.floor", "instance floor", len(fns)-1, 10, "closures of Transform")

	// identify checkError / setError closures by role
	var checkErr, setErr *ssa.Function
	var errAlloc *ssa.Alloc
	// the captured error variable: the alloc whose load is Transform's error result
	for _, b := range tr.Blocks {
		if ret, ok := b.Instrs[len(b.Instrs)-1].(*ssa.Return); ok {
			if u, ok := ret.Results[len(ret.Results)-1].(*ssa.UnOp); ok {
				errAlloc, _ = u.X.(*ssa.Alloc)
			}
		}
	}
	writers := map[*ssa.Function]int{}
	if errAlloc != nil {
		for _, f := range fns {
			for _, b := range f.Blocks {
				for _, ins := range b.Instrs {
					st, ok := ins.(*ssa.Store)
					if !ok {
						continue
					}
					if st.Addr == ssa.Value(errAlloc) {
						if !isNilConstV(st.Val) {
							writers[f]++
						}
						continue
					}
					if fv, ok := st.Addr.(*ssa.FreeVar); ok && freeVarBinds(f, fv, errAlloc) {
						writers[f]++
					}
				}
			}
		}
	}
	for f := range writers {
		if f != tr {
			checkErr = f
		}
	}
	r.R.Check(errAlloc != nil && len(writers) == 1 && checkErr != nil, P+".err.flow.writer", "E11: Transform returns the captured error variable, and exactly one closure (checkError) writes it", core.FuncName(tr), r.where(tr),
		"a second writer, or returning another value, lets an error reported during parsing get lost: a malformed document would be accepted", "single writer", fmt.Sprintf("error variable found=%v, non-nil writers=%d", errAlloc != nil, len(writers)))
	if checkErr != nil {
		// first error wins: the store is under cmp(*globalError == nil)
		cf := r.E.Facts(checkErr, core.Ctx{})
		okFirst := false
		for _, b := range checkErr.Blocks {
			for _, ins := range b.Instrs {
				if st, ok := ins.(*ssa.Store); ok && !isNilConstV(st.Val) {
					okFirst = core.HasFact(cf.At(st), "cmp(_ == nil)") && st.Val == ssa.Value(checkErr.Params[0])
				}
			}
		}
		r.R.Check(okFirst, P+".err.flow.first", "E11: checkError stores its argument, and only while no error has been recorded", core.FuncName(checkErr), r.where(checkErr), "-", "first error kept", "store is not of the argument under 'no error yet'")
		// setError: the closure that calls checkError(errors.New(msg))
		for _, f := range fns {
			for _, c := range callsOfClosure(f, checkErr) {
				if cc, ok := c.Common().Args[0].(*ssa.Call); ok {
					if sc := cc.Common().StaticCallee(); sc != nil && sc.String() == "errors.New" && len(f.Params) == 1 {
						setErr = f
					}
				}
			}
		}
	}
	// every error value produced in Transform's closures reaches checkError
	nErr := 0
	var lost []string
	for _, f := range fns {
		for _, b := range f.Blocks {
			for _, ins := range b.Instrs {
				v, ok := ins.(ssa.Value)
				if !ok || v.Type().String() != "error" {
					continue
				}
				switch ins.(type) {
				case *ssa.Extract, *ssa.Call:
				default:
					continue
				}
				if f == checkErr {
					continue
				}
				// writers documented never to fail
				if c, ok := ins.(*ssa.Call); ok {
					if sc := c.Common().StaticCallee(); sc != nil && (strings.HasPrefix(sc.String(), "(*strings.Builder).") || strings.HasPrefix(sc.String(), "(*bytes.Buffer).")) {
						continue
					}
				}
				nErr++
				reaches := false
				if refs := v.Referrers(); refs != nil {
					for _, rf := range *refs {
						if c, ok := rf.(*ssa.Call); ok && checkErr != nil && closureCallTarget(c) == checkErr {
							reaches = true
						}
					}
				}
				if !reaches {
					lost = append(lost, core.FuncName(f)+" at "+r.P.Pos(ins.Pos()))
				}
			}
		}
	}
	r.R.Check(len(lost) == 0 && nErr >= 4, P+".err.flow.all", "E11: every error value produced inside Transform's closures is passed to checkError", core.FuncName(tr), r.where(tr),
		"a dropped error (bad \\u escape, malformed number, invalid number value) means the malformed input is canonicalized instead of rejected", fmt.Sprintf("%d error values, all reported", nErr), "not reported: "+strings.Join(lost, "; "))
	if f := r.fn(P, pkgCanon, "MarshalCanonical"); f != nil {
		r.requireEachSuccess(P+".err.flow.wrapper", "the wrapper must return the canonicalizer's own result and error", f, core.Ctx{},
			[]string{"ok(internal/jsoncanonicalizer.Transform(_))", "cmp(<result> == internal/jsoncanonicalizer.Transform(_))"})
	}

	// --- reject.sites
	type site struct {
		id    string
		guard []string
		what  string
	}
	sites := []site{
		{"duplicate", []string{"cmp(len($0) == len(_))"}, "duplicate member name (equal sort keys)"},
		{"control", []string{"cmp(_ < 32)"}, "raw control character inside a string"},
		{"escape", []string{"cmp(_ >= len(internal/jsoncanonicalizer.asciiEscapes))"}, "unknown escape (escape table exhausted)"},
		{"surrogate", []string{"true(unicode/utf16.IsSurrogate(_))"}, "missing low surrogate"},
		{"eof", []string{"cmp(_ >= len(_))"}, "premature end of input"},
		{"trailing", []string{"cmp(_ < len(_))"}, "non-whitespace trailing content"},
	}
	for _, s := range sites {
		found := ""
		if setErr != nil || checkErr != nil {
			for _, f := range fns {
				ff := r.E.Facts(f, core.Ctx{})
				for _, c := range fixedErrCalls(f, setErr, checkErr) {
					if s.id == "trailing" && f != tr {
						continue
					}
					if s.id == "eof" && (f == tr || len(f.Params) != 0) {
						continue
					}
					at := ff.At(c)
					if _, ok := core.MatchAll(at, s.guard, nil); ok {
						found = core.FuncName(f) + " at " + r.P.Pos(c.Pos())
					}
				}
			}
		}
		r.R.Check(found != "", P+".reject.sites."+s.id, "E2 Before: an error is reported under the condition '"+s.what+"' ("+strings.Join(s.guard, " ∧ ")+")", "jsoncanonicalizer.Transform", r.where(tr),
			"without this rejection the statement's '"+s.what+"' inputs are accepted", found, "no setError call guarded by this condition")
	}

	r.checkEscapeTables(P)
	// --- es6.switch
	if f := r.fn(P, pkgJCS, "NumberToJSON"); f != nil {
		ff := r.E.Facts(f, core.Ctx{})
		okNaN, okZero := false, false
		for _, ri := range ff.Returns() {
			if ri.Class == core.RetFail && core.HasFact(ri.Facts, "cmp((math.Float64bits($0) & 9218868437227405312) == 9218868437227405312)") {
				okNaN = true
			}
			if ri.Class == core.RetSuccess && ff.TB.Of(core.RetOp(ri.Ret, 0)).String() == `"0"` && core.HasFact(ri.Facts, "cmp($0 == 0)") {
				okZero = true
			}
		}
		r.R.Check(okNaN, P+".es6.nan", "E2: NaN/±Inf (all exponent bits set) is an error", core.FuncName(f), r.where(f), "NaN/Infinity are not JSON numbers", "error under the exponent mask", "no failing return under (bits & 0x7ff0…) == 0x7ff0…")
		r.R.Check(okZero, P+".es6.zero", "E2: the value 0 (which compares equal for +0 and -0) is written as \"0\"", core.FuncName(f), r.where(f), "-0 must serialize as 0", "return \"0\" under x == 0 (float comparison)", "no return of \"0\" under a float comparison x == 0 (a bit-pattern comparison misses -0)")
		// format selection
		okFmt := false
		for _, c := range r.callsIn(f, "strconv.FormatFloat") {
			phi, isPhi := c.Common().Args[1].(*ssa.Phi)
			if !isPhi {
				continue
			}
			good := true
			nF := 0
			for i, e := range phi.Edges {
				k, isK := e.(*ssa.Const)
				if !isK {
					good = false
					continue
				}
				pred := phi.Block().Preds[i]
				in := ff.In[pred]
				set := core.FactSet{}
				for kk, vv := range in {
					set[kk] = vv
				}
				for _, fc := range ff.EdgeFacts(pred, phi.Block()) {
					set[fc.Key()] = fc
				}
				switch k.Value.String() {
				case "102": // 'f'
					nF++
					if !(hasFloatBound(set, "<", 1e21) && hasFloatBound(set, ">=", 1e-6)) {
						good = false
					}
				case "101": // 'e'
				default:
					good = false
				}
			}
			if good && nF == 1 {
				okFmt = true
			}
		}
		r.R.Check(okFmt, P+".es6.switch", "E3 normal form with spec constants: fixed notation ('f') exactly under 1e-6 ≤ |x| < 1e21, exponent notation otherwise", core.FuncName(f), r.where(f),
			"ECMAScript Number::toString switches notation at exactly these thresholds; other thresholds change the spelling of numbers and hence every hash over them", "'f' iff 1e-6 ≤ x < 1e21", "format selection not as prescribed")
		r.checkES6Sign(P, f)
	}

	// --- byte classes
	r.checkByteClasses(P, tr, fns, setErr)
	r.checkStringCodec(P, tr, fns, setErr, checkErr)
	r.checkTrailingProgress(P, tr)

	// --- number tokens
	r.checkNumberRoute(P, fns)

	// --- sortkey
	r.checkSortKey(P, tr, fns)

	// --- det
	r.checkMapOrder(P, []string{pkgJCS, pkgCanon})
	nMap := r.R.Counts["E14 map ranges examined"]
	r.R.Check(nMap == 0, P+".det", "E14: no map is iterated in the canonicalizer", "jsoncanonicalizer, canonicalizer", "-", "output order must not depend on map iteration", "no map ranges", fmt.Sprintf("%d map ranges", nMap))
}

// freeVarBinds: does free variable fv of closure f bind (through MakeClosure in its ancestors) to alloc al?
func freeVarBinds(f *ssa.Function, fv *ssa.FreeVar, al *ssa.Alloc) bool {
	idx := -1
	for i, v := range f.FreeVars {
		if v == fv {
			idx = i
		}
	}
	parent := f.Parent()
	if idx < 0 || parent == nil {
		return false
	}
	for _, b := range parent.Blocks {
		for _, ins := range b.Instrs {
			if mc, ok := ins.(*ssa.MakeClosure); ok && mc.Fn == ssa.Value(f) && idx < len(mc.Bindings) {
				bnd := mc.Bindings[idx]
				if bnd == ssa.Value(al) {
					return true
				}
				if pfv, ok := bnd.(*ssa.FreeVar); ok {
					return freeVarBinds(parent, pfv, al)
				}
			}
		}
	}
	return false
}

// closureCallTarget resolves a call through a captured/local closure variable to the closure function.
func closureCallTarget(c *ssa.Call) *ssa.Function {
	v := c.Common().Value
	if mc, ok := v.(*ssa.MakeClosure); ok {
		return mc.Fn.(*ssa.Function)
	}
	if f, ok := v.(*ssa.Function); ok {
		return f
	}
	// load of a local/captured func variable: find the single MakeClosure stored there
	u, ok := v.(*ssa.UnOp)
	if !ok {
		return nil
	}
	var al *ssa.Alloc
	switch a := u.X.(type) {
	case *ssa.Alloc:
		al = a
	case *ssa.FreeVar:
		al = allocOfFreeVar(c.Parent(), a)
	}
	if al == nil {
		return nil
	}
	var target *ssa.Function
	n := 0
	var scan func(f *ssa.Function, addr func(f *ssa.Function) []ssa.Value)
	_ = scan
	root := al.Parent()
	var fns []*ssa.Function
	var collect func(f *ssa.Function)
	collect = func(f *ssa.Function) {
		fns = append(fns, f)
		for _, a := range f.AnonFuncs {
			collect(a)
		}
	}
	collect(root)
	for _, f := range fns {
		for _, b := range f.Blocks {
			for _, ins := range b.Instrs {
				st, ok := ins.(*ssa.Store)
				if !ok {
					continue
				}
				same := st.Addr == ssa.Value(al)
				if fv, ok := st.Addr.(*ssa.FreeVar); ok && freeVarBinds(f, fv, al) {
					same = true
				}
				if !same {
					continue
				}
				if mc, ok := st.Val.(*ssa.MakeClosure); ok {
					n++
					target = mc.Fn.(*ssa.Function)
				} else if fn, ok := st.Val.(*ssa.Function); ok {
					// a literal that captures nothing is a plain function value
					n++
					target = fn
				} else if !isNilConstV(st.Val) {
					n += 2
				}
			}
		}
	}
	if n == 1 {
		return target
	}
	return nil
}

func allocOfFreeVar(f *ssa.Function, fv *ssa.FreeVar) *ssa.Alloc {
	idx := -1
	for i, v := range f.FreeVars {
		if v == fv {
			idx = i
		}
	}
	parent := f.Parent()
	if idx < 0 || parent == nil {
		return nil
	}
	for _, b := range parent.Blocks {
		for _, ins := range b.Instrs {
			if mc, ok := ins.(*ssa.MakeClosure); ok && mc.Fn == ssa.Value(f) && idx < len(mc.Bindings) {
				switch x := mc.Bindings[idx].(type) {
				case *ssa.Alloc:
					return x
				case *ssa.FreeVar:
					return allocOfFreeVar(parent, x)
				}
			}
		}
	}
	return nil
}

// callsOfClosure returns the calls in f that target closure g (directly or through a func variable).
func callsOfClosure(f, g *ssa.Function) []*ssa.Call {
	var out []*ssa.Call
	for _, b := range f.Blocks {
		for _, ins := range b.Instrs {
			if c, ok := ins.(*ssa.Call); ok && closureCallTarget(c) == g {
				out = append(out, c)
			}
		}
	}
	return out
}

// hasFloatBound: the set holds cmp(x op c) with the constant c equal to want as a float64.
func hasFloatBound(set core.FactSet, op string, want float64) bool {
	for _, fc := range set {
		if fc.Kind != "cmp" || fc.Op != op || fc.B.Op != "const" {
			continue
		}
		if k, ok := fc.B.Val.(*ssa.Const); ok && k.Value != nil {
			if f, _ := constant.Float64Val(constant.ToFloat(k.Value)); f == want {
				return true
			}
		}
	}
	return false
}

// checkSortKey: ordering of object members by UTF-16 code units (shared by
// C07 and C08: the canonical form, hence every hash over it, must not depend
// on the member order of the input).
func (r *Run) checkSortKey(P string, tr *ssa.Function, fns []*ssa.Function) {
	var lexFn, parseObj *ssa.Function
	for _, f := range fns {
		if len(f.Params) >= 2 && f.Params[0].Type().String() == "[]uint16" {
			lexFn = f
		}
	}
	r.R.Check(lexFn != nil, P+".sortkey.type", "type: the ordering function compares []uint16 sort keys (UTF-16 code units)", "jsoncanonicalizer.Transform ordering closure", r.where(tr),
		"ordering by code points or bytes differs from UTF-16 order for astral vs. U+E000–U+FFFF names", "[]uint16", "no ordering closure over []uint16")
	if lexFn != nil {
		for _, f := range fns {
			if len(callsOfClosure(f, lexFn)) > 0 {
				parseObj = f
			}
		}
		if parseObj != nil {
			pf := r.E.Facts(parseObj, core.Ctx{})
			okKey := false
			for _, c := range callsOfClosure(parseObj, lexFn) {
				t := pf.TB.Of(c.Common().Args[0])
				okKey = core.MatchTerm("unicode/utf16.Encode(_)", t, core.Bind{})
				// the argument of Encode is []rune(name) where name is the parsed member name
				if okKey {
					if ec, ok := c.Common().Args[0].(*ssa.Call); ok {
						if cv, ok := ec.Common().Args[0].(*ssa.Convert); ok {
							okKey = cv.Type().String() == "[]rune" && cv.X.Type().String() == "string"
						} else {
							okKey = false
						}
					}
				}
			}
			r.R.Check(okKey, P+".sortkey.prov", "E5 provenance: the sort key is utf16.Encode([]rune(member name))", core.FuncName(parseObj), r.where(parseObj), "-", "utf16.Encode([]rune(name))", "sort key has another provenance")
			// insertion: InsertBefore under true(precedes(sortKey, e)); PushBack otherwise
			okIns, okPush := false, false
			for _, b := range parseObj.Blocks {
				for _, ins := range b.Instrs {
					c, ok := ins.(*ssa.Call)
					if !ok || c.Common().StaticCallee() == nil {
						continue
					}
					switch c.Common().StaticCallee().String() {
					case "(*container/list.List).InsertBefore":
						for _, fc := range pf.At(c) {
							if fc.Kind == "true" && fc.A.Op == "call" && strings.HasPrefix(fc.A.Name, "dyn") {
								okIns = true
							}
							if fc.Kind == "true" && strings.Contains(fc.A.String(), "lexicographicallyPrecedes") {
								okIns = true
							}
						}
					case "(*container/list.List).PushBack":
						okPush = core.HasFact(pf.At(c), "cmp(_ == nil)")
					}
				}
			}
			r.R.Check(okIns && okPush, P+".sortkey.insert", "E2 Before: a member is inserted before the first existing member it precedes, and appended only after the list is exhausted", core.FuncName(parseObj), r.where(parseObj),
				"any other insertion rule leaves the members unsorted", "InsertBefore under precedes; PushBack at end", fmt.Sprintf("InsertBefore guarded=%v PushBack at end=%v", okIns, okPush))
		}
		// the ordering function, decided semantically (whatever the spelling of the comparisons)
		r.checkUnitOrder(P, lexFn)
	}

}

// checkNumberRoute: the closure that parses literals and numbers returns either
// one of the JSON literals (under equality with the token) or
// NumberToJSON(ParseFloat(token, 64)) — no number token is emitted as written.
func (r *Run) checkNumberRoute(P string, fns []*ssa.Function) {
	checkErr, setErr := jcsErrClosures(fns[0], fns)
	var numFn *ssa.Function
	for _, f := range fns {
		if len(r.callsIn(f, "strconv.ParseFloat")) > 0 {
			numFn = f
		}
	}
	id := P + ".number.route"
	rule := "E8 exit classes: every return of the literal/number parser is a JSON literal equal to the token or NumberToJSON(strconv.ParseFloat(token, 64))"
	why := "a number token copied to the output as written (e.g. an integer above 2^53, a leading '+', 1e2) is not in ECMAScript Number::toString form, so equal JSON values get different canonical forms and hashes"
	if numFn == nil {
		r.R.Unk(id, rule, "jsoncanonicalizer.Transform", "-", why, "no closure calls strconv.ParseFloat")
		return
	}
	ff := r.E.Facts(numFn, core.Ctx{})
	good := true
	var det []string
	nNum, nLit := 0, 0
	for _, ri := range ff.Returns() {
		v := core.RetOp(ri.Ret, 0)
		t := ff.TB.Of(v)
		b := core.Bind{}
		switch {
		case core.MatchTerm("jsoncanonicalizer.NumberToJSON(strconv.ParseFloat(?tok, 64))", t, b):
			nNum++
		case t.Root() != nil && t.Root().Op == "global" && strings.HasSuffix(t.Root().Name, "literals") && hasEqWith(ri.Facts, t):
			nLit++
		case eqWithLiteral(ri.Facts, t):
			// the token itself, returned where it is known to equal an element of the literal table
			nLit++
		default:
			good = false
			det = append(det, r.P.Pos(ri.Ret.Pos())+": returns "+t.String())
		}
	}
	r.R.Check(good && nNum >= 1, id, rule, core.FuncName(numFn), r.where(numFn), why, fmt.Sprintf("%d number exits through ParseFloat→NumberToJSON, %d literal exits", nNum, nLit), strings.Join(det, "; "))
	// a token is rejected only for being empty, or by ParseFloat / NumberToJSON: any other error raised in this
	// closure is a private number grammar, and the canonical form's own spelling (1e+21) must stay acceptable
	nSet, okSet := 0, true
	var detSet []string
	for _, c := range fixedErrCalls(numFn, setErr, checkErr) {
		{
			if !ff.Live[c.Block()] {
				continue
			}
			nSet++
			if !core.HasFact(ff.At(c), "cmp(Builder.Len(_) == 0)") {
				okSet = false
				detSet = append(detSet, r.P.Pos(c.Pos())+": an error is raised for a token that is not empty")
			}
		}
	}
	r.R.Check(okSet && nSet >= 1, P+".number.rejects", "E2: in the literal/number closure an error with a fixed message is raised only under 'the token is empty'; every other rejection of a number comes from strconv.ParseFloat or NumberToJSON", core.FuncName(numFn), r.where(numFn),
		"a hand-written number grammar in front of ParseFloat can reject spellings the canonical form itself produces (1e+21): the output is then not a fixed point of canonicalization", fmt.Sprintf("%d message site(s), all for the empty token", nSet), strings.Join(detSet, "; "))
}

// hasEqWith: some must-fact equates term t with something.
// eqWithLiteral: the facts say t equals an element of the package's literal table.
func eqWithLiteral(fs core.FactSet, t *core.Term) bool {
	s := t.String()
	isLit := func(x *core.Term) bool {
		return x.Op == "idx" && x.Root() != nil && x.Root().Op == "global" && strings.HasSuffix(x.Root().Name, "literals")
	}
	for _, f := range fs {
		if f.Kind != "cmp" || f.Op != "==" {
			continue
		}
		if (f.A.String() == s && isLit(f.B)) || (f.B.String() == s && isLit(f.A)) {
			return true
		}
	}
	return false
}

func hasEqWith(fs core.FactSet, t *core.Term) bool {
	s := t.String()
	for _, f := range fs {
		if f.Kind == "cmp" && f.Op == "==" && (f.A.String() == s || f.B.String() == s) {
			return true
		}
	}
	return false
}

// checkUnitOrder: precedes(new, old) is evaluated over every ordering of the
// two code units compared in one loop iteration and of the two lengths after
// the loop: smaller unit → true, larger → false, equal → next unit; after the
// common prefix: true iff new is shorter. Comparisons may be written directly
// on the units or on a widened difference; the units must be the two keys at
// the same index.
func (r *Run) checkUnitOrder(P string, lexFn *ssa.Function) {
	lf := r.E.Facts(lexFn, core.Ctx{})
	id := P + ".sortkey.nf"
	rule := "E4 table: over all orderings of (new[q], old[q]) and of (len(new), len(old)): first differing code unit smaller → precedes, larger → not; common prefix → the shorter key precedes; otherwise false"
	why := "a different comparison orders members differently from RFC 8785 §3.2.3, so the canonical form depends on the member order of the input"
	heads := allLoopHeads(lexFn)
	if len(heads) != 1 || len(lexFn.Params) < 1 {
		r.R.Unk(id, rule, core.FuncName(lexFn), r.where(lexFn), why, fmt.Sprintf("%d loops in the ordering function", len(heads)))
		return
	}
	head := heads[0]
	newKey := "$" + lexFn.Params[0].Name()
	isNew := func(t *core.Term) bool { return t.Root() != nil && t.Root().String() == newKey }
	var problems []string
	// relation extracted from a fact: (new op old)
	relOf := func(fc core.Fact, wantIdx bool) (string, bool) {
		if fc.Kind != "cmp" {
			return "", false
		}
		a, b, op := fc.A, fc.B, fc.Op
		if a.Op == "bin" && a.Name == "-" && b.Op == "const" && b.Name == "0" {
			// difference compared with zero: must be a signed, widened difference
			if bv, ok := a.Val.(*ssa.BinOp); ok {
				if bt, ok := bv.Type().Underlying().(*types.Basic); !ok || bt.Info()&types.IsUnsigned != 0 || bt.Kind() == types.Int16 || bt.Kind() == types.Int8 {
					problems = append(problems, "difference of code units computed in "+bv.Type().String()+" (wraps around)")
				}
			}
			a, b = a.Args[0], a.Args[1]
		}
		strip := func(t *core.Term) *core.Term {
			for t.Op == "conv" && len(t.Args) == 1 {
				t = t.Args[0]
			}
			return t
		}
		a, b = strip(a), strip(b)
		if wantIdx {
			if a.Op != "idx" || b.Op != "idx" {
				return "", false
			}
			if a.Args[1].String() != b.Args[1].String() {
				problems = append(problems, "units compared at different indexes: "+a.String()+" vs "+b.String())
			}
			a, b = a.Args[0], b.Args[0]
		} else {
			if a.Op != "len" || b.Op != "len" {
				return "", false
			}
			a, b = a.Args[0], b.Args[0]
		}
		switch {
		case isNew(a) && !isNew(b) && strings.HasSuffix(b.String(), ".sortKey"):
			return op, true
		case isNew(b) && !isNew(a) && strings.HasSuffix(a.String(), ".sortKey"):
			return flipCmp[op], true
		}
		return "", false
	}
	holds := func(o int, op string) bool { // o = sign(new - old)
		switch op {
		case "<":
			return o < 0
		case "<=":
			return o <= 0
		case ">":
			return o > 0
		case ">=":
			return o >= 0
		case "==":
			return o == 0
		case "!=":
			return o != 0
		}
		return false
	}
	retConst := func(ret *ssa.Return) (bool, bool) {
		c, ok := core.RetOp(ret, 0).(*ssa.Const)
		if !ok || c.Value == nil {
			return false, false
		}
		return c.Value.String() == "true", true
	}
	sym := map[int]string{-1: "<", 0: "=", 1: ">"}
	// --- per iteration
	paths := loopIterationPaths(lf, head, 4000)
	good := true
	var det []string
	for _, o := range []int{-1, 0, 1} {
		n := 0
		for _, ip := range paths {
			consistent := true
			for _, fc := range pathFacts(lf, ip.Blocks) {
				if op, ok := relOf(fc, true); ok && !holds(o, op) {
					consistent = false
				}
			}
			if !consistent {
				continue
			}
			n++
			got := "next"
			if ip.Ret != nil {
				v, isC := retConst(ip.Ret)
				switch {
				case !isC:
					got = "non-constant"
				case v:
					got = "true"
				default:
					got = "false"
				}
			}
			want := map[int]string{-1: "true", 0: "next", 1: "false"}[o]
			if got != want {
				good = false
				det = append(det, fmt.Sprintf("new unit %s old unit: %s, expected %s", sym[o], got, want))
			}
		}
		if n == 0 {
			good = false
			det = append(det, "no iteration path for new unit "+sym[o]+" old unit")
		}
	}
	// --- after the loop: paths from the loop exit to a return
	var tails [][]*ssa.BasicBlock
	var walk func(b *ssa.BasicBlock, cur []*ssa.BasicBlock, seen map[*ssa.BasicBlock]bool)
	walk = func(b *ssa.BasicBlock, cur []*ssa.BasicBlock, seen map[*ssa.BasicBlock]bool) {
		cur = append(cur, b)
		if _, ok := b.Instrs[len(b.Instrs)-1].(*ssa.Return); ok {
			tails = append(tails, append([]*ssa.BasicBlock{}, cur...))
			return
		}
		for _, s := range b.Succs {
			if !lf.IsLiveEdge(b, s) || seen[s] || len(tails) > 1000 {
				continue
			}
			seen[s] = true
			walk(s, cur, seen)
			delete(seen, s)
		}
	}
	for _, s := range head.Succs {
		if lf.IsLiveEdge(head, s) && !blockReaches(lf, s, head, nil) {
			walk(s, []*ssa.BasicBlock{head}, map[*ssa.BasicBlock]bool{head: true, s: true})
		}
	}
	for _, o := range []int{-1, 0, 1} {
		n := 0
		for _, tp := range tails {
			consistent := true
			for _, fc := range pathFacts(lf, tp) {
				if op, ok := relOf(fc, false); ok && !holds(o, op) {
					consistent = false
				}
			}
			if !consistent {
				continue
			}
			n++
			last := tp[len(tp)-1]
			ret := last.Instrs[len(last.Instrs)-1].(*ssa.Return)
			v, isC := retConst(ret)
			if !isC || v != (o < 0) {
				good = false
				det = append(det, fmt.Sprintf("common prefix, len(new) %s len(old): returns %v (constant=%v), expected %v", sym[o], v, isC, o < 0))
			}
		}
		if n == 0 {
			good = false
			det = append(det, "no exit path for len(new) "+sym[o]+" len(old)")
		}
	}
	sort.Strings(problems)
	det = append(det, dedupe(problems)...)
	r.R.Check(good && len(problems) == 0, id, rule, core.FuncName(lexFn), r.where(lexFn), why,
		fmt.Sprintf("%d iteration paths and %d exit paths agree with the statement", len(paths), len(tails)), strings.Join(det, "; "))
}

var flipCmp = map[string]string{"==": "==", "!=": "!=", "<": ">", ">": "<", "<=": ">=", ">=": "<="}

// checkEscapeTables: the two escape tables and the \u format (shared by C07 and C08).
func (r *Run) checkEscapeTables(P string) {
	// --- tables
	asc, ok1 := r.byteSliceLiteral(pkgJCS, "asciiEscapes")
	bin, ok2 := r.byteSliceLiteral(pkgJCS, "binaryEscapes")
	want := map[int64]int64{'\\': '\\', '"': '"', 'b': '\b', 'f': '\f', 'n': '\n', 'r': '\r', 't': '\t'}
	okTab := ok1 && ok2 && len(asc) == len(bin) && len(asc) == len(want)
	if okTab {
		for i := range asc {
			if want[asc[i]] != bin[i] {
				okTab = false
			}
		}
	}
	r.R.Check(okTab, P+".tables", "E7: asciiEscapes[i] ↔ binaryEscapes[i] are exactly the RFC 8259 §7 two-character escapes (\\\\ \\\" \\b \\f \\n \\r \\t), equal length", "jsoncanonicalizer.asciiEscapes/binaryEscapes", "pkg/internal/jsoncanonicalizer/jsoncanonicalizer.go",
		"a mismatched pair mis-decodes or mis-encodes that escape; unequal lengths make the cross index panic", fmt.Sprintf("%v ↔ %v", asc, bin), fmt.Sprintf("ascii=%v binary=%v", asc, bin))
	// control characters \u%04x
	okU := false
	if pk := r.P.Pkg(pkgJCS); pk != nil {
		for _, file := range pk.Syntax {
			ast.Inspect(file, func(n ast.Node) bool {
				if bl, ok := n.(*ast.BasicLit); ok && bl.Kind == token.STRING && strings.Contains(bl.Value, `\\u%04x`) {
					okU = true
				}
				return true
			})
		}
	}
	r.R.Check(okU, P+".tables.control", "constant: other control characters are written as \\u%04x (lower-case hex, four digits)", "jsoncanonicalizer.decorateString", "-", "RFC 8785 requires lower-case \\u00xx for the remaining control characters", "\\u%04x", "format not found")

}

// fixedErrCalls: the calls in f that record an error the canonicalizer itself raises — a call of the message closure
// (setError) or a call of the recording closure (checkError) with a value that does not come from a fallible call: a
// package-level sentinel, errors.New / fmt.Errorf in place.
func fixedErrCalls(f, setErr, checkErr *ssa.Function) []*ssa.Call {
	var out []*ssa.Call
	for _, b := range f.Blocks {
		for _, ins := range b.Instrs {
			c, ok := ins.(*ssa.Call)
			if !ok {
				continue
			}
			t := closureCallTarget(c)
			if t == nil {
				// a reporter handed in as a parameter (the function was a closure that captured it)
				if prm, isP := c.Common().Value.(*ssa.Parameter); isP && setErr != nil && paramAlwaysIs(f, prm, setErr) {
					out = append(out, c)
				}
				continue
			}
			if setErr != nil && t == setErr {
				out = append(out, c)
				continue
			}
			if checkErr != nil && t == checkErr && f != setErr && len(c.Common().Args) == 1 {
				switch a := c.Common().Args[0].(type) {
				case *ssa.UnOp:
					if _, isG := a.X.(*ssa.Global); isG {
						out = append(out, c)
					}
				case *ssa.Call:
					if sc := a.Common().StaticCallee(); sc != nil && (sc.String() == "errors.New" || sc.String() == "fmt.Errorf") {
						out = append(out, c)
					}
				}
			}
		}
	}
	return out
}

// jcsErrClosures identifies, by role, the closure that writes the error variable Transform returns (checkError) and
// the closure that hands it errors.New(message) (setError); either may be nil.
func jcsErrClosures(tr *ssa.Function, fns []*ssa.Function) (checkErr, setErr *ssa.Function) {
	var errAlloc *ssa.Alloc
	for _, b := range tr.Blocks {
		if ret, ok := b.Instrs[len(b.Instrs)-1].(*ssa.Return); ok && len(ret.Results) > 0 {
			if u, ok := ret.Results[len(ret.Results)-1].(*ssa.UnOp); ok {
				errAlloc, _ = u.X.(*ssa.Alloc)
			}
		}
	}
	if errAlloc == nil {
		return nil, nil
	}
	for _, f := range fns {
		if f == tr {
			continue
		}
		for _, b := range f.Blocks {
			for _, ins := range b.Instrs {
				if st, ok := ins.(*ssa.Store); ok {
					if fv, ok := st.Addr.(*ssa.FreeVar); ok && freeVarBinds(f, fv, errAlloc) {
						checkErr = f
					}
				}
			}
		}
	}
	if checkErr == nil {
		return nil, nil
	}
	for _, f := range fns {
		for _, c := range callsOfClosure(f, checkErr) {
			if cc, ok := c.Common().Args[0].(*ssa.Call); ok {
				if sc := cc.Common().StaticCallee(); sc != nil && sc.String() == "errors.New" && len(f.Params) == 1 {
					setErr = f
				}
			}
		}
	}
	return checkErr, setErr
}

func isFixedErrCall(c *ssa.Call, f, setErr, checkErr *ssa.Function) bool {
	for _, x := range fixedErrCalls(f, setErr, checkErr) {
		if x == c {
			return true
		}
	}
	return false
}

// withPackageHelpers adds the unexported functions of the canonicalizer package that the closure tree calls directly
// (a closure moved to package level is still part of the parser).
func (r *Run) withPackageHelpers(fns []*ssa.Function) []*ssa.Function {
	have := map[*ssa.Function]bool{}
	for _, f := range fns {
		have[f] = true
	}
	out := fns
	for _, f := range fns {
		for _, b := range f.Blocks {
			for _, ins := range b.Instrs {
				c, ok := ins.(*ssa.Call)
				if !ok {
					continue
				}
				g := c.Common().StaticCallee()
				if g == nil || g.Blocks == nil || have[g] || g.Pkg != fns[0].Pkg || g.Parent() != nil || !r.P.IsSubject(g) {
					continue
				}
				if o := g.Object(); o == nil || o.Exported() {
					continue
				}
				have[g] = true
				out = append(out, g)
			}
		}
	}
	return out
}

// paramAlwaysIs: every call of f in its package passes the closure g for parameter prm.
func paramAlwaysIs(f *ssa.Function, prm *ssa.Parameter, g *ssa.Function) bool {
	idx := -1
	for i, p := range f.Params {
		if p == prm {
			idx = i
		}
	}
	if idx < 0 || f.Pkg == nil {
		return false
	}
	n := 0
	okAll := true
	var visit func(h *ssa.Function)
	visit = func(h *ssa.Function) {
		for _, b := range h.Blocks {
			for _, ins := range b.Instrs {
				c, isC := ins.(*ssa.Call)
				if !isC || c.Common().StaticCallee() != f {
					continue
				}
				n++
				if idx >= len(c.Common().Args) || closureValueTarget(c.Parent(), c.Common().Args[idx]) != g {
					okAll = false
				}
			}
		}
		for _, a := range h.AnonFuncs {
			visit(a)
		}
	}
	for _, m := range f.Pkg.Members {
		if h, isF := m.(*ssa.Function); isF {
			visit(h)
		}
	}
	return n > 0 && okAll
}

// closureValueTarget: the function a function-typed value is (a closure made in place, a function, or a load of a
// variable that holds exactly one of them).
func closureValueTarget(in *ssa.Function, v ssa.Value) *ssa.Function {
	switch x := v.(type) {
	case *ssa.MakeClosure:
		return x.Fn.(*ssa.Function)
	case *ssa.Function:
		return x
	}
	// reuse the resolver for calls: build the question as "what would a call of v target"
	u, ok := v.(*ssa.UnOp)
	if !ok {
		return nil
	}
	var al *ssa.Alloc
	switch a := u.X.(type) {
	case *ssa.Alloc:
		al = a
	case *ssa.FreeVar:
		al = allocOfFreeVar(in, a)
	}
	if al == nil {
		return nil
	}
	var target *ssa.Function
	n := 0
	root := al.Parent()
	var fs []*ssa.Function
	var collect func(f *ssa.Function)
	collect = func(f *ssa.Function) {
		fs = append(fs, f)
		for _, a := range f.AnonFuncs {
			collect(a)
		}
	}
	collect(root)
	for _, f := range fs {
		for _, b := range f.Blocks {
			for _, ins := range b.Instrs {
				st, ok := ins.(*ssa.Store)
				if !ok {
					continue
				}
				same := st.Addr == ssa.Value(al)
				if fv, ok := st.Addr.(*ssa.FreeVar); ok && freeVarBinds(f, fv, al) {
					same = true
				}
				if !same {
					continue
				}
				if mc, ok := st.Val.(*ssa.MakeClosure); ok {
					n++
					target = mc.Fn.(*ssa.Function)
				} else if fn, ok := st.Val.(*ssa.Function); ok {
					n++
					target = fn
				} else if !isNilConstV(st.Val) {
					n += 2
				}
			}
		}
	}
	if n == 1 {
		return target
	}
	return nil
}
