package props

import (
	"fmt"
	"go/types"
	"sort"
	"strings"

	"golang.org/x/tools/go/ssa"

	"sidecheck/core"
)

// Engine E8 (exit classes): every entry->return path of the (loop-free)
// applier functions is enumerated; each path is characterised by the check
// that failed on it (or none) and by the fields of the returned state that
// were assigned on it. The table below is the statement's second sentence.

// enumPaths enumerates all acyclic entry->return paths of fn that are live
// under ff's context. limit bounds the number of paths.
func enumPaths(ff *core.FnFacts, limit int) ([][]*ssa.BasicBlock, bool) {
	fn := ff.Fn
	var out [][]*ssa.BasicBlock
	on := map[*ssa.BasicBlock]bool{}
	complete := true
	var rec func(b *ssa.BasicBlock, cur []*ssa.BasicBlock)
	rec = func(b *ssa.BasicBlock, cur []*ssa.BasicBlock) {
		if len(out) >= limit {
			complete = false
			return
		}
		if on[b] {
			return // do not re-enter a block (loops are unrolled zero/one time)
		}
		on[b] = true
		cur = append(cur, b)
		if _, ok := b.Instrs[len(b.Instrs)-1].(*ssa.Return); ok {
			out = append(out, append([]*ssa.BasicBlock{}, cur...))
		}
		for _, s := range b.Succs {
			if ff.IsLiveEdge(b, s) && ff.PathFeasible(cur, s) {
				rec(s, cur)
			}
		}
		on[b] = false
	}
	rec(fn.Blocks[0], nil)
	return out, complete
}

type effectRow struct {
	Err   bool
	Doc   string // prev | empty | patched(prev) | patched(fresh)
	UC    string // next | none | prev
	RC    string // next | none | prev
	Deact bool
}

func (e effectRow) String() string {
	if e.Err {
		return "error (operation ignored)"
	}
	return fmt.Sprintf("state{Doc:%s UpdateCommitment:%s RecoveryCommitment:%s Deactivated:%v}", e.Doc, e.UC, e.RC, e.Deact)
}

var errRow = effectRow{Err: true}

// effectTable: operation type -> failing check -> prescribed exit.
var effectTable = map[string]map[string]effectRow{
	"create": {
		"precondition":   errRow,
		"parse":          errRow,
		"delta-hash":     {Doc: "empty", UC: "none", RC: "next"},
		"validate-delta": {Doc: "empty", UC: "none", RC: "next"},
		"patches":        {Doc: "empty", UC: "next", RC: "next"},
		"":               {Doc: "patched(fresh)", UC: "next", RC: "next"},
	},
	"update": {
		"precondition":   errRow,
		"parse":          errRow,
		"signed-data":    errRow,
		"delta-hash":     errRow,
		"signature":      errRow,
		"validate-delta": errRow,
		"window":         {Doc: "prev", UC: "next", RC: "prev"},
		"patches":        {Doc: "prev", UC: "next", RC: "prev"},
		"":               {Doc: "patched(prev)", UC: "next", RC: "prev"},
	},
	"recover": {
		"precondition":   errRow,
		"parse":          errRow,
		"signed-data":    errRow,
		"signature":      errRow,
		"delta-hash":     {Doc: "empty", UC: "none", RC: "next"},
		"validate-delta": {Doc: "empty", UC: "none", RC: "next"},
		"window":         {Doc: "empty", UC: "next", RC: "next"},
		"patches":        {Doc: "empty", UC: "next", RC: "next"},
		"":               {Doc: "patched(fresh)", UC: "next", RC: "next"},
	},
	"deactivate": {
		"precondition": errRow,
		"parse":        errRow,
		"signed-data":  errRow,
		"suffix":       errRow,
		"signature":    errRow,
		"window":       errRow,
		"":             {Doc: "empty", UC: "none", RC: "none", Deact: true},
	},
}

// classifyCheck names the check a fail/cmp fact belongs to.
func classifyCheck(f core.Fact, role opRole) string {
	switch f.Kind {
	case "fail":
		n := f.A.Name
		switch {
		case core.NameMatches(n, role.ParseOp):
			return "parse"
		case role.ParseSD != "" && core.NameMatches(n, role.ParseSD):
			return "signed-data"
		case core.NameMatches(n, "hashing.IsValidModelMultihash"):
			return "delta-hash"
		case core.NameMatches(n, "internal/jws.VerifyJWS"):
			return "signature"
		case core.NameMatches(n, "ValidateDelta"):
			return "validate-delta"
		case core.NameMatches(n, "ApplyPatches"):
			return "patches"
		}
		for _, a := range f.A.Args {
			if strings.HasSuffix(a.String(), ".AnchorFrom") {
				return "window"
			}
		}
		return "unknown:" + n
	case "cmp":
		s := f.Key()
		if strings.Contains(s, "$rm.Doc") && strings.Contains(s, "nil") {
			return "precondition"
		}
		if strings.Contains(s, ".DidSuffix") && strings.Contains(s, ".UniqueSuffix") {
			return "suffix"
		}
	}
	return ""
}

// effectTypesFilter, when set, restricts checkEffectTable to some operation types.
var effectTypesFilter map[string]bool

// checkEffectTable checks the per-type effect rows. windowOnly restricts the
// reported rows to the anchoring-window check (C05 shares them with C03).
func (r *Run) checkEffectTable(P string, windowOnly bool) {
	appl := r.applierFuncs(P + ".effect")
	rows := 0
	for _, role := range opRoles {
		f := appl[role.Type]
		if f == nil {
			continue
		}
		if effectTypesFilter != nil && !effectTypesFilter[role.Type] {
			continue
		}
		ff := r.E.Facts(f, core.Ctx{})
		paths, complete := enumPaths(ff, 4000)
		if !complete || hasCycle(f) {
			r.R.Unk(P+".effect."+role.Type, "E8 path enumeration", core.FuncName(f), r.where(f), "-", "applier function is not loop-free or has too many paths")
			continue
		}
		r.R.Count("E8 applier paths enumerated", len(paths))
		ei := f.Signature.Results().Len() - 1
		// group: check -> observed exits
		type obs struct {
			row   effectRow
			where string
		}
		seen := map[string][]obs{}
		for _, path := range paths {
			failing := ""
			// walk edges
			for i := 0; i+1 < len(path); i++ {
				efs := ff.EdgeFacts(path[i], path[i+1])
				if len(efs) == 0 {
					continue
				}
				prim := efs[0]
				if prim.Kind == "fail" {
					failing = r.classifyCheckDeep(prim, role)
				} else if prim.Kind == "cmp" {
					c := r.classifyCheckDeep(prim, role)
					if c == "precondition" {
						// the failing direction: a create needs a state without a document, every other operation one with a document
						if retIsErr(path[len(path)-1], ei) && i+2 == len(path) {
							wantOp := "=="
							if role.Type == "create" {
								wantOp = "!="
							}
							if prim.Op == wantOp {
								failing = c
							} else {
								failing = "unknown:inverted-precondition"
							}
						}
					} else if c == "suffix" {
						// the failing direction: the signed suffix differs from the operation's suffix
						if retIsErr(path[len(path)-1], ei) && i+2 == len(path) {
							if prim.Op == "!=" {
								failing = c
							} else {
								failing = "unknown:inverted-suffix-test"
							}
						}
					}
				}
			}
			ret := path[len(path)-1].Instrs[len(path[len(path)-1].Instrs)-1].(*ssa.Return)
			var row effectRow
			if !isNilConstV(core.RetOp(ret, ei)) {
				row = errRow
			} else {
				row = r.stateOnPath(ff, path, core.RetOp(ret, 0), role)
			}
			if row.Err && failing == "" {
				failing = "unknown:error-without-recognised-check"
			}
			seen[failing] = append(seen[failing], obs{row, r.P.Pos(ret.Pos())})
		}
		want := effectTable[role.Type]
		var checks []string
		for c := range seen {
			checks = append(checks, c)
		}
		for c := range want {
			if _, ok := seen[c]; !ok {
				checks = append(checks, c)
			}
		}
		sort.Strings(checks)
		for _, c := range dedupe(checks) {
			if windowOnly && c != "window" {
				continue
			}
			name := c
			if name == "" {
				name = "all-checks-pass"
			}
			id := fmt.Sprintf("%s.effect.%s.%s", P, role.Type, name)
			rule := "E8 exit class: on the path where this check fails (or none does), the applier returns the exit the statement prescribes"
			why := fmt.Sprintf("if a %s whose %s check fails ends in another class, the resolved state diverges from the Sidetree state machine (e.g. a commitment is not advanced, or a document is populated from an unusable delta)", role.Type, name)
			w, known := want[c]
			os, observed := seen[c]
			rows++
			switch {
			case !known:
				r.R.Unk(id, rule, core.FuncName(f), os[0].where, why, "the applier has an exit after a check the effect table does not know: "+c+" -> "+os[0].row.String())
			case !observed:
				r.R.Bad(id, rule, core.FuncName(f), r.where(f), why, "no path of the applier fails this check (the check is missing); prescribed exit: "+w.String())
			default:
				ok := true
				var det []string
				for _, o := range os {
					if o.row != w {
						ok = false
						det = append(det, fmt.Sprintf("at %s returns %s, statement prescribes %s", o.where, o.row, w))
					}
				}
				r.R.Check(ok, id, rule, core.FuncName(f), os[0].where, why, fmt.Sprintf("%d path(s) -> %s", len(os), w), strings.Join(dedupe(det), "; "))
			}
		}
	}
	min := 26
	if windowOnly {
		min = 3
	}
	if effectTypesFilter != nil {
		min = 5 * len(effectTypesFilter)
	}
	r.R.Floor(P+".effect.floor", "instance floor", rows, min, "effect-table rows checked")
}

func retIsErr(b *ssa.BasicBlock, ei int) bool {
	ret, ok := b.Instrs[len(b.Instrs)-1].(*ssa.Return)
	return ok && !isNilConstV(core.RetOp(ret, ei))
}

// stateOnPath classifies the fields of the returned state from the stores
// executed on the path (last store wins).
func (r *Run) stateOnPath(ff *core.FnFacts, path []*ssa.BasicBlock, state ssa.Value, role opRole) effectRow {
	last := r.effectiveFields(ff, state, path)
	row := effectRow{Doc: "unset", UC: "none", RC: "none"}
	if t, ok := last["Doc"]; ok {
		s := t.String()
		switch {
		case s == "$rm.Doc":
			row.Doc = "prev"
		case t.Op == "new":
			row.Doc = "empty"
		case core.MatchTerm("ApplyPatches(_, $rm.Doc, _)", t, core.Bind{}):
			row.Doc = "patched(prev)"
		case core.MatchTerm("ApplyPatches(_, ?d, _)", t, core.Bind{}):
			b := core.Bind{}
			core.MatchTerm("ApplyPatches(_, ?d, _)", t, b)
			d := b["d"]
			// the document handed to ApplyPatches read back from the state under construction (`result.Doc`): it is
			// what the path stored there before the call
			if d.Op == "field" && d.Name == "Doc" && len(d.Args) == 1 && d.Args[0].String() == ff.TB.Of(state).String() {
				for i, blk := range path {
					for _, in := range blk.Instrs {
						if c, ok := in.(*ssa.Call); ok && c.Common().Method != nil && c.Common().Method.Name() == "ApplyPatches" {
							if pt, ok := r.effectiveFields(ff, state, path[:i+1])["Doc"]; ok {
								d = pt
							}
						}
					}
				}
			}
			if d.String() == "$rm.Doc" {
				row.Doc = "patched(prev)"
			} else if d.Op == "new" {
				row.Doc = "patched(fresh)"
			} else {
				row.Doc = "patched(" + b["d"].String() + ")"
			}
		default:
			row.Doc = "other:" + s
		}
	}
	classify := func(field string) string {
		t, ok := last[field]
		if !ok {
			return "none"
		}
		s := t.String()
		switch {
		case s == `""`:
			return "none"
		case s == "$rm."+field:
			return "prev"
		case field == "UpdateCommitment" && core.MatchTerm(role.ParseOp+"(_, $1.OperationRequest, true).Delta.UpdateCommitment", t, core.Bind{}):
			return "next"
		case field == "RecoveryCommitment" && role.Type == "create" && core.MatchTerm(role.ParseOp+"(_, $1.OperationRequest, true).SuffixData.RecoveryCommitment", t, core.Bind{}):
			return "next"
		case field == "RecoveryCommitment" && role.Type == "recover" && core.MatchTerm(role.ParseSD+"(_, "+role.ParseOp+"(_, $1.OperationRequest, true).SignedData).RecoveryCommitment", t, core.Bind{}):
			return "next"
		}
		return "other:" + s
	}
	row.UC = classify("UpdateCommitment")
	row.RC = classify("RecoveryCommitment")
	if t, ok := last["Deactivated"]; ok {
		row.Deact = t.String() == "true"
	}
	return row
}

func fieldName(fa *ssa.FieldAddr) string {
	return derefStructT(fa.X.Type()).Field(fa.Field).Name()
}

func derefStructT(t types.Type) *types.Struct {
	t = t.Underlying()
	if p, ok := t.(*types.Pointer); ok {
		t = p.Elem().Underlying()
	}
	s, _ := t.(*types.Struct)
	return s
}

// classifyCheckDeep classifies a failing check; a check performed through a
// wrapper helper of the module (an error-only function all of whose failing
// returns are caused by checks of one class, e.g. `checkSignature` around
// VerifyJWS) is classified as that class.
func (r *Run) classifyCheckDeep(f core.Fact, role opRole) string {
	c := classifyCheck(f, role)
	if !strings.HasPrefix(c, "unknown:") || f.A == nil || f.A.Callee == nil {
		return c
	}
	g := f.A.Callee
	if len(g.Blocks) == 0 || !r.P.IsSubject(g) || !errResultOnly(g) {
		return c
	}
	gf := r.E.Facts(g, core.Ctx{})
	class := ""
	for _, ri := range gf.Returns() {
		if ri.Class != core.RetFail {
			continue
		}
		found := ""
		for _, fc := range ri.Facts {
			if fc.Kind != "fail" {
				continue
			}
			k := classifyCheck(fc, role)
			if k == "" || strings.HasPrefix(k, "unknown:") {
				return c
			}
			if found != "" && found != k {
				return c
			}
			found = k
		}
		if found == "" || (class != "" && class != found) {
			return c
		}
		class = found
	}
	if class == "" {
		return c
	}
	return class
}

// literalFields: the values stored into the fields of a freshly allocated struct.
func literalFields(al *ssa.Alloc) map[string]ssa.Value {
	m := map[string]ssa.Value{}
	if refs := al.Referrers(); refs != nil {
		for _, rf := range *refs {
			fa, ok := rf.(*ssa.FieldAddr)
			if !ok {
				continue
			}
			if frefs := fa.Referrers(); frefs != nil {
				for _, fr := range *frefs {
					if st, ok := fr.(*ssa.Store); ok && st.Addr == ssa.Value(fa) {
						m[fieldName(fa)] = st.Val
					}
				}
			}
		}
	}
	return m
}

// effectiveFields: the field values of the state value at the end of the path. When the state comes from a helper of
// the package that returns a fresh literal ("carry everything over, the caller overrides what changes"), the helper's
// fields (actual arguments substituted) are the base; the stores on the path override them.
func (r *Run) effectiveFields(ff *core.FnFacts, state ssa.Value, path []*ssa.BasicBlock) map[string]*core.Term {
	last := map[string]*core.Term{}
	if c, isCall := state.(*ssa.Call); isCall {
		if g := c.Common().StaticCallee(); g != nil && g.Pkg == ff.Fn.Pkg && len(g.Blocks) > 0 && r.P.IsSubject(g) {
			gf := r.E.Facts(g, core.Ctx{})
			var actual []*core.Term
			for _, a := range core.CallArgs(c.Common()) {
				actual = append(actual, ff.TB.Of(a))
			}
			nret := 0
			for _, gb := range g.Blocks {
				ret, ok := gb.Instrs[len(gb.Instrs)-1].(*ssa.Return)
				if !ok || len(ret.Results) == 0 {
					continue
				}
				nret++
				if al, isAl := core.RetOp(ret, 0).(*ssa.Alloc); isAl && nret == 1 {
					for fld, v := range literalFields(al) {
						last[fld] = gf.TB.Of(v).Subst(actual)
					}
				} else {
					last = map[string]*core.Term{} // several returns or not a literal: no base
				}
			}
		}
	}
	for _, b := range path {
		for _, ins := range b.Instrs {
			st, ok := ins.(*ssa.Store)
			if !ok {
				continue
			}
			fa, ok := st.Addr.(*ssa.FieldAddr)
			if !ok || fa.X != state {
				continue
			}
			last[fieldName(fa)] = ff.TB.Of(st.Val)
		}
	}
	return last
}
