// Package props holds the per-property obligation lists.
package props

import (
	"go/types"
	"golang.org/x/tools/go/ssa"

	"sidecheck/core"
)

// Run is the context handed to a property checker for one build configuration.
type Run struct {
	P    *core.Prog
	E    *core.Engine
	R    *core.Report
	Tier string
	// Universal requests the module-wide (not only anchored) form of the rules.
	Universal bool

	nilableCache               map[*types.Var]bool
	mayNilMemo                 map[string]int
	chunkCondDone, chunkCondOK bool
	nilResultCache             map[*ssa.Function]int
	producerMemo               map[*types.Var]int
}

// Checker decides one property on one loaded configuration.
type Checker struct {
	ID          string
	Explanation string
	Assumptions []string
	Run         func(*Run)
}

// Registry lists the checkers by property id.
var Registry = map[string]*Checker{}

func register(c *Checker) { Registry[c.ID] = c }

// CommonTrusted is the trusted base shared by every check.
var CommonTrusted = []string{
	"Go type checker (go/types) and go/ssa construction from golang.org/x/tools v0.29.0",
	"go/packages loading ./... of /repo with GOFLAGS=-mod=mod, Tests=false",
	"standard library and third-party modules (go-jose, json-patch, btcec, multihash) behave as documented; their bodies are not analysed",
	"the role / row / effect tables in /verif/checker/props, which transcribe the property statements and pkg/api/protocol comments (they are the oracle)",
	"interface calls are resolved to the non-mock implementations inside the module; caller-supplied implementations are out of scope",
}
