package props

import (
	"fmt"
	"go/token"
	"go/types"
	"sort"
	"strings"

	"golang.org/x/tools/go/ssa"

	"sidecheck/core"
)

// checkSameTypeCopies (E5): a value of struct type T that is built field by field from another value of the same type
// T (two or more of its fields are that value's like-named fields) is meant as a copy of it, and a copy that leaves a
// field out loses it silently when the type has optional members. Every field of T must be set in such a literal.
func (r *Run) checkSameTypeCopies(P string, rels ...string) {
	n := 0
	var bad []string
	for _, f := range r.P.SubjectFuncs(rels...) {
		if f.Blocks == nil {
			continue
		}
		ff := r.E.Facts(f, core.Ctx{})
		for _, b := range f.Blocks {
			for _, ins := range b.Instrs {
				al, ok := ins.(*ssa.Alloc)
				if !ok {
					continue
				}
				st, ok := deref(al.Type()).Underlying().(*types.Struct)
				if !ok || st.NumFields() < 3 {
					continue
				}
				T := deref(al.Type())
				refs := al.Referrers()
				if refs == nil {
					continue
				}
				set := map[int]bool{}
				fromSame := map[string]int{} // source term -> number of fields copied from it
				whole := false
				for _, rf := range *refs {
					switch x := rf.(type) {
					case *ssa.FieldAddr:
						frefs := x.Referrers()
						if frefs == nil {
							continue
						}
						for _, fr := range *frefs {
							stv, isSt := fr.(*ssa.Store)
							if !isSt || stv.Addr != ssa.Value(x) {
								continue
							}
							set[x.Field] = true
							// the stored value: a load of field `same index` of a value of type T / *T
							if u, isU := stv.Val.(*ssa.UnOp); isU && u.Op == token.MUL {
								if sfa, isFA := u.X.(*ssa.FieldAddr); isFA && sfa.Field == x.Field && types.Identical(deref(sfa.X.Type()), T) && sfa.X != ssa.Value(al) {
									fromSame[ff.TB.Of(sfa.X).String()]++
								}
							}
							if fl, isF := stv.Val.(*ssa.Field); isF && fl.Field == x.Field && types.Identical(fl.X.Type(), T) {
								fromSame[ff.TB.Of(fl.X).String()]++
							}
						}
					case *ssa.Store:
						if x.Addr == ssa.Value(al) {
							whole = true // assigned as a whole (a real copy, or the zero value before in-place stores)
						}
					}
				}
				if whole {
					continue
				}
				src, cnt := "", 0
				for s, c := range fromSame {
					if c > cnt {
						src, cnt = s, c
					}
				}
				if cnt < 2 {
					continue
				}
				n++
				var missing []string
				for i := 0; i < st.NumFields(); i++ {
					if !set[i] {
						missing = append(missing, st.Field(i).Name())
					}
				}
				if len(missing) > 0 {
					sort.Strings(missing)
					bad = append(bad, fmt.Sprintf("%s at %s copies %d field(s) of %s from %s but not %s", types.TypeString(T, nil)[strings.LastIndex(types.TypeString(T, nil), "/")+1:], r.P.Pos(al.Pos()), cnt, "the same type", short(src, 50), strings.Join(missing, ", ")))
				}
			}
		}
	}
	r.R.SetCount("E5 same-type field-by-field copies examined", n)
	r.R.Check(len(bad) == 0, P+".copy.complete", "E5 dst-complete: a struct value built from two or more like-named fields of another value of its own type sets every field of the type", strings.Join(rels, ", "), "-",
		"a hand-written copy that leaves out a member (an optional one is enough) hands on a different value than it was given: the entry written to a batch file is not the one that was queued", fmt.Sprintf("%d such copies, all complete", n), strings.Join(bad, "; "))
}

func deref(t types.Type) types.Type {
	if p, ok := t.Underlying().(*types.Pointer); ok {
		return p.Elem()
	}
	return t
}
