package props

import (
	"fmt"
	"sort"
	"strings"

	"golang.org/x/tools/go/ssa"

	"sidecheck/core"
)

// checkLoopMembership: f ranges over a collection; an iteration may complete
// (return to the loop head) only after the ranged key/element passed a
// membership decision whose accept set is exactly `allowed`. The decision may
// be written as a lookup in a map literal, as a call to a predicate of the
// module that returns true only under equality with constants, or as inline
// equality tests — the accept set is computed, not the spelling.
func (r *Run) checkLoopMembership(id string, f *ssa.Function, allowed []string, why string) {
	ff := r.E.Facts(f, core.Ctx{})
	want := map[string]bool{}
	for _, a := range allowed {
		want[a] = true
	}
	rule := fmt.Sprintf("E6 (dual) + E7 table: an iteration completes only after a membership decision on the ranged element whose accept set is exactly %v", allowed)
	heads := allLoopHeads(f)
	if len(heads) == 0 {
		r.R.Unk(id, rule, core.FuncName(f), r.where(f), why, "no loop found")
		return
	}
	good := true
	var det []string
	accepted := map[string]bool{}
	nPaths := 0
	decided := false
	for _, head := range heads {
		for _, ip := range loopIterationPaths(ff, head, 4000) {
			if ip.Ret != nil {
				continue
			}
			nPaths++
			pf := rawPathFacts(ff, ip.Blocks)
			okPath := false
			for _, fc := range pf {
				switch {
				case fc.Kind == "hit" && fc.B != nil && strings.HasPrefix(fc.B.String(), "range:"):
					keys, ok := localMapKeys(fc.A)
					if ok {
						okPath = true
						for _, k := range keys {
							accepted[k] = true
						}
					}
				case fc.Kind == "true" && fc.A != nil && fc.A.Op == "call" && fc.A.Callee != nil && r.P.IsSubject(fc.A.Callee) && len(fc.A.Args) >= 1 && strings.HasPrefix(fc.A.Args[len(fc.A.Args)-1].String(), "range:"):
					keys, ok := r.predicateAcceptSet(fc.A.Callee, len(fc.A.Args)-1)
					if ok {
						okPath = true
						for _, k := range keys {
							accepted[k] = true
						}
					}
				case fc.Kind == "cmp" && fc.Op == "==" && fc.B != nil && fc.B.Op == "const" && strings.HasPrefix(fc.A.String(), "range:"):
					okPath = true
					accepted[trimQ(fc.B.Name)] = true
				}
			}
			if okPath {
				decided = true
			} else {
				good = false
				det = append(det, "an iteration completes without a membership decision (through "+r.P.Pos(ip.Blocks[len(ip.Blocks)-2].Instrs[0].Pos())+")")
			}
		}
	}
	var acc []string
	for k := range accepted {
		acc = append(acc, k)
		if !want[k] {
			good = false
			det = append(det, "accepts "+k)
		}
	}
	sort.Strings(acc)
	for k := range want {
		if !accepted[k] {
			good = false
			det = append(det, "does not accept "+k)
		}
	}
	r.R.Check(good && decided && nPaths > 0, id, rule, core.FuncName(f), r.where(f), why, fmt.Sprintf("accept set %v on %d iteration paths", acc, nPaths), strings.Join(det, "; "))
}

// localMapKeys: the constant string keys of a map built by a literal in the
// same function (make + constant-key stores only).
func localMapKeys(t *core.Term) ([]string, bool) {
	if t == nil || t.Val == nil {
		return nil, false
	}
	mk, ok := t.Val.(*ssa.MakeMap)
	if !ok || mk.Referrers() == nil {
		return nil, false
	}
	var keys []string
	for _, ref := range *mk.Referrers() {
		switch x := ref.(type) {
		case *ssa.MapUpdate:
			c, isC := x.Key.(*ssa.Const)
			if !isC {
				return nil, false
			}
			keys = append(keys, trimQ(core.ConstString(c)))
		case *ssa.Lookup, *ssa.DebugRef:
		default:
			return nil, false // escapes: could be modified elsewhere
		}
	}
	return keys, true
}

// predicateAcceptSet: g is a loop-free bool function; every path to a true
// return carries `param == constant`; returns the constants.
func (r *Run) predicateAcceptSet(g *ssa.Function, param int) ([]string, bool) {
	if len(g.Blocks) == 0 || hasCycle(g) || param >= len(g.Params) {
		return nil, false
	}
	gf := r.E.Facts(g, core.Ctx{})
	paths, complete := enumPaths(gf, 2000)
	if !complete {
		return nil, false
	}
	pname := "$" + g.Params[param].Name()
	var keys []string
	for _, p := range paths {
		ret := p[len(p)-1].Instrs[len(p[len(p)-1].Instrs)-1].(*ssa.Return)
		if len(ret.Results) != 1 {
			return nil, false
		}
		v := core.RetOp(ret, 0)
		if ph, isPhi := v.(*ssa.Phi); isPhi {
			v = resolveOnPath(ph, p)
		}
		c, isC := v.(*ssa.Const)
		if !isC {
			return nil, false
		}
		if c.Value.String() != "true" {
			continue
		}
		found := false
		for _, fc := range rawPathFacts(gf, p) {
			if fc.Kind == "cmp" && fc.Op == "==" && fc.A.String() == pname && fc.B.Op == "const" {
				keys = append(keys, trimQ(fc.B.Name))
				found = true
			}
		}
		if !found {
			return nil, false
		}
	}
	return keys, true
}
