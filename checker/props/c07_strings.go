package props

import (
	"fmt"
	"go/constant"
	"go/token"
	"go/types"
	"strings"

	"golang.org/x/tools/go/ssa"

	"sidecheck/core"
)

// String codec rules of the canonicalizer (C07, partly C08): the reader of string literals and the writer of
// strings are two tables walked in opposite directions; the rules fix what stands on the edges of those walks.

// builderWrites: the WriteByte calls of f, in block order.
func (r *Run) builderWrites(f *ssa.Function) []*ssa.Call {
	return r.callsIn(f, "Builder.WriteByte", "Buffer.WriteByte")
}

func (r *Run) checkStringCodec(P string, tr *ssa.Function, fns []*ssa.Function, setErr, checkErr *ssa.Function) {
	const tabA, tabB = "internal/jsoncanonicalizer.asciiEscapes", "internal/jsoncanonicalizer.binaryEscapes"
	// ---- roles
	var dec, uesc, str, next *ssa.Function
	for _, f := range fns {
		for _, c := range r.callsIn(f, "fmt.Sprintf") {
			if k, ok := c.Common().Args[0].(*ssa.Const); ok && k.Value != nil && k.Value.Kind() == constant.String && strings.Contains(constant.StringVal(k.Value), `\u%04x`) {
				dec = f
			}
		}
		if len(r.callsIn(f, "strconv.ParseUint")) > 0 {
			uesc = f
		}
		if len(r.callsIn(f, "utf16.IsSurrogate")) > 0 {
			str = f
		}
	}
	// nextChar: the parameterless closure that reports the premature end of input
	if setErr != nil || checkErr != nil {
		for _, f := range fns {
			if f == tr || len(f.Params) != 0 || f.Signature.Results().Len() != 1 {
				continue
			}
			if bt, isB := f.Signature.Results().At(0).Type().Underlying().(*types.Basic); !isB || bt.Kind() != types.Uint8 {
				continue
			}
			ff := r.E.Facts(f, core.Ctx{})
			for _, c := range fixedErrCalls(f, setErr, checkErr) {
				if core.HasFact(ff.At(c), "cmp(_ >= len(_))") {
					next = f
				}
			}
		}
	}

	// ---- escape.pair: writer side
	if dec != nil {
		ff := r.E.Facts(dec, core.Ctx{})
		var seq []string
		okPair := true
		for _, c := range r.builderWrites(dec) {
			b, ok := core.MatchAll(ff.At(c), []string{"cmp(?c == " + tabB + "[?j])"}, nil)
			if !ok {
				continue
			}
			arg := c.Common().Args[1]
			t := ff.TB.Of(arg).String()
			seq = append(seq, t)
			switch len(seq) {
			case 1:
				if n, isK := constInt(arg); !isK || n != '\\' {
					okPair = false
				}
			case 2:
				if t != tabA+"["+b["j"].String()+"]" {
					okPair = false
				}
			default:
				okPair = false
			}
		}
		r.R.Check(okPair && len(seq) == 2, P+".escape.pair", "E8 sequence under a table hit: for a byte equal to binaryEscapes[j] the writer emits exactly '\\\\' and then asciiEscapes[j] (same j)", core.FuncName(dec), r.where(dec),
			"a missing backslash or a different row turns an escaped character into another string (\"\\n\" → \"n\"): two JSON values get one canonical form", strings.Join(seq, ", "), "writes under the table hit: ["+strings.Join(seq, ", ")+"]")
		// the bytes that are not in the table: both remaining branches are taken only once the table is exhausted
		okEx := true
		var det []string
		for _, c := range r.callsIn(dec, "fmt.Sprintf") {
			if !core.HasFact(ff.At(c), "cmp(_ >= len("+tabB+"))") {
				okEx = false
				det = append(det, "\\u escape before the table is exhausted")
			}
		}
		for _, c := range r.builderWrites(dec) {
			if _, isK := constInt(c.Common().Args[1]); isK {
				continue
			}
			at := ff.At(c)
			if _, hit := core.MatchAll(at, []string{"cmp(_ == " + tabB + "[_])"}, nil); hit {
				continue
			}
			if !core.HasFact(at, "cmp(_ >= len("+tabB+"))") {
				okEx = false
				det = append(det, "byte copied at "+r.P.Pos(c.Pos())+" before the table is exhausted")
			}
		}
		r.R.Check(okEx, P+".escape.exhausted", "E2 Before: a byte is copied or \\u-escaped only after the walk over binaryEscapes ended without a hit", core.FuncName(dec), r.where(dec),
			"a byte of the table that is copied raw (quote, backslash) ends the string early or merges two values", "table exhausted at both sites", strings.Join(det, "; "))
	}

	// ---- unescape.*: reader side
	if str != nil {
		ff := r.E.Facts(str, core.Ctx{})
		isCall := func(t *core.Term) bool { return t != nil && t.Op == "call" }
		// '/' → '/'
		okSlash := false
		for _, c := range r.builderWrites(str) {
			if n, isK := constInt(c.Common().Args[1]); isK && n == '/' {
				if b, ok := core.MatchAll(ff.At(c), []string{"cmp(?v == 47)"}, nil); ok && isCall(b["v"]) {
					okSlash = true
				}
			}
		}
		r.R.Check(okSlash, P+".unescape.solidus", "E2: after a backslash, the character '/' (read by the scanner, not the backslash itself) yields '/'", core.FuncName(str), r.where(str),
			"\\/ is a legal escape (RFC 8259 §7): without this branch well-formed documents are rejected", "'/' written under next == '/'", "no write of '/' under a test of the character following the backslash")
		// table: asciiEscapes[j] → binaryEscapes[j]
		okTab, nTab := true, 0
		for _, c := range r.builderWrites(str) {
			arg := c.Common().Args[1]
			t := ff.TB.Of(arg).String()
			if !strings.HasPrefix(t, tabB+"[") {
				continue
			}
			nTab++
			b, ok := core.MatchAll(ff.At(c), []string{"cmp(?v == " + tabA + "[?j])"}, nil)
			if !ok || !isCall(b["v"]) || t != tabB+"["+b["j"].String()+"]" {
				okTab = false
			}
		}
		r.R.Check(okTab && nTab == 1, P+".unescape.table", "E8 under a table hit: for an escape character equal to asciiEscapes[j] the reader yields binaryEscapes[j] (same j; the character is the one following the backslash)", core.FuncName(str), r.where(str),
			"another row, or testing the backslash itself, decodes \\n, \\t … to the wrong character", "binaryEscapes[j] under next == asciiEscapes[j]", fmt.Sprintf("%d table write(s), pairing ok=%v", nTab, okTab))
		// 'u' → \uXXXX reader
		if uesc != nil {
			okU, nU := true, 0
			for _, c := range callsOfClosure(str, uesc) {
				nU++
				b, ok := core.MatchAll(ff.At(c), []string{"cmp(?v == 117)"}, nil)
				if !ok || !isCall(b["v"]) {
					okU = false
				}
			}
			r.R.Check(okU && nU >= 1, P+".unescape.u", "E2: the four-digit reader is entered only for the escape character 'u'", core.FuncName(str), r.where(str),
				"any other dispatch reads hex digits where there are none, or treats \\u as an unknown escape", fmt.Sprintf("%d call(s), all under next == 'u'", nU), fmt.Sprintf("%d call(s) of the \\u reader, guarded=%v", nU, okU))
		}
		// the decoded character is written: the \u reader's result on the branch where it is not a surrogate, the
		// combination of the two halves on the other
		if uesc != nil {
			nPlain, okPlain := 0, true
			for _, c := range r.callsIn(str, "Builder.WriteRune", "Buffer.WriteRune") {
				if len(c.Common().Args) != 2 {
					continue
				}
				uc, isCall := c.Common().Args[1].(*ssa.Call)
				if !isCall || closureCallTarget(uc) != uesc {
					continue
				}
				nPlain++
				ut := ff.TB.Of(uc).String()
				has := false
				for _, fc := range ff.At(c) {
					if fc.Kind == "false" && fc.A != nil && strings.Contains(fc.A.String(), "IsSurrogate("+ut) {
						has = true
					}
				}
				if !has {
					okPlain = false
				}
			}
			nPair := 0
			for _, c := range r.callsIn(str, "Builder.WriteRune", "Buffer.WriteRune") {
				if len(c.Common().Args) == 2 {
					if dc, isCall := c.Common().Args[1].(*ssa.Call); isCall {
						if sc := dc.Common().StaticCallee(); sc != nil && sc.String() == "unicode/utf16.DecodeRune" {
							nPair++
						}
					}
				}
			}
			r.R.Check(okPlain && nPlain == 1 && nPair == 1, P+".unescape.write", "E8: the character a \\u escape denotes is appended to the string — the reader's result where it is not a surrogate, utf16.DecodeRune of the two halves where it is", core.FuncName(str), r.where(str),
				"an escape that is parsed but not written disappears from the string: \"a\\u0062c\" and \"ac\" get one canonical form", "both writes present", fmt.Sprintf("writes of a plain \\u result: %d (guarded by 'not a surrogate': %v), writes of a combined pair: %d", nPlain, okPlain, nPair))
		}
		// surrogate pair: the low half is read only after a second "\u" has been seen
		for _, c := range r.callsIn(str, "utf16.DecodeRune") {
			at := ff.At(c)
			us := map[string]bool{}
			bs := map[string]bool{}
			for _, fc := range at {
				if fc.Kind != "cmp" || fc.Op != "==" || fc.A == nil || fc.B == nil {
					continue
				}
				a, k := fc.A, fc.B
				if a.Op == "const" {
					a, k = k, a
				}
				if !isCall(a) || k.Op != "const" {
					continue
				}
				switch k.Name {
				case "117":
					us[a.String()] = true
				case "92":
					bs[a.String()] = true
				}
			}
			ok := len(us) >= 2 && len(bs) >= 1
			r.R.Check(ok, P+".unescape.pair", "E2: a surrogate pair is combined only after the two characters following the high half were read and found to be '\\' and 'u'", core.FuncName(str), r.P.Pos(c.Pos()),
				"otherwise well-formed pairs are rejected as 'missing surrogate', or a lone high surrogate swallows the four characters after it", "combined under next == '\\' ∧ next' == 'u'", fmt.Sprintf("distinct scanner results tested == 'u': %d (need 2, the escape character and the second u), == '\\': %d (need 1)", len(us), len(bs)))
		}
		// unterminated: the input ends inside the string ⇒ an error is recorded before the loop is left
		if next != nil && (setErr != nil || checkErr != nil) {
			okEnd, found := true, false
			for _, blk := range str.Blocks {
				if ff.Live != nil && !ff.Live[blk] {
					continue
				}
				for _, s := range blk.Succs {
					hasEOF := false
					for _, ef := range ff.EdgeFacts(blk, s) {
						set := core.FactSet{ef.Key(): ef}
						if core.HasFact(set, "cmp(_ >= len(_))") && !strings.Contains(ef.Key(), "Escapes") {
							hasEOF = true
						}
					}
					if !hasEOF {
						continue
					}
					found = true
					// every way from here to a return passes a call that records the error
					records := func(b *ssa.BasicBlock) bool {
						for _, ins := range b.Instrs {
							if c, ok := ins.(*ssa.Call); ok {
								if t := closureCallTarget(c); t != nil && (t == next || t == setErr || t == checkErr) {
									return true
								}
							}
						}
						return false
					}
					if records(s) {
						continue
					}
					if _, isRet := s.Instrs[len(s.Instrs)-1].(*ssa.Return); isRet {
						okEnd = false
						continue
					}
					escaped := ff.WalkFeasible([]*ssa.BasicBlock{blk, s}, func(a, b *ssa.BasicBlock) bool { return records(b) }, func(b *ssa.BasicBlock) bool {
						_, isRet := b.Instrs[len(b.Instrs)-1].(*ssa.Return)
						return isRet && !records(b)
					})
					if escaped {
						okEnd = false
					}
				}
			}
			r.R.Check(found && okEnd, P+".reject.sites.unterminated", "E8 must-pass-through: when the input ends inside a string literal, the way out of the reader passes a call that records an error", core.FuncName(str), r.where(str),
				"an unterminated string at the end of the input is accepted as if it had been closed", "error recorded on the end-of-input exit", fmt.Sprintf("end-of-input edge found=%v, error recorded on every way out=%v", found, okEnd))
		}
	}

	// ---- uescape: exactly four characters, read in base 16
	if uesc != nil {
		ff := r.E.Facts(uesc, core.Ctx{})
		for _, c := range r.callsIn(uesc, "strconv.ParseUint") {
			args := c.Common().Args
			base, okB := constInt(args[1])
			bits, okS := constInt(args[2])
			nNext := 0
			if next != nil {
				for _, nc := range callsOfClosure(uesc, next) {
					if nc.Block() == c.Block() || nc.Block().Dominates(c.Block()) {
						nNext++
					}
				}
			}
			noErr := !core.HasFact(ff.At(c), "cmp(_ != nil)")
			arg := ff.TB.Of(args[0]).String()
			ok := okB && base == 16 && okS && (bits == 0 || (bits >= 16 && bits <= 64)) && nNext == 4 && noErr
			r.R.Check(ok, P+".uescape.hex", "E2/E8: the \\u reader consumes exactly four characters through the scanner and parses them with strconv.ParseUint(…, 16, ≥16 bits), on the path without a recorded error", core.FuncName(uesc), r.P.Pos(c.Pos()),
				"another base, width or digit count decodes every \\u escape to a different character or rejects it", "ParseUint(4 chars, 16, _)", fmt.Sprintf("base=%d bits=%d scanner calls before the parse=%d reached without error=%v arg=%s", base, bits, nNext, noErr, short(arg, 80)))
		}
	}
}

// checkTrailingProgress: the loop of Transform that walks what follows the value advances the cursor on every way back
// to its head.
func (r *Run) checkTrailingProgress(P string, tr *ssa.Function) {
	ff := r.E.Facts(tr, core.Ctx{})
	id := P + ".trailing.progress"
	rule := "E8 progress: every way round the trailing-content loop passes the increment of the cursor it tests"
	why := "without the increment a document followed by one whitespace byte never returns"
	n := 0
	for _, h := range allLoopHeads(tr) {
		// the loop tests cursor < len(input)
		iff, ok := h.Instrs[len(h.Instrs)-1].(*ssa.If)
		if !ok {
			continue
		}
		cmp, ok := iff.Cond.(*ssa.BinOp)
		if !ok || cmp.Op != token.LSS {
			continue
		}
		ld, ok := cmp.X.(*ssa.UnOp)
		if !ok || ld.Op != token.MUL {
			continue
		}
		al, ok := ld.X.(*ssa.Alloc)
		if !ok {
			continue
		}
		n++
		good := true
		for _, p := range h.Preds {
			if !h.Dominates(p) {
				continue // entry edge
			}
			if ff.Live != nil && !ff.Live[p] {
				continue
			}
			inc := false
			for _, b := range tr.Blocks {
				if !(h.Dominates(b) && (b == p || b.Dominates(p))) {
					continue
				}
				for _, ins := range b.Instrs {
					st, isSt := ins.(*ssa.Store)
					if !isSt || st.Addr != ssa.Value(al) {
						continue
					}
					if bo, isB := st.Val.(*ssa.BinOp); isB && bo.Op == token.ADD {
						if l2, isL := bo.X.(*ssa.UnOp); isL && l2.X == ssa.Value(al) {
							if k, isK := constInt(bo.Y); isK && k > 0 {
								inc = true
							}
						}
					}
				}
			}
			if !inc {
				good = false
			}
		}
		r.R.Check(good, id, rule, core.FuncName(tr), r.P.Pos(h.Instrs[0].Pos()), why, "cursor incremented on every back edge", "a back edge of the loop is reachable without the increment of the cursor")
	}
	if n == 0 {
		// the loop may have been given another form (three-clause for with the increment in the post statement is the same
		// SSA shape; a range over the rest of the input has no cursor to forget): nothing to check
		r.R.Ok(id, rule, core.FuncName(tr), r.where(tr), why, "no cursor-tested loop in Transform itself")
	}
}
