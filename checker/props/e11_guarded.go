package props

import (
	"fmt"
	"sort"
	"strings"

	"golang.org/x/tools/go/ssa"

	"sidecheck/core"
)

// Engine E11 (guarded form): in a function that itself returns an error, a
// call whose last result is an error must not be followed by a success return
// of the function unless the path crossed the nil-error edge of that call.
// Proceeding to success on the failure edge (the error was seen and
// deliberately tolerated) or without any test is reported; the deliberate
// cases confirmed by reading are listed in toleratedErrors with their reason.

type unguarded struct {
	Fn   *ssa.Function
	Call *ssa.Call
	Key  string // stable key: package | callee (robust against moving the site between functions of the package)
	Via  string // "no test" | "failure edge"
}

// unguardedErrorSites lists the call sites of f violating the rule.
func (r *Run) unguardedErrorSites(f *ssa.Function) []unguarded {
	res := f.Signature.Results()
	if res.Len() == 0 || res.At(res.Len()-1).Type().String() != "error" || len(f.Blocks) == 0 {
		return nil
	}
	ff := r.E.Facts(f, core.Ctx{})
	succRet := map[*ssa.BasicBlock]bool{}
	for _, ri := range ff.Returns() {
		if ri.Class == core.RetSuccess {
			succRet[ri.Ret.Block()] = true
		}
	}
	if len(succRet) == 0 {
		return nil
	}
	var out []unguarded
	for _, b := range f.Blocks {
		for _, ins := range b.Instrs {
			c, ok := ins.(*ssa.Call)
			if !ok {
				continue
			}
			sig := c.Common().Signature()
			rs := sig.Results()
			if rs.Len() == 0 || rs.At(rs.Len()-1).Type().String() != "error" {
				continue
			}
			if sc := c.Common().StaticCallee(); sc != nil && (strings.HasPrefix(sc.String(), "(*strings.Builder).") || strings.HasPrefix(sc.String(), "(*bytes.Buffer).") || strings.HasPrefix(sc.String(), "fmt.Fprint")) {
				continue
			}
			ct := ff.TB.Of(c).String()
			var curPath []*ssa.BasicBlock
			isOK := func(a, bb *ssa.BasicBlock) bool {
				fs := ff.EdgeFacts(a, bb)
				if len(curPath) > 0 && curPath[len(curPath)-1] == a {
					// the test of a merged error says, on the way this walk arrived, that THIS call's error is nil
					fs = append(append([]core.Fact{}, fs...), ff.PathTestFacts(curPath, bb)...)
				}
				for _, fc := range fs {
					if fc.Kind == "ok" && fc.A != nil && fc.A.String() == ct {
						return true
					}
					// `v, err = f(…)` in several branches, one test after the join: nil on the merged error
					if fc.Kind == "okany" {
						for _, t := range fc.List {
							if t != nil && t.String() == ct {
								return true
							}
						}
					}
				}
				return false
			}
			// a return that hands the call's own error on (`return f(x)`, `return v, err`) is a success only
			// when that error is nil: such a return is never a violation for this call
			propagates := map[*ssa.BasicBlock]bool{}
			for rb := range succRet {
				ret := rb.Instrs[len(rb.Instrs)-1].(*ssa.Return)
				ev := core.RetOp(ret, len(ret.Results)-1)
				for _, l := range phiLeaves(ev) {
					if l == ssa.Value(c) {
						propagates[rb] = true
					}
					if ex, isEx := l.(*ssa.Extract); isEx && ex.Tuple == ssa.Value(c) {
						propagates[rb] = true
					}
				}
			}
			// can a success return be reached from the call without crossing ok(call)?
			// (the walk remembers how it arrived, so that a test of a merged value — `err = phi(...)` tested after the
			// join — is crossed only in the direction the value arriving on that way allows)
			seen := map[[3]*ssa.BasicBlock]bool{}
			var dfs func(path []*ssa.BasicBlock) bool
			dfs = func(path []*ssa.BasicBlock) bool {
				x := path[len(path)-1]
				if succRet[x] && !propagates[x] {
					return true
				}
				for _, s := range x.Succs {
					curPath = path
					if !ff.IsLiveEdge(x, s) || isOK(x, s) || !ff.PathFeasible(path, s) {
						continue
					}
					var k [3]*ssa.BasicBlock
					k[0] = s
					k[1] = x
					if len(path) >= 2 {
						k[2] = path[len(path)-2]
					}
					if seen[k] {
						continue
					}
					seen[k] = true
					if dfs(append(path[:len(path):len(path)], s)) {
						return true
					}
				}
				return false
			}
			// (start with the blocks that necessarily precede the call's block, so that a condition under which the
			// call is made — `if !batch { err = f() }` — is known when the same condition is tested again later)
			start := []*ssa.BasicBlock{b}
			for d := 0; d < 4 && len(start[0].Preds) == 1; d++ {
				start = append([]*ssa.BasicBlock{start[0].Preds[0]}, start...)
			}
			if !dfs(start) {
				continue
			}
			key, _, _ := r.P.CalleeKey(c.Common())
			via := "no test of the error on some path to a success return"
			for _, bb := range f.Blocks {
				for _, s := range bb.Succs {
					for _, fc := range ff.EdgeFacts(bb, s) {
						if fc.Kind == "fail" && fc.A != nil && fc.A.String() == ct {
							via = "a success return is reachable on the failure edge"
						}
					}
				}
			}
			pk := ""
			if f.Pkg != nil {
				pk = core.Rel(f.Pkg.Pkg.Path())
			} else if f.Parent() != nil && f.Parent().Pkg != nil {
				pk = core.Rel(f.Parent().Pkg.Pkg.Path())
			}
			out = append(out, unguarded{Fn: f, Call: c, Key: pk + " | " + key, Via: via})
		}
	}
	return out
}

// checkGuardedErrors applies the rule to the subject functions of the given
// packages; tolerated maps a stable key (function | callee) to the reason the
// site is deliberate.
func (r *Run) checkGuardedErrors(P string, tolerated map[string]tolerance, rels ...string) {
	n := 0
	used := map[string]int{}
	var bad []string
	for _, f := range r.P.SubjectFuncs(rels...) {
		res := f.Signature.Results()
		if res.Len() == 0 || res.At(res.Len()-1).Type().String() != "error" {
			continue
		}
		n++
		for _, u := range r.unguardedErrorSites(f) {
			if t, ok := tolerated[u.Key]; ok {
				used[u.Key]++
				if used[u.Key] <= t.Max {
					continue
				}
				bad = append(bad, fmt.Sprintf("%s in %s at %s: %s (only %d such site(s) were confirmed by reading)", u.Key, core.FuncName(u.Fn), r.P.Pos(u.Call.Pos()), u.Via, t.Max))
				continue
			}
			bad = append(bad, fmt.Sprintf("%s in %s at %s: %s", u.Key, core.FuncName(u.Fn), r.P.Pos(u.Call.Pos()), u.Via))
		}
	}
	sort.Strings(bad)
	var tol []string
	for k, t := range tolerated {
		if used[k] > 0 {
			tol = append(tol, fmt.Sprintf("%s (%d of %d) — %s", k, used[k], t.Max, t.Why))
		}
	}
	sort.Strings(tol)
	r.R.List("E11 tolerated error sites (confirmed by reading)", tol...)
	r.R.SetCount("E11 error-returning functions examined", n)
	r.R.Check(len(bad) == 0, P+".errors.guarded", "E11 (guarded): in "+strings.Join(rels, ", ")+" a success return is reachable from an error-returning call only across that call's nil-error edge (tolerated sites are listed with their reason)", "error discipline", "-",
		"a check whose failure no longer stops the function (condition dropped, negated or inverted) turns a rejection into an acceptance, or lets a nil result be used",
		fmt.Sprintf("%d functions, every error guards what follows (%d tolerated kinds)", n, len(tol)), strings.Join(bad, "; "))
}

// tolerance: how many sites of a package may go on after a failure of the callee, and why.
type tolerance struct {
	Max int
	Why string
}

// toleratedErrors: every site on the pinned tree where a function proceeds to
// a success return on the failure edge of a call — each confirmed by reading.
var toleratedErrors = map[string]tolerance{
	"pkg/batch | (*batch.Writer).Add":                                                              {1, "re-queueing a deferred operation after the anchor was written is best effort: the failure is logged and the batch stays anchored"},
	"pkg/batch/cutter | iface:batch/cutter.OperationQueue.Peek":                                    {1, "a queue that cannot be peeked yields 'nothing to cut' for this round; the operations stay queued"},
	"pkg/dochandler | (*dochandler.DocumentHandler).resolveRequestWithID":                          {1, "a long-form DID that is not anchored falls back to its initial state (the fallback path has its own obligations: C06.version.blind, C08.suffix.longform)"},
	"pkg/versions/1_0/operationapplier | hashing.IsValidModelMultihash":                            {2, "protocol: a create / recover whose delta does not match the delta hash yields the empty document and advances the commitment (C03 effect table)"},
	"pkg/versions/1_0/operationapplier | iface:api/protocol.DocumentComposer.ApplyPatches":         {3, "protocol: an operation whose patches fail advances the commitment with the empty (create, recover) or unchanged (update) document (C03 effect table)"},
	"pkg/versions/1_0/operationapplier | iface:operationapplier.OperationParser.ValidateDelta":     {2, "protocol: a create / recover with an invalid delta yields the empty document (C03 effect table)"},
	"pkg/versions/1_0/operationapplier | (*operationapplier.Applier).verifyAnchoringTimeRange":     {2, "protocol: an out-of-window update / recover consumes its commitment (C05 effect rows)"},
	"pkg/processor | iface:processor.OperationStoreClient.Get":                                     {1, "a DID without published operations may still have unpublished ones: 'not found' from the store is not an error here"},
	"pkg/processor | iface:processor.unpublishedOperationStore.Get":                                {1, "unpublished operations are optional"},
	"pkg/versions/1_0/txnprovider | iface:txnprovider.OperationParser.ParseOperation":              {1, "an operation that expired while queued is dropped from the batch (counted as expired; C13.partition)"},
	"pkg/versions/1_0/txnprovider | iface:txnprovider.DCAS.Read":                                   {1, "alternate CAS sources are tried before giving up"},
	"pkg/versions/1_0/operationparser/patchvalidator | operationparser/patchvalidator.validateJWK": {1, "a key without a valid JWK is admitted when it carries base58 material and is not a JsonWebKey2020 (exactly-one-of rule is separate)"},
}

// guardedPackages: where each property applies the rule.
var guardedPackages = map[string][]string{
	"C01": {pkgApplier, pkgIJWS, pkgParser, pkgProcessor},
	"C03": {pkgApplier, pkgProcessor},
	"C05": {pkgApplier, pkgParser},
	"C06": {pkgProcessor, pkgDocHandler},
	"C08": {pkgHashing, pkgCommitment, pkgModel, pkgParser, pkgDocHandler},
	"C09": {pkgIJWS, pkgJWS},
	"C10": {pkgParser, pkgPatchVal, pkgHashing},
	"C11": {pkgClient, pkgSignutil, pkgPubkey, pkgECSigner, pkgEDSigner},
	"C12": {pkgParser, pkgProcessor},
	"C13": {pkgProvider, pkgModels, pkgModel},
	"C14": {pkgProvider, pkgModels},
	"C15": {pkgTxnProc, pkgObserver, pkgDocHandler},
	"C16": {pkgBatch, pkgCutter, pkgOpQueue},
	"C17": {pkgComposer, pkgPatch},
	"C18": {pkgComposer, pkgPatchVal},
	"C19": {pkgDidTrans, pkgMetadata},
	"C20": {pkgProvider, pkgTxnProc, pkgProcessor, pkgCutter, pkgBatch},
}

// GuardedErrors runs the guarded-error rule for the property of r (no-op when the property has no package list).
func GuardedErrors(r *Run, id string) {
	if rels := guardedPackages[id]; len(rels) > 0 {
		r.checkGuardedErrors(id, toleratedErrors, rels...)
	}
}

// GuardedNote is appended to the explanation of properties that run the guarded-error rule.
func GuardedNote(id string) string {
	if rels := guardedPackages[id]; len(rels) > 0 {
		return " Also (errors.guarded): in " + strings.Join(rels, ", ") + " a function that returns an error reaches a success return from an error-returning call only across that call's nil-error edge (the deliberate exceptions are listed with their reason under 'E11 tolerated error sites')."
	}
	return ""
}
