package props

import "sidecheck/core"

// SelfCheck runs the committed variant catalogue for a property (thorough tier).
func SelfCheck(id, dir, verif string, rep *core.Report) {}
