package props

import (
	"encoding/json"
	"fmt"
	"os"
	"os/exec"
	"path/filepath"
	"sort"
	"strings"
	"sync"

	"sidecheck/core"
)

// SelfCheck validates the checker itself against the committed variant
// catalogue (thorough tier): every seeded breaking change of this property
// (/verif/seeded/<id>-*/patch.diff), applied to a scratch copy of the subject
// outside /repo and /verif and analysed in its own process, must be reported;
// every benign (behaviour-preserving) variant that lists this property
// (/verif/variants/benign/*/) must be silent. Results are recorded in the
// evidence; they never change the verdict about /repo (a missed seed is a
// weakness of the checker, not a violation of the property by the subject).
func SelfCheck(id, dir, verif string, rep *core.Report) {
	// skip when the base tree already has a non-known violation
	for _, o := range rep.Obligations {
		if o.Status == core.Violated || o.Status == core.Undecided {
			rep.List("selfcheck", "skipped: the analysed tree already has a violation")
			return
		}
	}
	self, err := os.Executable()
	if err != nil {
		rep.List("selfcheck", "skipped: cannot locate own executable: "+err.Error())
		return
	}
	type variant struct {
		name    string
		patch   string
		breaker bool
	}
	var vs []variant
	if ds, err := filepath.Glob(filepath.Join(verif, "seeded", id+"-*", "patch.diff")); err == nil {
		for _, p := range ds {
			vs = append(vs, variant{name: filepath.Base(filepath.Dir(p)), patch: p, breaker: true})
		}
	}
	if ds, err := filepath.Glob(filepath.Join(verif, "variants", "benign", "*", "patch.diff")); err == nil {
		for _, p := range ds {
			var meta struct {
				Properties []string `json:"properties"`
			}
			if b, err := os.ReadFile(filepath.Join(filepath.Dir(p), "meta.json")); err == nil {
				_ = json.Unmarshal(b, &meta)
			}
			for _, q := range meta.Properties {
				if q == id {
					vs = append(vs, variant{name: filepath.Base(filepath.Dir(p)), patch: p, breaker: false})
				}
			}
		}
	}
	sort.Slice(vs, func(i, j int) bool { return vs[i].name < vs[j].name })
	if len(vs) == 0 {
		rep.List("selfcheck", "no variants for this property in the catalogue")
		return
	}
	tmpRoot, err := os.MkdirTemp("", "sidecheck-variants-")
	if err != nil {
		rep.List("selfcheck", "skipped: "+err.Error())
		return
	}
	defer os.RemoveAll(tmpRoot)
	type result struct {
		v      variant
		status string // detected | missed | silent | false-alarm | skipped
		detail string
	}
	results := make([]result, len(vs))
	sem := make(chan struct{}, 6)
	var wg sync.WaitGroup
	for i, v := range vs {
		wg.Add(1)
		go func(i int, v variant) {
			defer wg.Done()
			sem <- struct{}{}
			defer func() { <-sem }()
			d := filepath.Join(tmpRoot, v.name)
			repo := filepath.Join(d, "repo")
			vd := filepath.Join(d, "verif")
			defer os.RemoveAll(d)
			_ = os.MkdirAll(repo, 0o755)
			_ = os.MkdirAll(vd, 0o755)
			if err := copyTracked(dir, repo); err != nil {
				results[i] = result{v, "skipped", "copy failed: " + err.Error()}
				return
			}
			if b, err := os.ReadFile(filepath.Join(verif, "known_findings.json")); err == nil {
				_ = os.WriteFile(filepath.Join(vd, "known_findings.json"), b, 0o644)
			}
			ap := exec.Command("git", "apply", "--whitespace=nowarn", v.patch)
			ap.Dir = repo
			if out, err := ap.CombinedOutput(); err != nil {
				pp := exec.Command("patch", "-p1", "-s", "-i", v.patch)
				pp.Dir = repo
				if out2, err2 := pp.CombinedOutput(); err2 != nil {
					results[i] = result{v, "skipped", "patch does not apply to the current tree: " + firstLine(string(out)) + " / " + firstLine(string(out2))}
					return
				}
			}
			cmd := exec.Command(self, "-property", id, "-tier", "quick", "-dir", repo, "-verif", vd)
			cmd.Env = append(os.Environ(), "VERIF_TIER=quick")
			out, _ := cmd.CombinedOutput()
			violated := strings.Contains(string(out), "\nVIOLATION property=") || strings.HasPrefix(string(out), "VIOLATION property=")
			var ids []string
			for _, ln := range strings.Split(string(out), "\n") {
				if strings.HasPrefix(ln, "VIOLATED ") || strings.HasPrefix(ln, "UNDECIDED ") {
					f := strings.Fields(ln)
					if len(f) > 1 {
						ids = append(ids, f[1])
					}
				}
			}
			switch {
			case v.breaker && violated:
				results[i] = result{v, "detected", strings.Join(ids, " ")}
			case v.breaker:
				results[i] = result{v, "missed", "the check stayed silent on this seeded change"}
			case violated:
				results[i] = result{v, "false-alarm", strings.Join(ids, " ")}
			default:
				results[i] = result{v, "silent", ""}
			}
		}(i, v)
	}
	wg.Wait()
	counts := map[string]int{}
	for _, r := range results {
		counts[r.status]++
		kind := "benign"
		if r.v.breaker {
			kind = "seeded"
		}
		rep.List("selfcheck variants", fmt.Sprintf("%s %s: %s %s", kind, r.v.name, r.status, r.detail))
		if r.status == "missed" || r.status == "false-alarm" {
			fmt.Printf("SELFCHECK-WARNING property=%s variant=%s %s %s\n", id, r.v.name, r.status, r.detail)
		}
	}
	for k, n := range counts {
		rep.SetCount("selfcheck "+k, n)
	}
	rep.SetCount("selfcheck variants run", len(results))
}

func firstLine(s string) string {
	if i := strings.Index(s, "\n"); i >= 0 {
		return s[:i]
	}
	return s
}

// copyTracked copies the working tree of src (everything except .git) into dst.
func copyTracked(src, dst string) error {
	var files []string
	_ = filepath.Walk(src, func(p string, info os.FileInfo, err error) error {
		if err != nil {
			return nil
		}
		if info.IsDir() {
			if info.Name() == ".git" {
				return filepath.SkipDir
			}
			return nil
		}
		rel, _ := filepath.Rel(src, p)
		files = append(files, rel)
		return nil
	})
	for _, f := range files {
		b, err := os.ReadFile(filepath.Join(src, f))
		if err != nil {
			continue // deleted in the working tree
		}
		t := filepath.Join(dst, f)
		if err := os.MkdirAll(filepath.Dir(t), 0o755); err != nil {
			return err
		}
		if err := os.WriteFile(t, b, 0o644); err != nil {
			return err
		}
	}
	return nil
}
