package props

import (
	"fmt"
	"go/constant"
	"go/token"
	"go/types"
	"sort"
	"strings"

	"golang.org/x/tools/go/ssa"

	"sidecheck/core"
)

// Byte-class rules of the canonicalizer (C07). A predicate over one byte that only compares it with constants can
// distinguish no more than the regions those constants cut the byte range into; evaluating it on one representative
// per region (each constant and its two neighbours) decides the set it accepts exactly.

// bytePredEval evaluates a loop-free func(byte) bool whose conditions compare the parameter with constants.
func bytePredEval(fn *ssa.Function, x int64) (res bool, ok bool) {
	if len(fn.Params) != 1 || fn.Blocks == nil {
		return false, false
	}
	isParam := func(v ssa.Value) bool {
		for i := 0; i < 4; i++ {
			if c, isC := v.(*ssa.Convert); isC {
				v = c.X
				continue
			}
			if c, isC := v.(*ssa.ChangeType); isC {
				v = c.X
				continue
			}
			break
		}
		return v == ssa.Value(fn.Params[0])
	}
	num := func(v ssa.Value) (int64, bool) {
		if isParam(v) {
			return x, true
		}
		if k, isK := v.(*ssa.Const); isK && k.Value != nil && k.Value.Kind() == constant.Int {
			return constant.Int64Val(k.Value)
		}
		return 0, false
	}
	var prev *ssa.BasicBlock
	var evalBool func(v ssa.Value, depth int) (bool, bool)
	evalBool = func(v ssa.Value, depth int) (bool, bool) {
		if depth > 16 {
			return false, false
		}
		switch t := v.(type) {
		case *ssa.Const:
			if t.Value != nil && t.Value.Kind() == constant.Bool {
				return constant.BoolVal(t.Value), true
			}
		case *ssa.UnOp:
			if t.Op == token.NOT {
				b, ok := evalBool(t.X, depth+1)
				return !b, ok
			}
		case *ssa.BinOp:
			a, okA := num(t.X)
			b, okB := num(t.Y)
			if !okA || !okB {
				return false, false
			}
			switch t.Op {
			case token.EQL:
				return a == b, true
			case token.NEQ:
				return a != b, true
			case token.LSS:
				return a < b, true
			case token.LEQ:
				return a <= b, true
			case token.GTR:
				return a > b, true
			case token.GEQ:
				return a >= b, true
			}
		case *ssa.Phi:
			// handled by the caller (needs the predecessor)
		}
		return false, false
	}
	phiVal := map[*ssa.Phi]bool{}
	b := fn.Blocks[0]
	for steps := 0; steps < 200; steps++ {
		for _, ins := range b.Instrs {
			if p, isPhi := ins.(*ssa.Phi); isPhi && prev != nil {
				for i, pr := range b.Preds {
					if pr != prev {
						continue
					}
					var val, okv bool
					if q, isQ := p.Edges[i].(*ssa.Phi); isQ {
						val, okv = phiVal[q]
					} else {
						val, okv = evalBool(p.Edges[i], 0)
					}
					if okv {
						phiVal[p] = val
					}
				}
			}
		}
		last := b.Instrs[len(b.Instrs)-1]
		get := func(v ssa.Value) (bool, bool) {
			if p, isPhi := v.(*ssa.Phi); isPhi {
				r, ok := phiVal[p]
				return r, ok
			}
			return evalBool(v, 0)
		}
		switch t := last.(type) {
		case *ssa.Return:
			if len(t.Results) != 1 {
				return false, false
			}
			return get(t.Results[0])
		case *ssa.If:
			c, okc := get(t.Cond)
			if !okc {
				return false, false
			}
			prev = b
			if c {
				b = b.Succs[0]
			} else {
				b = b.Succs[1]
			}
		case *ssa.Jump:
			prev = b
			b = b.Succs[0]
		default:
			return false, false
		}
	}
	return false, false
}

// predConstants: the integer constants the function's instructions mention.
func predConstants(fn *ssa.Function) []int64 {
	seen := map[int64]bool{}
	for _, b := range fn.Blocks {
		for _, ins := range b.Instrs {
			for _, op := range ins.Operands(nil) {
				if op == nil || *op == nil {
					continue
				}
				if k, ok := (*op).(*ssa.Const); ok && k.Value != nil && k.Value.Kind() == constant.Int {
					if n, ok := constant.Int64Val(k.Value); ok {
						seen[n] = true
					}
				}
			}
		}
	}
	var out []int64
	for n := range seen {
		out = append(out, n)
	}
	sort.Slice(out, func(i, j int) bool { return out[i] < out[j] })
	return out
}

// byteClass: the set of bytes fn accepts, as a sorted list (exact: see the file comment); ok=false when fn is not of
// the supported shape.
func byteClass(fn *ssa.Function) ([]int64, bool) {
	ks := predConstants(fn)
	reps := map[int64]bool{0: true, 255: true}
	for _, k := range ks {
		for _, d := range []int64{-1, 0, 1} {
			if v := k + d; v >= 0 && v <= 255 {
				reps[v] = true
			}
		}
	}
	var rl []int64
	for v := range reps {
		rl = append(rl, v)
	}
	sort.Slice(rl, func(i, j int) bool { return rl[i] < rl[j] })
	// between two neighbouring representatives the predicate is constant (no constant lies strictly between them unless
	// both neighbours of it are representatives), so the accepted set is the union of the accepted representatives and
	// of the gaps whose two ends are accepted and adjacent in this list
	var acc []int64
	val := map[int64]bool{}
	for _, v := range rl {
		r, ok := bytePredEval(fn, v)
		if !ok {
			return nil, false
		}
		val[v] = r
	}
	for i, v := range rl {
		if val[v] {
			acc = append(acc, v)
		}
		if i+1 < len(rl) && rl[i+1] > v+1 {
			// a gap: no constant inside it, so it behaves like v+1 would — which equals its upper end's left neighbour; both
			// ends are representatives of the same region only if no constant separates them: the gap's region is that of
			// any interior point, and v+1 is a representative whenever v is a constant; otherwise v is 0 and the gap starts there
			if val[v] && val[rl[i+1]] {
				for w := v + 1; w < rl[i+1]; w++ {
					acc = append(acc, w)
				}
			} else if val[v] != val[rl[i+1]] {
				return nil, false // cannot happen with ±1 representatives; refuse rather than guess
			}
		}
	}
	return acc, true
}

// checkByteClasses: (ws.set) the whitespace predicate accepts exactly SP, LF, CR, HT; (escape.control) the serializer
// of strings writes \u00xx exactly for the bytes below 0x20 that have no two-character escape and copies the others.
func (r *Run) checkByteClasses(P string, tr *ssa.Function, fns []*ssa.Function, setErr *ssa.Function) {
	r.checkWhitespaceSet(P, tr, fns, setErr)
	r.checkEscapeControl(P, fns)
}

func (r *Run) checkWhitespaceSet(P string, tr *ssa.Function, fns []*ssa.Function, setErr *ssa.Function) {
	// --- ws.set: the func(byte) bool closures of Transform that the scanner consults
	var preds []*ssa.Function
	for _, f := range fns {
		if f == tr || len(f.Params) != 1 || f.Signature.Results().Len() != 1 {
			continue
		}
		pb, okP := f.Params[0].Type().Underlying().(*types.Basic)
		rb, okR := f.Signature.Results().At(0).Type().Underlying().(*types.Basic)
		if okP && okR && pb.Kind() == types.Uint8 && rb.Kind() == types.Bool && len(f.FreeVars) == 0 {
			preds = append(preds, f)
		}
	}
	want := []int64{0x09, 0x0a, 0x0d, 0x20}
	id := P + ".ws.set"
	const why = "RFC 8259 §2 insignificant whitespace is exactly space, line feed, carriage return and tab: a smaller set rejects well-formed documents, a larger one accepts trailing or embedded bytes that are not JSON"
	if len(preds) > 0 {
		// the whitespace predicate is the one the trailing-content loop of Transform consults; with a single candidate that is it
		var ws *ssa.Function
		for _, p := range preds {
			if len(callsOfClosure(tr, p)) > 0 {
				ws = p
			}
		}
		if ws == nil {
			ws = preds[0]
		}
		r.checkWhitespaceUses(P, tr, fns, ws, setErr)
		got, ok := byteClass(ws)
		r.R.Check(ok && fmt.Sprint(got) == fmt.Sprint(want), id, "E3 byte class by region representatives: the whitespace predicate accepts exactly {0x09, 0x0a, 0x0d, 0x20}", core.FuncName(ws), r.where(ws), why,
			fmt.Sprint(got), fmt.Sprintf("accepted bytes %v (decided=%v), expected %v", got, ok, want))
	} else {
		// inlined: the trailing-content error of Transform is raised exactly when the byte differs from the four
		found, det := false, ""
		if setErr != nil {
			ff := r.E.Facts(tr, core.Ctx{})
			for _, c := range fixedErrCalls(tr, setErr, nil) {
				at := ff.At(c)
				n := 0
				for _, k := range want {
					if core.HasFact(at, fmt.Sprintf("cmp(_ != %d)", k)) {
						n++
					}
				}
				other := 0
				for _, fc := range at {
					if fc.Kind == "cmp" && fc.B != nil && fc.B.Op == "const" && (fc.Op == "!=" || fc.Op == "==") && strings.Contains(fc.A.String(), "[") {
						other++
					}
				}
				det = fmt.Sprintf("%d of 4 exclusions, %d byte comparisons", n, other)
				if n == 4 && other == 4 {
					found = true
				}
			}
		}
		r.R.Check(found, id, "E2: trailing content is reported exactly for a byte other than 0x09, 0x0a, 0x0d, 0x20 (whitespace test inlined)", core.FuncName(tr), r.where(tr), why, det, det)
	}

}

// checkEscapeControl: the closure that formats \u%04x.
func (r *Run) checkEscapeControl(P string, fns []*ssa.Function) {
	var dec *ssa.Function
	var fmtCall *ssa.Call
	for _, f := range fns {
		for _, c := range r.callsIn(f, "fmt.Sprintf") {
			if k, ok := c.Common().Args[0].(*ssa.Const); ok && k.Value != nil && k.Value.Kind() == constant.String && strings.Contains(constant.StringVal(k.Value), `\u%04x`) {
				dec, fmtCall = f, c
			}
		}
	}
	id := P + ".escape.control"
	if dec == nil {
		// tables.control reports a missing format; a format that is there but only in dead code is reported here
		for _, f := range fns {
			for _, blk := range f.Blocks {
				for _, ins := range blk.Instrs {
					c, isCall := ins.(*ssa.Call)
					if !isCall || len(c.Common().Args) == 0 {
						continue
					}
					if k, ok := c.Common().Args[0].(*ssa.Const); ok && k.Value != nil && k.Value.Kind() == constant.String && strings.Contains(constant.StringVal(k.Value), `\u%04x`) {
						r.R.Check(false, id, "E2 spec constant: a byte below 0x20 without a two-character escape is written as \\u00xx", core.FuncName(f), r.P.Pos(c.Pos()),
							"control characters must be escaped", "-", "the \\u escape is unreachable (its condition is constant false)")
					}
				}
			}
		}
		return
	}
	ff := r.E.Facts(dec, core.Ctx{})
	b, okU := core.MatchAll(ff.At(fmtCall), []string{"cmp(?c < 32)"}, nil)
	okRaw, det := false, ""
	if okU {
		cterm := b["c"].String()
		det = "\\u under " + cterm + " < 32"
		for _, c := range r.callsIn(dec, "Builder.WriteByte", "Buffer.WriteByte") {
			if len(c.Common().Args) != 2 {
				continue
			}
			if ff.TB.Of(c.Common().Args[1]).String() != cterm {
				continue
			}
			at := ff.At(c)
			if _, ok := core.MatchAll(at, []string{"cmp(?c >= 32)"}, core.Bind{"c": b["c"]}); ok {
				okRaw = true
				det += "; copied under " + cterm + " >= 32"
			} else {
				okRaw = false
				det += "; copied at " + r.P.Pos(c.Pos()) + " without " + cterm + " >= 32"
				break
			}
		}
	}
	r.R.Check(okU && okRaw, id, "E2 spec constant: a byte is written as \\u00xx exactly when it is below 0x20 (and has no two-character escape), and copied only when it is 0x20 or above", core.FuncName(dec), r.where(dec),
		"RFC 8785 §3.2.2.2: control characters must be escaped and nothing else may be — a bound of 0x1f leaves U+001F raw (invalid JSON), a bound of 0x21 spells the space as \\u0020 and changes every hash", det, "condition of the \\u escape / of the raw copy is not c < 0x20 / c >= 0x20: "+det)
}

// checkWhitespaceUses: what the scanner does with a byte it has asked the whitespace predicate about happens on the
// "not whitespace" side: the byte is returned as the next significant character, appended to a literal / number token,
// or reported as trailing content only where the predicate said no.
func (r *Run) checkWhitespaceUses(P string, tr *ssa.Function, fns []*ssa.Function, ws, setErr *ssa.Function) {
	checkErr, _ := jcsErrClosures(tr, fns)
	n := 0
	var bad []string
	for _, f := range fns {
		calls := callsOfClosure(f, ws)
		if len(calls) == 0 {
			continue
		}
		ff := r.E.Facts(f, core.Ctx{})
		for _, c := range calls {
			if len(c.Common().Args) != 1 {
				continue
			}
			v := c.Common().Args[0]
			wt := ff.TB.Of(c).String()
			onNo := func(ins ssa.Instruction) bool {
				for _, fc := range ff.At(ins) {
					if fc.Kind == "false" && fc.A != nil && fc.A.String() == wt {
						return true
					}
				}
				return false
			}
			for _, blk := range f.Blocks {
				if ff.Live != nil && !ff.Live[blk] {
					continue
				}
				for _, ins := range blk.Instrs {
					use := ""
					switch x := ins.(type) {
					case *ssa.Return:
						for _, rv := range x.Results {
							if rv == v {
								use = "returned as the next character"
							}
						}
					case *ssa.Call:
						if sc := x.Common().StaticCallee(); sc != nil && strings.HasSuffix(sc.String(), ".WriteByte") && len(x.Common().Args) == 2 && x.Common().Args[1] == v {
							use = "appended to the token"
						}
						if f == tr && isFixedErrCall(x, tr, setErr, checkErr) && x.Block() != c.Block() {
							// (the error call sits in the branch the predicate selects)
							if c.Block().Dominates(x.Block()) {
								use = "reported as trailing content"
							}
						}
					}
					if use == "" {
						continue
					}
					n++
					if !onNo(ins) {
						bad = append(bad, core.FuncName(f)+": byte "+use+" at "+r.P.Pos(ins.Pos())+" without the predicate having answered no")
					}
					// whitespace ends a token: once the predicate has said yes nothing more is appended
					if use == "appended to the token" {
						if iff, isIf := c.Block().Instrs[len(c.Block().Instrs)-1].(*ssa.If); isIf && iff.Cond == ssa.Value(c) {
							if yes := c.Block().Succs[0]; yes == ins.Block() || blockReaches(ff, yes, ins.Block(), nil) {
								bad = append(bad, core.FuncName(f)+": the token goes on after whitespace ("+r.P.Pos(ins.Pos())+" is reachable from the 'yes' edge)")
							}
						}
					}
				}
			}
		}
	}
	r.R.SetCount("whitespace-predicate uses examined", n)
	r.R.Check(len(bad) == 0 && n >= 3, P+".ws.uses", "E2: a byte is returned by the scanner, appended to a literal/number token or reported as trailing content only on the 'not whitespace' edge of the predicate asked about that byte", core.FuncName(ws), r.where(ws),
		"whitespace between tokens must be skipped and must end a number or literal; a byte after the value is an error exactly when it is not whitespace", fmt.Sprintf("%d uses, all on the 'no' edge", n), fmt.Sprintf("%d use(s) examined (need 3); %s", n, strings.Join(bad, "; ")))
}
