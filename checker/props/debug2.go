package props

import (
	"fmt"

	"golang.org/x/tools/go/ssa"

	"sidecheck/core"
)

// DebugAppends prints append calls of a function with operand terms.
func DebugAppends(r *Run, rel, name string) {
	f := r.P.Func(rel, name)
	ff := r.E.Facts(f, core.Ctx{})
	for _, b := range f.Blocks {
		for _, ins := range b.Instrs {
			if c, ok := ins.(*ssa.Call); ok && isBuiltin(c, "append") {
				fmt.Println(r.P.Pos(c.Pos()), "first=", ff.TB.Of(c.Common().Args[0]).String())
				for _, e := range variadicElems(c.Common().Args[1]) {
					fmt.Println("     elem=", ff.TB.Of(e).String())
				}
			}
		}
	}
}

// DebugPaths prints the path facts of every entry→return path.
func DebugPaths(r *Run, rel, name string) {
	f := r.P.Func(rel, name)
	ff := r.E.Facts(f, core.Ctx{})
	paths, _ := enumPaths(ff, 200)
	for i, p := range paths {
		ret := p[len(p)-1].Instrs[len(p[len(p)-1].Instrs)-1].(*ssa.Return)
		fmt.Printf("path %d -> return at %s\n", i, r.P.Pos(ret.Pos()))
		for _, fc := range pathFacts(ff, p).Sorted() {
			k := fc.Key()
			if len(k) > 220 {
				k = k[:220]
			}
			fmt.Println("    ", k)
		}
	}
}

// DebugLoops prints the number of validating loops per error-only function of a package.
func DebugLoops(r *Run, rel string) {
	for _, f := range r.P.SubjectFuncs(rel) {
		if f.Parent() != nil || !errResultOnly(f) || len(allLoopHeads(f)) == 0 {
			continue
		}
		fmt.Printf("%s: loops=%d validating=%d\n", f.Name(), len(allLoopHeads(f)), len(r.validatingLoops(f)))
	}
}

// DebugLeaves prints phi leaves of the first argument of calls to name in f.
func DebugLeaves(r *Run, rel, fn, callee string) {
	f := r.P.Func(rel, fn)
	ff := r.E.Facts(f, core.Ctx{})
	for _, c := range r.callsIn(f, callee) {
		for _, l := range phiLeaves(c.Common().Args[0]) {
			fmt.Printf("leaf %T %s => %s\n", l, l.Name(), ff.TB.Of(l).String())
		}
	}
}

// DebugPhiArg prints the phi edges (with pred in-facts) of argument k of calls to callee in f.
func DebugPhiArg(r *Run, rel, fn, callee string, k int) {
	f := r.P.Func(rel, fn)
	ff := r.E.Facts(f, core.Ctx{})
	for _, c := range r.callsIn(f, callee) {
		a := c.Common().Args[k]
		fmt.Printf("arg %T %s\n", a, a)
		if phi, ok := a.(*ssa.Phi); ok {
			for i, e := range phi.Edges {
				pred := phi.Block().Preds[i]
				fmt.Printf("  edge %d: %s from block %d\n", i, e, pred.Index)
				for _, fc := range ff.In[pred].Sorted() {
					if fc.Kind == "cmp" {
						fmt.Println("      in:", fc.Key())
					}
				}
				for _, fc := range ff.EdgeFacts(pred, phi.Block()) {
					fmt.Println("      edge:", fc.Key())
				}
			}
		}
	}
}

// DebugUniversalE6 lists module-wide early-success returns inside loops of error-only functions.
func DebugUniversalE6(r *Run) {
	for _, f := range r.P.SubjectFuncs() {
		if f.Parent() != nil || !errResultOnly(f) || len(allLoopHeads(f)) == 0 {
			continue
		}
		rep := core.NewReport("dbg", "quick", 0)
		r2 := &Run{P: r.P, E: r.E, R: rep}
		r2.checkNoEarlySuccess("x", f, "-")
		for _, o := range rep.Obligations {
			fmt.Printf("%s %s: %s\n", o.Status, core.FuncName(f), o.Detail)
		}
	}
}

// DebugGuarded lists the E11-guarded violations over all subject functions.
func DebugGuarded(r *Run) {
	for _, f := range r.P.SubjectFuncs() {
		for _, u := range r.unguardedErrorSites(f) {
			fmt.Printf("%s\t%s\t%s\n", u.Key, r.P.Pos(u.Call.Pos()), u.Via)
		}
	}
}
