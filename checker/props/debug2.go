package props

import (
	"fmt"

	"golang.org/x/tools/go/ssa"

	"sidecheck/core"
)

// DebugAppends prints append calls of a function with operand terms.
func DebugAppends(r *Run, rel, name string) {
	f := r.P.Func(rel, name)
	ff := r.E.Facts(f, core.Ctx{})
	for _, b := range f.Blocks {
		for _, ins := range b.Instrs {
			if c, ok := ins.(*ssa.Call); ok && isBuiltin(c, "append") {
				fmt.Println(r.P.Pos(c.Pos()), "first=", ff.TB.Of(c.Common().Args[0]).String())
				for _, e := range variadicElems(c.Common().Args[1]) {
					fmt.Println("     elem=", ff.TB.Of(e).String())
				}
			}
		}
	}
}

// DebugPaths prints the path facts of every entry→return path.
func DebugPaths(r *Run, rel, name string) {
	f := r.P.Func(rel, name)
	ff := r.E.Facts(f, core.Ctx{})
	paths, _ := enumPaths(ff, 200)
	for i, p := range paths {
		ret := p[len(p)-1].Instrs[len(p[len(p)-1].Instrs)-1].(*ssa.Return)
		fmt.Printf("path %d -> return at %s\n", i, r.P.Pos(ret.Pos()))
		for _, fc := range pathFacts(ff, p).Sorted() {
			k := fc.Key()
			if len(k) > 220 {
				k = k[:220]
			}
			fmt.Println("    ", k)
		}
	}
}
