package props

import (
	"fmt"
	"go/token"
	"go/types"
	"sort"
	"strings"

	"golang.org/x/tools/go/ssa"

	"sidecheck/core"
)

// Engine E3: every read of a protocol.Protocol field in subject code is
// followed forward (conversions, arithmetic, phis, argument passing up to 3
// calls deep, returns to callers, range elements) to its sinks.

type sink struct {
	Field  string // protocol parameter
	Kind   string // cmp | arith | arg | message | return | store | index | elemcmp | other
	Fn     *ssa.Function
	Instr  ssa.Instruction
	Op     string     // cmp: operator normalised so that the parameter is on the right (X Op P)
	Other  *core.Term // cmp/arith: the other operand
	OtherV ssa.Value
	Callee string // arg: callee name
	ArgIdx int
	Notes  []string        // how the value got here (conv, arith, elem, len, call:f)
	Seed   ssa.Instruction // the field read the value comes from
}

func (s sink) String() string {
	base := fmt.Sprintf("%s %s in %s", s.Field, s.Kind, core.FuncName(s.Fn))
	switch s.Kind {
	case "cmp", "elemcmp":
		base += fmt.Sprintf(": %s %s P", short(s.Other.String(), 80), s.Op)
	case "arith":
		base += fmt.Sprintf(": P %s %s", s.Op, short(s.Other.String(), 80))
	case "arg", "message":
		base += fmt.Sprintf(": arg %d of %s", s.ArgIdx, s.Callee)
	}
	if len(s.Notes) > 0 {
		base += " via " + strings.Join(s.Notes, ",")
	}
	return base
}

type flowItem struct {
	v     ssa.Value
	depth int
	notes []string
}

func (r *Run) protocolStruct() (*types.Struct, map[*types.Var]string) {
	n := r.P.Named(pkgProtocol, "Protocol")
	if n == nil {
		return nil, nil
	}
	st, _ := n.Underlying().(*types.Struct)
	if st == nil {
		return nil, nil
	}
	m := map[*types.Var]string{}
	for i := 0; i < st.NumFields(); i++ {
		m[st.Field(i)] = st.Field(i).Name()
	}
	return st, m
}

var messageCallees = []string{"fmt.Errorf", "fmt.Sprintf", "fmt.Sprint", "fmt.Sprintln", "errors.Errorf", "errors.Wrapf", "errors.New",
	"log.", "logfields.", "internal/log.", "logutil-go"}

func isMessageCallee(name string) bool {
	for _, m := range messageCallees {
		if strings.Contains(name, m) {
			return true
		}
	}
	return false
}

// callersOf finds call instructions in subject code that may call fn.
func (r *Run) callersOf(fn *ssa.Function) []*ssa.Call {
	var out []*ssa.Call
	for _, f := range r.P.SubjectFuncs() {
		for _, b := range f.Blocks {
			for _, ins := range b.Instrs {
				c, ok := ins.(*ssa.Call)
				if !ok {
					continue
				}
				if sc := c.Common().StaticCallee(); sc != nil {
					if sc == fn {
						out = append(out, c)
					}
					continue
				}
				if c.Common().IsInvoke() {
					for _, impl := range r.P.Impls(c.Common().Method) {
						if impl == fn {
							out = append(out, c)
						}
					}
				}
			}
		}
	}
	return out
}

// protocolSinks computes the sinks of every protocol parameter read.
func (r *Run) protocolSinks() (map[string][]sink, int) {
	_, fields := r.protocolStruct()
	return r.fieldSinks(fields)
}

// fieldSinks computes the sinks of every read of the given struct fields.
func (r *Run) fieldSinks(fields map[*types.Var]string) (map[string][]sink, int) {
	out := map[string][]sink{}
	reads := 0
	if fields == nil {
		return out, 0
	}
	tbs := map[*ssa.Function]*core.TermBuilder{}
	tb := func(f *ssa.Function) *core.TermBuilder {
		if t, ok := tbs[f]; ok {
			return t
		}
		t := r.E.Facts(f, core.Ctx{}).TB
		tbs[f] = t
		return t
	}
	for _, f := range r.P.SubjectFuncs() {
		for _, b := range f.Blocks {
			for _, ins := range b.Instrs {
				var fv *types.Var
				var seed ssa.Value
				switch x := ins.(type) {
				case *ssa.FieldAddr:
					st := x.X.Type().Underlying().(*types.Pointer).Elem().Underlying().(*types.Struct)
					fv = st.Field(x.Field)
					seed = x
				case *ssa.Field:
					st := x.X.Type().Underlying().(*types.Struct)
					fv = st.Field(x.Field)
					seed = x
				}
				name, ok := fields[fv]
				if fv == nil || !ok {
					continue
				}
				reads++
				seen := map[ssa.Value]bool{}
				work := []flowItem{{v: seed}}
				for len(work) > 0 {
					it := work[len(work)-1]
					work = work[:len(work)-1]
					if seen[it.v] {
						continue
					}
					seen[it.v] = true
					refs := it.v.Referrers()
					if refs == nil {
						continue
					}
					fn := it.v.Parent()
					for _, ref := range *refs {
						add := func(v ssa.Value, note string) {
							n := it.notes
							if note != "" {
								n = append(append([]string{}, it.notes...), note)
							}
							work = append(work, flowItem{v: v, depth: it.depth, notes: n})
						}
						mk := func(kind string) sink {
							return sink{Field: name, Kind: kind, Fn: fn, Instr: ref, Notes: it.notes, Seed: ins}
						}
						switch x := ref.(type) {
						case *ssa.UnOp:
							add(x, "")
						case *ssa.Convert, *ssa.ChangeType, *ssa.MakeInterface, *ssa.Phi, *ssa.Slice, *ssa.Extract, *ssa.ChangeInterface:
							add(x.(ssa.Value), "")
						case *ssa.BinOp:
							other := x.Y
							pOnLeft := true
							if stripConv(x.Y) == it.v || x.Y == it.v {
								other = x.X
								pOnLeft = false
							}
							if x.X == it.v {
								other = x.Y
								pOnLeft = true
							}
							if cmpTok[x.Op] {
								op := map[token.Token]string{token.EQL: "==", token.NEQ: "!=", token.LSS: "<", token.LEQ: "<=", token.GTR: ">", token.GEQ: ">="}[x.Op]
								if pOnLeft {
									op = map[string]string{"==": "==", "!=": "!=", "<": ">", ">": "<", "<=": ">=", ">=": "<="}[op]
								}
								s := mk("cmp")
								for _, n := range it.notes {
									if n == "elem" {
										s.Kind = "elemcmp"
									}
								}
								s.Op = op
								s.Other = tb(fn).Of(other)
								s.OtherV = other
								out[name] = append(out[name], s)
							} else {
								s := mk("arith")
								s.Op = x.Op.String()
								s.Other = tb(fn).Of(other)
								s.OtherV = other
								out[name] = append(out[name], s)
								add(x, "arith"+x.Op.String())
							}
						case *ssa.IndexAddr:
							if x.X == it.v {
								add(x, "elem")
							} else {
								out[name] = append(out[name], mk("index"))
							}
						case *ssa.Index:
							if x.X == it.v {
								add(x, "elem")
							} else {
								out[name] = append(out[name], mk("index"))
							}
						case *ssa.Range:
							add(x, "elem")
						case *ssa.Next:
							add(x, "")
						case *ssa.Store:
							if x.Val == it.v {
								switch a := x.Addr.(type) {
								case *ssa.Alloc:
									add(a, "")
								case *ssa.IndexAddr:
									// varargs packing: follow the backing array
									add(a.X, "packed")
								default:
									out[name] = append(out[name], mk("store"))
								}
							}
						case *ssa.Return:
							s := mk("return")
							out[name] = append(out[name], s)
							if it.depth < 3 {
								idx := 0
								for i, rv := range x.Results {
									if rv == it.v {
										idx = i
									}
								}
								for _, c := range r.callersOf(fn) {
									var cv ssa.Value = c
									if len(x.Results) > 1 {
										cv = nil
										if crefs := c.Referrers(); crefs != nil {
											for _, cr := range *crefs {
												if ex, ok := cr.(*ssa.Extract); ok && ex.Index == idx {
													cv = ex
												}
											}
										}
									}
									if cv != nil {
										work = append(work, flowItem{v: cv, depth: it.depth + 1, notes: append(append([]string{}, it.notes...), "ret:"+fn.Name())})
									}
								}
							}
						case ssa.CallInstruction:
							cc := x.Common()
							key, _, _ := r.P.CalleeKey(cc)
							if cc.Value == it.v && !cc.IsInvoke() {
								out[name] = append(out[name], mk("other"))
								continue
							}
							args := core.CallArgs(cc)
							for ai, a := range args {
								if a != it.v {
									continue
								}
								if b, ok := cc.Value.(*ssa.Builtin); ok {
									if cv, isV := x.(ssa.Value); isV {
										switch b.Name() {
										case "len", "cap":
											add(cv, b.Name())
										case "append", "min", "max":
											add(cv, "")
										}
									}
									continue
								}
								var callees []*ssa.Function
								if cc.IsInvoke() {
									callees = r.P.Impls(cc.Method)
								} else if sc := cc.StaticCallee(); sc != nil && r.P.IsSubject(sc) && sc.Blocks != nil {
									callees = []*ssa.Function{sc}
								}
								if len(callees) > 0 && it.depth < 3 {
									for _, cal := range callees {
										if ai < len(cal.Params) {
											work = append(work, flowItem{v: cal.Params[ai], depth: it.depth + 1, notes: append(append([]string{}, it.notes...), "call:"+cal.Name())})
										}
									}
									continue
								}
								s := mk("arg")
								if isMessageCallee(key) {
									s.Kind = "message"
								}
								s.Callee = key
								s.ArgIdx = ai
								out[name] = append(out[name], s)
							}
						case *ssa.FieldAddr, *ssa.Field:
							// selecting a field of a value derived from P (n/a for scalars)
						case *ssa.MapUpdate, *ssa.Lookup, *ssa.TypeAssert, *ssa.MakeSlice, *ssa.MakeMap:
							out[name] = append(out[name], mk("other"))
						case *ssa.If:
							out[name] = append(out[name], mk("other"))
						case *ssa.DebugRef:
						default:
							out[name] = append(out[name], mk("other"))
						}
					}
				}
			}
		}
	}
	for k := range out {
		ss := out[k]
		sort.SliceStable(ss, func(i, j int) bool { return ss[i].Instr.Pos() < ss[j].Instr.Pos() })
		// dedupe identical (instr, kind)
		var d []sink
		seen := map[string]bool{}
		for _, s := range ss {
			key := fmt.Sprintf("%p|%s|%p", s.Instr, s.Kind, s.Seed)
			if seen[key] {
				continue
			}
			seen[key] = true
			d = append(d, s)
		}
		out[k] = d
	}
	return out, reads
}
