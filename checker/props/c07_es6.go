package props

import (
	"fmt"
	"go/constant"
	"go/token"
	"strings"

	"golang.org/x/tools/go/ssa"

	"sidecheck/core"
)

// phiEdgeFacts: what holds when phi takes its i-th operand (facts at the end of the predecessor plus the edge's own).
func phiEdgeFacts(ff *core.FnFacts, phi *ssa.Phi, i int) core.FactSet {
	pred := phi.Block().Preds[i]
	set := core.FactSet{}
	for k, v := range ff.In[pred] {
		set[k] = v
	}
	// the predecessor's own tests up to its end are on its outgoing edge
	for _, fc := range ff.EdgeFacts(pred, phi.Block()) {
		set[fc.Key()] = fc
	}
	return set
}

// checkES6Sign: NumberToJSON formats the magnitude and puts the sign in front: "-" exactly for x < 0.
func (r *Run) checkES6Sign(P string, f *ssa.Function) {
	ff := r.E.Facts(f, core.Ctx{})
	x := ssa.Value(f.Params[0])
	var main *ssa.Call
	for _, c := range r.callsIn(f, "strconv.FormatFloat") {
		if n, ok := constIntSigned(c.Common().Args[2]); ok && n == -1 {
			main = c
		}
	}
	id := P + ".es6.sign"
	rule := "E13 merged-value rule: the magnitude formatted is x where x ≥ 0 and −x where x < 0, and the result is \"-\" + digits exactly where x < 0"
	why := "a negative number formatted with its own sign and the prefix, without either, or with the sign test off by the boundary, is not the ECMAScript spelling; every hash over a document with a negative number changes"
	if main == nil {
		r.R.Bad(id, rule, core.FuncName(f), r.where(f), why, "no strconv.FormatFloat(_, _, -1, 64) call: the shortest round-trip formatting is not requested")
		return
	}
	bits, okB := constIntSigned(main.Common().Args[3])
	r.R.Check(okB && bits == 64, P+".es6.prec", "constant: the number is formatted with precision -1 (shortest digits that round-trip) as a 64-bit float", core.FuncName(f), r.P.Pos(main.Pos()),
		"any fixed precision or a 32-bit round trip yields other digits than ECMAScript's Number::toString", "FormatFloat(_, _, -1, 64)", fmt.Sprintf("bitSize=%d", bits))
	var det []string
	ok := true
	// the magnitude
	switch a := main.Common().Args[0].(type) {
	case *ssa.Phi:
		nPos, nNeg := 0, 0
		for i, e := range a.Edges {
			set := phiEdgeFacts(ff, a, i)
			if e == x {
				nPos++
				if !core.HasFact(set, "cmp($0 >= 0)") {
					ok = false
					det = append(det, "x itself is formatted without x ≥ 0")
				}
			} else if u, isU := e.(*ssa.UnOp); isU && u.Op == token.SUB && u.X == x {
				nNeg++
				if !core.HasFact(set, "cmp($0 < 0)") {
					ok = false
					det = append(det, "−x is formatted without x < 0")
				}
			} else {
				ok = false
				det = append(det, "formatted value is neither x nor −x: "+ff.TB.Of(e).String())
			}
		}
		if nPos != 1 || nNeg != 1 {
			ok = false
			det = append(det, fmt.Sprintf("%d positive and %d negated operand(s)", nPos, nNeg))
		}
	default:
		ok = false
		det = append(det, "the value formatted is not x/−x selected by the sign: "+ff.TB.Of(a).String())
	}
	// the prefix
	okRet := false
	for _, ri := range ff.Returns() {
		if ri.Class != core.RetSuccess {
			continue
		}
		b, isB := core.RetOp(ri.Ret, 0).(*ssa.BinOp)
		if !isB || b.Op != token.ADD {
			continue
		}
		sp, isPhi := b.X.(*ssa.Phi)
		if !isPhi {
			continue
		}
		good := true
		nE, nM := 0, 0
		for i, e := range sp.Edges {
			k, isK := e.(*ssa.Const)
			if !isK || k.Value == nil || k.Value.Kind() != constant.String {
				good = false
				continue
			}
			set := phiEdgeFacts(ff, sp, i)
			switch constant.StringVal(k.Value) {
			case "":
				nE++
				if !core.HasFact(set, "cmp($0 >= 0)") {
					good = false
				}
			case "-":
				nM++
				if !core.HasFact(set, "cmp($0 < 0)") {
					good = false
				}
			default:
				good = false
			}
		}
		if good && nE == 1 && nM == 1 {
			okRet = true
		}
	}
	if !okRet {
		det = append(det, "no success return of the form sign + digits with sign = \"-\" under x < 0 and \"\" under x ≥ 0")
	}
	r.R.Check(ok && okRet, id, rule, core.FuncName(f), r.P.Pos(main.Pos()), why, "x / −x and \"\" / \"-\" selected by x < 0", strings.Join(det, "; "))

	// the exponent: Go writes at least two exponent digits ("1e-07"), ECMAScript none that is not needed ("1e-7")
	okPad := false
	padDet := "no removal of the padding zero found"
	for _, blk := range f.Blocks {
		for _, ins := range blk.Instrs {
			b, isB := ins.(*ssa.BinOp)
			if !isB || b.Op != token.ADD {
				continue
			}
			l, okL := b.X.(*ssa.Slice)
			h, okH := b.Y.(*ssa.Slice)
			if !okL || !okH || l.Low != nil || h.High != nil || l.High == nil || h.Low == nil {
				continue
			}
			lt, ht := ff.TB.Of(l.High), ff.TB.Of(h.Low)
			bind := core.Bind{}
			if !core.MatchTerm("(?e + 2)", lt, bind) {
				continue
			}
			e := bind["e"].String()
			if ht.String() != "("+e+" + 3)" || !strings.Contains(e, "IndexByte(") || !strings.HasSuffix(e, ", 101)") {
				padDet = "the cut is [:" + lt.String() + "] + [" + ht.String() + ":]"
				continue
			}
			at := ff.At(ins)
			if _, has := core.MatchAll(at, []string{"cmp(_[(" + "?e" + " + 2)] == 48)"}, core.Bind{"e": bind["e"]}); !has {
				padDet = "the zero is removed without the test digit == '0'"
				continue
			}
			// the branch is entered whenever the formatted string has an exponent
			found := false
			for _, pat := range []string{"cmp(?e > 0)", "cmp(?e >= 0)", "cmp(?e != -1)", "cmp(?e >= 1)"} {
				if _, has := core.MatchAll(at, []string{pat}, core.Bind{"e": bind["e"]}); has {
					found = true
				}
			}
			if !found {
				padDet = "the exponent branch is not entered for every string that contains 'e'"
				continue
			}
			okPad = true
		}
	}
	r.R.Check(okPad, P+".es6.exp.pad", "E2 + constants: in exponent notation the character after the exponent's sign is removed exactly when it is '0' (s[:e+2] + s[e+3:] under s[e+2] == '0', e the index of 'e')", core.FuncName(f), r.where(f),
		"Go pads exponents to two digits; a number such as 1e-7 must not be spelled 1e-07", "padding zero removed", padDet)
}

func constIntSigned(v ssa.Value) (int64, bool) {
	k, ok := v.(*ssa.Const)
	if !ok || k.Value == nil || k.Value.Kind() != constant.Int {
		return 0, false
	}
	return constant.Int64Val(k.Value)
}
