package props

import (
	"fmt"
	"go/token"
	"go/types"
	"os"
	"sort"
	"strings"

	"golang.org/x/tools/go/ssa"

	"sidecheck/core"
)

func init() {
	register(&Checker{
		ID: "C19",
		Explanation: "Structural necessary conditions of C19: (tables) the five key purposes are mapped to the relationship section of the same name (each switch case appends the verification-method id to the section whose constant equals the purpose constant), the transformer's key-type→context table covers exactly the key types the validator admits; (meta.prov) every metadata member is fed from the like-named ResolutionModel field or TransformationInfo key (recovery/update commitment not swapped, anchor origin omitted only when nil, deactivated, version id, canonical/equivalent id, created/updated as RFC 3339 of the model's times in UTC); " +
			"(vm.prov) each verification method has id = objectID(did, key id), type = key type, controller = did, the key material member prescribed for its type (Ed25519 2018 → base58 of the decoded key, 2020 → multibase Base58BTC of the decoded key, otherwise the JWK unchanged) and is appended exactly once per key; services get a DID-qualified id, their type and endpoint, and their remaining members; object ids are '#id' under a base context and did+'#id' otherwise; " +
			"(no.internal) the external document is a fresh map and only the enumerated constant keys (plus the five relationship names) are ever stored in it — publicKey is not among them; its @context slice is freshly allocated per call (never a slice shared through the transformer); (oplists) the published/unpublished operation lists copy every field from the like-named anchored-operation field. " +
			"Not decided: byte equality of re-encoded Ed25519 keys (base58/multibase libraries); JSON-LD semantics.",
		Run: runC19,
	})
}

// mapStores returns, for function f, the MapUpdates whose map operand satisfies isMap, keyed by constant key (or key term).
func (r *Run) mapStores(f *ssa.Function, isMap func(m ssa.Value) bool) map[string][]*ssa.MapUpdate {
	ff := r.E.Facts(f, core.Ctx{})
	out := map[string][]*ssa.MapUpdate{}
	for _, b := range f.Blocks {
		for _, ins := range b.Instrs {
			mu, ok := ins.(*ssa.MapUpdate)
			if !ok || !isMap(mu.Map) {
				continue
			}
			k := strings.Trim(ff.TB.Of(mu.Key).String(), `"`)
			out[k] = append(out[k], mu)
		}
	}
	return out
}

func runC19(r *Run) {
	const P = "C19"
	r.checkSectionsListed(P)
	// ---------------- metadata
	if f := r.fn(P, pkgMetadata, "Metadata.CreateDocumentMetadata"); f != nil {
		ff := r.E.Facts(f, core.Ctx{})
		// the document metadata map is the one returned on success; the method
		// map is the value stored in it under "method". Both are followed into
		// helpers of the module (mapBuild), so where the construction is written
		// does not matter.
		var docMap ssa.Value
		for _, ri := range ff.Returns() {
			if ri.Class == core.RetSuccess {
				docMap = stripIface(core.RetOp(ri.Ret, 0))
			}
		}
		var docStores, methodStores []mapStore
		okMaps := docMap != nil
		if okMaps {
			docStores, okMaps = r.mapBuild(f, docMap, 2)
		}
		if okMaps {
			okMaps = false
			for _, b := range f.Blocks {
				for _, ins := range b.Instrs {
					if mu, ok := ins.(*ssa.MapUpdate); ok && stripIface(mu.Map) == docMap && trimQ(ff.TB.Of(mu.Key).String()) == "method" {
						methodStores, okMaps = r.mapBuild(f, mu.Value, 2)
					}
				}
			}
		}
		if !okMaps {
			r.R.Unk(P+".meta.prov", "E5 provenance", core.FuncName(f), r.where(f), "-", "metadata maps not identified (the returned map and the map stored under \"method\" must each come from one make)")
		} else {
			const timeFmt = "Time.Format(Time.UTC(time.Unix($1.%s, 0)), ?layout)"
			type cell struct {
				stores []mapStore
				key    string
				want   string
				guard  string // fact pattern that must hold at the store ("" = none required)
			}
			cells := []cell{
				{methodStores, "published", `$2["published"]`, ""},
				{methodStores, "recoveryCommitment", "$1.RecoveryCommitment", `cmp($1.RecoveryCommitment != "")`},
				{methodStores, "updateCommitment", "$1.UpdateCommitment", `cmp($1.UpdateCommitment != "")`},
				{methodStores, "anchorOrigin", "$1.AnchorOrigin", "cmp($1.AnchorOrigin != nil)"},
				{methodStores, "unpublishedOperations", "getUnpublishedOperations($1.UnpublishedOperations)", ""},
				{methodStores, "publishedOperations", "getPublishedOperations($1.PublishedOperations)", ""},
				{docStores, "deactivated", "$1.Deactivated", "true($1.Deactivated)"},
				{docStores, "canonicalId", `$2["canonicalId"]`, ""},
				{docStores, "equivalentId", `$2["equivalentId"]`, ""},
				{docStores, "created", fmt.Sprintf(timeFmt, "CreatedTime"), ""},
				{docStores, "versionId", "$1.VersionID", `cmp($1.VersionID != "")`},
				{docStores, "updated", fmt.Sprintf(timeFmt, "UpdatedTime"), "cmp($1.UpdatedTime > 0)"},
			}
			allowedGuards := map[string][]string{
				"recoveryCommitment": {".RecoveryCommitment"}, "updateCommitment": {".UpdateCommitment"}, "anchorOrigin": {".AnchorOrigin"},
				"unpublishedOperations": {".UnpublishedOperations", ".includeUnpublishedOperations"}, "publishedOperations": {".PublishedOperations", ".includePublishedOperations"},
				"deactivated": {".Deactivated"}, "canonicalId": {`"canonicalId"`}, "equivalentId": {`"equivalentId"`}, "created": {`"published"`},
				"versionId": {".VersionID"}, "updated": {".VersionID", ".UpdatedTime"},
			}
			var stateTokens []string
			for _, prm := range f.Params {
				stateTokens = append(stateTokens, "$"+prm.Name()+".", "$"+prm.Name()+"[")
			}
			commonFacts := map[string]bool{}
			first := true
			for _, ss := range [][]mapStore{methodStores, docStores} {
				for _, s := range ss {
					cur := map[string]bool{}
					for _, fc := range s.Facts {
						cur[fc.Key()] = true
					}
					if first {
						commonFacts, first = cur, false
						continue
					}
					for k := range commonFacts {
						if !cur[k] {
							delete(commonFacts, k)
						}
					}
				}
			}
			okFmt, nFmt := true, 0
			for _, c := range cells {
				var stores []mapStore
				for _, s := range c.stores {
					if s.Key == c.key {
						stores = append(stores, s)
					}
				}
				id := P + ".meta.prov." + c.key
				rule := "E5 provenance: metadata member \"" + c.key + "\" = " + c.want
				why := "a metadata member fed from another field (e.g. the two commitments swapped) or dropped under a stricter condition misreports the resolved state"
				if len(stores) != 1 {
					r.R.Bad(id, rule, core.FuncName(f), r.where(f), why, fmt.Sprintf("%d stores under this key", len(stores)))
					continue
				}
				st := stores[0]
				t := st.Val
				bind := core.Bind{}
				ok := st.Match(c.want, bind)
				det := t.String()
				if lay, has := bind["layout"]; ok && has {
					nFmt++
					if lay.String() != `"2006-01-02T15:04:05Z07:00"` {
						okFmt = false
					}
				}
				if ok && c.guard != "" {
					at := st.Facts
					if !core.HasFact(at, c.guard) {
						ok = false
						det += " — not guarded by " + c.guard
					}
					// no additional condition about the same source value
					src := strings.TrimPrefix(c.want, "$1.")
					if c.key == "updated" {
						src = "UpdatedTime"
					}
					extra := []string{}
					for _, fc := range at {
						k := fc.Key()
						srcTerm := "$" + f.Params[1].Name() + "." + src
						direct := (fc.A != nil && fc.A.String() == srcTerm) || (fc.B != nil && fc.B.String() == srcTerm)
						if fc.Kind != "called" && fc.Kind != "stored" && direct && !core.HasFact(core.FactSet{k: fc}, c.guard) {
							extra = append(extra, k)
						}
					}
					if len(extra) > 0 {
						ok = false
						det += " — additional conditions on the value: " + strings.Join(extra, ", ")
					}
				}
				// no condition on another part of the model, the transformation info or the transformer's options: a member
				// is present whenever its own source says so (facts common to all member stores are the function's preconditions)
				if ok {
					var foreign []string
					for _, fc := range st.Facts {
						if fc.Kind != "cmp" && fc.Kind != "true" && fc.Kind != "false" && fc.Kind != "hit" && fc.Kind != "miss" {
							continue
						}
						k := fc.Key()
						if commonFacts[k] || !mentionsAny(k, stateTokens) || mentionsAny(k, allowedGuards[c.key]) {
							continue
						}
						foreign = append(foreign, k)
					}
					if len(foreign) > 0 {
						sort.Strings(foreign)
						ok = false
						det += " — stored only under conditions on other state: " + strings.Join(foreign, ", ")
					}
				}
				r.R.Check(ok, id, rule, core.FuncName(f), st.Pos, why, det, "stored value "+det)
			}
			r.R.Check(okFmt && nFmt == 2, P+".meta.prov.rfc3339", "constant: created/updated are formatted with the layout time.RFC3339", core.FuncName(f), r.where(f), "-", "RFC3339", "another layout")
		}
	}
	// ---------------- operation lists
	opT := r.P.Named(pkgOperation, "AnchoredOperation")
	for _, l := range []struct{ fn, typ string }{{"getPublishedOperations", "PublishedOperation"}, {"getUnpublishedOperations", "UnpublishedOperation"}} {
		f := r.fn(P, pkgMetadata, l.fn)
		T := r.P.Named(pkgMetadata, l.typ)
		if f == nil || T == nil || opT == nil {
			continue
		}
		m, al := r.literalFieldTerms(f, T)
		id := P + ".oplists." + l.typ
		if m == nil {
			r.R.Unk(id, "E5 dst-complete", core.FuncName(f), r.where(f), "-", "literal not found")
			continue
		}
		st := derefStructT(T)
		var bad []string
		for i := 0; i < st.NumFields(); i++ {
			fld := st.Field(i).Name()
			t, ok := m[fld]
			if !ok {
				bad = append(bad, fld+" unassigned")
				continue
			}
			if !core.MatchTerm("$0[_]."+fld, t, core.Bind{}) {
				bad = append(bad, fld+" = "+t.String())
			}
		}
		r.R.Check(len(bad) == 0, id, "E5 row AnchoredOperation→"+l.typ+": every field copied from the like-named field of the same operation", core.FuncName(f), r.P.Pos(al.Pos()),
			"an operation list entry with a missing or crossed field misreports the history", fmt.Sprintf("%d fields copied", st.NumFields()), strings.Join(bad, "; "))
		// an operation may be left out of a list only as a duplicate of a listed one: every map consulted or updated while
		// the list is built is keyed by the operation's canonical reference (all operations of a DID share suffix and,
		// within one anchor, time/number — only the reference tells anchored operations apart)
		{
			ff := r.E.Facts(f, core.Ctx{})
			var keys, badKeys []string
			for _, b := range f.Blocks {
				for _, in := range b.Instrs {
					var k ssa.Value
					switch x := in.(type) {
					case *ssa.Lookup:
						if _, isMap := x.X.Type().Underlying().(*types.Map); isMap {
							k = x.Index
						}
					case *ssa.MapUpdate:
						k = x.Key
					}
					if k == nil {
						continue
					}
					t := ff.TB.Of(k)
					keys = append(keys, t.String())
					if !core.MatchTerm("$0[_].CanonicalReference", t, core.Bind{}) {
						badKeys = append(badKeys, t.String()+" at "+r.P.Pos(in.Pos()))
					}
				}
			}
			r.R.Check(len(badKeys) == 0, id+".dedupe.key", "E5: a set used to drop duplicates from the "+l.typ+" list is keyed by the operation's canonical reference", core.FuncName(f), r.where(f),
				"keyed by anything the operations of one DID share (suffix, type, time) the list loses genuine operations", fmt.Sprintf("%d map accesses, all keyed by CanonicalReference", len(keys)), strings.Join(badKeys, "; "))
		}
	}

	// ---------------- transformation info of a published document: canonical id from the model's canonical reference,
	// one equivalent id per equivalent reference of the model (each built from that reference), id and published flag
	if f := r.fn(P, pkgDocHandler, "GetTransformationInfoForPublished"); f != nil && len(f.Params) == 4 {
		ff := r.E.Facts(f, core.Ctx{})
		ns, idp, sfx, rmp := "$"+f.Params[0].Name(), "$"+f.Params[1].Name(), "$"+f.Params[2].Name(), "$"+f.Params[3].Name()
		var leaves func(v ssa.Value, seen map[ssa.Value]bool, out map[string]bool)
		leaves = func(v ssa.Value, seen map[ssa.Value]bool, out map[string]bool) {
			if seen[v] {
				return
			}
			seen[v] = true
			switch x := v.(type) {
			case *ssa.BinOp:
				if x.Op == token.ADD {
					leaves(x.X, seen, out)
					leaves(x.Y, seen, out)
					return
				}
			case *ssa.Phi:
				for _, e := range x.Edges {
					leaves(e, seen, out)
				}
				return
			case *ssa.MakeInterface:
				leaves(x.X, seen, out)
				return
			case *ssa.Call:
				// fmt.Sprintf / strings.Join and the like: the pieces are the arguments
				for _, a := range x.Call.Args {
					leaves(a, seen, out)
				}
			case *ssa.Slice:
				if al, ok := x.X.(*ssa.Alloc); ok {
					for _, ref := range *al.Referrers() {
						if ia, ok := ref.(*ssa.IndexAddr); ok {
							for _, r2 := range *ia.Referrers() {
								if st, ok := r2.(*ssa.Store); ok {
									leaves(st.Val, seen, out)
								}
							}
						}
					}
					return
				}
			}
			out[ff.TB.Of(v).String()] = true
		}
		has := func(m map[string]bool, sub string) bool {
			for k := range m {
				if strings.Contains(k, sub) {
					return true
				}
			}
			return false
		}
		isTI := func(m ssa.Value) bool { return strings.Contains(m.Type().String(), "TransformationInfo") }
		ms := r.mapStores(f, isTI)
		okTI, det := true, ""
		one := func(k string) ssa.Value {
			if len(ms[k]) != 1 {
				okTI = false
				det += fmt.Sprintf("%d stores under %q; ", len(ms[k]), k)
				return nil
			}
			return stripIface(ms[k][0].Value)
		}
		if v := one("id"); v != nil && ff.TB.Of(v).String() != idp {
			okTI = false
			det += "id = " + ff.TB.Of(v).String() + "; "
		}
		if v := one("published"); v != nil && ff.TB.Of(v).String() != "true" {
			okTI = false
			det += "published = " + ff.TB.Of(v).String() + "; "
		}
		if v := one("canonicalId"); v != nil {
			lv := map[string]bool{}
			leaves(v, map[ssa.Value]bool{}, lv)
			if !(has(lv, ns) && has(lv, sfx) && has(lv, rmp+".CanonicalReference")) || has(lv, idp) || has(lv, ".EquivalentReferences") {
				okTI = false
				det += fmt.Sprintf("canonical id built from %v; ", keysOf(lv))
			}
		}
		one("equivalentId")
		nEq := 0
		for _, b := range f.Blocks {
			for _, in := range b.Instrs {
				// a complete string built in this function: a concatenation or a call returning string that is not
				// itself a piece of a longer concatenation (so append, indexed store and Sprintf/Join forms all count)
				v, ok := in.(ssa.Value)
				if !ok {
					continue
				}
				if bt, isB := v.Type().Underlying().(*types.Basic); !isB || bt.Kind() != types.String {
					continue
				}
				switch x := v.(type) {
				case *ssa.BinOp:
					if x.Op != token.ADD {
						continue
					}
				case *ssa.Call:
				default:
					continue
				}
				piece := false
				if refs := v.Referrers(); refs != nil {
					for _, ref := range *refs {
						if bo, ok := ref.(*ssa.BinOp); ok && bo.Op == token.ADD {
							piece = true
						}
					}
				}
				if piece {
					continue
				}
				lv := map[string]bool{}
				leaves(v, map[ssa.Value]bool{}, lv)
				if !has(lv, rmp+".EquivalentReferences[") {
					continue
				}
				nEq++
				if !(has(lv, ns) && has(lv, sfx)) || has(lv, ".CanonicalReference") || has(lv, idp) {
					okTI = false
					det += fmt.Sprintf("equivalent id at %s built from %v; ", r.P.Pos(in.Pos()), keysOf(lv))
				}
			}
		}
		if nEq == 0 {
			okTI = false
			det += "no equivalent id is built from an element of the model's equivalent references; "
		}
		r.R.Check(okTI, P+".ti.published", "E5 provenance: transformation info of a published document — id = the requested id, published = true, canonical id = namespace[:canonical reference]:suffix, one equivalent id namespace:reference:suffix per equivalent reference of the model", core.FuncName(f), r.where(f),
			"canonical and equivalent ids built from another reference (or the same one repeatedly) misreport where the DID is anchored", fmt.Sprintf("id, published, canonical id and %d equivalent-id construction(s) traced to their sources", nEq), det)
	}

	// ---------------- did transformer
	td := r.fn(P, pkgDidTrans, "Transformer.TransformDocument")
	pk := r.fn(P, pkgDidTrans, "Transformer.processKeys")
	ps := r.fn(P, pkgDidTrans, "Transformer.processServices")
	if td == nil || pk == nil || ps == nil {
		return
	}
	tf := r.E.Facts(td, core.Ctx{})
	// external document: fresh map, keys enumerated
	allowed := map[string]bool{"alsoKnownAs": true, "@context": true, "id": true, "service": true, "verificationMethod": true,
		"authentication": true, "assertionMethod": true, "keyAgreement": true, "capabilityDelegation": true, "capabilityInvocation": true}
	var badKeys []string
	nStores := 0
	isExternal := func(f *ssa.Function) func(m ssa.Value) bool {
		ff := r.E.Facts(f, core.Ctx{})
		return func(m ssa.Value) bool {
			t := ff.TB.Of(m).String()
			return strings.Contains(t, ".Document") || strings.Contains(t, "DidDocumentFromJSONLDObject(new:") || strings.Contains(t, "new:document.DIDDocument")
		}
	}
	for _, f := range []*ssa.Function{td, pk, ps} {
		ff := r.E.Facts(f, core.Ctx{})
		for k, mus := range r.mapStores(f, isExternal(f)) {
			nStores += len(mus)
			if allowed[k] {
				continue
			}
			// a key that is the range variable of the purposes table
			okRange := false
			for _, mu := range mus {
				kt := ff.TB.Of(mu.Key)
				if kt.Op == "res" || kt.Op == "range" || strings.HasPrefix(kt.String(), "range:") {
					okRange = true
				}
			}
			if !okRange {
				badKeys = append(badKeys, k+" in "+core.FuncName(f))
			}
		}
	}
	sort.Strings(badKeys)
	// freshness of the external document
	fresh := false
	for _, b := range td.Blocks {
		for _, ins := range b.Instrs {
			if st, ok := ins.(*ssa.Store); ok {
				if fa, ok := st.Addr.(*ssa.FieldAddr); ok && fieldName(fa) == "Document" {
					t := tf.TB.Of(st.Val).String()
					fresh = strings.Contains(t, "new:document.DIDDocument") && !strings.Contains(t, "$rm")
				}
			}
		}
	}
	r.R.Check(len(badKeys) == 0 && nStores >= 6 && fresh, P+".no.internal", "E5/E9: the external document is a fresh map and only the enumerated constant keys (and the five relationship names) are stored in it; publicKey is not among them", "didtransformer", r.where(td),
		"copying the internal document (or storing under an internal key) leaks the internal publicKey section into the external DID document", fmt.Sprintf("%d stores, all under allowed keys; fresh=%v", nStores, fresh), fmt.Sprintf("fresh=%v stores=%d disallowed keys: %v", fresh, nStores, badKeys))
	// @context slice freshly allocated per call
	okCtx := false
	detCtx := "no @context store"
	for _, mu := range r.mapStores(td, isExternal(td))["@context"] {
		okCtx = true
		for _, root := range sliceRoots(stripIface(mu.Value)) {
			rt := tf.TB.Of(root)
			if !(rt.Op == "new" || (rt.Op == "slice" && strings.HasPrefix(rt.String(), "new:"))) {
				okCtx = false
				detCtx = "context slice derives from " + rt.String()
			}
		}
	}
	r.R.Check(okCtx, P+".no.internal.context.fresh", "E9: the @context slice is allocated in this call (its append chain is rooted in a local literal, not in a field of the transformer)", core.FuncName(td), r.where(td),
		"a context slice shared through the transformer lets one transformation overwrite the contexts (or @base) of a document returned earlier", "rooted in a local allocation", detCtx)
	// id / alsoKnownAs provenance
	for _, c := range []struct{ key, want string }{{"id", `$2["id"]`}, {"alsoKnownAs", "DIDDocument.AlsoKnownAs(document.DidDocumentFromJSONLDObject(Document.JSONLdObject($1.Doc)))"}} {
		mus := r.mapStores(td, isExternal(td))[c.key]
		ok := len(mus) == 1 && core.MatchTerm(c.want, tf.TB.Of(stripIface(mus[0].Value)), core.Bind{})
		det := ""
		if len(mus) > 0 {
			det = tf.TB.Of(stripIface(mus[0].Value)).String()
		}
		r.R.Check(ok, P+".vm.prov.doc."+c.key, "E5 provenance: external \""+c.key+"\" = "+c.want, core.FuncName(td), r.where(td), "-", det, "stored "+det)
	}
	// TransformDocument wires metadata and both processors
	r.requireSucc(P+".wiring", "the result must carry the metadata of the same model and pass through key and service projection", td, core.Ctx{}, "",
		"ok(Metadata.CreateDocumentMetadata(_, $1, $2))", "cmp(<result>.DocumentMetadata == Metadata.CreateDocumentMetadata(_, $1, $2))", "ok(Transformer.processKeys(_, _, <result>))")
	if len(r.callsIn(td, "Transformer.processServices")) != 1 {
		r.R.Bad(P+".wiring.services", "E13: services are projected", core.FuncName(td), r.where(td), "-", "processServices not called exactly once")
	}

	// ---------------- processKeys
	kf := r.E.Facts(pk, core.Ctx{})
	// verification method members
	// the verification-method map is followed into helpers (mapBuild), so the
	// key-material block may live in a function of its own
	vm := map[string][]mapStore{}
	nVM := 0
	for _, b := range pk.Blocks {
		for _, ins := range b.Instrs {
			if mk, ok := ins.(*ssa.MakeMap); ok && strings.HasPrefix(kf.TB.Of(mk).String(), "new:document.PublicKey") {
				nVM++
				stores, okB := r.mapBuild(pk, mk, 2)
				if !okB {
					r.R.Unk(P+".vm.prov", "E5 provenance", core.FuncName(pk), r.P.Pos(mk.Pos()), "-", "the verification-method map cannot be followed")
				}
				for _, st := range stores {
					vm[st.Key] = append(vm[st.Key], st)
				}
			}
		}
	}
	want := map[string]string{
		"id":         "Transformer.getObjectID(_, DIDDocument.ID(_), PublicKey.ID($1.PublicKeys()[_]))",
		"type":       "PublicKey.Type(_)",
		"controller": "ID($2.Document)",
	}
	for _, k := range []string{"id", "type", "controller"} {
		ok := len(vm[k]) == 1 && nVM == 1
		det := fmt.Sprintf("%d stores", len(vm[k]))
		if ok {
			t := vm[k][0].Val
			det = t.String()
			switch k {
			case "id":
				ok = vm[k][0].Match("Transformer.getObjectID(_, ID($2.Document), PublicKey.ID(_))", core.Bind{})
			default:
				ok = vm[k][0].Match(want[k], core.Bind{})
			}
		}
		r.R.Check(ok, P+".vm.prov."+k, "E5 provenance: verification method \""+k+"\"", core.FuncName(pk), r.where(pk), "id must be <did>#<key id> (or #<key id>), controller the DID, type the key's type", short(det, 160), "stored "+short(det, 200))
	}
	// key material per type
	okMat := true
	var mdet []string
	for _, st := range vm["publicKeyBase58"] {
		t := st.Val
		isEd := core.HasFact(st.Facts, `cmp(PublicKey.Type(_) == "Ed25519VerificationKey2018")`) && st.Match("base58.Encode(getED2519PublicKey(PublicKey.PublicKeyJwk(_)))", core.Bind{})
		isPass := st.Match("PublicKey.PublicKeyBase58(_)", core.Bind{})
		if !isEd && !isPass {
			okMat = false
			mdet = append(mdet, "publicKeyBase58 = "+t.String())
		}
	}
	for _, st := range vm["publicKeyMultibase"] {
		t := st.Val
		isEd := core.HasFact(st.Facts, `cmp(PublicKey.Type(_) == "Ed25519VerificationKey2020")`) && st.Match("go-multibase.Encode(122, getED2519PublicKey(PublicKey.PublicKeyJwk(_)))", core.Bind{})
		isPass := st.Match("PublicKey.PublicKeyMultibase(_)", core.Bind{})
		if !isEd && !isPass {
			okMat = false
			mdet = append(mdet, "publicKeyMultibase = "+t.String())
		}
	}
	nJwk := 0
	for _, st := range vm["publicKeyJwk"] {
		t := st.Val
		if st.Match("PublicKey.PublicKeyJwk(_)", core.Bind{}) {
			nJwk++
		} else if t.String() != "nil" {
			okMat = false
			mdet = append(mdet, "publicKeyJwk = "+t.String())
		}
	}
	r.R.Check(okMat && nJwk == 1 && len(vm["publicKeyBase58"]) == 2 && len(vm["publicKeyMultibase"]) == 2, P+".vm.prov.material", "E5 provenance: key material member per key type (Ed25519 2018 → base58(decoded JWK key), 2020 → multibase Base58BTC(decoded JWK key), other JWK types → the JWK itself, base58/multibase material passed through)",
		core.FuncName(pk), r.where(pk), "the external key must be the same key material as the internal one", "as prescribed", strings.Join(mdet, "; ")+fmt.Sprintf(" (jwk stores %d)", nJwk))
	// appended exactly once per key
	head := (*ssa.BasicBlock)(nil)
	for _, h := range allLoopHeads(pk) {
		if head == nil || h.Index < head.Index {
			head = h
		}
	}
	if head != nil {
		paths := loopIterationPaths(kf, head, 20000)
		bad := 0
		n := 0
		for _, ip := range paths {
			if ip.Ret != nil {
				continue
			}
			n++
			cnt := 0
			for _, b := range ip.Blocks[:len(ip.Blocks)-1] {
				for _, ins := range b.Instrs {
					if c, ok := ins.(*ssa.Call); ok && isBuiltin(c, "append") {
						for _, e := range variadicElems(c.Common().Args[1]) {
							if strings.HasPrefix(kf.TB.Of(e).String(), "new:document.PublicKey") {
								cnt++
							}
						}
					}
				}
			}
			if cnt != 1 {
				bad++
			}
		}
		r.R.Count("E8 key-projection iteration paths", n)
		r.R.Check(bad == 0 && n > 0, P+".vm.once", "E8: every non-failing iteration over the internal keys appends exactly one verification method", core.FuncName(pk), r.where(pk), "a key listed twice or not at all", fmt.Sprintf("%d iteration paths", n), fmt.Sprintf("%d of %d iteration paths append another number of verification methods", bad, n))
	}
	// purposes -> relationship sections with equal names
	nCases := 0
	var pbad []string
	for _, b := range pk.Blocks {
		for _, ins := range b.Instrs {
			mu, ok := ins.(*ssa.MapUpdate)
			if !ok {
				continue
			}
			mt := kf.TB.Of(mu.Map).String()
			// (a locally made map from strings to lists, whatever its type is called)
			ut := mu.Map.Type().Underlying().String()
			if os.Getenv("SIDECHECK_DEBUG_C19") != "" {
				fmt.Fprintln(os.Stderr, "C19 mapupdate", mt, "|", ut)
			}
			okMap := false
			if m, isM := mu.Map.Type().Underlying().(*types.Map); isM {
				if kb, isB := m.Key().Underlying().(*types.Basic); isB && kb.Kind() == types.String {
					if sl, isS := types.Unalias(m.Elem()).Underlying().(*types.Slice); isS {
						if _, isI := types.Unalias(sl.Elem()).Underlying().(*types.Interface); isI {
							okMap = true
						}
					}
				}
			}
			_ = ut
			if !strings.HasPrefix(mt, "new:") || !okMap {
				continue
			}
			c, isC := stripIface(mu.Value).(*ssa.Call)
			if !isC || !isBuiltin(c, "append") {
				continue // initial empty slices
			}
			// table form: the section name is looked up in a package-level map literal (nothing writes it) under the
			// purpose of this iteration — then each entry of the literal is one case, and its value must equal its key
			kt := kf.TB.Of(mu.Key)
			if kt.Op == "res" && kt.Idx == 0 && len(kt.Args) == 1 {
				kt = kt.Args[0] // value of a comma-ok lookup
			}
			if kt.Op == "lookup" && len(kt.Args) == 2 && kt.Args[0].Op == "global" && strings.Contains(kt.Args[1].String(), ".Purpose(") {
				if gv, isG := kt.Args[0].Val.(*ssa.Global); isG && gv.Pkg != nil && len(r.readOnlyMapKeys(kt.Args[0])) > 0 {
					entries, _ := r.mapLiteralKeys(core.Rel(gv.Pkg.Pkg.Path()), gv.Name())
					first := kf.TB.Of(c.Common().Args[0])
					sameSection := first.Op == "lookup" && len(first.Args) == 2 && first.Args[1].String() == kf.TB.Of(mu.Key).String()
					elOK := false
					for _, e := range variadicElems(c.Common().Args[1]) {
						if core.MatchTerm("Transformer.getObjectID(...)", kf.TB.Of(stripIface(e)), core.Bind{}) {
							elOK = true
						}
					}
					underHit := core.HasFact(kf.At(mu), "hit(_, _)")
					for purpose, section := range entries {
						nCases++
						if purpose != section || !sameSection || !elOK || !underHit {
							pbad = append(pbad, fmt.Sprintf("purpose %q appends to section %q (table %s; same section read and written: %v, id element: %v, under the lookup's hit: %v)", purpose, section, gv.Name(), sameSection, elOK, underHit))
						}
					}
					continue
				}
			}
			nCases++
			key := strings.Trim(kf.TB.Of(mu.Key).String(), `"`)
			at := kf.At(mu)
			purpose := ""
			for _, fc := range at {
				if fc.Kind == "cmp" && fc.Op == "==" && fc.B.Op == "const" && strings.Contains(fc.A.String(), ".Purpose(") {
					purpose = strings.Trim(fc.B.Name, `"`)
				}
			}
			first := kf.TB.Of(c.Common().Args[0]).String()
			okSame := purpose == key && strings.HasSuffix(first, `["`+key+`"]`)
			elOK := false
			for _, e := range variadicElems(c.Common().Args[1]) {
				if core.MatchTerm("Transformer.getObjectID(...)", kf.TB.Of(stripIface(e)), core.Bind{}) {
					elOK = true
				}
			}
			if !okSame || !elOK {
				pbad = append(pbad, fmt.Sprintf("purpose %q appends to section %q (from %s, id element %v)", purpose, key, short(first, 60), elOK))
			}
		}
	}
	r.R.Check(nCases == 5 && len(pbad) == 0, P+".tables.purposes", "E7: each of the five purposes appends the verification-method id to the relationship section whose name equals the purpose", core.FuncName(pk), r.where(pk),
		"a key referenced from another relationship than its purpose names grants it capabilities it was not given", "5 cases, names equal", strings.Join(pbad, "; ")+fmt.Sprintf(" (%d cases)", nCases))
	// validator's purposes = the same five; key types ↔ contexts
	vp, ok1 := r.mapLiteralKeys(pkgPatchVal, "allowedPurposes")
	kt, ok2 := r.mapLiteralKeys(pkgPatchVal, "allowedKeyTypesGeneral")
	kc, ok3 := r.mapLiteralKeys(pkgDidTrans, "defaultKeyContextMap")
	ks := func(m map[string]string) []string {
		var out []string
		for k := range m {
			out = append(out, k)
		}
		sort.Strings(out)
		return out
	}
	wantP := []string{"assertionMethod", "authentication", "capabilityDelegation", "capabilityInvocation", "keyAgreement"}
	r.R.Check(ok1 && fmt.Sprint(ks(vp)) == fmt.Sprint(wantP), P+".tables.purposes.validator", "E7 sibling: the validator admits exactly the five purposes the transformer projects", "patchvalidator.allowedPurposes", "-", "a purpose admitted but not projected is silently dropped from the external document", fmt.Sprint(ks(vp)), fmt.Sprint(ks(vp)))
	r.R.Check(ok2 && ok3 && fmt.Sprint(ks(kt)) == fmt.Sprint(ks(kc)) && len(kt) == 6, P+".tables.keytypes", "E7 sibling: every key type the validator admits has a context in the transformer's table, and vice versa", "patchvalidator.allowedKeyTypesGeneral ↔ didtransformer.defaultKeyContextMap", "-",
		"a key type without a context makes resolution of a valid document fail", fmt.Sprint(ks(kt)), fmt.Sprintf("validator %v vs transformer %v", ks(kt), ks(kc)))
	// context of every key type used is included: error on unknown, appended when new
	okLookup := false
	for _, b := range pk.Blocks {
		for _, s2 := range b.Succs {
			for _, fc := range kf.EdgeFacts(b, s2) {
				if fc.Kind == "miss" && core.MatchTerm("PublicKey.Type(_)", fc.B, core.Bind{}) && onlyErrors(kf, s2) {
					okLookup = true
				}
			}
		}
	}
	// ... and appended when new: from the hit edge of the context lookup, no path completes the iteration (returns
	// to the lookup or to a success return) without passing the append of the looked-up context, except across an
	// edge whose test mentions that context (the "already listed" test, whatever its form)
	{
		var hit *ssa.BasicBlock
		var ctxVal ssa.Value
		for _, b := range pk.Blocks {
			for _, in := range b.Instrs {
				if lk, ok := in.(*ssa.Lookup); ok && lk.CommaOk && strings.Contains(kf.TB.Of(lk.X).String(), "keyCtx") {
					for _, ref := range *lk.Referrers() {
						if ex, ok := ref.(*ssa.Extract); ok && ex.Index == 0 {
							ctxVal = ex
						}
					}
					for _, s2 := range b.Succs {
						isMiss := false
						for _, fc := range kf.EdgeFacts(b, s2) {
							if fc.Kind == "miss" {
								isMiss = true
							}
						}
						if !isMiss && len(b.Succs) == 2 {
							hit = s2
						}
					}
				}
			}
		}
		okApp, detApp := false, "context lookup or its hit edge not found"
		if hit != nil && ctxVal != nil {
			ctxTerm := kf.TB.Of(ctxVal).String()
			lookupBlock := ctxVal.(*ssa.Extract).Block()
			appendBlocks := map[*ssa.BasicBlock]bool{}
			for _, b := range pk.Blocks {
				for _, in := range b.Instrs {
					c, ok := in.(*ssa.Call)
					if !ok {
						continue
					}
					if bi, ok := c.Call.Value.(*ssa.Builtin); ok && bi.Name() == "append" && len(c.Call.Args) == 2 {
						if strings.Contains(kf.TB.Of(c.Call.Args[1]).String(), ctxTerm) || mentionsValue(c.Call.Args[1], ctxVal, 6) {
							appendBlocks[b] = true
						}
					}
				}
			}
			detApp = fmt.Sprintf("%d append site(s) of the looked-up context", len(appendBlocks))
			okApp = len(appendBlocks) > 0
			seen := map[*ssa.BasicBlock]bool{}
			var walk func(b *ssa.BasicBlock)
			walk = func(b *ssa.BasicBlock) {
				if seen[b] || appendBlocks[b] || !okApp {
					return
				}
				seen[b] = true
				if ret, ok := b.Instrs[len(b.Instrs)-1].(*ssa.Return); ok {
					for _, ri := range kf.Returns() {
						if ri.Ret == ret && ri.Class != core.RetFail {
							okApp = false
							detApp = "the success return at " + r.P.Pos(ret.Pos()) + " is reachable from the lookup without appending the context and without a test on it"
						}
					}
					return
				}
				for _, s2 := range b.Succs {
					guarded := false
					for _, fc := range kf.EdgeFacts(b, s2) {
						if fc.Kind != "miss" && fc.Kind != "hit" && strings.Contains(fc.Key(), ctxTerm) {
							guarded = true
						}
					}
					// the test may be on a flag set by an earlier test on the context (a hand-written search loop)
					if iff, ok := b.Instrs[len(b.Instrs)-1].(*ssa.If); ok && !guarded && len(b.Succs) == 2 {
						cond, neg := iff.Cond, false
						if u, ok := cond.(*ssa.UnOp); ok && u.Op == token.NOT {
							cond, neg = u.X, true
						}
						if phi, ok := cond.(*ssa.Phi); ok {
							edgeVal := (s2 == b.Succs[0]) != neg // value of the flag on this edge
							for i, e := range phi.Edges {
								c, ok := e.(*ssa.Const)
								if !ok || c.Value == nil || (c.Value.String() == "true") != edgeVal {
									continue
								}
								cur := phi.Block().Preds[i]
								for n := 0; n < 4 && len(cur.Preds) == 1; n++ {
									for _, fc := range kf.EdgeFacts(cur.Preds[0], cur) {
										if strings.Contains(fc.Key(), ctxTerm) {
											guarded = true
										}
									}
									cur = cur.Preds[0]
								}
							}
						}
					}
					if guarded {
						continue
					}
					if s2 == lookupBlock {
						okApp = false
						detApp = "the next iteration is reachable from " + r.P.Pos(firstPos(b)) + " without appending the context and without a test on it"
						return
					}
					walk(s2)
				}
			}
			walk(hit)
		}
		r.R.Check(okApp, P+".tables.context.appended", "E2/E9 must-pass-through: after a successful context lookup, every way to the next key or to the success return passes the append of that context, or an edge whose test mentions it (already listed)", core.FuncName(pk), r.where(pk),
			"the context of every key type used must be included; a guard that does not look at the context (a count, a flag) drops the contexts of later key types", "append or test-on-context on every path", detApp)
	}
	r.R.Check(okLookup, P+".tables.context.lookup", "E2: a key type without an entry in the context table is an error", core.FuncName(pk), r.where(pk), "a key type without a context must be an error, never silently omitted", "miss → error", "no error on a missing context")

	// ---------------- services
	sf := r.E.Facts(ps, core.Ctx{})
	isSvc := func(m ssa.Value) bool { return strings.HasPrefix(sf.TB.Of(m).String(), "new:document.Service") }
	sv := r.mapStores(ps, isSvc)
	okS := len(sv["id"]) == 1 && len(sv["type"]) == 1 && len(sv["serviceEndpoint"]) == 1
	if okS {
		okS = core.MatchTerm("Transformer.getObjectID(_, ID($2.Document), Service.ID(_))", sf.TB.Of(stripIface(sv["id"][0].Value)), core.Bind{}) &&
			core.MatchTerm("Service.Type(_)", sf.TB.Of(stripIface(sv["type"][0].Value)), core.Bind{}) &&
			core.MatchTerm("Service.ServiceEndpoint(_)", sf.TB.Of(stripIface(sv["serviceEndpoint"][0].Value)), core.Bind{})
	}
	// remaining members copied under miss
	okRest := false
	for k, mus := range sv {
		if k == "id" || k == "type" || k == "serviceEndpoint" {
			continue
		}
		for _, mu := range mus {
			if core.HasFact(sf.At(mu), "miss(_, _)") {
				okRest = true
			}
		}
	}
	r.R.Check(okS && okRest, P+".vm.prov.service", "E5 provenance: external service id = objectID(did, service id), type and endpoint from the service, remaining members copied when not already set", core.FuncName(ps), r.where(ps),
		"every service must appear with a DID-qualified id and its remaining members", "as prescribed", fmt.Sprintf("core members ok=%v, remaining members copied=%v", okS, okRest))
	if g := r.fn(P, pkgDidTrans, "Transformer.getObjectID"); g != nil {
		gf := r.E.Facts(g, core.Ctx{})
		okBase, okFull := false, false
		for _, ri := range gf.Returns() {
			t := gf.TB.Of(stripIface(core.RetOp(ri.Ret, 0))).String()
			if core.HasFact(ri.Facts, "true($0.includeBase)") && t == `("#" + $objectID)` {
				okBase = true
			}
			if core.HasFact(ri.Facts, "false($0.includeBase)") && t == `($docID + ("#" + $objectID))` {
				okFull = true
			}
		}
		r.R.Check(okBase && okFull, P+".vm.prov.objectid", "E2 normal form: object id = '#'+id under a base context, did+'#'+id otherwise", core.FuncName(g), r.where(g), "-", "both forms", fmt.Sprintf("base form %v, full form %v", okBase, okFull))
	}
}

func stripIface(v ssa.Value) ssa.Value {
	for {
		switch x := v.(type) {
		case *ssa.MakeInterface:
			v = x.X
		case *ssa.ChangeType:
			v = x.X
		case *ssa.ChangeInterface:
			v = x.X
		default:
			return v
		}
	}
}

// checkSectionsListed (C19, "lists every service / every key"): in the outer
// loop over the internal entries each completing iteration appends the external
// entry exactly once to the list that is stored, under the section's name, in
// the external document whenever that list is not empty.
func (r *Run) checkSectionsListed(P string) {
	for _, sp := range []struct{ fn, section, elemPrefix string }{
		{"Transformer.processServices", "service", "new:document.Service"},
		{"Transformer.processKeys", "verificationMethod", "new:document.PublicKey"},
	} {
		f := r.fn(P, pkgDidTrans, sp.fn)
		if f == nil {
			continue
		}
		ff := r.E.Facts(f, core.Ctx{})
		var head *ssa.BasicBlock
		for _, h := range allLoopHeads(f) {
			if head == nil || h.Index < head.Index {
				head = h
			}
		}
		id := P + ".listed." + sp.section
		why := "an entry that is built but not appended, or a list that is not stored, silently disappears from the external document"
		if head == nil {
			r.R.Unk(id, "anchor", core.FuncName(f), r.where(f), why, "no loop over the internal entries")
			continue
		}
		var listAppend *ssa.Call
		bad, n := 0, 0
		for _, ip := range loopIterationPaths(ff, head, 20000) {
			if ip.Ret != nil {
				continue
			}
			n++
			cnt := 0
			for _, b := range ip.Blocks[:len(ip.Blocks)-1] {
				for _, ins := range b.Instrs {
					if c, ok := ins.(*ssa.Call); ok && isBuiltin(c, "append") && len(c.Common().Args) == 2 {
						for _, e := range variadicElems(c.Common().Args[1]) {
							if strings.HasPrefix(ff.TB.Of(stripIface(e)).String(), sp.elemPrefix) {
								cnt++
								listAppend = c
							}
						}
					}
				}
			}
			if cnt != 1 {
				bad++
			}
		}
		r.R.Check(bad == 0 && n > 0, id+".append", "E8 exactly-once: every completing iteration over the internal entries appends the external entry once", core.FuncName(f), r.where(f), why,
			fmt.Sprintf("%d iteration paths, one append each", n), fmt.Sprintf("%d of %d iteration paths do not append the external entry exactly once", bad, n))
		// the stored list is the one the entries were appended to, stored under the section name, skipped only when empty
		okStore := false
		det := "no store of the list under \"" + sp.section + "\""
		for _, b := range f.Blocks {
			for _, ins := range b.Instrs {
				mu, ok := ins.(*ssa.MapUpdate)
				if !ok || trimQ(ff.TB.Of(mu.Key).String()) != sp.section {
					continue
				}
				fromList := false
				for _, l := range phiLeaves(stripIface(mu.Value)) {
					if listAppend != nil && l == ssa.Value(listAppend) {
						fromList = true
					}
				}
				if !fromList {
					det = "the value stored under \"" + sp.section + "\" is not the list the entries were appended to"
					continue
				}
				// bypassed only across len(list) == 0
				okStore = true
				for _, ri := range ff.Returns() {
					if reachesAvoiding(ff, f.Blocks[0].Instrs[0], ri.Ret, func(a, bb *ssa.BasicBlock) bool {
						if bb == mu.Block() {
							return true
						}
						for _, fc := range ff.EdgeFacts(a, bb) {
							set := core.FactSet{fc.Key(): fc}
							if core.HasFact(set, "cmp(len(_) == 0)") {
								return true
							}
						}
						return false
					}) && ri.Class == core.RetSuccess {
						okStore = false
						det = "the store can be bypassed although the list is not empty"
					}
				}
			}
		}
		r.R.Check(okStore, id+".store", "E5/E8: the appended list is stored under \""+sp.section+"\" and the store is bypassed only across len(list) = 0", core.FuncName(f), r.where(f), why, "stored", det)
	}
}

// mentionsValue: v is reachable from x through at most depth operand steps (slices of single-element array literals,
// conversions, stores into the backing array).
func mentionsValue(x, v ssa.Value, depth int) bool {
	if x == v {
		return true
	}
	if depth == 0 {
		return false
	}
	switch t := x.(type) {
	case *ssa.Slice:
		if al, ok := t.X.(*ssa.Alloc); ok {
			for _, ref := range *al.Referrers() {
				if ia, ok := ref.(*ssa.IndexAddr); ok {
					for _, r2 := range *ia.Referrers() {
						if st, ok := r2.(*ssa.Store); ok && mentionsValue(st.Val, v, depth-1) {
							return true
						}
					}
				}
			}
		}
		return mentionsValue(t.X, v, depth-1)
	case *ssa.MakeInterface:
		return mentionsValue(t.X, v, depth-1)
	case *ssa.ChangeType:
		return mentionsValue(t.X, v, depth-1)
	case *ssa.Convert:
		return mentionsValue(t.X, v, depth-1)
	}
	return false
}

func mentionsAny(s string, toks []string) bool {
	for _, t := range toks {
		if strings.Contains(s, t) {
			return true
		}
	}
	return false
}
