package props

import (
	"fmt"
	"strings"

	"golang.org/x/tools/go/ssa"

	"sidecheck/core"
)

// opRole is the per-operation-type role table shared by C01/C03/C05/C10/C12:
// which signed-data parser, which key field and which parse function belong
// to an operation type. It transcribes the Sidetree operation models.
type opRole struct {
	Type       string // operation.Type constant value
	ParseOp    string // OperationParser method that parses the request
	ParseSD    string // OperationParser method that parses the signed data ("" for create)
	KeyField   string // field of the signed-data model holding the signing key
	NextCommit string // where the next commitment lives
}

var opRoles = []opRole{
	{"create", "ParseCreateOperation", "", "", ""},
	{"update", "ParseUpdateOperation", "ParseSignedDataForUpdate", "UpdateKey", "Delta.UpdateCommitment"},
	{"recover", "ParseRecoverOperation", "ParseSignedDataForRecover", "RecoveryKey", "RecoveryCommitment"},
	{"deactivate", "ParseDeactivateOperation", "ParseSignedDataForDeactivate", "RecoveryKey", ""},
}

// applierFuncs maps operation type -> the function Applier.Apply dispatches to.
func (r *Run) applierFuncs(prop string) map[string]*ssa.Function {
	out := map[string]*ssa.Function{}
	apply := r.fn(prop, pkgApplier, "Applier.Apply")
	if apply == nil {
		return out
	}
	d := r.dispatch(apply, core.Ctx{}, "Type")
	for _, role := range opRoles {
		calls := d[role.Type]
		id := prop + ".dispatch.apply." + role.Type
		rule := "E7 dispatch: Applier.Apply routes operation type to exactly one applier function"
		if len(calls) != 1 {
			r.R.Bad(id, rule, "Applier.Apply case "+role.Type, r.where(apply),
				"an operation type without (or with an ambiguous) handler is applied by the wrong rules",
				fmt.Sprintf("%d subject calls under cmp(op.Type == %q)", len(calls), role.Type))
			continue
		}
		_, callee, _ := r.P.CalleeKey(calls[0].Common())
		out[role.Type] = callee
		r.R.Ok(id, rule, "Applier.Apply case "+role.Type, r.P.Pos(calls[0].Pos()), "dispatch table", "-> "+core.FuncName(callee))
	}
	return out
}

func init() {
	register(&Checker{
		ID: "C01",
		Explanation: "Structural necessary conditions of C01, decided on every path of the anchored functions (no execution): " +
			"(sig) every state-producing return of the update/recover/deactivate appliers is dominated by the nil-error edge of VerifyJWS(op.SignedData, key) where key is the key field of the signed-data model parsed from the same op.SignedData of the operation parsed from the anchored request; " +
			"(verify.flow) VerifyJWS succeeds only through VerifySignature(jwk, parsed.signature, signingInput(parsed.ProtectedHeaders, parsed.Payload)) and the EC/Ed25519 verifiers return nil only on the true edge of ecdsa.Verify/ed25519.Verify over the same key, message and signature; " +
			"(reveal) the three Parse*Operation functions succeed, in batch and non-batch mode, only when RevealValue == CalculateModelMultihash(signing key, code(RevealValue)); " +
			"(lookup) the processor buckets operations by GetCommitmentFromRevealValue(parser.GetRevealValue(request)) and hands applyFirstValidOperation exactly opMap[current commitment]; " +
			"(create.order) the create-ordering comparator is a strict weak order equal to 'published before unpublished' (shared with C02). " +
			"Not decided: cryptographic strength, the metamorphic claim over whole histories (obligations are per operation; composition is argued in DESIGN.md).",
		Assumptions: []string{
			"ecdsa.Verify / ed25519.Verify / crypto hashes behave as documented",
			"parsed models are written once (E1 side condition: no store to a prefix of a compared access path between the check and the use)",
		},
		Run: runC01,
	})
}

func runC01(r *Run) {
	const P = "C01"
	appl := r.applierFuncs(P)

	// --- C01.sig.<type>
	for _, role := range opRoles {
		if role.ParseSD == "" {
			continue
		}
		f := appl[role.Type]
		if f == nil {
			continue
		}
		why := "if this fails, a " + role.Type + " with a forged/absent signature, or one verified against a key that is not in its own signed data, changes the resolved state"
		r.requireSucc(P+".sig."+role.Type, why, f, core.Ctx{}, "",
			"ok("+role.ParseOp+"(_, $1.OperationRequest, true))",
			"ok("+role.ParseSD+"(_, "+role.ParseOp+"(_, $1.OperationRequest, true).SignedData))",
			"ok(internal/jws.VerifyJWS("+role.ParseOp+"(_, $1.OperationRequest, true).SignedData, "+role.ParseSD+"(_, "+role.ParseOp+"(_, $1.OperationRequest, true).SignedData)."+role.KeyField+", ...))",
		)
	}

	r.checkVerifyFlow(P)
	// an operation changes the state only through the chain of its own type (recover/deactivate against the
	// recovery commitment, update against the update commitment) and leaves exactly the prescribed commitments
	// behind: the phase wiring of Resolve and the per-type effect rows (shared with C03)
	r.checkFullThenUpdate(P)
	r.checkResolveFlow(P)
	r.checkCandidateNoTrace(P, "OperationProcessor.applyFirstValidOperation")
	r.checkCandidateNoTrace(P, "OperationProcessor.applyFirstValidCreateOperation")
	// … and must not end the search: a forged candidate anchored first is skipped, the genuine one behind it applied
	r.checkFirstApplicable(P, "OperationProcessor.applyFirstValidOperation")
	r.checkFirstApplicable(P, "OperationProcessor.applyFirstValidCreateOperation")
	r.checkEffectTable(P, false)
	// an operation that is not authorised must not change the result by its mere presence: a commitment counts as
	// consumed only once a state was produced from it (shared with C03), and supplied operations are dropped only as
	// anchored duplicates (shared with C02)
	r.checkProgress(P)
	r.checkAdditionalMerge(P)

	// --- C01.reveal.<type> in both modes
	for _, role := range opRoles {
		if role.ParseSD == "" {
			continue
		}
		f := r.fn(P, pkgParser, "Parser."+role.ParseOp)
		if f == nil {
			continue
		}
		for _, batch := range []bool{true, false} {
			ctx, ok := boolParamCtx(f, batch)
			if !ok {
				r.R.Unk(P+".reveal."+role.Type, "E2 conditional summary on the batch flag", core.FuncName(f), r.where(f), "-", "no bool parameter found")
				continue
			}
			name := fmt.Sprintf("batch=%v", batch)
			r.requireSucc(fmt.Sprintf("%s.reveal.%s.%s", P, role.Type, name),
				"if this fails (in this mode), a "+role.Type+" revealing a value that is not the hash of its signing key is grouped under somebody else's commitment",
				f, ctx, name,
				"ok("+role.ParseSD+"(_, ?sd))",
				"cmp(?sd == <result>.SignedData)",
				"ok(hashing.IsValidModelMultihash("+role.ParseSD+"(_, ?sd)."+role.KeyField+", ?rv))",
				"cmp(?rv == <result>.RevealValue)",
			)
		}
	}

	// --- C01.hash.eq
	if f := r.fn(P, pkgHashing, "IsValidModelMultihash"); f != nil {
		r.requireSucc(P+".hash.eq",
			"if this fails, a model is accepted against a multihash that is not its hash under the algorithm the multihash names",
			f, core.Ctx{}, "",
			"ok(hashing.GetMultihashCode($1))",
			"cmp(hashing.CalculateModelMultihash($0, hashing.GetMultihashCode($1)) == $1)",
		)
	}

	// --- C01.lookup
	r.checkLookup(P)

	if r.Universal {
		r.universalE11(P, pkgProcessor, pkgApplier, pkgParser, pkgIJWS, pkgHashing, pkgCommitment)
	}

	// --- C01.create.order (shared with C02): creates are first ordered chronologically, then published-first
	r.checkChrono(P, "sortOperations@processor", r.fn(P, pkgProcessor, "sortOperations"))
	r.checkCreateOrder(P)
}

// checkLookup: candidates are bucketed by commitment recomputed from the reveal
// value and selected by the commitment currently in force.
func (r *Run) checkLookup(P string) {
	hm := r.fn(P, pkgProcessor, "OperationProcessor.createOperationHashMap")
	ao := r.fn(P, pkgProcessor, "OperationProcessor.applyOperations")
	grv := r.fn(P, pkgProcessor, "OperationProcessor.getRevealValue")
	if hm == nil || ao == nil || grv == nil {
		return
	}
	// (a) every MapUpdate into the returned map is keyed by GetCommitmentFromRevealValue(getRevealValue(op)) under ok of both
	ff := r.E.Facts(hm, core.Ctx{})
	n := 0
	for _, b := range hm.Blocks {
		for _, ins := range b.Instrs {
			mu, ok := ins.(*ssa.MapUpdate)
			if !ok {
				continue
			}
			n++
			key := ff.TB.Of(mu.Key)
			at := ff.At(mu)
			bind := core.Bind{}
			okKey := core.MatchTerm("commitment.GetCommitmentFromRevealValue(getRevealValue(_, ?op))", key, bind)
			okFacts := okKey && core.HasFact(at, "ok(commitment.GetCommitmentFromRevealValue(getRevealValue(_, _)))") &&
				core.HasFact(at, "ok(getRevealValue(_, _))")
			// the appended element is the same op
			val := ff.TB.Of(mu.Value)
			okVal := okKey && strings.Contains(val.String(), bind["op"].String())
			r.R.Check(okKey && okFacts && okVal, P+".lookup.bucket.key", "E13 ArgIs: bucket key = GetCommitmentFromRevealValue(getRevealValue(op)), value appends that op",
				core.FuncName(hm), r.P.Pos(mu.Pos()),
				"if this fails, candidates are not selected by the commitment their revealed key hashes to",
				"key="+short(key.String(), 140), fmt.Sprintf("key=%s okFacts=%v valueIsOp=%v", key, okFacts, okVal))
		}
	}
	r.R.Floor(P+".lookup.bucket.floor", "instance floor", n, 1, "map updates in createOperationHashMap")
	// (b) getRevealValue returns parser.GetRevealValue(op.OperationRequest) for the protocol version of op
	r.requireSucc(P+".lookup.reveal.source",
		"if this fails, the bucket key is not derived from the operation's own request under its own protocol version",
		grv, core.Ctx{}, "",
		"ok(protocol.Client.Get(_, $1.ProtocolVersion))",
		"cmp(<result> == GetRevealValue(_, $1.OperationRequest))",
	)
	// (c) parser.GetRevealValue returns RevealValue of the batch-mode parse of the same bytes
	if f := r.fn(P, pkgParser, "Parser.GetRevealValue"); f != nil {
		r.requireSucc(P+".lookup.reveal.parse",
			"if this fails, the reveal value used for bucketing is not the one validated against the signing key",
			f, core.Ctx{}, "",
			"ok(ParseOperation(_, _, $1, true))",
			"cmp(<result> == ParseOperation(_, _, $1, true).RevealValue)",
		)
	}
	// (d) in applyOperations, the slice given to applyFirstValidOperation is opMap[c] with c = commitmentFnc(state)
	aff := r.E.Facts(ao, core.Ctx{})
	calls := r.callsIn(ao, "OperationProcessor.applyFirstValidOperation")
	r.R.Floor(P+".lookup.select.floor", "instance floor", len(calls), 1, "calls to applyFirstValidOperation in applyOperations")
	for _, c := range calls {
		args := c.Common().Args
		// args: recv, ops, state, currCommitment, processed
		if len(args) < 5 {
			continue
		}
		ok := true
		var det []string
		// ops must be a phi over lookups opMap[c'] where c' is the commitment passed as currCommitment
		opsVals := phiLeaves(args[1])
		cVals := phiLeaves(args[3])
		for _, ov := range opsVals {
			ex, isEx := ov.(*ssa.Extract)
			var lk *ssa.Lookup
			if isEx {
				lk, _ = ex.Tuple.(*ssa.Lookup)
			}
			if lk == nil {
				ok = false
				det = append(det, "candidate slice does not come from a map lookup: "+aff.TB.Of(ov).String())
				continue
			}
			mt := aff.TB.Of(lk.X)
			if !core.MatchTerm("createOperationHashMap(_, $1)", mt, core.Bind{}) {
				ok = false
				det = append(det, "lookup is not into createOperationHashMap(ops): "+mt.String())
			}
			// the key is the very value passed as current commitment, or one of the values it can take
			found := lk.Index == args[3]
			for _, cv := range cVals {
				if cv == lk.Index {
					found = true
				}
			}
			if !found {
				all := true
				for _, kl := range phiLeaves(lk.Index) {
					in := false
					for _, cv := range cVals {
						if cv == kl {
							in = true
						}
					}
					if !in {
						all = false
					}
				}
				found = all && len(phiLeaves(lk.Index)) > 0
			}
			if !found {
				ok = false
				det = append(det, "lookup key is not the commitment passed as current commitment: "+aff.TB.Of(lk.Index).String())
			}
		}
		for _, cv := range cVals {
			ct := aff.TB.Of(cv)
			if ct.Op != "call" || len(ct.Args) != 1 {
				ok = false
				det = append(det, "current commitment is not commitmentFnc(state): "+ct.String())
			}
		}
		r.R.Check(ok, P+".lookup.select", "E13 ArgIs: applyFirstValidOperation(opMap[c], state, c, consumed) with c = commitmentFnc(state)",
			core.FuncName(ao), r.P.Pos(c.Pos()),
			"if this fails, the candidates tried are not those whose revealed key matches the commitment in force",
			fmt.Sprintf("%d candidate sources, %d commitment sources, all consistent", len(opsVals), len(cVals)), strings.Join(det, "; "))
	}
}

// phiLeaves expands phis to their non-phi leaves.
func phiLeaves(v ssa.Value) []ssa.Value {
	seen := map[ssa.Value]bool{}
	var out []ssa.Value
	var rec func(v ssa.Value)
	rec = func(v ssa.Value) {
		if seen[v] {
			return
		}
		seen[v] = true
		if p, ok := v.(*ssa.Phi); ok {
			// a phi that a later test pins to one operand wherever it is used (the result variable of an inlined
			// helper) stands for that operand
			if rv := core.ResolvedPhi(p); rv != nil {
				rec(rv)
				return
			}
			for _, e := range p.Edges {
				rec(e)
			}
			return
		}
		out = append(out, v)
	}
	rec(v)
	return out
}

// checkVerifyFlow: VerifyJWS / VerifySignature / verifyEC / verifyEd25519 flow obligations (shared by C01 and C09).
func (r *Run) checkVerifyFlow(P string) {
	// --- C01.verify.flow
	if f := r.fn(P, pkgIJWS, "VerifyJWS"); f != nil {
		r.requireSucc(P+".verify.flow.VerifyJWS",
			"if this fails, a JWS whose payload or protected header was altered, or that was signed by another key, verifies",
			f, core.Ctx{}, "",
			"cmp(<result> == internal/jws.ParseJWS($0, ...))",
			"ok(internal/jws.VerifySignature($1, <result>.signature, internal/jws.signingInput(<result>.ProtectedHeaders, <result>.Payload)))",
		)
	}
	if f := r.fn(P, pkgIJWS, "VerifySignature"); f != nil {
		r.requireEachSuccess(P+".verify.flow.VerifySignature",
			"if this fails, some key type is accepted without its signature being checked against the message",
			f, core.Ctx{},
			[]string{"ok(internal/jws.verifyECSignature($0, $1, $2))"},
			[]string{"ok(internal/jws.verifyEd25519Signature($0, $1, $2))"})
	}
	if f := r.fn(P, pkgIJWS, "verifyEd25519Signature"); f != nil {
		r.requireSucc(P+".verify.flow.ed25519",
			"if this fails, an Ed25519 signature is accepted without ed25519.Verify(pub(jwk), msg, signature) being true",
			f, core.Ctx{}, "",
			"true(crypto/ed25519.Verify(internal/jws.GetED25519PublicKey($0), $2, $1))",
		)
	}
	if f := r.fn(P, pkgIJWS, "verifyECSignature"); f != nil {
		b, ok := r.requireSucc(P+".verify.flow.ecdsa",
			"if this fails, an ECDSA signature is accepted without ecdsa.Verify(pub(jwk), H(msg), r, s) being true for the two halves of the signature",
			f, core.Ctx{}, "",
			"true(crypto/ecdsa.Verify(?pub, ?hash, ?r, ?s))",
			"ok(JWK.UnmarshalJSON(?ijwk, encoding/json.Marshal($0)))",
			"cmp(len($1) == (2 * ?ks))",
		)
		if ok {
			// r and s are the two halves of the signature parameter
			rs, ss := b["?r"], b["?s"]
			_ = rs
			_ = ss
			rOK := b["r"] != nil && strings.Contains(b["r"].String(), "$signature[:") || strings.Contains(b["r"].String(), "$signature[:")
			sOK := b["s"] != nil && strings.Contains(b["s"].String(), "$signature[")
			pubOK := b["pub"] != nil && strings.Contains(b["pub"].String(), b["ijwk"].String())
			// the digest is hash.Sum of the hasher — as written, or through a helper whose summary names its result
			hashOK := false
			for _, t := range equalTerms(r.succ(f, core.Ctx{}).Facts, b["hash"]) {
				if strings.Contains(t.String(), "Sum(") {
					hashOK = true
				}
			}
			// the hash writer received msg
			msgOK := core.HasFact(r.succ(f, core.Ctx{}).Facts, "ok(io.Writer.Write(_, $2))")
			r.R.Check(rOK && sOK && pubOK && hashOK && msgOK, P+".verify.flow.ecdsa.operands",
				"E13 ArgIs: ecdsa.Verify operands derive from (jwk, hash of msg, signature halves)", core.FuncName(f), r.where(f),
				"if this fails, the verified triple is not the (key, message, signature) that was presented",
				fmt.Sprintf("pub=%s hash=%s r=%s s=%s", short(b["pub"].String(), 80), short(b["hash"].String(), 60), short(b["r"].String(), 80), short(b["s"].String(), 80)),
				fmt.Sprintf("operand provenance: r:%v s:%v pub:%v hash:%v msgHashed:%v (pub=%s r=%s s=%s)", rOK, sOK, pubOK, hashOK, msgOK, b["pub"], b["r"], b["s"]))
		}
	}

}
