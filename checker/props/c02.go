package props

import (
	"fmt"
	"go/token"
	"strings"

	"golang.org/x/tools/go/ssa"

	"sidecheck/core"
)

func init() {
	register(&Checker{
		ID: "C02",
		Explanation: "Structural necessary conditions of C02: (less) each comparator used to order anchored operations (processor.sortOperations, metadata.sortOperations) is evaluated over every abstract input it can distinguish ({<,=,>} per compared field, {0,1} per boolean feature and element; all weak orderings of three elements) and must be a strict weak order equal to lexicographic (TransactionTime, TransactionNumber); the create comparator must equal 'published before unpublished' and be applied with a stable sort; " +
			"(sorted.before.group) in applyResolutionOptions both sorts are executed on every path before the concatenation published++unpublished that is the only slice flowing to filtering, splitting and bucketing, and buckets are filled by a forward range over that slice; " +
			"(first.applicable) applyFirstValidOperation / applyFirstValidCreateOperation return the state of the first element whose application succeeded and return nil only after the range is exhausted (no early exit on a skipped candidate). " +
			"(prov) the coordinates of the last applied operation that the after-last-full-operation filter uses are stamped from the anchored operation being applied (provenance cells, shared with C03/C04); " +
			"Not decided: determinism of caller-supplied stores; that operations carry distinct (time, number) pairs (input assumption).",
		Assumptions: []string{"sort.Slice/SliceStable implement their documented contract for comparators that are strict weak orders"},
		Run:         runC02,
	})
}

func runC02(r *Run) {
	const P = "C02"
	r.checkChrono(P, "sortOperations@processor", r.fn(P, pkgProcessor, "sortOperations"))
	r.checkChrono(P, "sortOperations@metadata", r.fn(P, pkgMetadata, "sortOperations"))
	r.checkMetadataSorted(P)
	r.checkCreateOrder(P)
	r.checkSortedBeforeGroup(P)
	// the update filter "anchored after the last full operation" decides which
	// candidates compete: its coordinates must be those of the applied operation
	r.checkProvenance(P, map[string]bool{"LastOperationTransactionTime": true, "LastOperationTransactionNumber": true})
	// the split into create / update / full lists keeps the sorted order (stable partition) and routes by type
	r.checkFullThenUpdate(P)
	r.checkFirstApplicable(P, "OperationProcessor.applyFirstValidOperation")
	r.checkFirstApplicable(P, "OperationProcessor.applyFirstValidCreateOperation")
	r.checkCandidateNoTrace(P, "OperationProcessor.applyFirstValidOperation")
	r.checkCandidateNoTrace(P, "OperationProcessor.applyFirstValidCreateOperation")
	r.checkAdditionalMerge(P)
	if r.Universal {
		r.universalSorts(P)
	}
}

// sliceRoots follows phis, append(first arg), slicing and conversions back to
// the values a slice value may originate from.
func sliceRoots(v ssa.Value) []ssa.Value { return sliceRootsTB(v, nil) }

// sliceRootsTB: tb (optional) lets the walk see through phis that equal one operand at all their uses and follow a
// field of a local struct to the values stored into it.
func sliceRootsTB(v ssa.Value, tb *core.TermBuilder) []ssa.Value {
	seen := map[ssa.Value]bool{}
	var out []ssa.Value
	var rec func(v ssa.Value)
	rec = func(v ssa.Value) {
		if v == nil || seen[v] {
			return
		}
		seen[v] = true
		switch x := v.(type) {
		case *ssa.Phi:
			if tb != nil {
				if sv := tb.Strip(x); sv != ssa.Value(x) {
					rec(sv)
					return
				}
			}
			for _, e := range x.Edges {
				rec(e)
			}
			return
		case *ssa.Call:
			if b, ok := x.Common().Value.(*ssa.Builtin); ok && b.Name() == "append" {
				before := len(out)
				rec(x.Common().Args[0])
				if c, isC := x.Common().Args[0].(*ssa.Const); isC && c.Value == nil && len(x.Common().Args) == 2 && x.Common().Signature().Variadic() {
					// append(nil, xs...) copies xs
					rec(x.Common().Args[1])
				} else if len(out) == before && tb != nil && len(x.Common().Args) == 2 && x.Common().Signature().Variadic() {
					// the base has no origin of its own (a field that only ever holds the result of this append): the
					// elements are those of the spread operand
					rec(x.Common().Args[1])
				}
				return
			}
		case *ssa.Slice:
			rec(x.X)
			return
		case *ssa.UnOp:
			// load of a field of a local struct: follow every store into that field
			if fa, ok := x.X.(*ssa.FieldAddr); ok && x.Op == token.MUL && tb != nil {
				if al, isAl := tb.Strip(fa.X).(*ssa.Alloc); isAl {
					n := 0
					for _, blk := range tb.Fn.Blocks {
						for _, ins := range blk.Instrs {
							st, isSt := ins.(*ssa.Store)
							if !isSt {
								continue
							}
							sfa, isFA := st.Addr.(*ssa.FieldAddr)
							if !isFA || sfa.Field != fa.Field {
								continue
							}
							if sal, same := tb.Strip(sfa.X).(*ssa.Alloc); same && sal == al {
								n++
								rec(st.Val)
							}
						}
					}
					if n > 0 {
						return
					}
				}
			}
			// load of an address-taken local: follow every store into it
			if a, ok := x.X.(*ssa.Alloc); ok && x.Op == token.MUL {
				n := 0
				if refs := a.Referrers(); refs != nil {
					for _, rf := range *refs {
						if st, ok := rf.(*ssa.Store); ok && st.Addr == a {
							n++
							rec(st.Val)
						}
					}
				}
				if n > 0 {
					return
				}
			}
		case *ssa.ChangeType:
			rec(x.X)
			return
		case *ssa.Const:
			return // nil slice
		}
		out = append(out, v)
	}
	rec(v)
	return out
}

func paramIndex(f *ssa.Function, v ssa.Value) int {
	for i, p := range f.Params {
		if p == v {
			return i
		}
	}
	return -1
}

// checkSortedBeforeGroup: C02.sorted.before.group and C02.published.first.
func (r *Run) checkSortedBeforeGroup(P string) {
	f := r.fn(P, pkgProcessor, "OperationProcessor.applyResolutionOptions")
	if f == nil {
		return
	}
	// who-may-call: the chronological sort is applied to the published and the unpublished list separately,
	// before they are concatenated, and nowhere else — sorting the concatenation would interleave unpublished
	// operations with published ones
	if so := r.fn(P, pkgProcessor, "sortOperations"); so != nil {
		var elsewhere []string
		nHere := 0
		for _, g := range r.P.SubjectFuncs(pkgProcessor) {
			for _, c := range r.callsIn(g, "sortOperations") {
				if c.Common().StaticCallee() != so {
					continue
				}
				if g == f {
					nHere++
				} else {
					elsewhere = append(elsewhere, core.FuncName(g)+" at "+r.P.Pos(c.Pos()))
				}
			}
		}
		r.R.Check(len(elsewhere) == 0 && nHere == 2, P+".sort.sites", "who-may-call: processor.sortOperations is called exactly twice, in applyResolutionOptions (once per list), and nowhere else in the package", core.FuncName(so), r.where(so),
			"a later sort of the concatenated candidates puts an unpublished operation with an earlier request time in front of the anchored operation it competes with", fmt.Sprintf("%d call sites, both in applyResolutionOptions", nHere), fmt.Sprintf("%d sites in applyResolutionOptions; elsewhere: %s", nHere, strings.Join(elsewhere, "; ")))
	}
	ff := r.E.Facts(f, core.Ctx{})
	why := "if the sort does not precede the concatenation that is filtered, split and bucketed, the first candidate in a bucket is not the earliest anchored one and the result depends on store order"
	rule := "E2/E13: filterOps receives append(P, U...) where sortOperations(P) and sortOperations(U) were executed on every path, P derives from the published parameter and U from the unpublished one"
	calls := r.callsIn(f, "OperationProcessor.filterOps")
	r.R.Floor(P+".sorted.before.group.floor", "instance floor", len(calls), 1, "calls to filterOps in applyResolutionOptions")
	// identify the published / unpublished parameters by role: the two
	// []*AnchoredOperation parameters in declaration order (published first) —
	// confirmed against Resolve below.
	var sliceParams []int
	for i, p := range f.Params {
		if strings.HasSuffix(p.Type().String(), "[]*"+core.Module+"/pkg/api/operation.AnchoredOperation") {
			sliceParams = append(sliceParams, i)
		}
	}
	if len(sliceParams) != 2 {
		r.R.Unk(P+".sorted.before.group", rule, core.FuncName(f), r.where(f), why, fmt.Sprintf("expected two operation-slice parameters, found %d", len(sliceParams)))
		return
	}
	for _, c := range calls {
		opsArg := c.Common().Args[1]
		ap, ok := opsArg.(*ssa.Call)
		var det []string
		good := true
		if !ok || !isBuiltin(ap, "append") {
			r.R.Bad(P+".sorted.before.group", rule, core.FuncName(f), r.P.Pos(c.Pos()), why, "the slice passed to filterOps is not the concatenation of the two sorted slices: "+ff.TB.Of(opsArg).String())
			continue
		}
		a0, a1 := ap.Common().Args[0], ap.Common().Args[1]
		at := ff.At(c)
		for k, a := range []ssa.Value{a0, a1} {
			// sorted?
			want := core.Fact{Kind: "called", A: &core.Term{}}
			_ = want
			sorted := false
			for _, fc := range at {
				if fc.Kind == "called" && fc.A.Op == "call" && core.NameMatches(fc.A.Name, "processor.sortOperations") {
					if sc, ok := fc.A.Val.(*ssa.Call); ok && sc.Common().Args[0] == a {
						sorted = true
					}
				}
			}
			if !sorted {
				good = false
				det = append(det, fmt.Sprintf("operand %d of the concatenation (%s) is not sorted on every path before filtering", k, ff.TB.Of(a)))
			}
			roots := sliceRoots(a)
			okRoot := len(roots) > 0
			for _, rt := range roots {
				if paramIndex(f, rt) != sliceParams[k] {
					okRoot = false
				}
			}
			if !okRoot {
				good = false
				det = append(det, fmt.Sprintf("operand %d does not derive (only) from parameter %s", k, f.Params[sliceParams[k]].Name()))
			}
		}
		r.R.Check(good, P+".sorted.before.group", rule, core.FuncName(f), r.P.Pos(c.Pos()), why,
			"filterOps(append(sorted published, sorted unpublished...)): both sorts dominate, published first", strings.Join(det, "; "))
	}
	// role confirmation: Resolve -> processOperations -> applyResolutionOptions threads store.Get as published, unpublished store as unpublished
	res := r.fn(P, pkgProcessor, "OperationProcessor.Resolve")
	po := r.fn(P, pkgProcessor, "OperationProcessor.processOperations")
	if res != nil && po != nil {
		rff := r.E.Facts(res, core.Ctx{})
		ok := false
		det := "no call to processOperations"
		for _, c := range r.callsIn(res, "OperationProcessor.processOperations") {
			a := c.Common().Args
			pub := rff.TB.Of(a[1]).String()
			var unp []string
			for _, l := range sliceRootsTB(a[2], rff.TB) {
				unp = append(unp, rff.TB.Of(l).String())
			}
			okPub := strings.Contains(pub, "$s.store") && strings.Contains(pub, ".Get(")
			okUnp := len(unp) > 0
			for _, u := range unp {
				if !strings.Contains(u, "$s.unpublishedOperationStore") {
					okUnp = false
				}
			}
			ok = okPub && okUnp
			det = fmt.Sprintf("published=%s unpublished=%v", short(pub, 100), unp)
		}
		r.R.Check(ok, P+".published.first.roles", "E13 ArgIs: Resolve passes store.Get(...) as published and unpublishedOperationStore.Get(...) as unpublished", core.FuncName(res), r.where(res),
			"if the roles are swapped, unpublished operations take precedence over anchored ones", det, det)
		pff := r.E.Facts(po, core.Ctx{})
		ok2 := false
		det2 := "no call to applyResolutionOptions"
		for _, c := range r.callsIn(po, "OperationProcessor.applyResolutionOptions") {
			a := c.Common().Args
			t1, t2 := pff.TB.Of(a[sliceParams[0]]), pff.TB.Of(a[sliceParams[1]])
			ok2 = t1.Op == "param" && t2.Op == "param" && t1.Idx < t2.Idx
			det2 = fmt.Sprintf("published<-%s unpublished<-%s", t1, t2)
		}
		r.R.Check(ok2, P+".published.first.thread", "E13 ArgIs: processOperations forwards (published, unpublished) in order", core.FuncName(po), r.where(po),
			"if the two slices are swapped on the way, unpublished operations take precedence", det2, det2)
	}
	// buckets are filled by a forward range over a slice (not a map)
	hm := r.fn(P, pkgProcessor, "OperationProcessor.createOperationHashMap")
	if hm != nil {
		hasNext := false
		for _, b := range hm.Blocks {
			for _, ins := range b.Instrs {
				if _, ok := ins.(*ssa.Next); ok {
					hasNext = true
				}
			}
		}
		hff := r.E.Facts(hm, core.Ctx{})
		okAppend := false
		for _, b := range hm.Blocks {
			for _, ins := range b.Instrs {
				if mu, ok := ins.(*ssa.MapUpdate); ok {
					v := hff.TB.Of(mu.Value).String()
					okAppend = strings.HasPrefix(v, "builtin:append(") && strings.Contains(v, "$ops[")
				}
			}
		}
		r.R.Check(!hasNext && okAppend, P+".bucket.order", "E14: buckets are filled by append in a forward range over the (sorted) slice parameter; no map iteration", core.FuncName(hm), r.where(hm),
			"if buckets were filled in map order, the first candidate per commitment would be arbitrary", "forward slice range, append to bucket", fmt.Sprintf("map/string iteration present=%v appendOfRangeElement=%v", hasNext, okAppend))
	}
}

func isBuiltin(c *ssa.Call, name string) bool {
	b, ok := c.Common().Value.(*ssa.Builtin)
	return ok && b.Name() == name
}

// checkFirstApplicable: the candidate loop returns the first produced state and
// returns nil only when the range is exhausted.
func (r *Run) checkFirstApplicable(P, name string) {
	f := r.fn(P, pkgProcessor, name)
	if f == nil {
		return
	}
	ff := r.E.Facts(f, core.Ctx{})
	id := P + ".first.applicable." + strings.TrimPrefix(name, "OperationProcessor.")
	rule := "E8 loop shape: non-nil result = state of applyOperation(current element) under its nil-error edge; nil result only after the range is exhausted"
	why := "if a skipped candidate ends the loop, or the loop does not stop at the first applicable candidate, a later-anchored operation wins or a valid one is lost"
	// the slice parameter
	sp := -1
	for i, p := range f.Params {
		if strings.HasPrefix(p.Type().String(), "[]") {
			sp = i
		}
	}
	if sp < 0 {
		r.R.Unk(id, rule, core.FuncName(f), r.where(f), why, "no slice parameter")
		return
	}
	pname := f.Params[sp].Name()
	good := true
	var det []string
	nNil, nState := 0, 0
	for _, ri := range ff.Returns() {
		v := core.RetOp(ri.Ret, 0)
		if c, ok := v.(*ssa.Const); ok && c.Value == nil {
			nNil++
			if !core.HasFact(ri.Facts, "cmp(_ >= len($"+pname+"))") {
				good = false
				det = append(det, "nil is returned at "+r.P.Pos(ri.Ret.Pos())+" before the candidates are exhausted")
			}
			continue
		}
		nState++
		t := ff.TB.Of(v)
		b := core.Bind{}
		if !core.MatchTerm("OperationProcessor.applyOperation(_, $"+pname+"[?i], ...)", t, b) {
			good = false
			det = append(det, "returned state is not the result of applyOperation on the current element: "+t.String())
			continue
		}
		if !core.HasFact(ri.Facts, "ok(OperationProcessor.applyOperation(_, $"+pname+"[_], ...))") {
			good = false
			det = append(det, "state returned without the nil-error edge of applyOperation")
		}
	}
	if nNil != 1 || nState != 1 {
		good = false
		det = append(det, fmt.Sprintf("expected one state return and one exhausted return, found %d and %d", nState, nNil))
	}
	// forward range: index increments by one
	r.R.Check(good, id, rule, core.FuncName(f), r.where(f), why, "one return of the first produced state inside the range, one nil return after exhaustion", strings.Join(det, "; "))
}

// universalSorts: every sort call site in subject code must have a comparator
// that is a strict weak order (thorough tier).
func (r *Run) universalSorts(P string) {
	n := 0
	for _, sc := range r.sortCalls() {
		n++
		id := P + ".universal.sort." + core.FuncName(sc.In)
		rule := "E4 (universal): every comparator passed to sort.* in subject code is a strict weak order"
		where := r.P.Pos(sc.Call.Pos())
		why := "a comparator that is not a strict weak order makes the sorted order depend on the input order"
		if sc.Less == nil {
			r.R.Unk(id, rule, core.FuncName(sc.In), where, why, "comparator not resolvable for "+sc.Kind)
			continue
		}
		cf := newCmpFunc(sc.Less, sliceLessClassifier(sc.Less))
		res := cf.analyse(nil)
		switch {
		case res.Undecided != "":
			// non-feature comparators (e.g. string keys) are outside E4: report as listed, not as failure
			r.R.List("E4 comparators outside the feature form (not decided)", fmt.Sprintf("%s at %s: %s", core.FuncName(sc.In), where, res.Undecided))
		case !res.SWO:
			r.R.Bad(id, rule, core.FuncName(sc.In), where, why, res.SWOWhy)
		default:
			r.R.Ok(id, rule, core.FuncName(sc.In), where, why, fmt.Sprintf("%d abstract triples", res.Triples))
		}
	}
	r.R.Floor(P+".universal.sort.floor", "instance floor", n, 3, "sort.* call sites with comparators in subject code")
}

// checkAdditionalMerge: an operation supplied with the resolution request joins the candidates unless it is an
// anchored duplicate — an iteration of the merge loop completes without appending only for an operation that has a
// canonical reference which is found among the references of the *stored anchored* operations (shared by C01, C02).
func (r *Run) checkAdditionalMerge(P string) {
	f := r.fn(P, pkgProcessor, "OperationProcessor.applyResolutionOptions")
	if f == nil {
		return
	}
	ff := r.E.Facts(f, core.Ctx{})
	id := P + ".additional.merge"
	rule := "E6 dual: the loop over the additional operations skips an operation only under CanonicalReference ≠ \"\" ∧ hit(canonical references of the published parameter, its reference)"
	why := "if unpublished operations (empty reference) take part in the duplicate test, the mere presence of any unpublished operation — e.g. a forged one anyone can submit — makes every supplied unpublished operation disappear from resolution"
	var pubParam *ssa.Parameter
	for _, p := range f.Params {
		if p.Name() == "published" {
			pubParam = p
		}
	}
	if pubParam == nil && len(f.Params) >= 3 {
		pubParam = f.Params[2]
	}
	n, nSkip := 0, 0
	var bad []string
	for _, head := range allLoopHeads(f) {
		// the loop over opts.AdditionalOperations
		isMerge := false
		for _, ins := range head.Instrs {
			if ph, ok := ins.(*ssa.Phi); ok {
				_ = ph
			}
		}
		for _, b := range f.Blocks {
			for _, ins := range b.Instrs {
				if ia, ok := ins.(*ssa.IndexAddr); ok && strings.Contains(ff.TB.Of(ia.X).String(), "AdditionalOperations") && head.Dominates(b) {
					isMerge = true
				}
			}
		}
		if !isMerge {
			continue
		}
		for _, ip := range loopIterationPaths(ff, head, 2000) {
			if ip.Ret != nil {
				continue
			}
			n++
			appends := false
			for _, b := range ip.Blocks[1:] {
				for _, ins := range b.Instrs {
					if c, ok := ins.(*ssa.Call); ok && isBuiltin(c, "append") {
						appends = true
					}
				}
			}
			if appends {
				continue
			}
			nSkip++
			pf := pathFacts(ff, ip.Blocks)
			okRef, okHit := false, false
			for _, fc := range pf {
				if fc.Kind == "cmp" && fc.Op == "!=" && strings.HasSuffix(fc.A.String(), ".CanonicalReference") && fc.B.Name == `""` {
					okRef = true
				}
				if fc.Kind == "hit" && strings.HasSuffix(fc.B.String(), ".CanonicalReference") {
					// the map: built from the published parameter alone
					mt := fc.A
					if pubParam != nil && core.MatchTerm("getCanonicalMap($"+pubParam.Name()+")", mt, core.Bind{}) {
						okHit = true
					} else {
						bad = append(bad, "duplicate test against "+short(mt.String(), 100))
					}
				}
			}
			if !okRef || !okHit {
				bad = append(bad, fmt.Sprintf("an additional operation is dropped at %s without (reference ≠ \"\": %v, found among the published references: %v)", r.P.Pos(firstPos(ip.Blocks[len(ip.Blocks)-2])), okRef, okHit))
			}
		}
	}
	r.R.Check(n > 0 && len(bad) == 0, id, rule, core.FuncName(f), r.where(f), why, fmt.Sprintf("%d iteration paths, %d skipping, all under the published-duplicate test", n, nSkip), strings.Join(dedupe(bad), "; "))
}

// checkMetadataSorted: the operation lists of the document metadata are built from the chronologically sorted input —
// the sort is applied to the very slice that is then walked, before the walk.
func (r *Run) checkMetadataSorted(P string) {
	for _, name := range []string{"getPublishedOperations", "getUnpublishedOperations"} {
		f := r.fn(P, pkgMetadata, name)
		if f == nil {
			continue
		}
		id := P + ".metadata.sorted." + name
		rule := "E8 Before: every read of an element of the input list is preceded by sortOperations on that list"
		why := "the published / unpublished operation lists of the resolution metadata are part of the result and must not depend on the order the store returned the operations in"
		if len(f.Params) == 0 {
			r.R.Unk(id, rule, core.FuncName(f), r.where(f), why, "no list parameter")
			continue
		}
		// whatever slice of anchored operations is walked (the parameter or a copy of it) was sorted first
		opsT := f.Params[0].Type().String()
		sorts := r.callsIn(f, "sortOperations")
		n, bad := 0, 0
		for _, b := range f.Blocks {
			for i, ins := range b.Instrs {
				ia, ok := ins.(*ssa.IndexAddr)
				if !ok || ia.X.Type().String() != opsT {
					continue
				}
				n++
				dominated := false
				for _, s := range sorts {
					if len(s.Common().Args) != 1 || s.Common().Args[0] != ia.X {
						continue
					}
					if s.Block() == b {
						for _, prev := range b.Instrs[:i] {
							if prev == ssa.Instruction(s) {
								dominated = true
							}
						}
					} else if s.Block().Dominates(b) {
						dominated = true
					}
				}
				if !dominated {
					bad++
				}
			}
		}
		r.R.Check(len(sorts) >= 1 && n >= 1 && bad == 0, id, rule, core.FuncName(f), r.where(f), why,
			fmt.Sprintf("%d element read(s), all after the sort", n), fmt.Sprintf("%d sort call(s) on the parameter, %d element read(s), %d not preceded by the sort", len(sorts), n, bad))
	}
}
