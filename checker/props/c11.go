package props

import (
	"fmt"
	"go/types"
	"sort"
	"strings"

	"golang.org/x/tools/go/ssa"

	"sidecheck/core"
)

func init() {
	register(&Checker{
		ID: "C11",
		Explanation: "Structural necessary conditions of C11 (the parser's reads are the oracle for the builders' writes and vice versa): (src) every field of Create/Update/Recover/DeactivateRequestInfo is read by its builder family — a caller-supplied window, anchor origin, reveal value or commitment cannot silently vanish; (model) every composite literal of a request / delta / suffix-data / signed-data model in the client package assigns every field of that type that the operation parser or applier reads; (prov) each assigned field has the prescribed provenance: commitments, suffix, reveal value, keys, anchor origin and window come from the like-named info field, delta hashes are CalculateModelMultihash(the builder's own delta, info.MultihashCode), signed data is signutil.SignModel(the builder's own signed-data model, info.Signer), the result is JCS of the request literal with the right operation type; SignModel canonicalises the model and signs it through NewJWS with the signer's headers; " +
			"(pubkey) GetPublicKeyJWK handles exactly ed25519.PublicKey and *ecdsa.PublicKey, marks secp256k1 keys so that the local marshaller is used, and always goes through JWK.MarshalJSON; the secp256k1 marshaller pads X and Y to the fixed coordinate size; (tables) signer and verifier agree on hash and size per curve (shared with C09). " +
			"Not decided: end-to-end acceptance and effect of built requests (a round-trip property over generated inputs).",
		Run: runC11,
	})
}

// structFieldsRead returns the names of fields of named struct T that are read
// (loaded) in the given functions.
func structFieldsRead(fns []*ssa.Function, T *types.Named) map[string]bool {
	out := map[string]bool{}
	st, _ := T.Underlying().(*types.Struct)
	if st == nil {
		return out
	}
	isT := func(t types.Type) bool {
		if p, ok := t.Underlying().(*types.Pointer); ok {
			t = p.Elem()
		}
		return types.Identical(t, T)
	}
	for _, f := range fns {
		for _, b := range f.Blocks {
			for _, ins := range b.Instrs {
				switch x := ins.(type) {
				case *ssa.FieldAddr:
					if !isT(x.X.Type()) {
						continue
					}
					// a read if some referrer is not a store to it
					if refs := x.Referrers(); refs != nil {
						for _, rf := range *refs {
							if s, ok := rf.(*ssa.Store); ok && s.Addr == ssa.Value(x) {
								continue
							}
							if _, ok := rf.(*ssa.DebugRef); ok {
								continue
							}
							out[st.Field(x.Field).Name()] = true
						}
					}
				case *ssa.Field:
					if isT(x.X.Type()) {
						out[st.Field(x.Field).Name()] = true
					}
				}
			}
		}
	}
	return out
}

// literalsOf returns the allocations of named struct T in f with the value
// stored to each field.
func literalsOf(f *ssa.Function, T *types.Named) map[*ssa.Alloc]map[string]ssa.Value {
	out := map[*ssa.Alloc]map[string]ssa.Value{}
	for _, b := range f.Blocks {
		for _, ins := range b.Instrs {
			al, ok := ins.(*ssa.Alloc)
			if !ok || !types.Identical(al.Type().(*types.Pointer).Elem(), T) {
				continue
			}
			m := map[string]ssa.Value{}
			if refs := al.Referrers(); refs != nil {
				for _, rf := range *refs {
					fa, ok := rf.(*ssa.FieldAddr)
					if !ok {
						continue
					}
					if frefs := fa.Referrers(); frefs != nil {
						for _, fr := range *frefs {
							if st, ok := fr.(*ssa.Store); ok && st.Addr == ssa.Value(fa) {
								m[fieldName(fa)] = st.Val
							}
						}
					}
				}
			}
			out[al] = m
		}
	}
	return out
}

type builderSpec struct {
	Type    string
	Fn      string
	Info    string
	Request string
	SD      string                       // signed-data model type ("" for create)
	Prov    map[string]map[string]string // model type -> field -> expected term pattern (?delta, ?sd, ?suffix bound to the builder's own literals)
}

var builderSpecs = []builderSpec{
	{Type: "create", Fn: "NewCreateRequest", Info: "CreateRequestInfo", Request: "CreateRequest",
		Prov: map[string]map[string]string{
			"DeltaModel":      {"UpdateCommitment": "$0.UpdateCommitment", "Patches": "getPatches($0.OpaqueDocument, $0.Patches)"},
			"SuffixDataModel": {"DeltaHash": "hashing.CalculateModelMultihash(?delta, $0.MultihashCode)", "RecoveryCommitment": "$0.RecoveryCommitment", "AnchorOrigin": "$0.AnchorOrigin", "Type": "$0.Type"},
			"CreateRequest":   {"Operation": `"create"`, "Delta": "?delta", "SuffixData": "?suffix"},
		}},
	{Type: "update", Fn: "NewUpdateRequest", Info: "UpdateRequestInfo", Request: "UpdateRequest", SD: "UpdateSignedDataModel",
		Prov: map[string]map[string]string{
			"DeltaModel":            {"UpdateCommitment": "$0.UpdateCommitment", "Patches": "$0.Patches"},
			"UpdateSignedDataModel": {"DeltaHash": "hashing.CalculateModelMultihash(?delta, $0.MultihashCode)", "UpdateKey": "$0.UpdateKey", "AnchorFrom": "$0.AnchorFrom", "AnchorUntil": "$0.AnchorUntil"},
			"UpdateRequest":         {"Operation": `"update"`, "DidSuffix": "$0.DidSuffix", "RevealValue": "$0.RevealValue", "Delta": "?delta", "SignedData": "signutil.SignModel(?sd, $0.Signer)"},
		}},
	{Type: "recover", Fn: "NewRecoverRequest", Info: "RecoverRequestInfo", Request: "RecoverRequest", SD: "RecoverSignedDataModel",
		Prov: map[string]map[string]string{
			"DeltaModel":             {"UpdateCommitment": "$0.UpdateCommitment", "Patches": "getPatches($0.OpaqueDocument, $0.Patches)"},
			"RecoverSignedDataModel": {"DeltaHash": "hashing.CalculateModelMultihash(?delta, $0.MultihashCode)", "RecoveryKey": "$0.RecoveryKey", "RecoveryCommitment": "$0.RecoveryCommitment", "AnchorOrigin": "$0.AnchorOrigin", "AnchorFrom": "$0.AnchorFrom", "AnchorUntil": "$0.AnchorUntil"},
			"RecoverRequest":         {"Operation": `"recover"`, "DidSuffix": "$0.DidSuffix", "RevealValue": "$0.RevealValue", "Delta": "?delta", "SignedData": "signutil.SignModel(?sd, $0.Signer)"},
		}},
	{Type: "deactivate", Fn: "NewDeactivateRequest", Info: "DeactivateRequestInfo", Request: "DeactivateRequest", SD: "DeactivateSignedDataModel",
		Prov: map[string]map[string]string{
			"DeactivateSignedDataModel": {"DidSuffix": "$0.DidSuffix", "RecoveryKey": "$0.RecoveryKey", "AnchorFrom": "$0.AnchorFrom", "AnchorUntil": "$0.AnchorUntil"},
			"DeactivateRequest":         {"Operation": `"deactivate"`, "DidSuffix": "$0.DidSuffix", "RevealValue": "$0.RevealValue", "SignedData": "signutil.SignModel(?sd, $0.Signer)"},
		}},
}

func runC11(r *Run) {
	const P = "C11"
	// a request that re-commits to the key it reveals is rejected at intake: the builders must refuse it (shared with C12)
	r.checkClientReuse(P)
	// a request built exactly at a protocol limit must be accepted: the intake limits are inclusive
	// bounds on their own quantities (shared with C10)
	{
		sinks, _ := r.protocolSinks()
		intakeFns := map[*ssa.Function]bool{}
		var es []*ssa.Function
		for _, f := range r.parserEntries(P) {
			if f != nil {
				es = append(es, f)
			}
		}
		for _, f := range r.P.Reachable(es...) {
			intakeFns[f] = true
		}
		r.checkLimitRoles(P, sinks, intakeFns)
	}
	// "produces precisely the intended state change": every field of the state an applier returns
	// comes from its prescribed source (provenance cells, shared with C03)
	r.checkProvenance(P, nil)
	// ... and the document / commitments / deactivation flag of that state are those the statement prescribes for
	// the operation type and exit (effect table, shared with C03): a recover rebuilds the document from nothing
	r.checkEffectTable(P, false)
	// "once anchored inside its window": the appliers re-parse an anchored request in batch mode, so that the rules
	// that only apply at submission time (the anchoring window against the node's clock) are not re-run at
	// resolution, when the window has long closed
	// "once anchored inside its window": the applier's window test (shared with C05 / C03)
	r.checkApplierWindow(P, r.applierFuncs(P+".window"), map[*ssa.Function]bool{})
	r.checkApplierBatchMode(P)
	// consumer functions: parser + applier packages
	consumers := r.P.SubjectFuncs(pkgParser, pkgApplier)
	cells := 0
	for _, bs := range builderSpecs {
		f := r.fn(P, pkgClient, bs.Fn)
		if f == nil {
			continue
		}
		family := []*ssa.Function{}
		for _, g := range r.P.Reachable(f) {
			if g.Pkg != nil && core.Rel(g.Pkg.Pkg.Path()) == pkgClient {
				family = append(family, g)
			}
		}
		// --- src-complete
		if info := r.P.Named(pkgClient, bs.Info); info != nil {
			read := structFieldsRead(family, info)
			st := info.Underlying().(*types.Struct)
			var missing []string
			for i := 0; i < st.NumFields(); i++ {
				if !read[st.Field(i).Name()] {
					missing = append(missing, st.Field(i).Name())
				}
			}
			r.R.Check(len(missing) == 0, P+".src."+bs.Type, "E5 src-complete: every field of "+bs.Info+" is read by the builder family", "client."+bs.Fn, r.where(f),
				"a builder input that is never read (window, anchor origin, reveal value, commitment …) silently vanishes from the request", fmt.Sprintf("%d fields all consumed by %d function(s)", st.NumFields(), len(family)), "never read: "+strings.Join(missing, ", "))
		} else {
			r.R.Unk(P+".src."+bs.Type, "anchor", "client."+bs.Info, "-", "-", "type not found")
		}
		// --- literals
		ff := r.E.Facts(f, core.Ctx{})
		lits := map[string]*ssa.Alloc{}
		vals := map[string]map[string]ssa.Value{}
		var tnames []string
		for tn := range bs.Prov {
			tnames = append(tnames, tn)
		}
		sort.Strings(tnames)
		for _, tn := range tnames {
			T := r.P.Named(pkgModel, tn)
			if T == nil {
				r.R.Unk(P+".model."+bs.Type+"."+tn, "anchor", "model."+tn, "-", "-", "type not found")
				continue
			}
			ls := literalsOf(f, T)
			if len(ls) != 1 {
				r.R.Unk(P+".model."+bs.Type+"."+tn, "E5 dst-complete", "client."+bs.Fn, r.where(f), "the builder must construct exactly one "+tn, fmt.Sprintf("%d literals of model.%s found", len(ls), tn))
				continue
			}
			for al, m := range ls {
				lits[tn] = al
				vals[tn] = m
			}
			// dst-complete against the consumer's reads
			read := structFieldsRead(consumers, T)
			var missing []string
			for fld := range read {
				if _, ok := vals[tn][fld]; !ok {
					missing = append(missing, fld)
				}
			}
			sort.Strings(missing)
			var rd []string
			for k := range read {
				rd = append(rd, k)
			}
			sort.Strings(rd)
			r.R.Check(len(missing) == 0, P+".model."+bs.Type+"."+tn, "E5 dst-complete: the literal assigns every field of model."+tn+" that the parser/applier reads", "client."+bs.Fn+" "+tn+" literal", r.P.Pos(lits[tn].Pos()),
				"a field the parser reads but the builder leaves empty makes the built request parse back to something else than the caller supplied", "parser/applier read "+strings.Join(rd, ",")+"; all assigned", "read by the parser but not assigned: "+strings.Join(missing, ", "))
		}
		// --- provenance
		bind := core.Bind{}
		if al := lits["DeltaModel"]; al != nil {
			bind["delta"] = ff.TB.Of(al)
		}
		if al := lits["SuffixDataModel"]; al != nil {
			bind["suffix"] = ff.TB.Of(al)
		}
		if bs.SD != "" {
			if al := lits[bs.SD]; al != nil {
				bind["sd"] = ff.TB.Of(al)
			}
		}
		for _, tn := range tnames {
			var flds []string
			for fld := range bs.Prov[tn] {
				flds = append(flds, fld)
			}
			sort.Strings(flds)
			for _, fld := range flds {
				pat := bs.Prov[tn][fld]
				v, has := vals[tn][fld]
				id := fmt.Sprintf("%s.prov.%s.%s.%s", P, bs.Type, tn, fld)
				rule := "E5 provenance: " + tn + "." + fld + " = " + pat
				why := "if the field is fed from elsewhere (e.g. update and recovery commitment swapped, hash over another model, another signer), the built request is rejected or means something else than intended"
				cells++
				if !has {
					r.R.Bad(id, rule, "client."+bs.Fn, r.where(f), why, "field not assigned")
					continue
				}
				t := ff.TB.Of(v)
				b2 := core.Bind{}
				for k, x := range bind {
					b2[k] = x
				}
				ok := core.MatchTerm(pat, t, b2)
				r.R.Check(ok, id, rule, "client."+bs.Fn, r.P.Pos(lits[tn].Pos()), why, short(t.String(), 140), "assigned "+short(t.String(), 200))
			}
		}
		// result = JCS(request literal), on success
		if al := lits[bs.Request]; al != nil {
			b2 := core.Bind{"req": ff.TB.Of(al)}
			s := r.succ(f, core.Ctx{})
			_, ok := core.MatchAll(s.Facts, []string{"cmp(<result> == canonicalizer.MarshalCanonical(?req))"}, b2)
			r.R.Check(ok, P+".prov."+bs.Type+".result", "E5 provenance: the builder returns JCS of its own request literal", "client."+bs.Fn, r.where(f), "returning anything else loses the request", "MarshalCanonical(request)", "success return is not MarshalCanonical of the request literal")
		}
	}
	r.R.Floor(P+".prov.floor", "instance floor", cells, 30, "provenance cells of the four builders")

	// --- signing path
	if f := r.fn(P, pkgSignutil, "SignModel"); f != nil {
		r.requireSucc(P+".sign.model", "the model must be canonicalised before signing, with the caller's signer", f, core.Ctx{}, "",
			"cmp(<result> == signutil.SignPayload(canonicalizer.MarshalCanonical($0), $1))")
	}
	if f := r.fn(P, pkgSignutil, "SignPayload"); f != nil {
		r.requireSucc(P+".sign.payload", "the payload is signed through NewJWS with the signer's own protected headers and serialized compactly with its payload", f, core.Ctx{}, "",
			"ok(internal/jws.NewJWS(Signer.Headers($1), nil, $0, $1))",
			"cmp(<result> == JSONWebSignature.SerializeCompact(_, false))",
			`cmp(Headers.Algorithm(Signer.Headers($1)) != "")`)
	}
	// --- pubkey
	if f := r.fn(P, pkgPubkey, "GetPublicKeyJWK"); f != nil {
		r.requireSucc(P+".pubkey.marshal", "every supported key must be converted through the internal JWK marshaller (which handles secp256k1 padding) and decoded back", f, core.Ctx{}, "",
			"ok(JWK.MarshalJSON(?ij))", "ok(json.Unmarshal(JWK.MarshalJSON(?ij), <result>))")
		// type switch covers exactly the two key kinds
		ff := r.E.Facts(f, core.Ctx{})
		kinds := map[string]bool{}
		for _, b := range f.Blocks {
			for _, ins := range b.Instrs {
				if ta, ok := ins.(*ssa.TypeAssert); ok && ta.CommaOk {
					kinds[types.TypeString(ta.AssertedType, nil)] = true
				}
			}
		}
		_ = ff
		want := []string{"crypto/ed25519.PublicKey", "*crypto/ecdsa.PublicKey"}
		ok := len(kinds) == 2
		for _, w := range want {
			if !kinds[w] {
				ok = false
			}
		}
		r.R.Check(ok, P+".pubkey.kinds", "E7: GetPublicKeyJWK's type switch covers exactly ed25519.PublicKey and *ecdsa.PublicKey", core.FuncName(f), r.where(f),
			"a missing key kind makes a supported signing algorithm unusable; an extra one is converted without a verifier", fmt.Sprint(kinds), fmt.Sprintf("type switch covers %v", kinds))
		// secp256k1 marking
		okMark := false
		for _, b := range f.Blocks {
			for _, ins := range b.Instrs {
				st, isSt := ins.(*ssa.Store)
				if !isSt {
					continue
				}
				if fa, isFA := st.Addr.(*ssa.FieldAddr); isFA && fieldName(fa) == "Crv" {
					at := ff.At(st)
					if core.HasFact(at, "cmp(_ == btcec.S256())") && ff.TB.Of(st.Val).String() == `"secp256k1"` {
						okMark = true
					}
				}
			}
		}
		r.R.Check(okMark, P+".pubkey.secp", "E2: a key on btcec.S256() is marked crv=secp256k1 (so MarshalJSON uses the padding marshaller)", core.FuncName(f), r.where(f),
			"without the marking go-jose is asked to encode an unknown curve", "Crv = secp256k1 under curve == S256()", "no such guarded assignment")
	}
	if f := r.fn(P, pkgIJWS, "JWK.MarshalJSON"); f != nil {
		r.requireEachSuccessPath(P+".pubkey.marshal.dispatch", "secp256k1 keys must be serialized by the local fixed-size marshaller", f, core.Ctx{},
			[]string{"true(internal/jws.isSecp256k1(_, _))", "ok(internal/jws.marshalSecp256k1($0))"},
			[]string{"false(internal/jws.isSecp256k1(_, _))"})
	}
	if f := r.fn(P, pkgIJWS, "marshalSecp256k1"); f != nil {
		ff := r.E.Facts(f, core.Ctx{})
		T := r.P.Named(pkgIJWS, "jsonWebKey")
		n, bad := 0, []string{}
		// stores of X / Y of any jsonWebKey literal
		for _, b := range f.Blocks {
			for _, ins := range b.Instrs {
				st, isSt := ins.(*ssa.Store)
				if !isSt {
					continue
				}
				fa, isFA := st.Addr.(*ssa.FieldAddr)
				if !isFA || T == nil || !types.Identical(derefNamed(fa.X.Type()), T) {
					continue
				}
				fn := fieldName(fa)
				if fn != "X" && fn != "Y" {
					continue
				}
				n++
				t := ff.TB.Of(st.Val)
				if !core.MatchTerm("internal/jws.newFixedSizeBuffer(Int.Bytes(_."+fn+"), 32)", t, core.Bind{}) {
					bad = append(bad, fn+" = "+t.String())
				}
			}
		}
		r.R.Check(n >= 2 && len(bad) == 0, P+".pubkey.secp.pad", "E5 provenance: secp256k1 coordinates are serialized as newFixedSizeBuffer(coordinate.Bytes(), 32)", core.FuncName(f), r.where(f),
			"big.Int.Bytes() drops leading zero bytes: ~1/128 of keys would be serialized with a 31-byte coordinate that the verifier rejects", fmt.Sprintf("%d coordinate stores padded", n), strings.Join(bad, "; "))
	}
	// tables shared with C09
	r.checkCurveTables(P)
}

func derefNamed(t types.Type) types.Type {
	if p, ok := t.Underlying().(*types.Pointer); ok {
		return p.Elem()
	}
	return t
}

// checkApplierBatchMode: every call of a Parse<Type>Operation in the applier package passes the constant true as
// batch flag.
func (r *Run) checkApplierBatchMode(P string) {
	appl := r.applierFuncs(P + ".batchmode")
	n := 0
	var bad []string
	for _, role := range opRoles {
		f := appl[role.Type]
		if f == nil {
			continue
		}
		for _, fr := range r.frames(f, 2) {
			for _, c := range r.callsIn(fr.Fn, role.ParseOp) {
				a := c.Common().Args
				if len(a) == 0 {
					continue
				}
				n++
				k, isC := a[len(a)-1].(*ssa.Const)
				if !isC || k.Value == nil || k.Value.String() != "true" {
					bad = append(bad, fmt.Sprintf("%s calls %s with batch = %s at %s", core.FuncName(fr.Fn), role.ParseOp, fr.Term(a[len(a)-1]), r.P.Pos(c.Pos())))
				}
			}
		}
	}
	sort.Strings(bad)
	r.R.Check(len(bad) == 0 && n >= 4, P+".applier.batchmode", "E13 ArgIs: the appliers parse anchored requests with batch = true", "operationapplier apply*Operation", "pkg/versions/1_0/operationapplier/operationapplier.go",
		"with batch = false the submission-time rules (anchoring window against the current time) are re-evaluated on every resolution: an operation anchored inside its window stops taking effect once the window has closed", fmt.Sprintf("%d parse calls, all in batch mode", n), strings.Join(bad, "; "))
}
