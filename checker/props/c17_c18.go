package props

import (
	"fmt"
	"go/ast"
	"go/constant"
	"go/token"
	"go/types"
	"sort"
	"strings"

	"golang.org/x/tools/go/ssa"

	"sidecheck/core"
)

func init() {
	register(&Checker{
		ID: "C17",
		Explanation: "Structural necessary conditions of C17: (pure) the document parameter of ApplyPatches is used only as a read-only argument (transitively: only marshalled), every apply function receives the deep copy or its successors, and no returned document can alias the parameter; the deep copy is json.Marshal→json.Unmarshal into a fresh value; (atomic) every return of ApplyPatches whose error is not provably nil returns a nil document, and each apply step's failure returns immediately; (det) no map-iteration order reaches an ordered result in doccomposer / patch / document (map ranges only feed maps, membership tests or are sorted first); " +
			"(actions) the eight patch actions, the action→value-key table, the applier's dispatch and the validator's dispatch cover exactly the same set; (replace) the replace result is a fresh map holding exactly the two sections taken from the replace document; (set) in each add function a new entry is appended only when its id/URI is absent from the existing-id map and replaced in place otherwise; in each remove function an entry is kept only when its id is absent from the removal set; the section written back is the rebuilt list. " +
			"Not decided: ordered-set semantics as a value-level relation (e.g. duplicate new ids inside one patch), and the PatchesFromDocument round trip — both need a model oracle over generated inputs.",
		Run: runC17,
	})
	register(&Checker{
		ID: "C18",
		Explanation: "Structural necessary conditions of C18: (actions) action ↔ value key ↔ validator ↔ applier tables agree, no orphan; (elem) in every error-returning function of the patch validator no success return sits lexically inside a loop, and the validating loops cannot start another iteration without the success edge of a check on the current element — every key, service, endpoint, id and URI is examined; (limits) id length is bounded by the constant 50 with an inclusive operator and matched against ^[A-Za-z0-9_-]+$, service type by 30; exactly-one-of key material and allowed-member rules are loops of the same kind; " +
			"(pointer.members) the set of RFC 6902 members that the JSON-patch engine dereferences as JSON pointers is derived from the engine's own source in the module cache (accessors of its operation type whose result reaches the pointer resolver: path and from); the validator must apply the protected-prefix test (public keys, services) to each such member; (validated.before.apply) the applier calls ApplyPatches only under Ok(ValidateDelta(op.Delta)) and chunk-file deltas are validated element-wise on read; (norec) no recursion among subject functions reachable from ApplyPatches / ValidateDelta; (nopanic) every panic-capable instruction in them is discharged (E10). " +
			"(pointer.rooted) the engine resolves a pointer from its first '/' (premise re-derived from its findObject on every run), so each pointer member must be rejected unless it starts with '/'; (alias.nocopy) the engine's copy stores the node it got from the source (premise re-derived from its copy on every run) and identifies pointer spellings no textual test can mirror, so no copy operation reaches the engine: every Apply call is dominated by a loop over the applied patch whose every completing iteration has kind ≠ copy; (engine.recover) the engine indexes arrays with an unguarded Atoi result (premise re-derived on every run), so every Apply call sits in a function whose deferred closure recovers and assigns the error result; (elem.loops.total) the validator package has at least the number of rejecting per-element loops confirmed by reading, wherever they live; " +
			"Not decided: panics, stack depth or termination inside evanphx/json-patch and encoding/json.",
		Run: runC18,
	})
}

// constsOfType lists the constant values of a named string type declared in a package.
func (r *Run) constsOfType(rel, typeName string) map[string]string {
	out := map[string]string{}
	pk := r.P.Pkg(rel)
	if pk == nil {
		return out
	}
	sc := pk.Types.Scope()
	for _, n := range sc.Names() {
		c, ok := sc.Lookup(n).(*types.Const)
		if !ok {
			continue
		}
		if nt, ok := c.Type().(*types.Named); ok && nt.Obj().Name() == typeName && c.Val().Kind() == constant.String {
			out[constant.StringVal(c.Val())] = n
		}
	}
	return out
}

// mapLiteralKeys returns the constant string keys of a package-level map variable's composite literal.
func (r *Run) mapLiteralKeys(rel, varName string) (map[string]string, bool) {
	pk := r.P.Pkg(rel)
	if pk == nil {
		return nil, false
	}
	for _, f := range pk.Syntax {
		for _, d := range f.Decls {
			gd, ok := d.(*ast.GenDecl)
			if !ok || gd.Tok != token.VAR {
				continue
			}
			for _, sp := range gd.Specs {
				vs := sp.(*ast.ValueSpec)
				for i, nm := range vs.Names {
					if nm.Name != varName || i >= len(vs.Values) {
						continue
					}
					cl, ok := vs.Values[i].(*ast.CompositeLit)
					if !ok {
						return nil, false
					}
					out := map[string]string{}
					for _, el := range cl.Elts {
						kv, ok := el.(*ast.KeyValueExpr)
						if !ok {
							continue
						}
						k := pk.TypesInfo.Types[kv.Key]
						v := pk.TypesInfo.Types[kv.Value]
						ks, vsx := "", ""
						if k.Value != nil && k.Value.Kind() == constant.String {
							ks = constant.StringVal(k.Value)
						}
						if v.Value != nil && v.Value.Kind() == constant.String {
							vsx = constant.StringVal(v.Value)
						} else {
							vsx = types.ExprString(kv.Value)
						}
						out[ks] = vsx
					}
					return out, true
				}
			}
		}
	}
	return nil, false
}

// switchOnActionConsts: constants the action value is compared (==) with on edges of fn.
func (r *Run) switchConsts(fn *ssa.Function, calleeOfValue string) map[string]bool {
	out := map[string]bool{}
	ff := r.E.Facts(fn, core.Ctx{})
	for _, b := range fn.Blocks {
		for _, s := range b.Succs {
			for _, fc := range ff.EdgeFacts(b, s) {
				if fc.Kind == "cmp" && fc.Op == "==" && fc.B.Op == "const" && core.MatchTerm(calleeOfValue, fc.A, core.Bind{}) {
					out[strings.Trim(fc.B.Name, `"`)] = true
				}
				// dispatch through a table: the value was found in a package-level map literal that nothing writes
				if fc.Kind == "hit" && fc.A != nil && fc.A.Op == "global" && fc.B != nil && core.MatchTerm(calleeOfValue, fc.B, core.Bind{}) {
					for _, k := range r.readOnlyMapKeys(fc.A) {
						out[k] = true
					}
				}
			}
		}
	}
	return out
}

func keysOf(m map[string]bool) []string {
	var ks []string
	for k := range m {
		ks = append(ks, k)
	}
	sort.Strings(ks)
	return ks
}

// checkActionTables: E7 over the patch action set (shared by C17 and C18).
func (r *Run) checkActionTables(P string) {
	acts := r.constsOfType(pkgPatch, "Action")
	cfg, okCfg := r.mapLiteralKeys(pkgPatch, "actionConfig")
	applier := r.fn(P, pkgComposer, "applyPatch")
	validator := r.fn(P, pkgPatchVal, "Validate")
	if applier == nil || validator == nil {
		return
	}
	ap := r.switchConsts(applier, "Patch.GetAction(_)")
	va := r.switchConsts(validator, "Patch.GetAction(_)")
	want := map[string]bool{}
	for v := range acts {
		want[v] = true
	}
	why := "an action that one table knows and another does not is accepted by validation but not applied (or applied without validation)"
	r.R.Check(len(want) == 8, P+".actions.set", "E7: the patch action set has the eight Sidetree actions", "patch.Action", "pkg/patch/patch.go", why, fmt.Sprint(keysOf(want)), fmt.Sprintf("%d actions: %v", len(want), keysOf(want)))
	cm := map[string]bool{}
	for k := range cfg {
		cm[k] = true
	}
	r.R.Check(okCfg && fmt.Sprint(keysOf(cm)) == fmt.Sprint(keysOf(want)), P+".actions.config", "E7: actionConfig has exactly one value key per action", "patch.actionConfig", "pkg/patch/patch.go", why, fmt.Sprint(cfg), fmt.Sprintf("keys %v vs actions %v", keysOf(cm), keysOf(want)))
	r.R.Check(fmt.Sprint(keysOf(ap)) == fmt.Sprint(keysOf(want)), P+".actions.applier", "E7: doccomposer.applyPatch dispatches exactly the action set", core.FuncName(applier), r.where(applier), why, fmt.Sprint(keysOf(ap)), fmt.Sprintf("applier handles %v, actions are %v", keysOf(ap), keysOf(want)))
	r.R.Check(fmt.Sprint(keysOf(va)) == fmt.Sprint(keysOf(want)), P+".actions.validator", "E7: patchvalidator.Validate dispatches exactly the action set", core.FuncName(validator), r.where(validator), why, fmt.Sprint(keysOf(va)), fmt.Sprintf("validator handles %v, actions are %v", keysOf(va), keysOf(want)))
	// an unknown action is an error in both
	for _, f := range []*ssa.Function{applier, validator} {
		ff := r.E.Facts(f, core.Ctx{})
		okDefault := false
		for _, ri := range ff.Returns() {
			n := 0
			for _, fc := range ri.Facts {
				if fc.Kind == "cmp" && fc.Op == "!=" && fc.B.Op == "const" && core.MatchTerm("Patch.GetAction(_)", fc.A, core.Bind{}) {
					n++
				}
			}
			if n >= 8 && ri.Class == core.RetFail {
				okDefault = true
			}
		}
		// table form: the edge on which the action is not found in the table only reaches errors
		for _, b := range f.Blocks {
			for _, s2 := range b.Succs {
				for _, fc := range ff.EdgeFacts(b, s2) {
					if fc.Kind == "miss" && fc.A != nil && fc.A.Op == "global" && fc.B != nil && core.MatchTerm("Patch.GetAction(_)", fc.B, core.Bind{}) && len(r.readOnlyMapKeys(fc.A)) > 0 && onlyErrors(ff, s2) {
						okDefault = true
					}
				}
			}
		}
		r.R.Check(okDefault, P+".actions.default."+core.FuncName(f), "E7: an action outside the set is an error", core.FuncName(f), r.where(f), why, "default → error", "no failing return after all eight comparisons failed")
	}
}

// readOnlyParam: is parameter p of f only read (transitively), never mutated, stored or returned?
func (r *Run) readOnlyParam(f *ssa.Function, p *ssa.Parameter, depth int, seen map[*ssa.Parameter]bool) (bool, string) {
	if seen[p] {
		return true, ""
	}
	seen[p] = true
	if depth > 5 {
		return false, "call depth exceeded in " + core.FuncName(f)
	}
	var visit func(v ssa.Value) (bool, string)
	visited := map[ssa.Value]bool{}
	visit = func(v ssa.Value) (bool, string) {
		if visited[v] {
			return true, ""
		}
		visited[v] = true
		refs := v.Referrers()
		if refs == nil {
			return true, ""
		}
		for _, rf := range *refs {
			switch x := rf.(type) {
			case *ssa.DebugRef:
			case *ssa.MapUpdate:
				if x.Map == v {
					return false, "map update through the parameter in " + core.FuncName(f) + " at " + r.P.Pos(x.Pos())
				}
				return false, "parameter stored into a map in " + core.FuncName(f)
			case *ssa.Store:
				if x.Val == v {
					if al, ok := x.Addr.(*ssa.Alloc); ok {
						if ok2, why := visit(al); !ok2 {
							return false, why
						}
						continue
					}
					return false, "parameter stored to memory in " + core.FuncName(f) + " at " + r.P.Pos(x.Pos())
				}
				return false, "store through the parameter in " + core.FuncName(f)
			case *ssa.Return:
				return false, "parameter returned (alias) by " + core.FuncName(f)
			case *ssa.MakeInterface, *ssa.ChangeType, *ssa.ChangeInterface, *ssa.Phi, *ssa.UnOp, *ssa.Lookup, *ssa.Range, *ssa.Next, *ssa.Extract, *ssa.TypeAssert, *ssa.Index, *ssa.Field, *ssa.Slice, *ssa.BinOp, *ssa.If:
				if vv, ok := rf.(ssa.Value); ok {
					if ok2, why := visit(vv); !ok2 {
						return false, why
					}
				}
			case *ssa.IndexAddr, *ssa.FieldAddr:
				// address of an element: a store through it is a mutation
				if vv, ok := rf.(ssa.Value); ok {
					if vrefs := vv.Referrers(); vrefs != nil {
						for _, r2 := range *vrefs {
							if st, ok := r2.(*ssa.Store); ok && st.Addr == vv {
								return false, "element written through the parameter in " + core.FuncName(f)
							}
						}
					}
					if ok2, why := visit(vv); !ok2 {
						return false, why
					}
				}
			case ssa.CallInstruction:
				cc := x.Common()
				if b, ok := cc.Value.(*ssa.Builtin); ok {
					switch b.Name() {
					case "len", "cap", "print", "println":
						continue
					case "append":
						// append(p, …) may write into p's backing array; append(x, p...) only reads p
						if cc.Args[0] == v {
							return false, "append to the parameter in " + core.FuncName(f)
						}
						continue
					case "delete":
						return false, "delete on the parameter in " + core.FuncName(f)
					case "copy":
						if cc.Args[0] == v {
							return false, "copy into the parameter in " + core.FuncName(f)
						}
						continue
					}
				}
				args := core.CallArgs(cc)
				for ai, a := range args {
					if a != v {
						continue
					}
					var callees []*ssa.Function
					if cc.IsInvoke() {
						callees = r.P.Impls(cc.Method)
						if len(callees) == 0 {
							return false, "passed to an interface method without subject implementations: " + cc.Method.FullName()
						}
					} else if sc := cc.StaticCallee(); sc != nil {
						callees = []*ssa.Function{sc}
					} else {
						return false, "passed to a dynamic call in " + core.FuncName(f)
					}
					for _, cal := range callees {
						if !r.P.IsSubject(cal) || cal.Blocks == nil {
							if pureStdlib(cal.String()) {
								continue
							}
							return false, "passed to " + cal.String() + " (not known to be read-only)"
						}
						if ai >= len(cal.Params) {
							continue
						}
						if ok2, why := r.readOnlyParam(cal, cal.Params[ai], depth+1, seen); !ok2 {
							return false, why
						}
					}
				}
				// a call's result may alias its argument; conservatively follow subject accessors that return their receiver/argument
				if cv, ok := x.(ssa.Value); ok {
					for _, a := range args {
						if a == v && returnsAliasOfArg(r, cc) {
							if ok2, why := visit(cv); !ok2 {
								return false, why
							}
						}
					}
				}
			default:
				return false, fmt.Sprintf("unrecognised use %T in %s", rf, core.FuncName(f))
			}
		}
		return true, ""
	}
	return visit(p)
}

func pureStdlib(name string) bool {
	switch name {
	case "encoding/json.Marshal", "encoding/json.MarshalIndent", "fmt.Sprintf", "fmt.Sprint", "fmt.Errorf", "reflect.TypeOf", "reflect.DeepEqual",
		"github.com/trustbloc/logutil-go/pkg/log.WithError":
		return true
	}
	return strings.HasPrefix(name, "go.uber.org/zap.") || strings.HasPrefix(name, "strings.")
}

// returnsAliasOfArg: subject accessors whose result is (part of) their argument.
func returnsAliasOfArg(r *Run, cc *ssa.CallCommon) bool {
	sc := cc.StaticCallee()
	if sc == nil || !r.P.IsSubject(sc) || sc.Blocks == nil {
		return false
	}
	for _, b := range sc.Blocks {
		if ret, ok := b.Instrs[len(b.Instrs)-1].(*ssa.Return); ok {
			for _, rv := range ret.Results {
				for _, root := range valueRoots(rv) {
					if _, isP := root.(*ssa.Parameter); isP {
						return true
					}
				}
			}
		}
	}
	return false
}

func valueRoots(v ssa.Value) []ssa.Value {
	seen := map[ssa.Value]bool{}
	var out []ssa.Value
	var rec func(v ssa.Value)
	rec = func(v ssa.Value) {
		if v == nil || seen[v] {
			return
		}
		seen[v] = true
		switch x := v.(type) {
		case *ssa.Phi:
			for _, e := range x.Edges {
				rec(e)
			}
		case *ssa.ChangeType:
			rec(x.X)
		case *ssa.MakeInterface:
			rec(x.X)
		case *ssa.TypeAssert:
			rec(x.X)
		case *ssa.Lookup:
			rec(x.X)
		case *ssa.Extract:
			rec(x.Tuple)
		case *ssa.UnOp:
			rec(x.X)
		case *ssa.Slice:
			rec(x.X)
		default:
			out = append(out, v)
		}
	}
	rec(v)
	return out
}

func runC17(r *Run) {
	const P = "C17"
	ap := r.fn(P, pkgComposer, "DocumentComposer.ApplyPatches")
	if ap == nil {
		return
	}
	ff := r.E.Facts(ap, core.Ctx{})
	r.checkComposerPure(P)
	r.checkCopyFirst(P)
	if dc := r.fn(P, pkgComposer, "deepCopy"); dc != nil {
		r.requireSucc(P+".pure.copy", "the working copy must be a fresh value decoded from the serialized input", dc, core.Ctx{}, "",
			"ok(json.Marshal($0))", "ok(json.Unmarshal(json.Marshal($0), _))")
		// result is the freshly decoded local
		df := r.E.Facts(dc, core.Ctx{})
		fresh := true
		for _, ri := range df.Returns() {
			if ri.Class != core.RetSuccess {
				continue
			}
			for _, root := range valueRoots(core.RetOp(ri.Ret, 0)) {
				if _, isAlloc := root.(*ssa.Alloc); !isAlloc {
					fresh = false
				}
			}
		}
		r.R.Check(fresh, P+".pure.copy.fresh", "E9 Fresh: deepCopy returns a locally allocated value", core.FuncName(dc), r.where(dc), "-", "fresh local", "result may alias the argument")
	}
	// --- atomic
	okAtomic := true
	var adet []string
	for _, ri := range ff.Returns() {
		if ri.Class == core.RetFail {
			if !isNilConstV(core.RetOp(ri.Ret, 0)) {
				okAtomic = false
				adet = append(adet, "error return with a non-nil document at "+r.P.Pos(ri.Ret.Pos()))
			}
		}
	}
	// failure of a step returns immediately: no path from fail(applyPatch) edge back to the loop head
	head := loopHead(ap)
	for _, b := range ap.Blocks {
		for _, s := range b.Succs {
			for _, fc := range ff.EdgeFacts(b, s) {
				if fc.Kind == "fail" && core.MatchTerm("applyPatch(...)", fc.A, core.Bind{}) && head != nil && blockReaches(ff, s, head, nil) {
					okAtomic = false
					adet = append(adet, "a failed patch does not end the application")
				}
			}
		}
	}
	r.R.Check(okAtomic, P+".atomic", "E2/E8: every failing return of ApplyPatches returns a nil document and a failed step ends the loop", core.FuncName(ap), r.where(ap),
		"a partially patched document returned with (or instead of) an error is neither 'all patches' nor 'failed as a whole'", "nil on error; fail-fast", strings.Join(adet, "; "))
	// success applies every patch: the loop cannot iterate without Ok(applyPatch(current, element))
	r.checkLoopRequires(P+".atomic.all", ap, "every patch of the list is applied (in order) before success", "a skipped patch means the result is not the application of the whole list", []string{"ok(applyPatch(_, $2[_]))"})

	// --- det
	r.checkMapOrder(P, []string{pkgComposer, pkgPatch, pkgDocument})

	// --- actions
	r.checkActionTables(P)

	// --- replace
	if f := r.fn(P, pkgComposer, "applyRecover"); f != nil {
		af := r.E.Facts(f, core.Ctx{})
		fresh := false
		keys := map[string]string{}
		for _, ri := range af.Returns() {
			if ri.Class != core.RetSuccess {
				continue
			}
			if mm, isMM := core.RetOp(ri.Ret, 0).(*ssa.MakeMap); isMM {
				fresh = true
				if refs := mm.Referrers(); refs != nil {
					for _, rf := range *refs {
						if mu, isMU := rf.(*ssa.MapUpdate); isMU && mu.Map == ssa.Value(mm) {
							keys[strings.Trim(af.TB.Of(mu.Key).String(), `"`)] = af.TB.Of(mu.Value).String()
						}
					}
				}
			}
		}
		okKeys := len(keys) == 2 && strings.Contains(keys["publicKey"], `["publicKeys"]`) && strings.Contains(keys["service"], `["services"]`) &&
			strings.Contains(keys["publicKey"], "ReplaceDocumentFromBytes(") && strings.Contains(keys["service"], "ReplaceDocumentFromBytes(")
		r.R.Check(fresh && okKeys, P+".replace", "E5/E9: replace returns a fresh map with exactly {publicKey ← replace.publicKeys, service ← replace.services}", core.FuncName(f), r.where(f),
			"if replace writes into the working document instead of a fresh one, other sections survive a replace", fmt.Sprint(keys), fmt.Sprintf("fresh=%v stores=%v", fresh, keys))
	}

	// --- roundtrip.members: document → patches converts every member
	if f := r.fn(P, pkgPatch, "PatchesFromDocument"); f != nil {
		pf := r.E.Facts(f, core.Ctx{})
		head := loopHead(f)
		rule := "E6/E8: every iteration over the document's (sorted) members either fails or appends an entry for that member (a dedicated patch or a JSON-patch add)"
		why := "a member that is skipped is missing from the patches, so applying them to an empty document does not reproduce the document"
		if head == nil {
			r.R.Unk(P+".roundtrip.members", rule, core.FuncName(f), r.where(f), why, "no loop over the members")
		} else {
			paths := loopIterationPaths(pf, head, 4000)
			var bad []string
			n := 0
			ei := f.Signature.Results().Len() - 1
			for _, ip := range paths {
				if ip.Ret != nil {
					if !isNilConstV(core.RetOp(ip.Ret, ei)) {
						continue // failing iteration
					}
					continue // loop exit
				}
				// infeasible: `x == nil` taken although x is, on this path, the result of a constructor that returns a fresh value
				infeasible := false
				for i := 0; i+1 < len(ip.Blocks); i++ {
					for _, fc := range pf.EdgeFacts(ip.Blocks[i], ip.Blocks[i+1]) {
						if fc.Kind == "cmp" && fc.Op == "==" && fc.B.Name == "nil" {
							if v, ok := fc.A.Val.(ssa.Value); ok {
								rv := resolveOnPath(v, ip.Blocks)
								if ex, ok := rv.(*ssa.Extract); ok {
									rv = ex.Tuple
								}
								if c, ok := rv.(*ssa.Call); ok && r.nonNilResult(c.Common().StaticCallee()) {
									infeasible = true
								}
							}
						}
					}
				}
				if infeasible {
					continue
				}
				n++
				apps := 0
				for _, b := range ip.Blocks[:len(ip.Blocks)-1] {
					for _, ins := range b.Instrs {
						if c, ok := ins.(*ssa.Call); ok && isBuiltin(c, "append") {
							apps++
						}
					}
				}
				if apps == 0 {
					bad = append(bad, "an iteration completes without appending anything for the member")
				}
			}
			r.R.Count("E8 member-conversion iteration paths", n)
			r.R.Check(len(bad) == 0 && n >= 4, P+".roundtrip.members", rule, core.FuncName(f), r.where(f), why, fmt.Sprintf("%d feasible iteration paths, each appends", n), strings.Join(dedupe(bad), "; ")+fmt.Sprintf(" (%d paths)", n))
		}
		// iteration is over sorted keys of the parsed document
		okSorted := false
		for _, b := range f.Blocks {
			for _, ins := range b.Instrs {
				if ia, ok := ins.(*ssa.IndexAddr); ok {
					if core.MatchTerm("sortedKeys(document.FromBytes(_))", pf.TB.Of(ia.X), core.Bind{}) {
						okSorted = true
					}
				}
			}
		}
		r.R.Check(okSorted, P+".roundtrip.sorted", "E14: members are converted in sorted key order", core.FuncName(f), r.where(f), "map order would make the produced patch list non-deterministic", "range over sortedKeys(parsed)", "members are not iterated through sortedKeys")
	}

	// --- set semantics guards
	for _, s := range []struct{ fn, section, kind string }{
		{"applyAddPublicKeys", "publicKey", "add"}, {"applyAddServiceEndpoints", "service", "add"}, {"applyAddAlsoKnownAs", "alsoKnownAs", "add"},
		{"applyRemovePublicKeys", "publicKey", "remove"}, {"applyRemoveServiceEndpoints", "service", "remove"}, {"applyRemoveAlsoKnownAs", "alsoKnownAs", "remove"},
	} {
		f := r.fn(P, pkgComposer, s.fn)
		if f == nil {
			continue
		}
		sf := r.E.Facts(f, core.Ctx{})
		// appends inside the loop are guarded by miss(map, id)
		nApp, okApp := 0, true
		for _, b := range f.Blocks {
			for _, ins := range b.Instrs {
				c, isC := ins.(*ssa.Call)
				if !isC || !isBuiltin(c, "append") || enclosingLoopHead(f, b) == nil {
					continue
				}
				// only the merge loop counts — the one that consults the id set; a loop that copies or converts a list
				// element by element (a conversion helper written out in place) decides nothing
				if !loopConsultsMap(sf, f, enclosingLoopHead(f, b)) {
					continue
				}
				nApp++
				if !core.HasFact(sf.At(c), "miss(_, _)") {
					okApp = false
				}
			}
		}
		// add: replacement under hit
		okUpd := true
		if s.kind == "add" && s.section != "alsoKnownAs" {
			okUpd = false
			// a replacement is a store into an element of the rebuilt list under equality of the two ids; it
			// happens under hit(id set, id) — written inline, or in a helper that is called under the hit
			elemStoreUnderIDEq := func(g *ssa.Function) []*ssa.Store {
				gf := r.E.Facts(g, core.Ctx{})
				var out []*ssa.Store
				for _, b := range g.Blocks {
					for _, ins := range b.Instrs {
						st, isSt := ins.(*ssa.Store)
						if !isSt {
							continue
						}
						ia, isIA := st.Addr.(*ssa.IndexAddr)
						if !isIA {
							continue
						}
						if _, isSlice := ia.X.Type().Underlying().(*types.Slice); !isSlice {
							continue
						}
						for _, fc := range gf.At(st) {
							if fc.Kind == "cmp" && fc.Op == "==" && fc.A.Op == "call" && fc.B.Op == "call" && strings.HasSuffix(fc.A.Name, ".ID") && strings.HasSuffix(fc.B.Name, ".ID") {
								out = append(out, st)
							}
						}
					}
				}
				return out
			}
			for _, st := range elemStoreUnderIDEq(f) {
				if core.HasFact(sf.At(st), "hit(_, _)") {
					okUpd = true
				}
			}
			for _, b := range f.Blocks {
				for _, ins := range b.Instrs {
					if c, isC := ins.(*ssa.Call); isC {
						if sc := c.Common().StaticCallee(); sc != nil && r.P.IsSubject(sc) && len(sc.Blocks) > 0 && len(elemStoreUnderIDEq(sc)) > 0 {
							okUpd = core.HasFact(sf.At(c), "hit(_, _)")
						}
					}
				}
			}
		}
		// add: the rebuilt list starts from the entries the document already has
		if s.kind == "add" {
			getter := map[string]string{"publicKey": "PublicKeys", "service": "Services", "alsoKnownAs": "AlsoKnownAs"}[s.section]
			okKeep := false
			for _, b := range f.Blocks {
				for _, ins := range b.Instrs {
					c, isC := ins.(*ssa.Call)
					if !isC || enclosingLoopHead(f, b) != nil || len(c.Common().Args) != 2 {
						continue
					}
					// append(list, existing...) or copy(list made with len(existing), existing)
					if !isBuiltin(c, "append") && !isBuiltin(c, "copy") {
						continue
					}
					t := sf.TB.Of(c.Common().Args[1]).String()
					if strings.Contains(t, "."+getter+"(") && strings.Contains(t, "$"+f.Params[0].Name()) {
						if isBuiltin(c, "copy") {
							// the destination must have room for all of them: made with that length
							dst := sf.TB.Of(c.Common().Args[0]).String()
							_ = dst
							if ms, isMS := stripIface(c.Common().Args[0]).(*ssa.MakeSlice); !isMS || !strings.Contains(sf.TB.Of(ms.Len).String(), "len("+t+")") {
								continue
							}
						}
						okKeep = true
					}
				}
			}
			r.R.Check(okKeep, P+".set.keep."+s.fn, "E5: before new entries are merged, the rebuilt list receives the document's existing "+s.section+" entries (append(list, doc."+getter+"()...))", core.FuncName(f), r.where(f),
				"without it an add patch replaces the whole section by the added entries", "existing entries retained", "no append of the document's existing entries into the rebuilt list")
		}
		// section written back
		okStore := false
		for _, b := range f.Blocks {
			for _, ins := range b.Instrs {
				if mu, isMU := ins.(*ssa.MapUpdate); isMU && mu.Map == ssa.Value(f.Params[0]) {
					okStore = strings.Trim(sf.TB.Of(mu.Key).String(), `"`) == s.section
				}
			}
		}
		r.R.Check(nApp >= 1 && okApp && okUpd && okStore, P+".set."+s.fn, "E2: in "+s.fn+" an entry is appended only under miss(id set, id) ("+s.kind+": "+map[string]string{"add": "new entries; existing ids are replaced in place under hit", "remove": "entries not in the removal set are kept"}[s.kind]+"), and the rebuilt list is stored under \""+s.section+"\"",
			core.FuncName(f), r.where(f), "an unguarded append duplicates an existing id (add) or keeps a removed one (remove)", "guarded", fmt.Sprintf("loop appends=%d all under miss=%v replace under hit=%v stored under section=%v", nApp, okApp, okUpd, okStore))
	}
}

// checkMapOrder: E14.
func (r *Run) checkMapOrder(P string, rels []string) {
	n := 0
	for _, f := range r.P.SubjectFuncs(rels...) {
		for _, b := range f.Blocks {
			for _, ins := range b.Instrs {
				rg, ok := ins.(*ssa.Range)
				if !ok {
					continue
				}
				if _, isMap := rg.X.Type().Underlying().(*types.Map); !isMap {
					continue
				}
				n++
				// loop body: blocks dominated by the block holding Next
				var nextBlk *ssa.BasicBlock
				if refs := rg.Referrers(); refs != nil {
					for _, rf := range *refs {
						if nx, ok := rf.(*ssa.Next); ok {
							nextBlk = nx.Block()
						}
					}
				}
				bad := ""
				sortedAfter := false
				if nextBlk != nil {
					for _, lb := range f.Blocks {
						if !nextBlk.Dominates(lb) {
							continue
						}
						inLoop := reachableFrom(lb, nextBlk, nil)
						for _, li := range lb.Instrs {
							c, isC := li.(*ssa.Call)
							if !isC {
								continue
							}
							if isBuiltin(c, "append") && inLoop {
								// appending to a slice in map order: must be sorted before use
								bad = "append in map-iteration order at " + r.P.Pos(c.Pos())
							}
							if sc := c.Common().StaticCallee(); sc != nil {
								switch sc.String() {
								case "sort.Strings", "sort.Slice", "sort.SliceStable", "sort.Sort":
									sortedAfter = true
								case "(*strings.Builder).WriteString", "(*strings.Builder).WriteByte", "(*bytes.Buffer).WriteString", "(*bytes.Buffer).Write":
									if inLoop {
										bad = "builder write in map-iteration order at " + r.P.Pos(c.Pos())
									}
								}
							}
						}
					}
				}
				okSite := bad == "" || sortedAfter
				r.R.Check(okSite, fmt.Sprintf("%s.det.%s", P, core.FuncName(f)), "E14: a range over a map only feeds maps / membership tests, or the collected slice is sorted before use", core.FuncName(f), r.P.Pos(rg.Pos()),
					"map iteration order is random: an ordered result built from it makes patch application non-deterministic", "order-insensitive or sorted", bad)
			}
		}
	}
	r.R.SetCount("E14 map ranges examined", n)
}

// ---------------------------------------------------------------- C18

func runC18(r *Run) {
	const P = "C18"
	r.checkActionTables(P)

	// --- elem: E6 over every error-only function with a loop in the validator package.
	// validatingLoopTable: number of loops that can reject, per function, confirmed by reading.
	validatingLoopTable := map[string]int{
		"validate": 1, "validatePublicKeys": 1, "validatePublicKeyProperties": 3, "validateServices": 1,
		"validateServiceEndpointObjects": 1, "validateURIs": 1, "validateKeyPurposes": 1, "validateIds": 1,
		"validateJSONPatches": 1, "Validate": 1,
	}
	nLoopFns := 0
	wantLoops := 0
	for _, n := range validatingLoopTable {
		wantLoops += n
	}
	gotLoops := 0
	var perFn []string
	for _, f := range r.P.SubjectFuncs(pkgPatchVal) {
		if f.Parent() != nil || !errResultOnly(f) || len(allLoopHeads(f)) == 0 {
			continue
		}
		nLoopFns++
		name := f.Name()
		why := "a validating loop that returns success inside its body, or that no longer rejects, examines only part of the list: later malformed entries (e.g. the second service endpoint) are accepted"
		r.checkNoEarlySuccess(P+".elem.noearly."+name, f, why)
		r.checkEveryElementChecked(P+".elem.every."+name, f, why, 0)
		k := len(r.validatingLoops(f))
		gotLoops += k
		note := ""
		if ref, known := validatingLoopTable[name]; known && ref != k {
			note = fmt.Sprintf(" (reference %d)", ref)
		}
		perFn = append(perFn, fmt.Sprintf("%s:%d%s", name, k, note))
	}
	sort.Strings(perFn)
	// the table is the reference confirmed by reading; loops may move between
	// functions (extract / rename), but a loop that stops rejecting lowers the total
	r.R.Check(gotLoops >= wantLoops, P+".elem.loops.total", fmt.Sprintf("E6 instance count: the patch validator has at least the %d rejecting per-element loops confirmed by reading (wherever they live)", wantLoops), "patchvalidator", "pkg/versions/1_0/operationparser/patchvalidator",
		"a per-element check that was removed or no longer rejects lets malformed list entries through", fmt.Sprintf("%d rejecting loops: %s", gotLoops, strings.Join(perFn, " ")), fmt.Sprintf("%d rejecting loops, %d confirmed by reading: %s", gotLoops, wantLoops, strings.Join(perFn, " ")))
	r.R.Floor(P+".elem.floor", "instance floor", nLoopFns, 10, "error-only functions with loops in the patch validator")

	// --- limits
	consts := map[string]int64{}
	if pk := r.P.Pkg(pkgPatchVal); pk != nil {
		for _, n := range pk.Types.Scope().Names() {
			if c, ok := pk.Types.Scope().Lookup(n).(*types.Const); ok && c.Val().Kind() == constant.Int {
				v, _ := constant.Int64Val(c.Val())
				consts[n] = v
			}
		}
	}
	if f := r.fn(P, pkgPatchVal, "validateID"); f != nil {
		r.requireSucc(P+".limits.id", "ids must be 1-50 URL-safe characters", f, core.Ctx{}, "",
			"cmp(len($0) <= 50)", "true(Regexp.MatchString(_, $0))")
		// the regexp
		okRe := false
		if pk := r.P.Pkg(pkgPatchVal); pk != nil {
			for _, file := range pk.Syntax {
				ast.Inspect(file, func(n ast.Node) bool {
					if bl, ok := n.(*ast.BasicLit); ok && bl.Kind == token.STRING && strings.Contains(bl.Value, "^[A-Za-z0-9_-]+$") {
						okRe = true
					}
					return true
				})
			}
		}
		r.R.Check(okRe && consts["maxIDLength"] == 50, P+".limits.id.consts", "constants: id pattern ^[A-Za-z0-9_-]+$ (non-empty, URL-safe) and maximum length 50", "patchvalidator", "pkg/versions/1_0/operationparser/patchvalidator/document.go", "-", "50 / ^[A-Za-z0-9_-]+$", fmt.Sprintf("pattern present=%v maxIDLength=%d", okRe, consts["maxIDLength"]))
	}
	if f := r.fn(P, pkgPatchVal, "validateServiceType"); f != nil {
		r.requireSucc(P+".limits.servicetype", "service types must be 1-30 characters", f, core.Ctx{}, "", `cmp($0 != "")`, "cmp(len($0) <= 30)")
	}
	if f := r.fn(P, pkgPatchVal, "validateService"); f != nil {
		r.requireSucc(P+".limits.service", "every service needs a valid id, type and endpoint", f, core.Ctx{}, "",
			"ok(validateServiceID(_))", "ok(validateServiceType(_))", "ok(validateServiceEndpoint(_))")
	}
	if f := r.fn(P, pkgPatchVal, "validateServices"); f != nil {
		ff := r.E.Facts(f, core.Ctx{})
		// duplicate id detection: error on hit
		ok := hitLeadsToError(ff)
		r.R.Check(ok, P+".limits.service.unique", "E2: a service id seen before in the same patch is an error", core.FuncName(f), r.where(f), "ids must be unique within their patch", "error under hit(ids, id)", "no failing return under a duplicate id")
	}
	if f := r.fn(P, pkgPatchVal, "validatePublicKeys"); f != nil {
		ff := r.E.Facts(f, core.Ctx{})
		ok := hitLeadsToError(ff)
		r.R.Check(ok, P+".limits.key.unique", "E2: a key id seen before in the same patch is an error", core.FuncName(f), r.where(f), "ids must be unique within their patch", "error under hit(ids, id)", "no failing return under a duplicate id")
	}

	// --- pointer.members
	r.checkPointerMembers(P)

	// --- validated.before.apply
	appl := r.applierFuncs(P + ".validated")
	for _, role := range opRoles {
		f := appl[role.Type]
		if f == nil || role.Type == "deactivate" {
			continue
		}
		ff := r.E.Facts(f, core.Ctx{})
		calls := r.callsIn(f, "ApplyPatches")
		ok := len(calls) >= 1
		for _, c := range calls {
			at := ff.At(c)
			b, m := core.MatchAll(at, []string{"ok(ValidateDelta(_, ?d))"}, nil)
			if !m || !core.MatchTerm("?d.Patches", ff.TB.Of(core.CallArgs(c.Common())[2]), b) {
				ok = false
			}
		}
		r.R.Check(ok, P+".validated.before.apply."+role.Type, "E2 Before: ApplyPatches(_, delta.Patches) only under Ok(ValidateDelta(delta)) for the same delta", core.FuncName(f), r.where(f),
			"an unvalidated delta reaching the composer can crash resolution or touch protected sections", "dominated by ValidateDelta", "ApplyPatches reachable without the delta having been validated")
	}
	if f := r.fn(P, pkgProvider, "OperationProvider.validateChunkFile"); f != nil {
		r.checkEveryElementChecked(P+".validated.chunk", f, "every delta of every chunk file is validated on read", 1)
	}

	// --- norec + nopanic
	entries := map[string]*ssa.Function{
		"DocumentComposer.ApplyPatches": r.fn(P, pkgComposer, "DocumentComposer.ApplyPatches"),
		"Parser.ValidateDelta":          r.fn(P, pkgParser, "Parser.ValidateDelta"),
	}
	var es []*ssa.Function
	for _, f := range entries {
		if f != nil {
			es = append(es, f)
		}
	}
	fns := r.P.Reachable(es...)
	inSet := map[*ssa.Function]bool{}
	for _, f := range fns {
		inSet[f] = true
	}
	g := r.P.CallGraph()
	// recursion: DFS for a cycle inside the set
	color := map[*ssa.Function]int{}
	cycle := ""
	var dfs func(f *ssa.Function)
	dfs = func(f *ssa.Function) {
		color[f] = 1
		if n := g.Nodes[f]; n != nil {
			for _, e := range n.Out {
				c := e.Callee.Func
				if !inSet[c] {
					continue
				}
				// only static call edges: interface dispatch (e.g. error.Error) is over-approximated by the call graph
				if e.Site == nil || e.Site.Common().StaticCallee() != c {
					continue
				}
				if color[c] == 1 && cycle == "" {
					cycle = core.FuncName(f) + " → " + core.FuncName(c)
				}
				if color[c] == 0 {
					dfs(c)
				}
			}
		}
		color[f] = 2
	}
	for _, f := range fns {
		if color[f] == 0 {
			dfs(f)
		}
	}
	r.R.Check(cycle == "", P+".norec", "call-graph SCCs: no recursion among the subject functions reachable from ApplyPatches / ValidateDelta", "reachable set", "-",
		"recursion on attacker-controlled nesting can overflow the stack", fmt.Sprintf("%d functions, acyclic", len(fns)), "recursive edge "+cycle)
	if r.Universal {
		r.universalE6(P)
		r.universalE11(P, pkgComposer, pkgPatch, pkgDocument, pkgPatchVal)
	}
	r.checkNoPanic(P, entries, 40)
	r.checkCopyAliasing(P)
	r.checkSeenSets(P)
	r.checkKeyTypePurpose(P)
}

func errResultOnly(f *ssa.Function) bool {
	res := f.Signature.Results()
	return res.Len() == 1 && res.At(0).Type().String() == "error"
}

// checkPointerMembers: derive the pointer-valued members from the engine, then
// require the protected-prefix test on each.
func (r *Run) checkPointerMembers(P string) {
	// engine package
	var eng *ssa.Package
	for _, sp := range r.P.SSA.AllPackages() {
		if sp.Pkg.Path() == "github.com/evanphx/json-patch" {
			eng = sp
		}
	}
	rule := "the RFC 6902 members the engine dereferences as JSON pointers (derived from its source: accessors of its operation type whose result reaches findObject) must each be tested against the protected section prefixes by the validator"
	why := "an operation can reach a protected section through any pointer-valued member: {\"op\":\"move\",\"from\":\"/publicKey\",…} removes the public keys although its path is harmless"
	if eng == nil {
		r.R.Unk(P+".pointer.members", rule, "github.com/evanphx/json-patch", "-", why, "engine package not loaded")
		return
	}
	// accessor methods on operation: functions named like o.path(), o.from(): single string result, body looks up a constant key
	members := map[string]string{} // accessor -> JSON member
	for _, mem := range eng.Members {
		_ = mem
	}
	for f := range r.P.AllFuncs {
		if f.Pkg != eng || f.Signature.Recv() == nil || f.Blocks == nil {
			continue
		}
		if !strings.HasSuffix(f.Signature.Recv().Type().String(), "json-patch.operation") {
			continue
		}
		for _, b := range f.Blocks {
			for _, ins := range b.Instrs {
				if lk, ok := ins.(*ssa.Lookup); ok {
					if c, ok := lk.Index.(*ssa.Const); ok && c.Value != nil && c.Value.Kind() == constant.String {
						members[f.Name()] = constant.StringVal(c.Value)
					}
				}
			}
		}
	}
	// which accessors' results reach findObject (the pointer resolver)?
	pointerMembers := map[string]bool{}
	for f := range r.P.AllFuncs {
		if f.Pkg != eng || f.Blocks == nil {
			continue
		}
		for _, b := range f.Blocks {
			for _, ins := range b.Instrs {
				c, ok := ins.(*ssa.Call)
				if !ok {
					continue
				}
				sc := c.Common().StaticCallee()
				if sc == nil || sc.Name() != "findObject" {
					continue
				}
				for _, a := range c.Common().Args {
					for _, root := range valueRoots(a) {
						if rc, ok := root.(*ssa.Call); ok {
							if acc := rc.Common().StaticCallee(); acc != nil {
								if m, ok := members[acc.Name()]; ok {
									pointerMembers[m] = true
								}
							}
						}
					}
				}
			}
		}
	}
	r.R.List("JSON-patch members dereferenced as pointers by the engine (derived)", keysOf(pointerMembers)...)
	if len(pointerMembers) < 2 {
		r.R.Unk(P+".pointer.members.derive", rule, "github.com/evanphx/json-patch", "-", why, fmt.Sprintf("derived only %v from the engine source (accessors %v)", keysOf(pointerMembers), members))
		return
	}
	v := r.fn(P, pkgPatchVal, "validateJSONPatches")
	if v == nil {
		return
	}
	_ = r.E.Facts(v, core.Ctx{})
	// for each member: the value decoded from op[member] is tested with strings.HasPrefix against both
	// protected prefixes, the true edge reaching only errors (followed into helper functions)
	// does the engine's pointer resolver discard what precedes the first '/'? (findObject: strings.Split(path, "/")[1:...])
	dropsFirst := false
	for f := range r.P.AllFuncs {
		if f.Pkg != eng || f.Blocks == nil || f.Name() != "findObject" {
			continue
		}
		for _, b := range f.Blocks {
			for _, ins := range b.Instrs {
				if sl, ok := ins.(*ssa.Slice); ok && sl.Low != nil {
					if k, ok := sl.Low.(*ssa.Const); ok && k.Value != nil && k.Value.ExactString() == "1" {
						if c, ok := sl.X.(*ssa.Call); ok && c.Common().StaticCallee() != nil && c.Common().StaticCallee().String() == "strings.Split" {
							dropsFirst = true
						}
					}
				}
			}
		}
	}
	r.R.List("engine premises (derived from the JSON-patch library source)", fmt.Sprintf("findObject resolves strings.Split(pointer, \"/\")[1:], i.e. ignores the text before the first '/': %v", dropsFirst))
	for _, m := range keysOf(pointerMembers) {
		prefixes := r.protectedPrefixTests(v, m)
		okM := prefixes["/service"] && prefixes["/publicKey"]
		r.R.Check(okM, P+".pointer.members."+m, rule, "patchvalidator.validateJSONPatches member \""+m+"\"", r.where(v), why,
			"both protected prefixes rejected for this member", fmt.Sprintf("member %q: protected prefixes rejected: %v (need /publicKey and /service)", m, keysOf(prefixes)))
		// the prefix tests look at the string; the engine looks at the tokens after the first '/'. Both see the
		// same location only if the pointer starts with '/' (RFC 6901) — required whenever the engine drops the first token.
		okR := !dropsFirst || prefixes["required:/"]
		r.R.Check(okR, P+".pointer.rooted."+m, "sibling agreement (validator ↔ engine): the engine resolves a pointer from its first '/', so the validator's prefix tests are only meaningful for pointers that start with '/': a member that does not is rejected",
			"patchvalidator.validateJSONPatches member \""+m+"\"", r.where(v),
			"{\"op\":\"remove\",\"path\":\"x/publicKey\"} passes both prefix tests and removes the public keys, because the engine ignores the text before the first '/'",
			"a pointer that does not start with '/' is rejected", fmt.Sprintf("member %q: no test that rejects a pointer not starting with '/' (tests found: %v)", m, keysOf(prefixes)))
	}
}

// protectedPrefixTests: forward taint from Lookup(op, member) in f through
// dereferences, json.Unmarshal targets and subject callees (depth 3) to
// strings.HasPrefix(tainted, const) calls whose true edge only reaches errors.
func (r *Run) protectedPrefixTests(f *ssa.Function, member string) map[string]bool {
	out := map[string]bool{}
	type item struct {
		v     ssa.Value
		depth int
	}
	var work []item
	for _, b := range f.Blocks {
		for _, ins := range b.Instrs {
			if lk, ok := ins.(*ssa.Lookup); ok {
				if k, ok := lk.Index.(*ssa.Const); ok && k.Value != nil && k.Value.Kind() == constant.String && constant.StringVal(k.Value) == member {
					work = append(work, item{lk, 0})
				}
			}
		}
	}
	seen := map[ssa.Value]bool{}
	for len(work) > 0 {
		it := work[len(work)-1]
		work = work[:len(work)-1]
		if it.v == nil || seen[it.v] {
			continue
		}
		seen[it.v] = true
		refs := it.v.Referrers()
		if refs == nil {
			continue
		}
		for _, rf := range *refs {
			switch x := rf.(type) {
			case *ssa.Extract, *ssa.UnOp, *ssa.ChangeType, *ssa.Convert, *ssa.Phi, *ssa.MakeInterface, *ssa.Slice:
				work = append(work, item{x.(ssa.Value), it.depth})
			case *ssa.Store:
				if x.Val == it.v {
					work = append(work, item{x.Addr, it.depth})
				}
			case *ssa.Call:
				cc := x.Common()
				sc := cc.StaticCallee()
				if sc == nil {
					continue
				}
				switch {
				case sc.Name() == "Unmarshal" && len(cc.Args) == 2 && cc.Args[0] == it.v:
					// the target becomes tainted: follow the pointed-to alloc
					tgt := cc.Args[1]
					if mi, ok := tgt.(*ssa.MakeInterface); ok {
						tgt = mi.X
					}
					work = append(work, item{tgt, it.depth})
				case sc.String() == "strings.HasPrefix" && cc.Args[0] == it.v:
					// a test in dead code (`false && HasPrefix(…)`) tests nothing
					if lf := r.E.Facts(x.Parent(), core.Ctx{}); !lf.Live[x.Block()] {
						continue
					}
					// the prefix: a constant, also one read from a table of constants (a slice literal nobody writes)
					prefix, isConst := "", false
					if k, ok := cc.Args[1].(*ssa.Const); ok && k.Value != nil && k.Value.Kind() == constant.String {
						prefix, isConst = constant.StringVal(k.Value), true
					} else if pt := r.E.Facts(x.Parent(), core.Ctx{}).TB.Of(cc.Args[1]); pt.Op == "const" {
						if kv, ok := pt.Val.(*ssa.Const); ok && kv.Value != nil && kv.Value.Kind() == constant.String {
							prefix, isConst = constant.StringVal(kv.Value), true
						}
					}
					if isConst {
						ff := r.E.Facts(x.Parent(), core.Ctx{})
						if crefs := x.Referrers(); crefs != nil {
							for _, cr := range *crefs {
								if iff, ok := cr.(*ssa.If); ok && onlyErrors(ff, iff.Block().Succs[0]) {
									out[prefix] = true
								}
								// required prefix: the pointer must start with the constant (false edge only reaches errors)
								if iff, ok := cr.(*ssa.If); ok && onlyErrors(ff, iff.Block().Succs[1]) {
									out["required:"+prefix] = true
								}
							}
						}
					} else if bo, ok := cc.Args[1].(*ssa.BinOp); ok {
						// "/" + constant
						if kx, ok := bo.X.(*ssa.Const); ok {
							if ky, ok := bo.Y.(*ssa.Const); ok && kx.Value != nil && ky.Value != nil {
								ff := r.E.Facts(x.Parent(), core.Ctx{})
								if crefs := x.Referrers(); crefs != nil {
									for _, cr := range *crefs {
										if iff, ok := cr.(*ssa.If); ok && onlyErrors(ff, iff.Block().Succs[0]) {
											out[constant.StringVal(kx.Value)+constant.StringVal(ky.Value)] = true
										}
									}
								}
							}
						}
					}
				case r.P.IsSubject(sc) && sc.Blocks != nil && it.depth < 3:
					// the helper must itself be an error-returning check whose failure is propagated: require
					// that the call's error result leads to an error return when non-nil
					for ai, a := range cc.Args {
						if a == it.v && ai < len(sc.Params) {
							if r.errorPropagated(x) {
								work = append(work, item{sc.Params[ai], it.depth + 1})
							}
						}
					}
				}
			}
		}
		// loads of a tainted alloc
		if al, ok := it.v.(*ssa.Alloc); ok {
			if arefs := al.Referrers(); arefs != nil {
				for _, ar := range *arefs {
					if u, ok := ar.(*ssa.UnOp); ok && u.Op == token.MUL {
						work = append(work, item{u, it.depth})
					}
				}
			}
		}
	}
	return out
}

// errorPropagated: the error result of call c, when non-nil, leads only to error returns of the caller.
func (r *Run) errorPropagated(c *ssa.Call) bool {
	f := c.Parent()
	ff := r.E.Facts(f, core.Ctx{})
	ct := ff.TB.Of(c)
	// tail return of the call's error
	for _, ri := range ff.Returns() {
		ei := f.Signature.Results().Len() - 1
		if ei >= 0 && core.RetOp(ri.Ret, ei) == ssa.Value(c) {
			return true
		}
	}
	for _, b := range f.Blocks {
		for _, s := range b.Succs {
			for _, fc := range ff.EdgeFacts(b, s) {
				if fc.Kind == "fail" && fc.A.String() == ct.String() {
					return onlyErrors(ff, s)
				}
			}
		}
	}
	// the error is merged with others and tested after the join (the shape an inlined helper leaves): propagated iff
	// no success return is reachable from the call except across the nil outcome of its error (the E11 criterion)
	if res := f.Signature.Results(); res.Len() > 0 && res.At(res.Len()-1).Type().String() == "error" {
		for _, u := range r.unguardedErrorSites(f) {
			if u.Call == c {
				return false
			}
		}
		return true
	}
	return false
}

// stringDerivesFromMember: the first argument of the HasPrefix call is a string
// decoded (json.Unmarshal) from the patch operation's member m.
func (r *Run) stringDerivesFromMember(f *ssa.Function, call *core.Term, member string) bool {
	c, ok := call.Val.(*ssa.Call)
	if !ok {
		return false
	}
	arg := c.Common().Args[0]
	// arg is a load of a local string alloc that json.Unmarshal filled from *op[member]
	u, ok := arg.(*ssa.UnOp)
	if !ok {
		return false
	}
	al, ok := u.X.(*ssa.Alloc)
	if !ok {
		return false
	}
	refs := al.Referrers()
	if refs == nil {
		return false
	}
	for _, rf := range *refs {
		mi, ok := rf.(*ssa.MakeInterface)
		if !ok {
			continue
		}
		if mrefs := mi.Referrers(); mrefs != nil {
			for _, mr := range *mrefs {
				uc, ok := mr.(*ssa.Call)
				if !ok || uc.Common().StaticCallee() == nil || uc.Common().StaticCallee().Name() != "Unmarshal" {
					continue
				}
				src := uc.Common().Args[0]
				// src derives from Lookup(op, const member)
				found := false
				var rec func(v ssa.Value, d int)
				rec = func(v ssa.Value, d int) {
					if v == nil || d > 8 || found {
						return
					}
					switch x := v.(type) {
					case *ssa.Lookup:
						if k, ok := x.Index.(*ssa.Const); ok && k.Value != nil && k.Value.Kind() == constant.String && constant.StringVal(k.Value) == member {
							found = true
						}
					case *ssa.Extract:
						rec(x.Tuple, d+1)
					case *ssa.UnOp:
						rec(x.X, d+1)
					case *ssa.ChangeType:
						rec(x.X, d+1)
					case *ssa.Convert:
						rec(x.X, d+1)
					case *ssa.Phi:
						for _, e := range x.Edges {
							rec(e, d+1)
						}
					}
				}
				rec(src, 0)
				if found {
					return true
				}
			}
		}
	}
	return false
}

func onlyErrors(ff *core.FnFacts, start *ssa.BasicBlock) bool {
	rets := map[*ssa.Return]core.RetClass{}
	for _, ri := range ff.Returns() {
		rets[ri.Ret] = ri.Class
	}
	n := 0
	good := true
	visit := func(x *ssa.BasicBlock) bool {
		if ret, ok := x.Instrs[len(x.Instrs)-1].(*ssa.Return); ok {
			n++
			if rets[ret] != core.RetFail {
				good = false
			}
		}
		return false
	}
	visit(start)
	// the way of arrival matters where an error assigned on this edge is tested after a join
	prefix := []*ssa.BasicBlock{start}
	if len(start.Preds) == 1 {
		prefix = []*ssa.BasicBlock{start.Preds[0], start}
	}
	ff.WalkFeasible(prefix, nil, visit)
	return good && n > 0
}

// checkSeenSets (C18, ids unique within a patch): in a loop that rejects an
// element whose key is already in a local set (hit → error), every completing
// iteration records the element's key in that set — otherwise nothing is ever
// found "already seen".
func (r *Run) checkSeenSets(P string) {
	n := 0
	for _, f := range r.P.SubjectFuncs(pkgPatchVal) {
		if f.Parent() != nil || !errResultOnly(f) {
			continue
		}
		ff := r.E.Facts(f, core.Ctx{})
		for _, head := range allLoopHeads(f) {
			// a lookup in a local map whose hit edge only reaches errors
			type seenSet struct {
				m   ssa.Value
				key string
			}
			var sets []seenSet
			for _, b := range f.Blocks {
				if !head.Dominates(b) || !blockReaches(ff, b, head, nil) {
					continue
				}
				for _, s := range b.Succs {
					for _, fc := range ff.EdgeFacts(b, s) {
						if fc.Kind != "hit" || fc.A == nil || fc.B == nil {
							continue
						}
						mk, isMk := fc.A.Val.(*ssa.MakeMap)
						if !isMk || !onlyErrors(ff, s) {
							continue
						}
						sets = append(sets, seenSet{mk, fc.B.String()})
					}
				}
			}
			for _, ss := range sets {
				n++
				good, nBack := true, 0
				for _, ip := range loopIterationPaths(ff, head, 4000) {
					if ip.Ret != nil {
						continue
					}
					nBack++
					recorded := false
					for _, b := range ip.Blocks[:len(ip.Blocks)-1] {
						for _, ins := range b.Instrs {
							if mu, ok := ins.(*ssa.MapUpdate); ok && mu.Map == ss.m && ff.TB.Of(mu.Key).String() == ss.key {
								recorded = true
							}
						}
					}
					if !recorded {
						good = false
					}
				}
				r.R.Check(good && nBack > 0, fmt.Sprintf("%s.unique.record.%s", P, f.Name()), "E6 dual: a loop that rejects an element whose key is already in the seen set records the key of every element it lets through", core.FuncName(f), r.where(f),
					"if the key is not recorded, a duplicate id later in the same patch is never detected", fmt.Sprintf("recorded on all %d completing iteration paths", nBack), "an iteration completes without recording "+ss.key)
			}
		}
	}
	r.R.Floor(P+".unique.floor", "instance floor", n, 3, "seen-set uniqueness loops in the patch validator")
}

// checkKeyTypePurpose (C18, key type permitted for each declared purpose): the
// predicate returns true only if the type is in the general table when no
// purpose is declared, and, for every declared purpose, the purpose has a table
// and the type is in it.
func (r *Run) checkKeyTypePurpose(P string) {
	r.checkKeyTypeTables(P)
	f := r.fn(P, pkgPatchVal, "validateKeyTypePurpose")
	if f == nil {
		return
	}
	ff := r.E.Facts(f, core.Ctx{})
	id := P + ".keytype.purpose"
	rule := "E6 dual + E2: validateKeyTypePurpose reaches `return true` only with hit(allowedKeyTypesGeneral, type) when there are no purposes, and completes a purpose iteration only under hit(allowedKeyTypes, purpose) ∧ hit(that table, type)"
	why := "a key type that is not permitted for one of its declared purposes (or, without purposes, not a general key type) is accepted"
	heads := allLoopHeads(f)
	if len(heads) != 1 {
		r.R.Unk(id, rule, core.FuncName(f), r.where(f), why, fmt.Sprintf("%d loops", len(heads)))
		return
	}
	head := heads[0]
	good := true
	var det []string
	nBack := 0
	for _, ip := range loopIterationPaths(ff, head, 2000) {
		if ip.Ret != nil {
			if c, ok := core.RetOp(ip.Ret, 0).(*ssa.Const); !ok || c.Value == nil || c.Value.String() != "false" {
				good = false
				det = append(det, "a return inside the purpose loop is not `false`")
			}
			continue
		}
		nBack++
		hitTable, hitType := false, false
		for _, fc := range rawPathFacts(ff, ip.Blocks) {
			if fc.Kind != "hit" {
				continue
			}
			if fc.A.Op == "global" && strings.HasSuffix(fc.A.Name, "allowedKeyTypes") && (strings.HasPrefix(fc.B.String(), "range:") || fc.B.Op == "idx") {
				hitTable = true // the purpose of this iteration has a table
			}
			if fc.A.Op != "global" && fc.A.Root() != nil && fc.A.Root().Op == "global" && strings.HasSuffix(fc.A.Root().Name, "allowedKeyTypes") && strings.Contains(fc.B.String(), ".Type(") {
				hitType = true // the key's type is in that table
			}
		}
		if !hitTable || !hitType {
			good = false
			det = append(det, fmt.Sprintf("a purpose iteration completes without both lookups succeeding (purpose table hit=%v, type hit=%v)", hitTable, hitType))
		}
	}
	// before the loop: no purposes => general table hit
	entryOK := !reachesAvoiding(ff, f.Blocks[0].Instrs[0], head.Instrs[0], func(a, b *ssa.BasicBlock) bool {
		for _, fc := range ff.EdgeFacts(a, b) {
			if fc.Kind == "hit" && fc.A.Op == "global" && strings.HasSuffix(fc.A.Name, "allowedKeyTypesGeneral") {
				return true
			}
			set := core.FactSet{fc.Key(): fc}
			if core.HasFact(set, "cmp(len(PublicKey.Purpose(_)) != 0)") {
				return true
			}
		}
		return false
	})
	if !entryOK {
		good = false
		det = append(det, "the purpose loop (and `return true`) is reachable with no purposes and without the general-table lookup succeeding")
	}
	// outside the loop every `true` return comes after the loop
	for _, b := range f.Blocks {
		if ret, ok := b.Instrs[len(b.Instrs)-1].(*ssa.Return); ok {
			if c, isC := core.RetOp(ret, 0).(*ssa.Const); isC && c.Value != nil && c.Value.String() == "true" {
				if !head.Dominates(b) {
					good = false
					det = append(det, "`return true` before the purposes were examined")
				}
			}
		}
	}
	r.R.Check(good && nBack > 0, id, rule, core.FuncName(f), r.where(f), why, fmt.Sprintf("%d completing iteration paths, all under both lookups", nBack), strings.Join(dedupe(det), "; "))
	// and the caller rejects on false
	if vp := r.fn(P, pkgPatchVal, "validatePublicKeys"); vp != nil {
		vf := r.E.Facts(vp, core.Ctx{})
		okCaller := false
		for _, b := range vp.Blocks {
			for _, s := range b.Succs {
				for _, fc := range vf.EdgeFacts(b, s) {
					if fc.Kind == "false" && fc.A.Op == "call" && fc.A.Callee == f {
						okCaller = onlyErrors(vf, s)
					}
				}
			}
		}
		r.R.Check(okCaller, id+".caller", "E2: validatePublicKeys rejects the key on the false edge of validateKeyTypePurpose", core.FuncName(vp), r.where(vp), why, "false → error", "the false edge of the predicate does not lead to an error only")
	}
}

// checkComposerPure: ApplyPatches never touches the document it is given
// (shared by C17 and C03: "an update whose patches fail leaves the document
// unchanged" rests on it).
func (r *Run) checkComposerPure(P string) {
	ap := r.fn(P, pkgComposer, "DocumentComposer.ApplyPatches")
	if ap == nil {
		return
	}
	ff := r.E.Facts(ap, core.Ctx{})
	doc := ap.Params[1]
	// --- pure
	ok, whyNot := r.readOnlyParam(ap, doc, 0, map[*ssa.Parameter]bool{})
	r.R.Check(ok, P+".pure.param", "E9: the document parameter of ApplyPatches is never mutated, stored or returned — transitively through every callee it is passed to", core.FuncName(ap), r.where(ap),
		"if any apply step (or the copy) touches the caller's document, a failed or successful patch list changes the previous state held by the resolver", "only read (marshalled by the deep copy)", whyNot)
	// the only use of doc is deepCopy; applyPatch receives deepCopy's result or its own previous result
	uses := 0
	if refs := doc.Referrers(); refs != nil {
		for _, rf := range *refs {
			if _, isDbg := rf.(*ssa.DebugRef); !isDbg {
				uses++
			}
		}
	}
	okFlow := true
	var det []string
	for _, c := range r.callsIn(ap, "applyPatch") {
		for _, l := range phiLeaves(c.Common().Args[0]) {
			t := ff.TB.Of(l)
			if !core.MatchTerm("deepCopy($1)", t, core.Bind{}) && !core.MatchTerm("applyPatch(...)", t, core.Bind{}) {
				okFlow = false
				det = append(det, "applyPatch receives "+t.String())
			}
		}
	}
	okRet := true
	for _, ri := range ff.Returns() {
		for _, l := range phiLeaves(core.RetOp(ri.Ret, 0)) {
			if l == ssa.Value(doc) {
				okRet = false
				det = append(det, "the parameter itself is returned")
			}
		}
	}
	r.R.Check(okFlow && okRet && uses == 1, P+".pure.flow", "E9/E13: apply steps operate on deepCopy(doc) or on the previous step's result only; the parameter is used exactly once (to be copied)", core.FuncName(ap), r.where(ap),
		"patches applied to the parameter itself modify the input document", "deepCopy(doc) → applyPatch* → result", strings.Join(det, "; ")+fmt.Sprintf(" (uses of the parameter: %d)", uses))
}

// checkKeyTypeTables: the tables the purpose predicate consults are map literals that nothing writes to, hands to a
// function or aliases (two purposes sharing a table by design is expressed in the purpose table's literal); the
// purpose table maps each verification purpose to the verification table and keyAgreement to the agreement table,
// and a key-agreement-only type is not in the verification table.
func (r *Run) checkKeyTypeTables(P string) {
	sp := r.P.SSAPkg(pkgPatchVal)
	if sp == nil {
		return
	}
	names := []string{"allowedKeyTypesGeneral", "allowedKeyTypesVerification", "allowedKeyTypesAgreement", "allowedKeyTypes"}
	why := "a table that is extended after its literal (or through an alias, e.g. a merge helper that writes into its argument) admits key types for purposes they are not permitted for"
	var bad []string
	n := 0
	for _, name := range names {
		g, _ := sp.Members[name].(*ssa.Global)
		if g == nil {
			r.R.Unk(P+".keytype.tables", "anchor", "patchvalidator."+name, "-", why, "table variable not found")
			return
		}
		if _, lit := r.mapLiteralKeys(pkgPatchVal, name); !lit {
			bad = append(bad, name+" is not initialised by a map literal")
		}
		for fn := range r.P.AllFuncs {
			if fn.Pkg != sp && (fn.Parent() == nil || fn.Parent().Pkg != sp) {
				continue
			}
			for _, b := range fn.Blocks {
				for _, ins := range b.Instrs {
					switch x := ins.(type) {
					case *ssa.Store:
						if x.Addr == ssa.Value(g) && fn.Name() != "init" {
							bad = append(bad, name+" is assigned in "+core.FuncName(fn))
						}
					case *ssa.UnOp:
						if x.Op != token.MUL || x.X != ssa.Value(g) || x.Referrers() == nil {
							continue
						}
						n++
						var chk func(v ssa.Value, refs []ssa.Instruction, depth int)
						chk = func(v ssa.Value, refs []ssa.Instruction, depth int) {
							for _, rf := range refs {
								switch y := rf.(type) {
								case *ssa.Lookup:
									if y.X != v {
										continue
									}
									// an inner table fetched from the purpose table is read-only as well
									if _, isMap := y.Type().Underlying().(*types.Map); isMap && depth < 2 && y.Referrers() != nil {
										chk(y, *y.Referrers(), depth+1)
									}
									if tup, isTup := y.Type().(*types.Tuple); isTup && depth < 2 && y.Referrers() != nil {
										for _, er := range *y.Referrers() {
											if ex, isEx := er.(*ssa.Extract); isEx && ex.Index == 0 && ex.Referrers() != nil {
												if _, isMap := tup.At(0).Type().Underlying().(*types.Map); isMap {
													chk(ex, *ex.Referrers(), depth+1)
												}
											}
										}
									}
								case *ssa.Range, *ssa.DebugRef:
								case *ssa.MapUpdate:
									if y.Map == v {
										bad = append(bad, name+" is written in "+core.FuncName(fn)+" at "+r.P.Pos(y.Pos()))
									} else if fn.Name() != "init" {
										bad = append(bad, name+" is stored into another map in "+core.FuncName(fn))
									}
								case *ssa.Call:
									if bi, isB := y.Common().Value.(*ssa.Builtin); isB && bi.Name() == "len" {
										continue
									}
									bad = append(bad, name+" is handed to "+calleeKeyOf(r, y.Common())+" in "+core.FuncName(fn)+" at "+r.P.Pos(y.Pos()))
								default:
									bad = append(bad, fmt.Sprintf("%s is used by %T in %s at %s", name, rf, core.FuncName(fn), r.P.Pos(rf.Pos())))
								}
							}
						}
						chk(x, *x.Referrers(), 0)
					}
				}
			}
		}
	}
	ver, _ := r.mapLiteralKeys(pkgPatchVal, "allowedKeyTypesVerification")
	agr, _ := r.mapLiteralKeys(pkgPatchVal, "allowedKeyTypesAgreement")
	pur, _ := r.mapLiteralKeys(pkgPatchVal, "allowedKeyTypes")
	for k := range ver {
		if strings.Contains(k, "KeyAgreementKey") {
			bad = append(bad, "the verification table admits the key-agreement type "+k)
		}
	}
	for k := range agr {
		if strings.HasPrefix(k, "Ed25519VerificationKey") {
			bad = append(bad, "the agreement table admits the signature-only type "+k)
		}
	}
	for purpose, tbl := range pur {
		want := "allowedKeyTypesVerification"
		if purpose == "keyAgreement" {
			want = "allowedKeyTypesAgreement"
		}
		if tbl != want {
			bad = append(bad, fmt.Sprintf("purpose %s consults %s", purpose, tbl))
		}
	}
	sort.Strings(bad)
	r.R.Check(len(bad) == 0 && n >= 2 && len(pur) == 5, P+".keytype.tables", "who-may-write + E7 table: the key type tables are map literals, only read (lookup / range / len) after their literal, and each purpose consults its own table", "patchvalidator.allowedKeyTypes*", "pkg/versions/1_0/operationparser/patchvalidator/document.go",
		why, fmt.Sprintf("4 tables, %d reads, %d purposes", n, len(pur)), strings.Join(dedupe(bad), "; "))
}

func calleeKeyOf(r *Run, c *ssa.CallCommon) string {
	k, _, _ := r.P.CalleeKey(c)
	return k
}

// hitLeadsToError: the function has an edge on which a map lookup found its key, and only error returns lie behind it.
func hitLeadsToError(ff *core.FnFacts) bool {
	ok := false
	for _, b := range ff.Fn.Blocks {
		for _, s := range b.Succs {
			for _, fc := range ff.EdgeFacts(b, s) {
				if fc.Kind == "hit" {
					if onlyErrors(ff, s) {
						ok = true
					}
				}
			}
		}
	}
	return ok
}

// readOnlyMapKeys: the constant keys of the map literal a package-level variable (term g) is initialised with, provided
// nothing in its package stores into the variable or into the map (nil otherwise).
func (r *Run) readOnlyMapKeys(g *core.Term) []string {
	gv, ok := g.Val.(*ssa.Global)
	if !ok || gv.Pkg == nil {
		return nil
	}
	keys, lit := r.mapLiteralKeys(core.Rel(gv.Pkg.Pkg.Path()), gv.Name())
	if !lit {
		return nil
	}
	for fn := range r.P.AllFuncs {
		root := fn
		for root.Parent() != nil {
			root = root.Parent()
		}
		if root.Pkg != gv.Pkg {
			continue
		}
		for _, b := range fn.Blocks {
			for _, ins := range b.Instrs {
				switch x := ins.(type) {
				case *ssa.Store:
					if x.Addr == ssa.Value(gv) && fn.Name() != "init" {
						return nil
					}
				case *ssa.MapUpdate:
					if ld, isLd := x.Map.(*ssa.UnOp); isLd && ld.X == ssa.Value(gv) {
						return nil
					}
				case *ssa.Call:
					// handed to a function (other than len): it could be written there
					for _, a := range x.Common().Args {
						if ld, isLd := a.(*ssa.UnOp); isLd && ld.X == ssa.Value(gv) {
							if bi, isB := x.Common().Value.(*ssa.Builtin); !isB || bi.Name() != "len" {
								return nil
							}
						}
					}
				}
			}
		}
	}
	var out []string
	for k := range keys {
		out = append(out, k)
	}
	sort.Strings(out)
	return out
}

// loopConsultsMap: some block of the loop with the given head looks a key up in a map.
func loopConsultsMap(ff *core.FnFacts, f *ssa.Function, head *ssa.BasicBlock) bool {
	if head == nil {
		return false
	}
	for _, b := range f.Blocks {
		if !head.Dominates(b) || !blockReaches(ff, b, head, nil) {
			continue
		}
		for _, ins := range b.Instrs {
			if lk, ok := ins.(*ssa.Lookup); ok {
				if _, isMap := lk.X.Type().Underlying().(*types.Map); isMap {
					return true
				}
			}
		}
	}
	return false
}
