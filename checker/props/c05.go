package props

import (
	"fmt"
	"go/token"
	"go/types"
	"sort"
	"strings"

	"golang.org/x/tools/go/ssa"

	"sidecheck/core"
)

func init() {
	register(&Checker{
		ID: "C05",
		Explanation: "Structural necessary conditions of C05: (bound) every function that computes the effective anchorUntil — found by role: the value compared with the anchoring time in the applier's window test and the second argument of TimeValidator.Validate at intake — is executed abstractly over all weak orderings of {from, until, 0} and must return until, except from + MaxOperationTimeDelta exactly when from≠0 ∧ until=0; the protocol field added must be MaxOperationTimeDelta (own parameter), that parameter must have such a sink (live), and no other protocol parameter may reach a window function (E3 sinks of every read of every protocol.Protocol field, module-wide); " +
			"(nf) the window test is executed over all weak orderings of {from, until, anchor, bound, 0} and must reject exactly when not(from=0 ∧ until=0) ∧ (from > anchor ∨ bound < anchor) — inclusive at both ends; (intake) each Parse*Operation in non-batch mode succeeds only after TimeValidator.Validate(signedData.AnchorFrom, bound(signedData.AnchorFrom, signedData.AnchorUntil)); (effect) window failure maps to the exit class the statement prescribes per type (shared with C03). " +
			"(intake.only) in the operation parser a value read from signedData.AnchorFrom/AnchorUntil reaches a comparison, arithmetic or non-logging call only under the false edge of the batch flag — in the reading function or at every call site leading to it — because anchored operations are parsed in batch mode and by the applier, where a window decision would skip the operation instead of letting it consume its commitment; " +
			"Not decided: overflow of from+delta for adversarial 63-bit values; what a caller-supplied TimeValidator does.",
		Assumptions: []string{"signed-data models are written once after parsing"},
		Run:         runC05,
	})
}

// boundFn analyses one effective-until function. Returns the protocol field
// used for the default and whether the normal form holds.
func (r *Run) checkBoundFn(P, where string, g *ssa.Function, fromIdx, untilIdx int) {
	id := P + ".window.bound@" + where
	rule := "E3/E4 normal form: returns `until`, except `from + Protocol.MaxOperationTimeDelta` iff from≠0 ∧ until=0 (all 13 weak orderings of {from, until, 0})"
	why := "if the default window is bounded by another parameter or applies under another condition, operations take effect outside their signed anchoring window (pinned tree: MaxDeltaSize)"
	if hasCycle(g) {
		r.R.Unk(id, rule, core.FuncName(g), r.where(g), why, "function has a loop")
		return
	}
	_, pfields := r.protocolStruct()
	from, until := g.Params[fromIdx], g.Params[untilIdx]
	ev := &scalarEval{fn: g, name: func(v ssa.Value) (string, bool) {
		v = stripConv(v)
		switch {
		case v == from:
			return "from", true
		case v == until:
			return "until", true
		case isZeroConst(v):
			return "0", true
		}
		return "", false
	}}
	names := []string{"from", "until", "0"}
	good := true
	var det []string
	fieldsUsed := map[string]bool{}
	n := 0
	for _, w := range weakOrders(3) {
		env := scalarEnv{rank: map[string]int{}}
		for i, nm := range names {
			env.rank[nm] = w[i]
		}
		ret, _, why2 := ev.walk(env)
		n++
		if ret == nil {
			r.R.Unk(id, rule, core.FuncName(g), r.where(g), why, "cannot evaluate: "+why2)
			return
		}
		res := stripConv(ev.ret(ret, 0))
		wantDefault := env.rank["from"] != env.rank["0"] && env.rank["until"] == env.rank["0"]
		kind := "other"
		if res == until {
			kind = "until"
		} else if bo, ok := res.(*ssa.BinOp); ok && bo.Op == token.ADD {
			x, y := stripConv(bo.X), stripConv(bo.Y)
			var pv ssa.Value
			if x == from {
				pv = y
			} else if y == from {
				pv = x
			}
			if pv != nil {
				if fld := protoFieldOf(pv, pfields); fld != "" {
					kind = "default"
					fieldsUsed[fld] = true
				}
			}
		}
		switch {
		case wantDefault && kind != "default":
			good = false
			det = append(det, fmt.Sprintf("from≠0 ∧ until=0 returns %s instead of from+delta", kind))
		case !wantDefault && kind != "until":
			good = false
			det = append(det, fmt.Sprintf("from%s0, until%s0 returns %s instead of until", rel(env.rank["from"], env.rank["0"]), rel(env.rank["until"], env.rank["0"]), kind))
		}
	}
	r.R.Count("E3 abstract environments evaluated", n)
	for f := range fieldsUsed {
		if f != "MaxOperationTimeDelta" {
			good = false
			det = append(det, "default window uses Protocol."+f+" instead of Protocol.MaxOperationTimeDelta")
		}
	}
	if len(fieldsUsed) == 0 {
		good = false
		det = append(det, "no protocol parameter bounds the default window")
	}
	r.R.Check(good, id, rule, core.FuncName(g), r.where(g), why, fmt.Sprintf("%d orderings: until, or from+MaxOperationTimeDelta iff from≠0 ∧ until=0", n), strings.Join(dedupe(det), "; "))
}

func rel(a, b int) string {
	switch {
	case a < b:
		return "<"
	case a > b:
		return ">"
	}
	return "="
}

func dedupe(in []string) []string {
	seen := map[string]bool{}
	var out []string
	for _, s := range in {
		if !seen[s] {
			seen[s] = true
			out = append(out, s)
		}
	}
	return out
}

// protoFieldOf returns the protocol.Protocol field a value is loaded from.
func protoFieldOf(v ssa.Value, pfields map[*types.Var]string) string {
	v = stripConv(v)
	if u, ok := v.(*ssa.UnOp); ok && u.Op == token.MUL {
		v = u.X
	}
	switch x := v.(type) {
	case *ssa.FieldAddr:
		st := x.X.Type().Underlying().(*types.Pointer).Elem().Underlying().(*types.Struct)
		return pfields[st.Field(x.Field)]
	case *ssa.Field:
		st := x.X.Type().Underlying().(*types.Struct)
		return pfields[st.Field(x.Field)]
	}
	return ""
}

func runC05(r *Run) {
	const P = "C05"
	// the window is a submission-time rule: resolution re-parses anchored requests in batch mode (shared with C11)
	r.checkApplierBatchMode(P)
	appl := r.applierFuncs(P)
	windowFns := map[*ssa.Function]bool{}

	r.checkApplierWindow(P, appl, windowFns)

	// --- intake side
	for _, role := range opRoles {
		if role.ParseSD == "" {
			continue
		}
		f := r.fn(P, pkgParser, "Parser."+role.ParseOp)
		if f == nil {
			continue
		}
		ctx, _ := boolParamCtx(f, false)
		b, ok := r.requireSucc(P+".window.intake."+role.Type,
			"if intake hands another window to the server-time validator, requests are accepted at intake that resolution will treat as out of window (or vice versa)",
			f, ctx, "batch=false",
			"ok("+role.ParseSD+"(_, ?sd))",
			"ok(TimeValidator.Validate(_, "+role.ParseSD+"(_, ?sd).AnchorFrom, ?bound))",
		)
		if !ok {
			continue
		}
		bt := b["bound"]
		if bt.Op == "res" {
			bt = bt.Args[0]
		}
		okBound := false
		det := "effective until passed to Validate is " + bt.String()
		if bt.Op == "call" && bt.Callee != nil && r.P.IsSubject(bt.Callee) {
			// arguments must be (AnchorFrom, AnchorUntil) of the same signed data
			iFrom, iUntil := -1, -1
			for i, a := range bt.Args {
				if core.MatchTerm(role.ParseSD+"(_, ?sd).AnchorFrom", a, core.Bind{"sd": b["sd"]}) {
					iFrom = i
				}
				if core.MatchTerm(role.ParseSD+"(_, ?sd).AnchorUntil", a, core.Bind{"sd": b["sd"]}) {
					iUntil = i
				}
			}
			if iFrom >= 0 && iUntil >= 0 {
				okBound = true
				if !windowFns[bt.Callee] {
					windowFns[bt.Callee] = true
					r.checkBoundFn(P, "parser", bt.Callee, iFrom, iUntil)
				}
			}
		}
		if phi, isPhi := bt.Val.(*ssa.Phi); !okBound && bt.Op == "phi" && isPhi && phi.Parent() == f {
			// the bound computed in place (its helper was inlined): until, except from + MaxOperationTimeDelta under
			// from ≠ 0 ∧ until = 0
			ff := r.E.Facts(f, ctx)
			var fromS string
			for _, c := range r.callsIn(f, "TimeValidator.Validate") {
				if as := core.CallArgs(c.Common()); len(as) >= 3 && ff.TB.Of(as[2]).String() == bt.String() {
					fromS = ff.TB.Of(as[1]).String()
				}
			}
			untilS := strings.TrimSuffix(fromS, ".AnchorFrom") + ".AnchorUntil"
			det += " [in-place form: from=" + short(fromS, 80) + "]"
			if strings.HasSuffix(fromS, ".AnchorFrom") && core.MatchTerm(role.ParseSD+"(_, ?sd).AnchorFrom", ff.TB.Of(firstValidateFrom(r, f)), core.Bind{"sd": b["sd"]}) {
				good, nDef, nUntil := true, 0, 0
				has := func(set core.FactSet, a, op, bb string) bool {
					for _, fc := range set {
						if fc.Kind == "cmp" && fc.A != nil && fc.B != nil && fc.Op == op && fc.A.String() == a && fc.B.String() == bb {
							return true
						}
					}
					return false
				}
				for i, e := range phi.Edges {
					et := ff.TB.Of(stripConv(e))
					set := phiEdgeFacts(ff, phi, i)
					switch {
					case et.String() == untilS:
						nUntil++
						okU := func(st core.FactSet) bool {
							return has(st, untilS, "!=", "0") || has(st, untilS, ">", "0") || has(st, fromS, "==", "0")
						}
						if !okU(set) {
							// the two ways of not taking the default (from = 0; until ≠ 0) meet before the merge: judged per way
							pred := phi.Block().Preds[i]
							all := len(pred.Preds) > 0
							for _, q := range pred.Preds {
								st := core.FactSet{}
								for k, v := range ff.In[q] {
									st[k] = v
								}
								for _, fc := range ff.EdgeFacts(q, pred) {
									st[fc.Key()] = fc
								}
								if !okU(st) {
									all = false
								}
							}
							if !all {
								good = false
								det = "until is passed on without from = 0 or until ≠ 0"
							}
						}
					case et.Op == "bin" && et.Name == "+" && len(et.Args) == 2:
						x, y := et.Args[0].String(), et.Args[1].String()
						other := ""
						if x == fromS {
							other = y
						} else if y == fromS {
							other = x
						}
						if other == "" || !strings.HasSuffix(strings.TrimSuffix(other, ")"), "MaxOperationTimeDelta") {
							good = false
							det = "default bound is not from + MaxOperationTimeDelta: " + et.String()
							continue
						}
						nDef++
						if !(has(set, untilS, "==", "0") && (has(set, fromS, "!=", "0") || has(set, fromS, ">", "0"))) {
							good = false
							det = "the default bound is used without from ≠ 0 ∧ until = 0"
						}
					default:
						good = false
						det = "effective until has an operand that is neither until nor from + MaxOperationTimeDelta: " + et.String()
					}
				}
				okBound = good && nDef == 1 && nUntil >= 1
			}
		}
		r.R.Check(okBound, P+".window.intake.bound."+role.Type, "E13 ArgIs: Validate's second argument is bound(signedData.AnchorFrom, signedData.AnchorUntil)",
			core.FuncName(f), r.where(f), "the same effective window must be what intake hands to the time validator", det, det)
	}

	// --- E3: live / own over all reads of all protocol parameters
	sinks, reads := r.protocolSinks()
	r.R.SetCount("E3 protocol parameter reads followed", reads)
	total := 0
	for _, ss := range sinks {
		total += len(ss)
	}
	r.R.SetCount("E3 sinks classified", total)
	r.R.Floor(P+".params.floor", "instance floor", reads, 30, "reads of protocol.Protocol fields in subject code")
	live := 0
	for _, s := range sinks["MaxOperationTimeDelta"] {
		if windowFns[s.Fn] && s.Kind == "arith" {
			live++
		}
	}
	r.R.Check(live > 0, P+".window.param.live", "E3 live: MaxOperationTimeDelta has a sink of its role (from + P inside an effective-until function)", "Protocol.MaxOperationTimeDelta", "pkg/api/protocol/protocol.go",
		"a parameter that nobody reads cannot govern the default window", fmt.Sprintf("%d window sink(s)", live), "MaxOperationTimeDelta is never read into a window computation")
	var foreign []string
	for fld, ss := range sinks {
		if fld == "MaxOperationTimeDelta" {
			continue
		}
		for _, s := range ss {
			if windowFns[s.Fn] && s.Kind != "message" {
				foreign = append(foreign, s.String()+" @"+r.P.Pos(s.Instr.Pos()))
			}
		}
	}
	r.R.Check(len(foreign) == 0, P+".window.param.own", "E3 own: no other protocol parameter reaches a window function", "window functions", "-",
		"the window must depend on no other protocol parameter", fmt.Sprintf("%d window function(s), no foreign parameter", len(windowFns)), strings.Join(foreign, "; "))
	var wf []string
	for f := range windowFns {
		wf = append(wf, core.FuncName(f))
	}
	r.R.List("window functions (by role)", wf...)

	if r.Universal {
		r.universalParamsLive(P, sinks)
	}

	// --- effect rows for the window check (shared with C03)
	r.checkEffectTable(P, true)
	// --- the parser decides on the window at intake only
	r.checkWindowIntakeOnly(P)
}

// checkWindowTest evaluates the window test W(from, until, anchor).
func (r *Run) checkWindowTest(P string, w *ssa.Function, iFrom, iUntil, iAnchor int, windowFns map[*ssa.Function]bool) {
	id := P + ".window.nf"
	rule := "E4 normal form: reject iff ¬(from=0 ∧ until=0) ∧ (from > anchor ∨ bound < anchor), over all weak orderings of {from, until, anchor, bound, 0}"
	why := "if a boundary is exclusive or a disjunct is missing, an operation anchored exactly at anchorFrom/anchorUntil is ignored, or one anchored outside takes effect"
	windowFns[w] = true
	if hasCycle(w) {
		r.R.Unk(id, rule, core.FuncName(w), r.where(w), why, "function has a loop")
		return
	}
	from, until, anchor := w.Params[iFrom], w.Params[iUntil], w.Params[iAnchor]
	var boundCall *ssa.Call
	ev := &scalarEval{fn: w, name: func(v ssa.Value) (string, bool) {
		v = stripConv(v)
		switch {
		case v == from:
			return "from", true
		case v == until:
			return "until", true
		case v == anchor:
			return "anchor", true
		case isZeroConst(v):
			return "0", true
		}
		if c, ok := v.(*ssa.Call); ok {
			if sc := c.Common().StaticCallee(); sc != nil && r.P.IsSubject(sc) {
				boundCall = c
				return "bound", true
			}
		}
		return "", false
	}}
	names := []string{"from", "until", "anchor", "bound", "0"}
	good := true
	var det []string
	n := 0
	ei := w.Signature.Results().Len() - 1
	for _, wo := range weakOrders(5) {
		env := scalarEnv{rank: map[string]int{}}
		for i, nm := range names {
			env.rank[nm] = wo[i]
		}
		ret, _, why2 := ev.walk(env)
		n++
		if ret == nil {
			// the effective bound may be computed in the test itself (no bound function to name): evaluate the whole
			// test over small concrete values instead
			if r.checkWindowTestNumeric(P, w, from, until, anchor, why2) {
				return
			}
			r.R.Unk(id, rule, core.FuncName(w), r.where(w), why, "cannot evaluate: "+why2)
			return
		}
		accept := isNilConstV(ev.ret(ret, ei))
		z := env.rank["0"]
		want := (env.rank["from"] == z && env.rank["until"] == z) ||
			(!(env.rank["from"] > env.rank["anchor"]) && !(env.rank["bound"] < env.rank["anchor"]))
		if accept != want && len(det) < 3 {
			good = false
			det = append(det, fmt.Sprintf("from%s0 until%s0 from%sanchor bound%sanchor: code %s, statement %s",
				rel(env.rank["from"], z), rel(env.rank["until"], z), rel(env.rank["from"], env.rank["anchor"]), rel(env.rank["bound"], env.rank["anchor"]),
				map[bool]string{true: "accepts", false: "rejects"}[accept], map[bool]string{true: "accepts", false: "rejects"}[want]))
		}
	}
	r.R.Count("E3 abstract environments evaluated", n)
	r.R.Check(good, id, rule, core.FuncName(w), r.where(w), why, fmt.Sprintf("%d weak orderings of 5 quantities agree with the statement", n), strings.Join(det, "; "))
	if boundCall == nil {
		r.R.Unk(P+".window.bound@applier", "role discovery", core.FuncName(w), r.where(w), why, "the window test does not compare the anchoring time with the result of an effective-until function")
		return
	}
	g := boundCall.Common().StaticCallee()
	// argument positions of from/until in the call
	gf, gu := -1, -1
	for i, a := range core.CallArgs(boundCall.Common()) {
		if stripConv(a) == from {
			gf = i
		}
		if stripConv(a) == until {
			gu = i
		}
	}
	if gf < 0 || gu < 0 {
		r.R.Bad(P+".window.bound@applier", "E13 ArgIs: bound(from, until)", core.FuncName(w), r.P.Pos(boundCall.Pos()), why, "the effective-until function is not called with the window's own from/until")
		return
	}
	windowFns[g] = true
	r.checkBoundFn(P, "applier", g, gf, gu)
}

func isNilConstV(v ssa.Value) bool {
	c, ok := v.(*ssa.Const)
	return ok && c.Value == nil
}

// checkWindowIntakeOnly: in the operation parser a value read from
// signedData.AnchorFrom / AnchorUntil may influence a decision (comparison,
// arithmetic, argument of a non-logging call) only at intake, i.e. under the
// false edge of the parser's batch flag — in the function that reads it or at
// every call site leading to it. Anchored operations are parsed in batch mode
// and by the applier: a window test there turns "consumes its commitment but
// leaves the document unchanged" into "is skipped".
func (r *Run) checkWindowIntakeOnly(P string) {
	fields := map[*types.Var]string{}
	for _, tn := range []string{"UpdateSignedDataModel", "RecoverSignedDataModel", "DeactivateSignedDataModel"} {
		n := r.P.Named(pkgModel, tn)
		if n == nil {
			r.R.Unk(P+".window.intake.only", "anchor", "model."+tn, "-", "-", "type not found")
			return
		}
		st, _ := n.Underlying().(*types.Struct)
		for i := 0; st != nil && i < st.NumFields(); i++ {
			if nm := st.Field(i).Name(); nm == "AnchorFrom" || nm == "AnchorUntil" {
				fields[st.Field(i)] = tn + "." + nm
			}
		}
	}
	// the batch flag: the bool parameter of Parser.ParseOperation
	flag := "batch"
	if po := r.fn(P, pkgParser, "Parser.ParseOperation"); po != nil {
		for _, p := range po.Params {
			if types.Identical(p.Type().Underlying(), types.Typ[types.Bool]) {
				flag = p.Name()
			}
		}
	}
	sinks, _ := r.fieldSinks(fields)
	type seedInfo struct {
		fn    *ssa.Function
		ins   ssa.Instruction
		sinks []string
	}
	seeds := map[ssa.Instruction]*seedInfo{}
	for _, ss := range sinks {
		for _, s := range ss {
			sf := s.Seed.Parent()
			if sf == nil || sf.Pkg == nil || core.Rel(sf.Pkg.Pkg.Path()) != pkgParser {
				continue
			}
			switch s.Kind {
			case "message", "return":
				continue
			}
			si := seeds[s.Seed]
			if si == nil {
				si = &seedInfo{fn: sf, ins: s.Seed}
				seeds[s.Seed] = si
			}
			si.sinks = append(si.sinks, s.String())
		}
	}
	r.R.Floor(P+".window.intake.only.floor", "instance floor", len(seeds), 6, "deciding reads of the window fields in the parser")
	perFn := map[string][]string{}
	okFn := map[string]bool{}
	where := map[string]string{}
	for _, si := range seeds {
		name := core.FuncName(si.fn)
		if _, seen := okFn[name]; !seen {
			okFn[name] = true
			where[name] = r.where(si.fn)
		}
		if ok, det := r.underFalseFlag(si.fn, si.ins, flag, 3); !ok {
			okFn[name] = false
			perFn[name] = append(perFn[name], r.P.Pos(si.ins.Pos())+": "+det+"; flows to "+short(strings.Join(dedupe(si.sinks), " | "), 300))
		}
	}
	var names []string
	for n := range okFn {
		names = append(names, n)
	}
	sort.Strings(names)
	for _, n := range names {
		sort.Strings(perFn[n])
		r.R.Check(okFn[n], P+".window.intake.only."+n, "E3 + E8 never-before: a window field read in the parser reaches a decision only under the false edge of the batch flag (in the reader or at every call site leading to it)", n, where[n],
			"anchored operations are parsed in batch mode and by the applier; a window decision there rejects an out-of-window update/recover instead of letting it consume its commitment",
			"intake only", strings.Join(perFn[n], "; "))
	}
}

// underFalseFlag: at ins the must-facts contain false($flag) for f's bool
// parameter named flag, or every static call site of f (depth-limited) does.
func (r *Run) underFalseFlag(f *ssa.Function, ins ssa.Instruction, flag string, depth int) (bool, string) {
	ff := r.E.Facts(f, core.Ctx{})
	for _, p := range f.Params {
		if p.Name() == flag && types.Identical(p.Type().Underlying(), types.Typ[types.Bool]) {
			if core.HasFact(ff.At(ins), "false($"+flag+")") {
				return true, ""
			}
			return false, "read in " + core.FuncName(f) + " not under !" + flag
		}
	}
	if depth <= 0 {
		return false, "call chain too deep above " + core.FuncName(f)
	}
	callers := r.callersOf(f)
	if len(callers) == 0 {
		return false, core.FuncName(f) + " has no batch flag and no callers in the module (reachable in every mode)"
	}
	for _, c := range callers {
		if ok, det := r.underFalseFlag(c.Parent(), c, flag, depth-1); !ok {
			return false, "via " + core.FuncName(f) + " ← " + det
		}
	}
	return true, ""
}

// checkWindowTestNumeric: the window test with the default bound computed inline (from + MaxOperationTimeDelta when
// only from is given) is executed over all from, until ∈ 0..3, anchor ∈ 0..5, delta ∈ 1..2 and compared with the
// statement; comparisons and one addition cannot tell larger values from these. Reports both window.nf and
// window.bound@applier; returns false when the function cannot be evaluated this way either.
func (r *Run) checkWindowTestNumeric(P string, w *ssa.Function, from, until, anchor *ssa.Parameter, whyNot string) bool {
	ff := r.E.Facts(w, core.Ctx{})
	otherParam := ""
	ev := &scalarEval{fn: w, name: func(v ssa.Value) (string, bool) { return "", false }}
	ev.num = func(v ssa.Value, env scalarEnv) (int64, bool) {
		v = stripConv(v)
		switch {
		case v == ssa.Value(from):
			return int64(env.rank["from"]), true
		case v == ssa.Value(until):
			return int64(env.rank["until"]), true
		case v == ssa.Value(anchor):
			return int64(env.rank["anchor"]), true
		}
		if u, ok := v.(*ssa.UnOp); ok && u.Op == token.MUL {
			t := ff.TB.Of(u)
			if t.Op == "field" && t.Root() != nil && t.Root().Op == "param" {
				if t.Name != "MaxOperationTimeDelta" {
					otherParam = t.Name
				}
				return int64(env.rank["delta"]), true
			}
		}
		return 0, false
	}
	ei := w.Signature.Results().Len() - 1
	good := true
	var det []string
	n := 0
	for f := 0; f <= 3; f++ {
		for u := 0; u <= 3; u++ {
			for a := 0; a <= 5; a++ {
				for d := 1; d <= 2; d++ {
					env := scalarEnv{rank: map[string]int{"from": f, "until": u, "anchor": a, "delta": d}}
					ret, _, why2 := ev.walk(env)
					if ret == nil {
						_ = why2
						return false
					}
					n++
					accept := isNilConstV(ev.ret(ret, ei))
					bound := u
					if f != 0 && u == 0 {
						bound = f + d
					}
					want := (f == 0 && u == 0) || (f <= a && bound >= a)
					if accept != want && len(det) < 3 {
						good = false
						det = append(det, fmt.Sprintf("from=%d until=%d anchor=%d delta=%d: code %s, statement %s", f, u, a, d,
							map[bool]string{true: "accepts", false: "rejects"}[accept], map[bool]string{true: "accepts", false: "rejects"}[want]))
					}
				}
			}
		}
	}
	why := "if a boundary is exclusive or a disjunct is missing, an operation anchored exactly at anchorFrom/anchorUntil is ignored, or one anchored outside takes effect"
	r.R.Count("E3 abstract environments evaluated", n)
	r.R.Check(good, P+".window.nf", "E4 table (numeric form, bound computed inline): reject iff ¬(from=0 ∧ until=0) ∧ (from > anchor ∨ bound < anchor) with bound = until, or from + delta iff from≠0 ∧ until=0, over from, until ∈ 0..3, anchor ∈ 0..5, delta ∈ 1..2",
		core.FuncName(w), r.where(w), why, fmt.Sprintf("%d value combinations agree with the statement (name-based evaluation not possible: %s)", n, whyNot), strings.Join(det, "; "))
	r.R.Check(good && otherParam == "", P+".window.bound@applier", "E3 role: the default window is bounded by MaxOperationTimeDelta (inline form, decided together with window.nf)", core.FuncName(w), r.where(w),
		"if the default window is bounded by another parameter, operations take effect outside their signed anchoring window", "from + Protocol.MaxOperationTimeDelta", "the inline bound reads Protocol."+otherParam)
	return true
}

// checkApplierWindow: every applier hands (signedData.AnchorFrom, signedData.AnchorUntil, anchoredOp.TransactionTime) to
// one window test, whose normal form is evaluated (shared by C05 and C03: "an update anchored outside its window
// advances the update commitment and leaves the document unchanged" presupposes the inclusive window of the statement).
func (r *Run) checkApplierWindow(P string, appl map[string]*ssa.Function, windowFns map[*ssa.Function]bool) {
	// --- resolution side: window test W and its bound function G
	var W *ssa.Function
	wFrom, wUntil, wAnchor := -1, -1, -1
	wCalls := 0
	for _, role := range opRoles {
		if role.ParseSD == "" {
			continue
		}
		f := appl[role.Type]
		if f == nil {
			continue
		}
		ff := r.E.Facts(f, core.Ctx{})
		found := false
		for _, b := range f.Blocks {
			for _, ins := range b.Instrs {
				c, ok := ins.(*ssa.Call)
				if !ok || len(core.CallArgs(c.Common())) < 3 {
					continue
				}
				var ts []string
				for _, a := range core.CallArgs(c.Common()) {
					ts = append(ts, ff.TB.Of(a).String())
				}
				iFrom, iUntil, iAnchor := -1, -1, -1
				for i, t := range ts {
					switch {
					case strings.HasSuffix(t, ").AnchorFrom") && strings.Contains(t, role.ParseSD+"("):
						iFrom = i
					case strings.HasSuffix(t, ").AnchorUntil") && strings.Contains(t, role.ParseSD+"("):
						iUntil = i
					case strings.HasSuffix(t, ".TransactionTime") && strings.HasPrefix(t, "$"):
						iAnchor = i
					}
				}
				if iFrom < 0 || iUntil < 0 || iAnchor < 0 {
					continue
				}
				_, callee, _ := r.P.CalleeKey(c.Common())
				if callee == nil {
					continue
				}
				found = true
				wCalls++
				if W == nil {
					W = callee
					wFrom, wUntil, wAnchor = iFrom, iUntil, iAnchor
					r.checkWindowTest(P, callee, iFrom, iUntil, iAnchor, windowFns)
				} else if W == callee && (iFrom != wFrom || iUntil != wUntil || iAnchor != wAnchor) {
					r.R.Bad(P+".window.sibling.roles."+role.Type, "sibling agreement: every applier passes (AnchorFrom, AnchorUntil, TransactionTime) to the window test in the same argument positions", core.FuncName(f), r.P.Pos(c.Pos()),
						"with from and until exchanged the window of this operation type is inverted", fmt.Sprintf("argument positions (from %d, until %d, anchor %d) differ from the first site (from %d, until %d, anchor %d)", iFrom, iUntil, iAnchor, wFrom, wUntil, wAnchor))
				} else if W != callee {
					r.R.Bad(P+".window.sibling.resolution", "sibling agreement: all operation types use the same window test", core.FuncName(f), r.P.Pos(c.Pos()),
						"different window rules per type contradict the single rule of the statement", "window test differs: "+core.FuncName(callee)+" vs "+core.FuncName(W))
				}
			}
		}
		r.R.Check(found, P+".window.tested."+role.Type, "E13: the applier hands (signedData.AnchorFrom, signedData.AnchorUntil, anchoredOp.TransactionTime) to the window test",
			core.FuncName(f), r.where(f), "without the test the operation takes effect at any anchoring time", "window test called with the signed window and the transaction time", "no call receives (AnchorFrom, AnchorUntil, TransactionTime)")
	}
	r.R.Floor(P+".window.tested.floor", "instance floor", wCalls, 3, "window-test call sites in the appliers")
}

// firstValidateFrom: the `from` argument of the (first) TimeValidator.Validate call of f.
func firstValidateFrom(r *Run, f *ssa.Function) ssa.Value {
	for _, c := range r.callsIn(f, "TimeValidator.Validate") {
		if as := core.CallArgs(c.Common()); len(as) >= 2 {
			return as[1]
		}
	}
	return nil
}
