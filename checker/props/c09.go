package props

import (
	"fmt"
	"go/types"
	"sort"
	"strings"

	"golang.org/x/tools/go/ssa"

	"sidecheck/core"
)

func init() {
	register(&Checker{
		ID: "C09",
		Explanation: "Structural necessary conditions of C09 (RFC 7515 §5.2 as flow obligations, RFC 7518 §3.4 as tables): (verify.flow) VerifyJWS succeeds only through VerifySignature(jwk, parsed.signature, signingInput(parsed.ProtectedHeaders, parsed.Payload)); VerifySignature succeeds only via the EC or the Ed25519 verifier over the same (jwk, signature, msg), under kty = EC / OKP; the verifiers return nil only on the true edge of ecdsa.Verify / ed25519.Verify over the key decoded from that jwk, the hash of that message and the two halves of that signature; " +
			"(sign.verify.sibling) sign() builds its input with the same signingInput(headers, payload) function and checks the same header rule; (tables) curve ↔ key size ↔ hash agree between internal/jws.parseEllipticCurve and ecsigner.getHasher and equal P-256:32/SHA-256, P-384:48/SHA-384, P-521:66/SHA-512, secp256k1:32/SHA-256; the signer pads r and s to the same ⌈bits/8⌉; " +
			"(size) the EC verifier requires len(signature) = 2·keySize of the curve named by the key before slicing at keySize; the Ed25519 key must have length 32; (jwk.secp) the secp256k1 decoder succeeds only with X, Y present, of exactly curveSize bytes, and on the curve; (hdr) parsing and signing both require the alg header; an empty signature or payload and a non-boolean b64 header are errors; " +
			"(nopanic) every panic-capable instruction reachable from VerifyJWS, ParseJWS, VerifySignature and JWK.UnmarshalJSON is discharged (E10). " +
			"(jwk.leftpad) the fixed-size secp256k1 coordinate buffer is zero bytes of length size−len(data) followed by data; (jwk.okp.length) the JOSE library copies an Ed25519 x into a 32-byte buffer without a length test (premise re-derived from its source on every run), so the JWK reader reaches it only with kty ≠ OKP or len(x) = 32; " +
			"Not decided: rejection under any other key / any alteration (cryptography); go-jose's decoding of NIST-curve and OKP keys.",
		Run: runC09,
	})
}

type curveRow struct {
	KeySize string
	Hash    string
	Ctor    string
}

// curveTableVerifier extracts parseEllipticCurve's table: curve name -> (keySize, hash, constructor).
func (r *Run) curveTableVerifier(P string) map[string]curveRow {
	f := r.fn(P, pkgIJWS, "parseEllipticCurve")
	out := map[string]curveRow{}
	if f == nil {
		return out
	}
	ff := r.E.Facts(f, core.Ctx{})
	paths, _ := enumPaths(ff, 200)
	for _, p := range paths {
		key := ""
		for i := 0; i+1 < len(p); i++ {
			for _, fc := range ff.EdgeFacts(p[i], p[i+1]) {
				if fc.Kind == "cmp" && fc.Op == "==" && fc.A.Op == "param" && fc.B.Op == "const" {
					key = strings.Trim(fc.B.Name, `"`)
				}
			}
		}
		ret := p[len(p)-1].Instrs[len(p[len(p)-1].Instrs)-1].(*ssa.Return)
		al, ok := core.RetOp(ret, 0).(*ssa.Alloc)
		if !ok {
			if key != "" {
				out[key] = curveRow{KeySize: "nil"}
			}
			continue
		}
		row := curveRow{}
		for _, b := range p {
			for _, ins := range b.Instrs {
				st, ok := ins.(*ssa.Store)
				if !ok {
					continue
				}
				fa, ok := st.Addr.(*ssa.FieldAddr)
				if !ok || fa.X != ssa.Value(al) {
					continue
				}
				v := ff.TB.Of(st.Val).String()
				switch fieldName(fa) {
				case "keySize":
					row.KeySize = v
				case "hash":
					row.Hash = v
				case "curve":
					row.Ctor = v
				}
			}
		}
		out[key] = row
	}
	return out
}

// hasherTableSigner extracts the signer's table: curve constructor -> hash. The table function is the one whose
// result Signer.Sign hashes the message with (`<f>(…).New()`); in the pinned tree that is ecsigner.getHasher(curve).
// Its switch must be on the curve of the signer's private key: a parameter that Sign passes privateKey.Curve for, or
// that field read directly.
func (r *Run) hasherTableSigner(P string) (map[string]string, string) {
	out := map[string]string{}
	sign := r.fn(P, pkgECSigner, "Signer.Sign")
	if sign == nil {
		return out, ""
	}
	var f *ssa.Function
	var site *ssa.Call
	var hashVal ssa.Value // when the selection happens in Sign itself (no helper, or the helper was inlined back)
	var hashBlk *ssa.BasicBlock
	for _, c := range r.callsIn(sign, "Hash.New") {
		if len(c.Common().Args) == 0 {
			continue
		}
		if hc, ok := c.Common().Args[0].(*ssa.Call); ok {
			if callee := hc.Common().StaticCallee(); callee != nil && callee.Pkg == sign.Pkg && callee.Blocks != nil {
				f, site = callee, hc
				continue
			}
		}
		hashVal, hashBlk = c.Common().Args[0], c.Block()
	}
	if f == nil && hashVal != nil {
		f = sign
	}
	if f == nil {
		if f = r.fn(P, pkgECSigner, "getHasher"); f == nil {
			return out, ""
		}
	}
	ff := r.E.Facts(f, core.Ctx{})
	paths, _ := enumPaths(ff, 400)
	problems := ""
	subject := ""
	var subjT *core.Term
	isCurve := func(t *core.Term) bool {
		return t.Op == "param" || keyCurve(t.String())
	}
	for _, p := range paths {
		if f == sign {
			through := false
			for _, b := range p {
				through = through || b == hashBlk
			}
			if !through {
				continue
			}
		}
		key := "default"
		for i := 0; i+1 < len(p); i++ {
			for _, fc := range ff.EdgeFacts(p[i], p[i+1]) {
				if fc.Kind == "cmp" && fc.Op == "==" {
					a, b := fc.A, fc.B
					if isCurve(b) && !isCurve(a) {
						a, b = b, a
					}
					if isCurve(a) && b.Op == "call" {
						key = b.String()
						if subject != "" && subject != a.String() {
							problems = "switch compares different values: " + subject + " and " + a.String()
						}
						subject, subjT = a.String(), a
					} else if f != sign {
						problems = "switch is not on the curve value itself: " + fc.Key()
					}
				}
			}
		}
		var v ssa.Value
		if f == sign {
			v = hashVal
		} else {
			ret := p[len(p)-1].Instrs[len(p[len(p)-1].Instrs)-1].(*ssa.Return)
			v = core.RetOp(ret, 0)
		}
		h := ff.TB.Of(resolveOnPath(v, p)).String()
		if prev, has := out[key]; has && prev != h {
			problems = "the hash for " + key + " depends on more than the curve: " + prev + " / " + h
		}
		out[key] = h
	}
	if f == sign && subjT != nil && subjT.Op == "param" {
		problems = "the hash is selected by " + subject + ", not by the curve of the private key"
	}
	// a parameter subject: Sign must pass the curve of its own private key
	if subjT != nil && subjT.Op == "param" && site != nil && problems == "" {
		sf := r.E.Facts(sign, core.Ctx{})
		for i, prm := range f.Params {
			if sf.TB.Of(prm).String() != subject && ff.TB.Of(prm).String() != subject {
				continue
			}
			if i < len(site.Common().Args) {
				if at := sf.TB.Of(site.Common().Args[i]).String(); !keyCurve(at) {
					problems = "Sign selects the hash by " + at + ", not by the curve of its private key"
				}
			}
		}
	}
	return out, problems
}

// keyCurve: the term reads the curve of a private key field (`x.privateKey.Curve`, with or without the embedded PublicKey).
func keyCurve(t string) bool {
	return strings.HasSuffix(t, ".privateKey.Curve") || strings.HasSuffix(t, ".privateKey.PublicKey.Curve")
}

func runC09(r *Run) {
	const P = "C09"
	r.checkVerifyFlow(P)

	// kty dispatch conditions
	if f := r.fn(P, pkgIJWS, "VerifySignature"); f != nil {
		r.requireEachSuccess(P+".kty.dispatch", "each verifier must be selected by the key type it implements", f, core.Ctx{},
			[]string{`cmp($0.Kty == "EC")`, "ok(internal/jws.verifyECSignature($0, $1, $2))"},
			[]string{`cmp($0.Kty == "OKP")`, "ok(internal/jws.verifyEd25519Signature($0, $1, $2))"})
	}
	// sign/verify sibling
	if f := r.fn(P, pkgIJWS, "sign"); f != nil {
		r.requireSuccAlt(P+".sign.verify.sibling", "if signing and verification build the signing input differently, genuine signatures do not verify", f, core.Ctx{}, "",
			[]string{"ok(internal/jws.checkJWSHeaders($0))",
				"ok(internal/jws.signingInput($0, $1))",
				"cmp(<result> == Signer.Sign($2, internal/jws.signingInput($0, $1)))"},
			[]string{`hit($0, "alg")`,
				"ok(internal/jws.signingInput($0, $1))",
				"cmp(<result> == Signer.Sign($2, internal/jws.signingInput($0, $1)))"})
	}
	if f := r.fn(P, pkgIJWS, "NewJWS"); f != nil {
		r.requireSucc(P+".sign.headers", "the protected headers that are serialized must be the ones that were signed", f, core.Ctx{}, "",
			"ok(internal/jws.sign(?h, $2, $3))", "cmp(<result>.ProtectedHeaders == ?h)", "cmp(<result>.joseHeaders == ?h)", "cmp(<result>.Payload == $2)",
			"cmp(<result>.signature == internal/jws.sign(?h, $2, $3))")
	}
	r.checkCurveTables(P)
	r.checkLeftPad(P)
	r.checkOKPLength(P)
	r.checkWholeInputDecoding(P)
	r.checkJWKPreParseDecoder(P)
	// --- size
	if f := r.fn(P, pkgIJWS, "verifyECSignature"); f != nil {
		b, ok := r.requireSucc(P+".size.ec", "a truncated or extended ECDSA signature must be rejected", f, core.Ctx{}, "",
			"cmp(internal/jws.parseEllipticCurve($0.Crv) != nil)",
			"cmp(len($1) == (2 * internal/jws.parseEllipticCurve($0.Crv).keySize))",
			"true(crypto/ecdsa.Verify(_, _, ?r, ?s))")
		if ok {
			rs, ss := b["r"].String(), b["s"].String()
			ks := "internal/jws.parseEllipticCurve($jwk.Crv).keySize"
			okSl := strings.Contains(rs, "$signature[:"+ks+"]") && strings.Contains(ss, "$signature["+ks+":]")
			r.R.Check(okSl, P+".size.ec.halves", "E13: r = signature[:keySize], s = signature[keySize:]", core.FuncName(f), r.where(f), "any other split verifies bytes that are not the signature", "r/s are the two halves", "r="+short(rs, 120)+" s="+short(ss, 120))
		}
	}
	if f := r.fn(P, pkgIJWS, "GetED25519PublicKey"); f != nil {
		r.requireSucc(P+".size.ed25519", "ed25519.Verify panics on a wrongly sized key", f, core.Ctx{}, "", "cmp(len(<result>) == 32)")
	}
	// --- jwk.secp
	if f := r.fn(P, pkgIJWS, "unmarshalSecp256k1"); f != nil {
		r.requireSucc(P+".jwk.secp", "a secp256k1 JWK with a missing, short, long or off-curve coordinate must be rejected", f, core.Ctx{}, "",
			"cmp($0.X != nil)", "cmp($0.Y != nil)",
			"cmp(len($0.X.data) == internal/jws.curveSize(btcec.S256()))",
			"cmp(len($0.Y.data) == internal/jws.curveSize(btcec.S256()))",
			"true(IsOnCurve(_, byteBuffer.bigInt($0.X), byteBuffer.bigInt($0.Y)))")
	}
	if f := r.fn(P, pkgIJWS, "JWK.UnmarshalJSON"); f != nil {
		r.requireEachSuccessPath(P+".jwk.dispatch", "secp256k1 keys must go through the local decoder, all others through go-jose", f, core.Ctx{},
			[]string{"true(internal/jws.isSecp256k1(_, _))", "ok(internal/jws.unmarshalSecp256k1(_))"},
			[]string{"false(internal/jws.isSecp256k1(_, _))", "ok(json.Unmarshal($1, _))"})
	}
	// --- hdr
	if f := r.fn(P, pkgIJWS, "parseCompacted"); f != nil {
		r.requireSuccAlt(P+".hdr.parse", "a compact JWS without alg, with an empty signature or not of three parts must be rejected", f, core.Ctx{}, "",
			[]string{`cmp(len(strings.Split($0, ".")) == 3)`,
				"ok(internal/jws.parseCompactedHeaders(_))", "ok(internal/jws.checkJWSHeaders(_))",
				"ok(internal/jws.parseCompactedPayload(_, _))",
				"cmp(?sig == <result>.signature)", "cmp(len(?sig) != 0)"},
			// (the alg test written where the headers are parsed)
			[]string{`cmp(len(strings.Split($0, ".")) == 3)`,
				"ok(internal/jws.parseCompactedHeaders(_))", `hit(_, "alg")`,
				"ok(internal/jws.parseCompactedPayload(_, _))",
				"cmp(?sig == <result>.signature)", "cmp(len(?sig) != 0)"})
	}
	if f := r.P.Func(pkgIJWS, "checkJWSHeaders"); f != nil && f.Blocks != nil {
		r.requireSucc(P+".hdr.alg", "alg must be present", f, core.Ctx{}, "", `hit($0, "alg")`)
	}
	if f := r.fn(P, pkgIJWS, "parseCompactedPayload"); f != nil {
		// (parameters by type, not by position: the encoded payload is the string, the detached payload comes in an
		// options struct or as a byte slice)
		payload, detached := "$0", "len($1.detachedPayload)"
		for _, prm := range f.Params {
			switch t := prm.Type().Underlying().(type) {
			case *types.Basic:
				if t.Kind() == types.String {
					payload = "$" + prm.Name()
				}
			case *types.Slice:
				detached = "len($" + prm.Name() + ")"
			case *types.Pointer:
				detached = "len($" + prm.Name() + ".detachedPayload)"
			}
		}
		r.requireEachSuccess(P+".hdr.payload", "an empty payload is an error unless a detached payload is supplied", f, core.Ctx{},
			[]string{"cmp(" + detached + " > 0)"},
			[]string{"ok(Encoding.DecodeString(_, " + payload + "))", "cmp(len(Encoding.DecodeString(_, " + payload + ")) != 0)"})
	}
	if f := r.fn(P, pkgIJWS, "signingInput"); f != nil {
		r.requireEachSuccessPath(P+".hdr.b64", "a non-boolean b64 header must be an error", f, core.Ctx{},
			[]string{`miss($0, "b64")`},
			[]string{`hit($0, "b64")`, "istype(_)"})
	}
	// --- nopanic
	r.checkNoPanic(P, map[string]*ssa.Function{
		"internal/jws.VerifyJWS":         r.fn(P, pkgIJWS, "VerifyJWS"),
		"internal/jws.ParseJWS":          r.fn(P, pkgIJWS, "ParseJWS"),
		"internal/jws.VerifySignature":   r.fn(P, pkgIJWS, "VerifySignature"),
		"internal/jws.JWK.UnmarshalJSON": r.fn(P, pkgIJWS, "JWK.UnmarshalJSON"),
	}, 15)
}

// checkCurveTables: curve ↔ size ↔ hash tables and signer/verifier agreement (shared by C09 and C11).
func (r *Run) checkCurveTables(P string) {
	// --- tables
	vt := r.curveTableVerifier(P)
	want := map[string]curveRow{
		"P-256":     {"32", "5", "crypto/elliptic.P256()"},
		"P-384":     {"48", "6", "crypto/elliptic.P384()"},
		"P-521":     {"66", "7", "crypto/elliptic.P521()"},
		"secp256k1": {"32", "5", "github.com/btcsuite/btcd/btcec.S256()"},
	}
	var names []string
	for k := range want {
		names = append(names, k)
	}
	sort.Strings(names)
	for _, k := range names {
		got, ok := vt[k]
		r.R.Check(ok && got == want[k], P+".tables.verifier."+k, "E7 table (RFC 7518 §3.4): curve → (coordinate size, hash, curve)", "internal/jws.parseEllipticCurve case "+k, "pkg/internal/jws/signature.go",
			"a wrong size or hash for a curve makes genuine signatures fail or wrongly sized ones pass the length check", fmt.Sprintf("%+v", got), fmt.Sprintf("found %+v, expected %+v", got, want[k]))
	}
	extra := []string{}
	for k, row := range vt {
		if _, ok := want[k]; !ok && row.KeySize != "nil" && k != "" {
			extra = append(extra, k)
		}
	}
	r.R.Check(len(extra) == 0, P+".tables.verifier.extra", "E7: no curve accepted beyond the four supported ones", "internal/jws.parseEllipticCurve", "pkg/internal/jws/signature.go", "an extra curve without signer/JWK support is an untested acceptance path", "none", strings.Join(extra, ","))
	st, prob := r.hasherTableSigner(P)
	okS := prob == ""
	var det []string
	for _, k := range names {
		h, ok := st[want[k].Ctor]
		if !ok {
			// the default branch covers it only if the default hash is the right one
			h = st["default"]
		}
		if h != want[k].Hash {
			okS = false
			det = append(det, fmt.Sprintf("%s signs with hash %s, verifier uses %s", k, h, want[k].Hash))
		}
	}
	r.R.Check(okS, P+".tables.signer", "E7 sibling agreement: ecsigner.getHasher selects, per curve, the hash the verifier uses", "util/ecsigner.getHasher", "pkg/util/ecsigner/signer.go",
		"if signer and verifier disagree on the digest for a curve, every signature on that curve is rejected at resolution although intake accepted the request", fmt.Sprint(st), strings.Join(det, "; ")+" "+prob+fmt.Sprintf(" table=%v", st))
	// signer pads r and s to the same size = ceil(bits/8)
	if f := r.fn(P, pkgECSigner, "Signer.Sign"); f != nil {
		// the two halves of the signature: each is a padding helper's result (a module function taking the bytes and one
		// size) or, when that helper has been inlined, a fresh make([]byte, size) that the bytes are copied into
		ff := r.E.Facts(f, core.Ctx{})
		type half struct {
			size ssa.Value
			src  string
		}
		var halves []half
		stripInt := func(v ssa.Value) ssa.Value {
			for i := 0; i < 4; i++ {
				switch x := v.(type) {
				case *ssa.Convert:
					v = x.X
				case *ssa.ChangeType:
					v = x.X
				default:
					return v
				}
			}
			return v
		}
		for _, b := range f.Blocks {
			for _, ins := range b.Instrs {
				switch x := ins.(type) {
				case *ssa.Call:
					callee := x.Common().StaticCallee()
					if callee == nil || callee.Pkg != f.Pkg || !r.P.IsSubject(callee) {
						continue
					}
					var size ssa.Value
					src := ""
					nInt := 0
					for _, a := range x.Common().Args {
						if bt, isB := a.Type().Underlying().(*types.Basic); isB && bt.Info()&types.IsInteger != 0 {
							size = stripInt(a)
							nInt++
						} else if t := ff.TB.Of(a).String(); strings.Contains(t, "Int).Bytes(") {
							src = t
						}
					}
					if nInt == 1 && src != "" {
						halves = append(halves, half{size, src})
					}
				case *ssa.MakeSlice:
					src := ""
					for _, c := range r.callsIn(f, "builtin:copy") {
						if len(c.Common().Args) != 2 {
							continue
						}
						rooted := false
						for _, root := range memRoots(c.Common().Args[0]) {
							if root == ssa.Value(x) {
								rooted = true
							}
						}
						if t := ff.TB.Of(c.Common().Args[1]).String(); rooted && strings.Contains(t, "Int).Bytes(") {
							src = t
						}
					}
					if src != "" {
						halves = append(halves, half{stripInt(x.Len), src})
					}
				}
			}
		}
		type callShim struct{ size ssa.Value }
		var calls []callShim
		for _, h := range halves {
			calls = append(calls, callShim{h.size})
		}
		ok := len(halves) == 2 && (halves[0].size == halves[1].size || ff.TB.Of(halves[0].size).String() == ff.TB.Of(halves[1].size).String()) && halves[0].src != halves[1].src
		det := ""
		for _, h := range halves {
			det += short(h.src, 60) + " padded to " + short(ff.TB.Of(h.size).String(), 60) + " | "
		}
		r.R.Check(ok, P+".tables.signer.pad", "E13: signature = pad(r, k) ‖ pad(s, k) with one k", core.FuncName(f), r.where(f), "unequal or missing padding yields signatures the fixed-size verifier rejects for ~1/128 of keys/messages", det, fmt.Sprintf("%d padded half/halves: %s", len(halves), det))
		// k = ⌈bits/8⌉ of the key's own curve: bits/8, one more when bits is not a multiple of 8 (or (bits+7)/8)
		if len(calls) == 2 {
			okK, kdet := false, ""
			size := calls[0].size
			bitsOK := func(t string) bool {
				return strings.HasSuffix(t, ".Params().BitSize") || strings.Contains(t, "Curve.Params(") || strings.Contains(t, "Curve)")
			}
			switch sv := size.(type) {
			case *ssa.Phi:
				nBase, nUp := 0, 0
				good := true
				for i, e := range sv.Edges {
					et := ff.TB.Of(e)
					set := phiEdgeFacts(ff, sv, i)
					b := core.Bind{}
					switch {
					case core.MatchTerm("((?b / 8) + 1)", et, b):
						nUp++
						if !bitsOK(b["b"].String()) || !(hasBound(set, "cmp((?b % 8) > 0)", b) || hasBound(set, "cmp((?b % 8) != 0)", b)) {
							good = false
						}
					case core.MatchTerm("(?b / 8)", et, b):
						nBase++
						if !bitsOK(b["b"].String()) || !(hasBound(set, "cmp((?b % 8) <= 0)", b) || hasBound(set, "cmp((?b % 8) == 0)", b)) {
							good = false
						}
					default:
						good = false
					}
					kdet += et.String() + " | "
				}
				okK = good && nBase == 1 && nUp == 1
			default:
				t := ff.TB.Of(size)
				b := core.Bind{}
				kdet = t.String()
				okK = core.MatchTerm("((?b + 7) / 8)", t, b) && bitsOK(b["b"].String())
			}
			r.R.Check(okK, P+".tables.signer.size", "E3 normal form: the padding size is ⌈BitSize/8⌉ of the key's curve — BitSize/8, plus one exactly when BitSize is not a multiple of 8", core.FuncName(f), r.where(f),
				"P-521 has 521 bits: with 65 instead of 66 bytes per half every P-521 signature has the wrong length and is rejected at resolution although intake accepted the request", short(kdet, 200), "padding size: "+short(kdet, 300))
		}
	}
}

// checkLeftPad: the fixed-size coordinate buffer is the big-endian value left
// padded with zero bytes (either append(make(n-len(d)), d...) or a copy into
// buf[n-len(d):]); a right-padded coordinate is a different number.
func (r *Run) checkLeftPad(P string) {
	f := r.fn(P, pkgIJWS, "newFixedSizeBuffer")
	if f == nil {
		return
	}
	id := P + ".jwk.leftpad"
	rule := "E5 shape: fixed-size coordinate = zero bytes of length (size − len(data)) followed by data"
	why := "a secp256k1 coordinate with a leading zero byte that is padded on the wrong side (or not at all) decodes to another point, so a genuine signature is rejected under its own published key"
	if len(f.Params) != 2 {
		r.R.Unk(id, rule, core.FuncName(f), r.where(f), why, "unexpected signature")
		return
	}
	ff := r.E.Facts(f, core.Ctx{})
	data, length := f.Params[0], f.Params[1]
	wantDiff := "($" + length.Name() + " - len($" + data.Name() + "))"
	ok := false
	det := "no store to the buffer's data"
	nRet, nNil := 0, 0
	for _, b := range f.Blocks {
		for _, ins := range b.Instrs {
			if ret, isR := ins.(*ssa.Return); isR {
				nRet++
				if c, isC := core.RetOp(ret, 0).(*ssa.Const); isC && c.Value == nil {
					nNil++
				}
			}
			st, isS := ins.(*ssa.Store)
			if !isS {
				continue
			}
			fa, isF := st.Addr.(*ssa.FieldAddr)
			if !isF || fieldName(fa) != "data" {
				continue
			}
			det = "data = " + ff.TB.Of(st.Val).String()
			switch v := st.Val.(type) {
			case *ssa.Call:
				// append(make([]byte, n-len(d)), d...)
				if isBuiltin(v, "append") && len(v.Common().Args) == 2 && v.Common().Args[1] == ssa.Value(data) {
					if mk, isM := v.Common().Args[0].(*ssa.MakeSlice); isM {
						l := ff.TB.Of(mk.Len).String()
						det += " with make length " + l
						ok = l == wantDiff
					}
				}
			case *ssa.MakeSlice:
				// buf := make([]byte, n); copy(buf[n-len(d):], d) and nothing else written to buf
				if ff.TB.Of(v.Len).String() != "$"+length.Name() || v.Referrers() == nil {
					continue
				}
				copies, other := 0, 0
				for _, ref := range *v.Referrers() {
					switch x := ref.(type) {
					case *ssa.Slice:
						low := ""
						if x.Low != nil {
							low = ff.TB.Of(x.Low).String()
						}
						isCopy := false
						if x.Referrers() != nil {
							for _, rr := range *x.Referrers() {
								if c, isC := rr.(*ssa.Call); isC && isBuiltin(c, "copy") && c.Common().Args[0] == ssa.Value(x) && c.Common().Args[1] == ssa.Value(data) {
									isCopy = true
								}
							}
						}
						if isCopy && low == wantDiff && x.High == nil {
							copies++
						} else {
							other++
							det += " slice [" + low + ":]"
						}
					case *ssa.Store:
						if x.Val != ssa.Value(v) {
							other++
						}
					case *ssa.Call:
						other++
						det += " passed to " + ff.TB.Of(x).String()
					case *ssa.IndexAddr:
						other++
					}
				}
				ok = copies == 1 && other == 0
			}
		}
	}
	r.R.Check(ok && nNil == 0, id, rule, core.FuncName(f), r.where(f), why, det, det)
}

// checkOKPLength: the JOSE library pinned by the module builds an Ed25519
// public key by copying the decoded x into a fixed 32-byte buffer without
// looking at its length (derived from the library source). A longer x is
// truncated — the genuine key followed by extra bytes verifies — and the
// length test after the conversion can never fail. Under that premise the
// JWK reader must reach the library only with kty ≠ "OKP" or len(x) = 32.
func (r *Run) checkOKPLength(P string) {
	f := r.fn(P, pkgIJWS, "JWK.UnmarshalJSON")
	if f == nil {
		return
	}
	why := "an Ed25519 JWK whose x is the genuine key followed by extra bytes (wrong coordinate length) is accepted and genuine signatures verify under it; a shorter x is zero-padded instead of rejected"
	// premise
	var ed *ssa.Function
	for g := range r.P.AllFuncs {
		if g.Name() == "edPublicKey" && g.Pkg != nil && strings.Contains(g.Pkg.Pkg.Path(), "go-jose") {
			ed = g
		}
	}
	if ed == nil || ed.Blocks == nil {
		r.R.Unk(P+".jwk.okp.length", "library premise", "go-jose rawJSONWebKey.edPublicKey", "-", why, "the library's Ed25519 key constructor was not found: re-derive the premise")
		return
	}
	copies, lens := 0, 0
	for _, b := range ed.Blocks {
		for _, ins := range b.Instrs {
			if c, ok := ins.(*ssa.Call); ok {
				if isBuiltin(c, "copy") {
					copies++
				}
				if isBuiltin(c, "len") {
					lens++
				}
			}
		}
	}
	premise := copies > 0 && lens == 0
	r.R.List("library premises (derived from the go-jose source)", fmt.Sprintf("edPublicKey copies x into a fixed-size buffer without testing its length: %v", premise))
	id := P + ".jwk.okp.length"
	rule := "sibling agreement (JWK reader ↔ JOSE library) + E8 never-before: the library's JWK decoder is reached only with kty ≠ \"OKP\" or len(decoded x) = 32"
	if !premise {
		r.R.Ok(id, "vacuous: the library checks the length of x itself", core.FuncName(f), r.where(f), why, "not needed")
		return
	}
	ff := r.E.Facts(f, core.Ctx{})
	n := 0
	good := true
	var det []string
	for _, c := range r.callsIn(f, "json.Unmarshal") {
		// the delegation to the library decodes into a jose.JSONWebKey
		args := core.CallArgs(c.Common())
		if len(args) != 2 || !strings.Contains(ff.TB.Of(args[1]).String(), "JSONWebKey") || strings.Contains(ff.TB.Of(args[1]).String(), "jsonWebKey") {
			continue
		}
		n++
		if r.reachableWithout(ff, c, []string{`cmp(_.Kty != "OKP")`, "cmp(len(_.X.data) == 32)"}) {
			good = false
			det = append(det, r.P.Pos(c.Pos())+": the library decoder is reachable with kty = OKP and an unchecked length of x")
		}
	}
	r.R.Check(good && n == 1, id, rule, core.FuncName(f), r.where(f), why, "guarded", strings.Join(det, "; ")+fmt.Sprintf(" (%d delegations found)", n))
}

// checkWholeInputDecoding (C09, "any change to the decoded protected header is
// rejected"): signed material is decoded with a whole-input decoder. A streaming
// (*json.Decoder).Decode stops after the first value, so bytes appended to a
// genuine header would be ignored; such a call is accepted only when the same
// function also asks the decoder whether input remains (More / Token / Buffered).
func (r *Run) checkWholeInputDecoding(P string) {
	nUnmarshal, nDecode := 0, 0
	var bad []string
	for _, f := range r.P.SubjectFuncs(pkgIJWS, pkgJWS) {
		ff := r.E.Facts(f, core.Ctx{})
		trailing := false
		var decodes []*ssa.Call
		for _, b := range f.Blocks {
			if !ff.Live[b] {
				continue
			}
			for _, ins := range b.Instrs {
				c, ok := ins.(*ssa.Call)
				if !ok {
					continue
				}
				sc := c.Common().StaticCallee()
				if sc == nil {
					continue
				}
				name := sc.String()
				switch {
				case strings.HasSuffix(name, "json.Unmarshal"):
					nUnmarshal++
				case strings.HasSuffix(name, "json.Decoder).Decode"):
					decodes = append(decodes, c)
				case strings.HasSuffix(name, "json.Decoder).More"), strings.HasSuffix(name, "json.Decoder).Token"), strings.HasSuffix(name, "json.Decoder).Buffered"):
					trailing = true
				}
			}
		}
		nDecode += len(decodes)
		if len(decodes) > 0 && !trailing {
			for _, c := range decodes {
				bad = append(bad, core.FuncName(f)+" at "+r.P.Pos(c.Pos()))
			}
		}
	}
	r.R.Check(len(bad) == 0 && nUnmarshal >= 3, P+".decode.whole", "who-may-call: in the JWS packages received bytes are decoded with json.Unmarshal (which rejects trailing content); a streaming Decoder.Decode is allowed only with a remaining-input test in the same function",
		"pkg/internal/jws, pkg/jws", "-", "a decoder that stops after the first JSON value accepts a genuine JWS whose protected header has bytes appended: the decoded header changed and the JWS still verifies",
		fmt.Sprintf("%d whole-input decodes, %d streaming decodes (all with a remaining-input test)", nUnmarshal, nDecode), "streaming decode without a remaining-input test: "+strings.Join(bad, "; "))
}

// checkJWKPreParseDecoder: the JWK reader looks at the key twice — its own
// pre-parse (kty/crv/x length) and the JOSE library's parse. The library's JSON
// package matches member names exactly; the standard library's matches them
// case-insensitively, so a member "X" could satisfy the pre-parse while the
// library reads "x". Both decodes must use the same package.
func (r *Run) checkJWKPreParseDecoder(P string) {
	f := r.fn(P, pkgIJWS, "JWK.UnmarshalJSON")
	if f == nil {
		return
	}
	ff := r.E.Facts(f, core.Ctx{})
	pkgs := map[string]bool{}
	n := 0
	for _, c := range r.callsIn(f, "json.Unmarshal") {
		n++
		if sc := c.Common().StaticCallee(); sc != nil && sc.Pkg != nil {
			pkgs[sc.Pkg.Pkg.Path()] = true
		}
	}
	_ = ff
	var ps []string
	for k := range pkgs {
		ps = append(ps, k)
	}
	sort.Strings(ps)
	okPkg := len(ps) == 1 && strings.Contains(ps[0], "go-jose")
	r.R.Check(okPkg && n >= 2, P+".jwk.decoder", "sibling agreement: the JWK pre-parse and the delegation to the JOSE library decode with the same (case-sensitive) JSON package of that library", core.FuncName(f), r.where(f),
		"with a case-insensitive pre-parse, {\"x\":<31 bytes>,\"X\":<32 bytes>} passes the length test on \"X\" while the library builds the key from \"x\"", strings.Join(ps, ", "), "decoders used: "+strings.Join(ps, ", "))
}

// hasBound: the set has a fact matching pat under the given bindings.
func hasBound(set core.FactSet, pat string, b core.Bind) bool {
	nb := core.Bind{}
	for k, v := range b {
		nb[k] = v
	}
	_, ok := core.MatchAll(set, []string{pat}, nb)
	return ok
}
