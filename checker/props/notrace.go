package props

import (
	"fmt"
	"strings"

	"golang.org/x/tools/go/ssa"

	"sidecheck/core"
)

// checkCandidateNoTrace: a candidate loop ("apply the first candidate that is applicable") must not let a candidate
// that ends up skipped or rejected leave a trace in memory that outlives its iteration: every write to memory that is
// not local to the function (map update, store through a parameter, or a call of a module function that does either
// to one of its arguments) inside the loop must be unable to reach the loop head again.
func (r *Run) checkCandidateNoTrace(P, name string) {
	f := r.fn(P, pkgProcessor, name)
	if f == nil {
		return
	}
	id := P + ".skip.notrace." + strings.TrimPrefix(name, "OperationProcessor.")
	rule := "E8/E9 effect rule: inside the candidate loop no write to memory shared with the caller (consumed set, state, operation) happens on a path that can go on to the next candidate"
	why := "a rejected or failing candidate that has already been recorded (its next commitment marked as used, the state touched) changes how the candidates after it are judged: an invalid operation anchored first blocks the valid one, and the result depends on operations that must not count"
	head := loopHead(f)
	if head == nil {
		r.R.Unk(id, rule, core.FuncName(f), r.where(f), why, "no candidate loop found")
		return
	}
	ff := r.E.Facts(f, core.Ctx{})
	// blocks of the loop: those that reach the head again
	inLoop := func(b *ssa.BasicBlock) bool {
		for _, s := range b.Succs {
			if s == head || blockReaches(ff, s, head, nil) {
				return true
			}
		}
		return false
	}
	shared := func(v ssa.Value) bool {
		for _, root := range memRoots(v) {
			switch root.(type) {
			case *ssa.Alloc:
				// memory allocated by this function (argument packs of variadic calls, locals): not the caller's
			case *ssa.MakeMap, *ssa.MakeSlice, *ssa.Const:
			case *ssa.Call:
				// a value produced by a call: fresh as far as this function is concerned unless it is a map / pointer handed
				// out by a receiver or argument (not tracked: treated as fresh — the rule is about the caller's own memory)
			default:
				return true // parameter, free variable, global, field of one of them
			}
		}
		return false
	}
	var leaks []string
	n := 0
	for _, b := range f.Blocks {
		if ff.Live != nil && !ff.Live[b] {
			continue
		}
		if !inLoop(b) {
			continue
		}
		for _, ins := range b.Instrs {
			what := ""
			switch x := ins.(type) {
			case *ssa.MapUpdate:
				if shared(x.Map) {
					what = "map update " + ff.TB.Of(x.Map).String() + "[…]"
				}
			case *ssa.Store:
				if _, isAlloc := x.Addr.(*ssa.Alloc); !isAlloc && shared(x.Addr) {
					what = "store to " + ff.TB.Of(x.Addr).String()
				}
			case *ssa.Call:
				callee := x.Common().StaticCallee()
				if callee == nil || callee.Pkg == nil || !r.P.IsSubject(callee) || callee.Blocks == nil {
					continue
				}
				for i, a := range x.Common().Args {
					if i < len(callee.Params) && r.writesThrough(callee, i, 2) && shared(a) {
						what = "call of " + core.FuncName(callee) + ", which writes through its argument " + callee.Params[i].Name()
					}
				}
			}
			if what == "" {
				continue
			}
			n++
			leaks = append(leaks, what+" at "+r.P.Pos(ins.Pos()))
		}
	}
	r.R.SetCount("candidate-loop writes examined ("+name+")", n)
	r.R.Check(len(leaks) == 0, id, rule, core.FuncName(f), r.where(f), why, "no shared write inside the loop", fmt.Sprintf("%d write(s) that a later candidate can observe: %s", len(leaks), strings.Join(leaks, "; ")))
}

// memRoots: the values a memory operand is derived from, looking through field / element addressing, loads, slices,
// conversions and merges.
func memRoots(v ssa.Value) []ssa.Value {
	seen := map[ssa.Value]bool{}
	var out []ssa.Value
	var rec func(v ssa.Value)
	rec = func(v ssa.Value) {
		if v == nil || seen[v] {
			return
		}
		seen[v] = true
		switch x := v.(type) {
		case *ssa.FieldAddr:
			rec(x.X)
		case *ssa.IndexAddr:
			rec(x.X)
		case *ssa.Field:
			rec(x.X)
		case *ssa.Index:
			rec(x.X)
		case *ssa.Phi:
			for _, e := range x.Edges {
				rec(e)
			}
		case *ssa.ChangeType:
			rec(x.X)
		case *ssa.Convert:
			rec(x.X)
		case *ssa.UnOp:
			rec(x.X)
		case *ssa.Slice:
			rec(x.X)
		case *ssa.Lookup:
			rec(x.X)
		case *ssa.Extract:
			rec(x.Tuple)
		default:
			out = append(out, v)
		}
	}
	rec(v)
	return out
}

// writesThrough: callee (or, to the given depth, a module function it passes the parameter on to) updates a map or
// stores through parameter i.
func (r *Run) writesThrough(callee *ssa.Function, i int, depth int) bool {
	if callee.Blocks == nil || i >= len(callee.Params) {
		return false
	}
	p := ssa.Value(callee.Params[i])
	from := func(v ssa.Value) bool {
		for _, root := range memRoots(v) {
			if root == p {
				return true
			}
		}
		return false
	}
	for _, b := range callee.Blocks {
		for _, ins := range b.Instrs {
			switch x := ins.(type) {
			case *ssa.MapUpdate:
				if from(x.Map) {
					return true
				}
			case *ssa.Store:
				if from(x.Addr) {
					return true
				}
			case *ssa.Call:
				if depth <= 0 {
					continue
				}
				g := x.Common().StaticCallee()
				if g == nil || g.Blocks == nil || !r.P.IsSubject(g) {
					continue
				}
				for k, a := range x.Common().Args {
					if from(a) && r.writesThrough(g, k, depth-1) {
						return true
					}
				}
			}
		}
	}
	return false
}
