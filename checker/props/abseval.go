package props

import (
	"go/constant"
	"go/token"
	"go/types"

	"golang.org/x/tools/go/ssa"

	"sidecheck/core"
)

// Scalar abstract evaluator (used by E3/E4 normal-form rules): a loop-free
// function whose branch conditions only compare named scalar quantities with
// each other or with the constant 0 is executed over every weak ordering of
// those quantities; the Return instruction reached is reported. This is
// exhaustive over what the function can distinguish.

type scalarEval struct {
	fn *ssa.Function
	// name returns the abstract name of a compared operand; "0" for constant
	// zero / nil / "", ok=false when the operand is not recognised.
	name func(v ssa.Value) (string, bool)
	// boolean opaque atoms: conditions that are not scalar comparisons (e.g.
	// error checks) are named by boolAtom; their value comes from env.atoms.
	boolAtom func(v ssa.Value) (string, bool)
	// evalLast evaluates a boolean value with the phi values of the last walk.
	evalLast func(v ssa.Value) (bool, string)
	// num, when set, gives small-integer values to operands (abstract counts:
	// 0 / positive); comparisons between two numeric operands are then decided
	// numerically. Integer phis are resolved along the walked path.
	num     func(v ssa.Value, env scalarEnv) (int64, bool)
	intVals map[ssa.Value]int64
	// integer fields of local structs written during the walk (counts carried in a small struct)
	mem map[memCell]int64
	// the operand each phi took on the last walk
	lastSel map[*ssa.Phi]ssa.Value
}

// ret: result k of the reached return as the last walk selected it (a function in single-exit style returns a merged
// variable; on the walked path it is one particular operand).
func (s *scalarEval) ret(r *ssa.Return, k int) ssa.Value {
	v := core.RetOp(r, k)
	for i := 0; i < 8; i++ {
		p, ok := stripConv(v).(*ssa.Phi)
		if !ok {
			return v
		}
		nv, has := s.lastSel[p]
		if !has {
			return v
		}
		v = nv
	}
	return v
}

type memCell struct {
	al    *ssa.Alloc
	field int
}

// numOf evaluates an integer operand: constants, sums, path-resolved phis and what num names.
func (s *scalarEval) numOf(v ssa.Value, env scalarEnv, depth int) (int64, bool) {
	if depth > 8 || s.num == nil {
		return 0, false
	}
	v = stripConv(v)
	if n, ok := s.intVals[v]; ok {
		return n, true
	}
	if n, ok := s.num(v, env); ok {
		return n, true
	}
	switch x := v.(type) {
	case *ssa.Const:
		if x.Value != nil && x.Value.Kind() == constant.Int {
			n, ok := constant.Int64Val(x.Value)
			return n, ok
		}
	case *ssa.UnOp:
		// a field of a local struct: what the walk stored there (a local starts out zeroed)
		if fa, ok := x.X.(*ssa.FieldAddr); ok && x.Op == token.MUL {
			if al, isAl := fa.X.(*ssa.Alloc); isAl {
				if bt, isB := x.Type().Underlying().(*types.Basic); isB && bt.Info()&types.IsInteger != 0 {
					if n, has := s.mem[memCell{al, fa.Field}]; has {
						return n, true
					}
					if s.mem != nil && localStruct(al) {
						return 0, true
					}
				}
			}
		}
	case *ssa.BinOp:
		if x.Op == token.ADD {
			a, okA := s.numOf(x.X, env, depth+1)
			b, okB := s.numOf(x.Y, env, depth+1)
			return a + b, okA && okB
		}
	}
	return 0, false
}

// retBool returns the boolean returned at ret (operand k) in the last walk:
// a constant, or a comparison / negation / phi over the named quantities.
func (s *scalarEval) retBool(ret *ssa.Return, k int) (bool, string) {
	if s.evalLast == nil {
		return false, "no walk"
	}
	return s.evalLast(core.RetOp(ret, k))
}

type scalarEnv struct {
	rank  map[string]int
	atoms map[string]bool
}

// walk executes fn under env and returns the reached Return (nil if it met an
// unsupported construct) and the sequence of blocks visited.
func (s *scalarEval) walk(env scalarEnv) (*ssa.Return, []*ssa.BasicBlock, string) {
	fn := s.fn
	var prev *ssa.BasicBlock
	b := fn.Blocks[0]
	var path []*ssa.BasicBlock
	vals := map[ssa.Value]bool{}
	// the operand each phi took on the walked path (a value merged from two computations is, on this path, one of them)
	phiSel := map[*ssa.Phi]ssa.Value{}
	s.lastSel = phiSel
	sel := func(v ssa.Value) ssa.Value {
		for i := 0; i < 8; i++ {
			p, ok := stripConv(v).(*ssa.Phi)
			if !ok {
				return v
			}
			nv, has := phiSel[p]
			if !has {
				return v
			}
			v = nv
		}
		return v
	}
	var valOf func(v ssa.Value) (bool, string)
	valOf = func(v ssa.Value) (bool, string) {
		if x, ok := vals[v]; ok {
			return x, ""
		}
		switch x := v.(type) {
		case *ssa.Const:
			if x.Value != nil && types.Identical(x.Type().Underlying(), types.Typ[types.Bool]) {
				return x.Value.String() == "true", ""
			}
		case *ssa.UnOp:
			if x.Op == token.NOT {
				r, why := valOf(x.X)
				return !r, why
			}
		case *ssa.BinOp:
			if cmpTok[x.Op] && s.num != nil {
				if a, okA := s.numOf(x.X, env, 0); okA {
					if b, okB := s.numOf(x.Y, env, 0); okB {
						return ordHolds(sgn(int(a), int(b)), x.Op), ""
					}
				}
			}
			if cmpTok[x.Op] {
				a, okA := s.name(sel(x.X))
				bb, okB := s.name(sel(x.Y))
				if okA && okB {
					ra, hasA := env.rank[a]
					rb, hasB := env.rank[bb]
					if hasA && hasB {
						return ordHolds(sgn(ra, rb), x.Op), ""
					}
					return false, "no rank for " + a + " or " + bb
				}
			}
		}
		if s.boolAtom != nil {
			if n, ok := s.boolAtom(v); ok {
				val, has := env.atoms[n]
				if !has {
					return false, "no value for atom " + n
				}
				return val, ""
			}
		}
		return false, "unsupported condition " + v.String()
	}
	s.evalLast = valOf
	s.intVals = nil
	s.mem = map[memCell]int64{}
	for steps := 0; steps < 10000; steps++ {
		path = append(path, b)
		var next *ssa.BasicBlock
		for _, ins := range b.Instrs {
			switch x := ins.(type) {
			case *ssa.Phi:
				for i, p := range b.Preds {
					if p == prev {
						phiSel[x] = x.Edges[i]
					}
					if p == prev && s.num != nil {
						if n, ok := s.numOf(x.Edges[i], env, 0); ok {
							if s.intVals == nil {
								s.intVals = map[ssa.Value]int64{}
							}
							s.intVals[x] = n
						}
					}
					if p == prev {
						if types.Identical(x.Type().Underlying(), types.Typ[types.Bool]) {
							r, why := valOf(x.Edges[i])
							if why == "" {
								vals[x] = r
							}
						}
					}
				}
			case *ssa.Store:
				if s.num == nil {
					break
				}
				switch a := x.Addr.(type) {
				case *ssa.FieldAddr:
					if al, isAl := a.X.(*ssa.Alloc); isAl {
						if n, ok := s.numOf(x.Val, env, 0); ok {
							s.mem[memCell{al, a.Field}] = n
						} else {
							delete(s.mem, memCell{al, a.Field})
						}
					}
				case *ssa.Alloc:
					st, isStruct := a.Type().(*types.Pointer).Elem().Underlying().(*types.Struct)
					if !isStruct {
						break
					}
					for i := 0; i < st.NumFields(); i++ {
						delete(s.mem, memCell{a, i})
					}
					if ld, isLd := x.Val.(*ssa.UnOp); isLd && ld.Op == token.MUL {
						if src, isAl := ld.X.(*ssa.Alloc); isAl {
							for i := 0; i < st.NumFields(); i++ {
								if n, has := s.mem[memCell{src, i}]; has {
									s.mem[memCell{a, i}] = n
								}
							}
						}
					}
				}
			case *ssa.If:
				r, why := valOf(x.Cond)
				if why != "" {
					return nil, path, why
				}
				if r {
					next = b.Succs[0]
				} else {
					next = b.Succs[1]
				}
			case *ssa.Jump:
				next = b.Succs[0]
			case *ssa.Return:
				return x, path, ""
			case *ssa.Panic:
				return nil, path, "panic"
			}
		}
		if next == nil {
			return nil, path, "fell off block"
		}
		prev = b
		b = next
	}
	return nil, path, "step limit"
}

// weakOrders enumerates all weak orderings (rank assignments) of n items.
func weakOrders(n int) [][]int {
	var out [][]int
	var rec func(i int, cur []int, maxRank int)
	rec = func(i int, cur []int, maxRank int) {
		if i == n {
			// keep only canonical assignments: ranks used must be 0..k contiguous
			used := map[int]bool{}
			for _, r := range cur {
				used[r] = true
			}
			for k := 0; k < len(used); k++ {
				if !used[k] {
					return
				}
			}
			c := make([]int, n)
			copy(c, cur)
			out = append(out, c)
			return
		}
		for r := 0; r < n; r++ {
			cur[i] = r
			rec(i+1, cur, maxRank)
		}
	}
	rec(0, make([]int, n), 0)
	return out
}

// stripConv looks through numeric conversions and loads.
func stripConv(v ssa.Value) ssa.Value {
	for {
		switch x := v.(type) {
		case *ssa.Convert:
			v = x.X
		case *ssa.ChangeType:
			v = x.X
		default:
			return v
		}
	}
}

func isZeroConst(v ssa.Value) bool {
	c, ok := v.(*ssa.Const)
	if !ok {
		return false
	}
	if c.Value == nil {
		return true
	}
	s := c.Value.ExactString()
	return s == "0" || s == `""`
}

// localStruct: a struct-typed local whose address does not leave the function (so unwritten fields are zero).
func localStruct(al *ssa.Alloc) bool {
	if _, ok := al.Type().(*types.Pointer).Elem().Underlying().(*types.Struct); !ok {
		return false
	}
	refs := al.Referrers()
	if refs == nil {
		return false
	}
	for _, r := range *refs {
		switch x := r.(type) {
		case *ssa.FieldAddr, *ssa.DebugRef:
		case *ssa.UnOp:
			if x.Op != token.MUL {
				return false
			}
		case *ssa.Store:
			if x.Addr != ssa.Value(al) {
				return false
			}
		default:
			return false
		}
	}
	return true
}
