package props

import (
	"go/types"

	"golang.org/x/tools/go/ssa"

	"sidecheck/core"
)

// frame is a function seen from a root function: either the root itself or a
// helper of the analysed module reached by static calls. Terms and facts of a
// helper frame are rewritten into the root's parameter space (actual argument
// terms substituted; the must-facts of every call site on the way added), so a
// rule stated about the root keeps holding when part of the root's body is
// extracted into a helper.
type frame struct {
	Fn     *ssa.Function
	FF     *core.FnFacts
	Actual []*core.Term // nil for the root
	At     core.FactSet // facts at the call chain (root space); nil for the root
}

func (fr frame) Term(v ssa.Value) *core.Term {
	t := fr.FF.TB.Of(v)
	if fr.Actual != nil {
		t = t.Subst(fr.Actual)
	}
	return t
}

func (fr frame) Facts(ins ssa.Instruction) core.FactSet {
	local := fr.FF.At(ins)
	if fr.Actual == nil {
		return local
	}
	out := core.FactSet{}
	for _, fc := range local {
		g := fc.Subst(fr.Actual)
		out[g.Key()] = g
	}
	for k, fc := range fr.At {
		out[k] = fc
	}
	return out
}

// frames returns the root frame and the frames of same-package helpers reached
// through static calls up to the given depth (one frame per call site).
func (r *Run) frames(root *ssa.Function, depth int) []frame {
	out := []frame{{Fn: root, FF: r.E.Facts(root, core.Ctx{})}}
	var rec func(fr frame, depth int, stack map[*ssa.Function]bool)
	rec = func(fr frame, depth int, stack map[*ssa.Function]bool) {
		if depth <= 0 {
			return
		}
		for _, b := range fr.Fn.Blocks {
			for _, ins := range b.Instrs {
				c, ok := ins.(*ssa.Call)
				if !ok {
					continue
				}
				g := c.Common().StaticCallee()
				if g == nil || len(g.Blocks) == 0 || !r.P.IsSubject(g) || g.Pkg != root.Pkg || stack[g] {
					continue
				}
				var actual []*core.Term
				for _, a := range core.CallArgs(c.Common()) {
					actual = append(actual, fr.Term(a))
				}
				nf := frame{Fn: g, FF: r.E.Facts(g, core.Ctx{}), Actual: actual, At: fr.Facts(c)}
				out = append(out, nf)
				stack[g] = true
				rec(nf, depth-1, stack)
				delete(stack, g)
			}
		}
	}
	rec(out[0], depth, map[*ssa.Function]bool{root: true})
	return out
}

// frameLiteral is a struct literal of some type found in a frame.
type frameLiteral struct {
	Frame  frame
	Alloc  *ssa.Alloc
	Fields map[string]ssa.Value
}

// literalsDeep finds the literals of T in root and its helper frames.
func (r *Run) literalsDeep(root *ssa.Function, T *types.Named, depth int) []frameLiteral {
	var out []frameLiteral
	seen := map[*ssa.Alloc]bool{}
	for _, fr := range r.frames(root, depth) {
		for al, m := range literalsOf(fr.Fn, T) {
			if seen[al] {
				continue // the same helper reached through two call sites: reported once (first site)
			}
			seen[al] = true
			out = append(out, frameLiteral{Frame: fr, Alloc: al, Fields: m})
		}
	}
	return out
}
