// sidecheck decides structural necessary conditions of the properties in
// /verif/properties.jsonl from the current source of /repo (static analysis
// only: type-checked AST, SSA, call graph). See /verif/DESIGN.md.
package main

import (
	"encoding/json"
	"flag"
	"fmt"
	"os"
	"runtime/debug"
	"sort"
	"strconv"
	"strings"

	"sidecheck/core"
	"sidecheck/props"
)

func main() {
	prop := flag.String("property", "", "property id (C01..C20)")
	tier := flag.String("tier", "", "quick|thorough (default $VERIF_TIER or quick)")
	dir := flag.String("dir", "/repo", "subject directory")
	verif := flag.String("verif", "/verif", "verif directory (evidence, known findings)")
	overlay := flag.String("overlay", "", "tool mode (-property all): orig=replacement[,...] source overlay")
	dump := flag.String("dump", "", "debug: dump facts of function pkgrel:Name[,ctx e.g. 2=F]")
	list := flag.Bool("list", false, "list properties")
	noSelf := flag.Bool("no-selfcheck", false, "thorough: skip the variant catalogue")
	flag.Parse()
	if *list {
		var ids []string
		for id := range props.Registry {
			ids = append(ids, id)
		}
		sort.Strings(ids)
		fmt.Println(strings.Join(ids, " "))
		return
	}
	if *tier == "" {
		*tier = os.Getenv("VERIF_TIER")
	}
	if *tier != "thorough" {
		*tier = "quick"
	}
	seed, _ := strconv.Atoi(os.Getenv("VERIF_SEED"))
	if strings.HasPrefix(*dump, "phiarg:") {
		p, err := core.Load(core.Config{Name: "default", Dir: *dir})
		if err != nil {
			fmt.Println(err)
			os.Exit(2)
		}
		fp := strings.Split(strings.TrimPrefix(*dump, "phiarg:"), ":")
		k, _ := strconv.Atoi(fp[3])
		props.DebugPhiArg(&props.Run{P: p, E: core.NewEngine(p), R: core.NewReport("dbg", "quick", 0)}, fp[0], fp[1], fp[2], k)
		return
	}
	if strings.HasPrefix(*dump, "leaves:") {
		p, err := core.Load(core.Config{Name: "default", Dir: *dir})
		if err != nil {
			fmt.Println(err)
			os.Exit(2)
		}
		fp := strings.Split(strings.TrimPrefix(*dump, "leaves:"), ":")
		props.DebugLeaves(&props.Run{P: p, E: core.NewEngine(p), R: core.NewReport("dbg", "quick", 0)}, fp[0], fp[1], fp[2])
		return
	}
	if strings.HasPrefix(*dump, "loops:") {
		p, err := core.Load(core.Config{Name: "default", Dir: *dir})
		if err != nil {
			fmt.Println(err)
			os.Exit(2)
		}
		props.DebugLoops(&props.Run{P: p, E: core.NewEngine(p), R: core.NewReport("dbg", "quick", 0)}, strings.TrimPrefix(*dump, "loops:"))
		return
	}
	if strings.HasPrefix(*dump, "paths:") {
		p, err := core.Load(core.Config{Name: "default", Dir: *dir})
		if err != nil {
			fmt.Println(err)
			os.Exit(2)
		}
		fp := strings.SplitN(strings.TrimPrefix(*dump, "paths:"), ":", 2)
		props.DebugPaths(&props.Run{P: p, E: core.NewEngine(p), R: core.NewReport("dbg", "quick", 0)}, fp[0], fp[1])
		return
	}
	if strings.HasPrefix(*dump, "appends:") {
		p, err := core.Load(core.Config{Name: "default", Dir: *dir})
		if err != nil {
			fmt.Println(err)
			os.Exit(2)
		}
		fp := strings.SplitN(strings.TrimPrefix(*dump, "appends:"), ":", 2)
		props.DebugAppends(&props.Run{P: p, E: core.NewEngine(p), R: core.NewReport("dbg", "quick", 0)}, fp[0], fp[1])
		return
	}
	if *dump == "e6" {
		p, err := core.Load(core.Config{Name: "default", Dir: *dir})
		if err != nil {
			fmt.Println(err)
			os.Exit(2)
		}
		props.DebugUniversalE6(&props.Run{P: p, E: core.NewEngine(p), R: core.NewReport("dbg", "quick", 0)})
		return
	}
	if *dump == "vocab" {
		v, err := core.ScanNames(*dir, nil)
		if err != nil {
			fmt.Println(err)
			os.Exit(2)
		}
		// mock and test-support packages carry no anchors
		b, _ := json.MarshalIndent(v, "", " ")
		fmt.Println(string(b))
		return
	}
	if *dump == "norm" {
		nr, err := core.Normalise(core.Config{Name: "default", Dir: *dir}, core.EmbeddedVocab())
		if err != nil {
			fmt.Println("ERROR", err)
			os.Exit(2)
		}
		if nr == nil {
			fmt.Println("nothing to normalise")
			return
		}
		for _, l := range nr.Inlined {
			fmt.Println("inlined", l)
		}
		for _, l := range nr.Refused {
			fmt.Println("refused", l)
		}
		for k := range nr.Dropped {
			fmt.Println("dropped", k)
		}
		if os.Getenv("NORM_SHOW") != "" {
			for f, b := range nr.Overlay {
				fmt.Printf("=== %s\n%s\n", f, b)
			}
		}
		return
	}
	if *dump == "guarded" {
		p, err := core.Load(core.Config{Name: "default", Dir: *dir})
		if err != nil {
			fmt.Println(err)
			os.Exit(2)
		}
		props.DebugGuarded(&props.Run{P: p, E: core.NewEngine(p), R: core.NewReport("dbg", "quick", 0)})
		return
	}
	if *dump == "sinks" {
		p, err := core.Load(core.Config{Name: "default", Dir: *dir})
		if err != nil {
			fmt.Println(err)
			os.Exit(2)
		}
		props.DebugSinks(&props.Run{P: p, E: core.NewEngine(p), R: core.NewReport("dbg", "quick", 0)})
		return
	}
	if *dump != "" {
		doDump(*dir, *dump)
		return
	}
	if *prop == "all" {
		// tool mode (mutation runs): one load, every property's quick check, no self-check
		os.Exit(runAll(*dir, *verif, seed, *overlay))
	}
	ck := props.Registry[*prop]
	if ck == nil {
		fmt.Printf("unknown property %q\n", *prop)
		os.Exit(2)
	}
	rep := core.NewReport(ck.ID, *tier, seed)
	rep.Explanation = ck.Explanation + props.GuardedNote(ck.ID)
	rep.Assumptions = ck.Assumptions
	rep.Trusted = props.CommonTrusted
	ov, err := parseOverlay(*overlay)
	if err != nil {
		fmt.Printf("LOAD-ERROR %v\n", err)
		os.Exit(3)
	}
	configs := []core.Config{{Name: "default", Dir: *dir, Overlay: ov}}
	if *tier == "thorough" {
		configs = append(configs,
			core.Config{Name: "tags=testing", Dir: *dir, Tags: "testing"},
			core.Config{Name: "GOARCH=386", Dir: *dir, GOARCH: "386"})
	}
	for _, cfg := range configs {
		runConfig(ck, cfg, rep, *tier)
		debug.FreeOSMemory()
	}
	if *tier == "thorough" && !*noSelf {
		props.SelfCheck(ck.ID, *dir, *verif, rep)
	}
	os.Exit(rep.Finish(*verif, "other"))
}

func runConfig(ck *props.Checker, cfg core.Config, rep *core.Report, tier string) {
	rep.SetConfig(cfg.Name)
	defer func() {
		if x := recover(); x != nil {
			rep.Unk(ck.ID+".engine.panic", "checker must not panic", "sidecheck", "-",
				"a crashed analysis decides nothing", fmt.Sprintf("panic: %v\n%s", x, debug.Stack()))
		}
	}()
	p, err := core.Load(cfg)
	if err != nil {
		rep.Unk(ck.ID+".load", "load+typecheck ./... (unanalysable fails)", cfg.Name, cfg.Dir,
			"a program that cannot be loaded cannot be analysed", err.Error())
		return
	}
	subj := p.SubjectFuncs()
	rep.SetCount("packages_loaded["+cfg.Name+"]", len(p.Pkgs))
	rep.SetCount("subject_functions["+cfg.Name+"]", len(subj))
	rep.SetCount("subject_ssa_instructions["+cfg.Name+"]", core.CountInstrs(subj))
	run := &props.Run{P: p, E: core.NewEngine(p), R: rep, Tier: tier, Universal: tier == "thorough"}
	ck.Run(run)
	props.GuardedErrors(run, ck.ID)
	rep.SetCount("functions_with_dataflow["+cfg.Name+"]", len(run.E.Analysed))
}

// runAll loads the subject once and runs every registered checker (quick tier).
// parseOverlay reads orig=replacement[,orig=replacement...] (tool mode).
func parseOverlay(overlay string) (map[string][]byte, error) {
	if overlay == "" {
		return nil, nil
	}
	out := map[string][]byte{}
	for _, kv := range strings.Split(overlay, ",") {
		i := strings.Index(kv, "=")
		if i < 0 {
			continue
		}
		b, err := os.ReadFile(kv[i+1:])
		if err != nil {
			return nil, err
		}
		out[kv[:i]] = b
	}
	return out, nil
}

func runAll(dir, verif string, seed int, overlay string) int {
	cfg := core.Config{Name: "default", Dir: dir}
	ov, err := parseOverlay(overlay)
	if err != nil {
		fmt.Printf("LOAD-ERROR %v\n", err)
		return 3
	}
	cfg.Overlay = ov
	p, err := core.Load(cfg)
	if err != nil {
		fmt.Printf("LOAD-ERROR %v\n", err)
		return 3
	}
	eng := core.NewEngine(p)
	var ids []string
	for id := range props.Registry {
		ids = append(ids, id)
	}
	sort.Strings(ids)
	rc := 0
	for _, id := range ids {
		ck := props.Registry[id]
		rep := core.NewReport(ck.ID, "quick", seed)
		rep.Explanation = ck.Explanation + props.GuardedNote(ck.ID)
		rep.Assumptions = ck.Assumptions
		rep.Trusted = props.CommonTrusted
		rep.SetConfig(cfg.Name)
		func() {
			defer func() {
				if x := recover(); x != nil {
					rep.Unk(ck.ID+".engine.panic", "checker must not panic", "sidecheck", "-", "a crashed analysis decides nothing", fmt.Sprintf("panic: %v", x))
				}
			}()
			run := &props.Run{P: p, E: eng, R: rep, Tier: "quick"}
			ck.Run(run)
			props.GuardedErrors(run, ck.ID)
		}()
		if rep.Finish(verif, "other") != 0 {
			rc = 1
		}
	}
	return rc
}

func doDump(dir, spec string) {
	p, err := core.Load(core.Config{Name: "default", Dir: dir})
	if err != nil {
		fmt.Println(err)
		os.Exit(2)
	}
	parts := strings.Split(spec, ",")
	fp := strings.SplitN(parts[0], ":", 2)
	fn := p.Func(fp[0], fp[1])
	if fn == nil {
		fmt.Println("no such function")
		os.Exit(2)
	}
	ctx := core.Ctx{}
	for _, a := range parts[1:] {
		kv := strings.SplitN(a, "=", 2)
		i, _ := strconv.Atoi(kv[0])
		if ctx.ParamBool == nil {
			ctx.ParamBool = map[int]bool{}
		}
		ctx.ParamBool[i] = kv[1] == "T"
	}
	e := core.NewEngine(p)
	ff := e.Facts(fn, ctx)
	for _, r := range ff.Returns() {
		fmt.Printf("return at %s class=%v\n", p.Pos(r.Ret.Pos()), r.Class)
		for _, f := range r.Facts.Sorted() {
			fmt.Printf("    %s\n", f.Key())
		}
	}
	s := e.Summary(fn, ctx)
	fmt.Printf("SUMMARY successes=%d\n", s.Successes)
	for _, f := range s.Facts.Sorted() {
		fmt.Printf("    %s\n", f.Key())
	}
}
