// mutgen generates first-order mutants of Go source files (operator
// replacement, dropped / negated conditions, break↔continue, literal ±1,
// boolean flips, argument swaps, statement deletion). It is a tool for
// validating the checker (which mutants of the anchored code does it report?),
// not part of any check.
//
// usage: mutgen -out DIR file.go...   writes DIR/<n>.go and DIR/index.jsonl
package main

import (
	"encoding/json"
	"flag"
	"fmt"
	"go/ast"
	"go/parser"
	"go/token"
	"os"
	"path/filepath"
	"strconv"
	"strings"
)

type mutant struct {
	N      int    `json:"n"`
	File   string `json:"file"`
	Line   int    `json:"line"`
	Func   string `json:"func"`
	Kind   string `json:"kind"`
	Before string `json:"before"`
	After  string `json:"after"`
	Mut    string `json:"mutated_file"`
}

type edit struct {
	from, to int // byte offsets
	text     string
	kind     string
}

var relAlt = map[token.Token][]string{
	token.LSS: {"<="}, token.LEQ: {"<"}, token.GTR: {">="}, token.GEQ: {">"},
	token.EQL: {"!="}, token.NEQ: {"=="}, token.LAND: {"||"}, token.LOR: {"&&"},
	token.ADD: {"-"}, token.SUB: {"+"},
}

func main() {
	out := flag.String("out", "", "output directory")
	flag.Parse()
	if *out == "" {
		fmt.Fprintln(os.Stderr, "need -out")
		os.Exit(2)
	}
	_ = os.MkdirAll(*out, 0o755)
	idx, err := os.Create(filepath.Join(*out, "index.jsonl"))
	if err != nil {
		panic(err)
	}
	defer idx.Close()
	enc := json.NewEncoder(idx)
	n := 0
	for _, file := range flag.Args() {
		src, err := os.ReadFile(file)
		if err != nil {
			fmt.Fprintln(os.Stderr, err)
			continue
		}
		fset := token.NewFileSet()
		f, err := parser.ParseFile(fset, file, src, parser.ParseComments)
		if err != nil {
			fmt.Fprintln(os.Stderr, err)
			continue
		}
		off := func(p token.Pos) int { return fset.Position(p).Offset }
		for _, d := range f.Decls {
			fd, ok := d.(*ast.FuncDecl)
			if !ok || fd.Body == nil {
				continue
			}
			fname := fd.Name.Name
			if fd.Recv != nil && len(fd.Recv.List) > 0 {
				fname = exprString(src, off, fd.Recv.List[0].Type) + "." + fname
			}
			var edits []edit
			ast.Inspect(fd.Body, func(nd ast.Node) bool {
				switch x := nd.(type) {
				case *ast.BinaryExpr:
					for _, alt := range relAlt[x.Op] {
						edits = append(edits, edit{off(x.OpPos), off(x.OpPos) + len(x.Op.String()), alt, "op " + x.Op.String() + "→" + alt})
					}
				case *ast.IfStmt:
					c0, c1 := off(x.Cond.Pos()), off(x.Cond.End())
					cond := string(src[c0:c1])
					edits = append(edits, edit{c0, c1, "false && (" + cond + ")", "cond→false"})
					edits = append(edits, edit{c0, c1, "!(" + cond + ")", "cond negated"})
				case *ast.BranchStmt:
					if x.Label == nil && (x.Tok == token.BREAK || x.Tok == token.CONTINUE) {
						alt := "continue"
						if x.Tok == token.CONTINUE {
							alt = "break"
						}
						edits = append(edits, edit{off(x.Pos()), off(x.End()), alt, x.Tok.String() + "→" + alt})
					}
				case *ast.BasicLit:
					if x.Kind == token.INT {
						if v, err := strconv.ParseInt(x.Value, 0, 64); err == nil {
							edits = append(edits, edit{off(x.Pos()), off(x.End()), strconv.FormatInt(v+1, 10), "int+1"})
							if v > 0 {
								edits = append(edits, edit{off(x.Pos()), off(x.End()), strconv.FormatInt(v-1, 10), "int-1"})
							}
						}
					}
				case *ast.Ident:
					if x.Name == "true" || x.Name == "false" {
						alt := "false"
						if x.Name == "false" {
							alt = "true"
						}
						edits = append(edits, edit{off(x.Pos()), off(x.End()), alt, "bool flip"})
					}
				case *ast.UnaryExpr:
					if x.Op == token.NOT {
						edits = append(edits, edit{off(x.Pos()), off(x.Pos()) + 1, "", "drop !"})
					}
				case *ast.CallExpr:
					if len(x.Args) >= 2 && x.Ellipsis == token.NoPos {
						a0, a1 := x.Args[0], x.Args[1]
						s0, s1 := string(src[off(a0.Pos()):off(a0.End())]), string(src[off(a1.Pos()):off(a1.End())])
						if s0 != s1 {
							edits = append(edits, edit{off(a0.Pos()), off(a1.End()), s1 + string(src[off(a0.End()):off(a1.Pos())]) + s0, "swap args 0,1"})
						}
					}
					if len(x.Args) >= 3 && x.Ellipsis == token.NoPos {
						a1, a2 := x.Args[1], x.Args[2]
						s1, s2 := string(src[off(a1.Pos()):off(a1.End())]), string(src[off(a2.Pos()):off(a2.End())])
						if s1 != s2 {
							edits = append(edits, edit{off(a1.Pos()), off(a2.End()), s2 + string(src[off(a1.End()):off(a2.Pos())]) + s1, "swap args 1,2"})
						}
					}
				case *ast.ExprStmt:
					if _, isCall := x.X.(*ast.CallExpr); isCall {
						edits = append(edits, edit{off(x.Pos()), off(x.End()), "", "delete call stmt"})
					}
				case *ast.AssignStmt:
					if x.Tok == token.ASSIGN {
						edits = append(edits, edit{off(x.Pos()), off(x.End()), "", "delete assignment"})
					}
				case *ast.IncDecStmt:
					edits = append(edits, edit{off(x.Pos()), off(x.End()), "", "delete incdec"})
				case *ast.DeferStmt:
					edits = append(edits, edit{off(x.Pos()), off(x.End()), "", "delete defer"})
				}
				return true
			})
			for _, e := range edits {
				n++
				mut := make([]byte, 0, len(src)+len(e.text))
				mut = append(mut, src[:e.from]...)
				mut = append(mut, e.text...)
				mut = append(mut, src[e.to:]...)
				mp := filepath.Join(*out, fmt.Sprintf("%d.go", n))
				if err := os.WriteFile(mp, mut, 0o644); err != nil {
					panic(err)
				}
				pos := fset.PositionFor(f.Pos(), false)
				_ = pos
				line := 1 + strings.Count(string(src[:e.from]), "\n")
				before := string(src[e.from:e.to])
				if len(before) > 120 {
					before = before[:120] + "…"
				}
				after := e.text
				if len(after) > 120 {
					after = after[:120] + "…"
				}
				_ = enc.Encode(mutant{N: n, File: file, Line: line, Func: fname, Kind: e.kind, Before: before, After: after, Mut: mp})
			}
		}
	}
	fmt.Printf("%d mutants written to %s\n", n, *out)
}

func exprString(src []byte, off func(token.Pos) int, e ast.Expr) string {
	return strings.TrimPrefix(string(src[off(e.Pos()):off(e.End())]), "*")
}
