// Package core holds the whole-program loader, the IR helpers and the
// obligation / evidence / known-findings plumbing shared by all properties.
package core

import (
	"fmt"
	"go/ast"
	"go/token"
	"go/types"
	"os"
	"path/filepath"
	"regexp"
	"sort"
	"strings"

	"golang.org/x/tools/go/callgraph"
	"golang.org/x/tools/go/packages"
	"golang.org/x/tools/go/ssa"
	"golang.org/x/tools/go/ssa/ssautil"
)

// Module is the module path every subject package must live under.
const Module = "github.com/trustbloc/sidetree-core-go"

// MinPackages is the number of module packages measured on the pinned tree; a
// load that sees fewer is treated as unanalysable rather than as "nothing to check".
const MinPackages = 47

// Config is one build configuration of the subject.
type Config struct {
	Name   string
	Dir    string
	Tags   string
	GOARCH string
	// Overlay replaces the content of source files (absolute path -> content);
	// used by the mutation tool to analyse a variant without copying the tree.
	Overlay map[string][]byte
	// NoNormalise switches the source normalisation (inlining of helpers outside the vocabulary) off.
	NoNormalise bool
}

// Prog is the loaded, type-checked program plus its SSA form.
type Prog struct {
	Cfg     Config
	Dir     string
	Fset    *token.FileSet
	Pkgs    map[string]*packages.Package // by import path (module packages only)
	All     []*packages.Package
	SSA     *ssa.Program
	SSAPkgs map[string]*ssa.Package
	// AllFuncs is every function of the SSA program (incl. dependencies).
	AllFuncs map[*ssa.Function]bool
	// fileOf maps token.File names to absolute path (for subject decisions).
	excluded []string

	// Norm is what the source normalisation did (nil: nothing).
	Norm    *NormResult
	dropped map[*ssa.Function]bool

	implCache map[string][]*ssa.Function
	cg        *callgraph.Graph
	declCache map[*ssa.Function]*ast.FuncDecl
}

// Load loads ./... of dir under the given configuration. Any type error, a
// wrong module or too few packages is an error (the caller reports it as
// unanalysable).
func Load(cfg Config) (*Prog, error) {
	dir := cfg.Dir
	if dir == "" {
		dir = "/repo"
	}
	env := append(os.Environ(),
		"GOFLAGS=-mod=mod", "GOPROXY=off", "GOSUMDB=off", "GOTOOLCHAIN=local", "GOWORK=off")
	if cfg.GOARCH != "" {
		env = append(env, "GOARCH="+cfg.GOARCH, "CGO_ENABLED=0")
	}
	var norm *NormResult
	if !cfg.NoNormalise {
		nr, nerr := Normalise(cfg, EmbeddedVocab())
		if nerr != nil {
			return nil, nerr
		}
		if nr != nil {
			norm = nr
			cfg.Overlay = nr.Overlay
		}
	}
	pc := &packages.Config{
		Mode:  packages.LoadAllSyntax,
		Dir:   dir,
		Tests: false,
		Env:   env,
	}
	if len(cfg.Overlay) > 0 {
		pc.Overlay = cfg.Overlay
	}
	if cfg.Tags != "" {
		pc.BuildFlags = []string{"-tags=" + cfg.Tags}
	}
	pkgs, err := packages.Load(pc, "./...")
	if err != nil {
		return nil, fmt.Errorf("packages.Load: %w", err)
	}
	var errs []string
	packages.Visit(pkgs, nil, func(p *packages.Package) {
		for _, e := range p.Errors {
			errs = append(errs, e.Error())
		}
	})
	if len(errs) > 0 {
		sort.Strings(errs)
		if len(errs) > 8 {
			errs = errs[:8]
		}
		return nil, fmt.Errorf("load/type errors: %s", strings.Join(errs, "; "))
	}
	p := &Prog{Cfg: cfg, Dir: dir, Pkgs: map[string]*packages.Package{}, All: pkgs,
		SSAPkgs: map[string]*ssa.Package{}, implCache: map[string][]*ssa.Function{},
		declCache: map[*ssa.Function]*ast.FuncDecl{}}
	n := 0
	for _, pk := range pkgs {
		if pk.PkgPath == Module || strings.HasPrefix(pk.PkgPath, Module+"/") {
			p.Pkgs[pk.PkgPath] = pk
			n++
			if pk.Fset != nil {
				p.Fset = pk.Fset
			}
		}
	}
	if n < MinPackages {
		return nil, fmt.Errorf("only %d packages of module %s loaded from %s (floor %d)", n, Module, dir, MinPackages)
	}
	prog, spkgs := ssautil.AllPackages(pkgs, ssa.InstantiateGenerics)
	prog.Build()
	p.SSA = prog
	for i, sp := range spkgs {
		if sp != nil {
			p.SSAPkgs[pkgs[i].PkgPath] = sp
		}
	}
	p.AllFuncs = ssautil.AllFunctions(prog)
	p.Norm = norm
	p.dropped = map[*ssa.Function]bool{}
	if norm != nil && len(norm.Dropped) > 0 {
		for fn := range p.AllFuncs {
			root := fn
			for root.Parent() != nil {
				root = root.Parent()
			}
			if root.Pkg == nil || root.Object() == nil {
				continue
			}
			name := root.Name()
			if recv := root.Signature.Recv(); recv != nil {
				t := recv.Type()
				if pt, ok := t.(*types.Pointer); ok {
					t = pt.Elem()
				}
				if nt, ok := t.(*types.Named); ok {
					name = nt.Obj().Name() + "." + name
				}
			}
			if norm.Dropped[root.Pkg.Pkg.Path()+"."+name] {
				p.dropped[fn] = true
			}
		}
		for fn := range p.dropped {
			delete(p.AllFuncs, fn)
		}
	}
	return p, nil
}

// Rel returns the package path relative to the module ("pkg/processor").
func Rel(pkgPath string) string {
	return strings.TrimPrefix(strings.TrimPrefix(pkgPath, Module), "/")
}

// Pkg returns the module package with the given relative path, or nil.
func (p *Prog) Pkg(rel string) *packages.Package {
	return p.Pkgs[Module+"/"+rel]
}

// SSAPkg returns the SSA package with the given relative path, or nil.
func (p *Prog) SSAPkg(rel string) *ssa.Package {
	return p.SSAPkgs[Module+"/"+rel]
}

// Func resolves a package-level function or a method ("Recv.Name", pointer or
// value receiver) of a module package.
func (p *Prog) Func(rel, name string) *ssa.Function {
	sp := p.SSAPkg(rel)
	if sp == nil {
		return nil
	}
	if i := strings.Index(name, "."); i >= 0 {
		tn, mn := name[:i], name[i+1:]
		m := sp.Members[tn]
		t, ok := m.(*ssa.Type)
		if !ok {
			return nil
		}
		named := t.Type()
		for _, typ := range []types.Type{types.NewPointer(named), named} {
			ms := p.SSA.MethodSets.MethodSet(typ)
			for i := 0; i < ms.Len(); i++ {
				sel := ms.At(i)
				if sel.Obj().Name() == mn && sel.Obj().Pkg() == sp.Pkg {
					if fn := p.SSA.MethodValue(sel); fn != nil {
						// skip promoted wrappers: we want the declared method
						if fn.Synthetic == "" {
							return fn
						}
					}
				}
			}
		}
		return nil
	}
	if i := strings.Index(name, "$"); i >= 0 {
		// closure: Outer$N (go/ssa naming), searched among the anonymous functions
		outer := sp.Func(name[:i])
		var find func(f *ssa.Function) *ssa.Function
		find = func(f *ssa.Function) *ssa.Function {
			if f == nil {
				return nil
			}
			for _, a := range f.AnonFuncs {
				if a.Name() == name {
					return a
				}
				if g := find(a); g != nil {
					return g
				}
			}
			return nil
		}
		return find(outer)
	}
	return sp.Func(name)
}

// Named returns a named type of a module package.
func (p *Prog) Named(rel, name string) *types.Named {
	pk := p.Pkg(rel)
	if pk == nil {
		return nil
	}
	o := pk.Types.Scope().Lookup(name)
	if o == nil {
		return nil
	}
	n, _ := o.Type().(*types.Named)
	return n
}

// Pos renders a position relative to the subject directory.
func (p *Prog) Pos(pos token.Pos) string {
	if !pos.IsValid() {
		return "?"
	}
	ps := p.Fset.Position(pos)
	f := ps.Filename
	if r, err := filepath.Rel(p.Dir, f); err == nil && !strings.HasPrefix(r, "..") {
		f = r
	}
	return fmt.Sprintf("%s:%d", f, ps.Line)
}

// FileOf returns the file (relative) a position is in.
func (p *Prog) FileOf(pos token.Pos) string {
	s := p.Pos(pos)
	if i := strings.LastIndex(s, ":"); i >= 0 {
		return s[:i]
	}
	return s
}

// IsMockPkg reports packages that only hold test doubles.
func IsMockPkg(pkgPath string) bool {
	r := Rel(pkgPath)
	return r == "pkg/mocks" || r == "pkg/dochandler/mocks"
}

// InModule reports whether the package path is part of the subject module.
func InModule(pkgPath string) bool {
	return pkgPath == Module || strings.HasPrefix(pkgPath, Module+"/")
}

// IsSubject reports whether fn is non-test, non-mock, non-generated code of
// the module.
func (p *Prog) IsSubject(fn *ssa.Function) bool {
	if fn == nil {
		return false
	}
	root := fn
	for root.Parent() != nil {
		root = root.Parent()
	}
	if root.Origin() != nil {
		root = root.Origin()
	}
	if p.dropped[root] {
		return false // a helper outside the vocabulary whose every call has been inlined
	}
	if p.Norm != nil && fn.Parent() != nil && deadClosure(fn) {
		return false // a closure outside the vocabulary whose every call has been inlined (kept only as `_ = name`)
	}
	var pkgPath string
	if root.Pkg != nil {
		pkgPath = root.Pkg.Pkg.Path()
	} else if o := root.Object(); o != nil && o.Pkg() != nil {
		pkgPath = o.Pkg().Path()
	} else {
		return false
	}
	if !InModule(pkgPath) || IsMockPkg(pkgPath) {
		return false
	}
	if root.Pos().IsValid() {
		if strings.HasSuffix(p.Fset.Position(root.Pos()).Filename, ".gen.go") {
			return false
		}
	} else if root.Synthetic != "" {
		return false
	}
	return true
}

// SubjectFuncs returns all subject functions (including closures) sorted by
// position, optionally restricted to packages with one of the relative paths.
func (p *Prog) SubjectFuncs(rels ...string) []*ssa.Function {
	want := map[string]bool{}
	for _, r := range rels {
		want[Module+"/"+r] = true
	}
	var out []*ssa.Function
	for fn := range p.AllFuncs {
		if !p.IsSubject(fn) || fn.Blocks == nil {
			continue
		}
		if len(want) > 0 {
			root := fn
			for root.Parent() != nil {
				root = root.Parent()
			}
			if root.Pkg == nil || !want[root.Pkg.Pkg.Path()] {
				continue
			}
		}
		out = append(out, fn)
	}
	sort.Slice(out, func(i, j int) bool {
		a, b := p.Fset.Position(out[i].Pos()), p.Fset.Position(out[j].Pos())
		if a.Filename != b.Filename {
			return a.Filename < b.Filename
		}
		if a.Offset != b.Offset {
			return a.Offset < b.Offset
		}
		return out[i].String() < out[j].String()
	})
	return out
}

// Impls returns the subject (non-mock) functions that implement the interface
// method m (declared methods only), sorted by name.
func (p *Prog) Impls(m *types.Func) []*ssa.Function {
	key := m.FullName()
	if r, ok := p.implCache[key]; ok {
		return r
	}
	sig := m.Type().(*types.Signature)
	recv := sig.Recv()
	var out []*ssa.Function
	if recv == nil {
		p.implCache[key] = nil
		return nil
	}
	iface, _ := recv.Type().Underlying().(*types.Interface)
	if iface == nil {
		p.implCache[key] = nil
		return nil
	}
	seen := map[*ssa.Function]bool{}
	for _, pk := range p.Pkgs {
		if IsMockPkg(pk.PkgPath) {
			continue
		}
		sc := pk.Types.Scope()
		for _, n := range sc.Names() {
			tn, ok := sc.Lookup(n).(*types.TypeName)
			if !ok || tn.IsAlias() {
				continue
			}
			T := tn.Type()
			if _, isI := T.Underlying().(*types.Interface); isI {
				continue
			}
			for _, typ := range []types.Type{T, types.NewPointer(T)} {
				if !types.Implements(typ, iface) {
					continue
				}
				ms := p.SSA.MethodSets.MethodSet(typ)
				sel := ms.Lookup(m.Pkg(), m.Name())
				if sel == nil {
					continue
				}
				fn := p.SSA.MethodValue(sel)
				if fn == nil {
					continue
				}
				// unwrap promotion wrappers to the declared method
				if fn.Synthetic != "" {
					if d, ok := sel.Obj().(*types.Func); ok {
						if df := p.SSA.FuncValue(d); df != nil {
							fn = df
						}
					}
				}
				if fn.Synthetic != "" || !p.IsSubject(fn) || seen[fn] {
					continue
				}
				seen[fn] = true
				out = append(out, fn)
			}
		}
	}
	sort.Slice(out, func(i, j int) bool { return out[i].String() < out[j].String() })
	p.implCache[key] = out
	return out
}

// Decl returns the syntax of a source function.
func (p *Prog) Decl(fn *ssa.Function) *ast.FuncDecl {
	if d, ok := fn.Syntax().(*ast.FuncDecl); ok {
		return d
	}
	return nil
}

// FuncName is a short stable name for reports: pkg/rel.(Recv).Name.
func FuncName(fn *ssa.Function) string {
	if fn == nil {
		return "<nil>"
	}
	s := fn.String()
	s = strings.ReplaceAll(s, Module+"/", "")
	return shorten(s)
}

// CountInstrs counts SSA instructions of the given functions.
func CountInstrs(fns []*ssa.Function) int {
	n := 0
	for _, f := range fns {
		for _, b := range f.Blocks {
			n += len(b.Instrs)
		}
	}
	return n
}

// shorten drops the path noise shared by all subject packages.
var shortenRe = regexp.MustCompile(`(^|[(*\[ ,\]])pkg/(versions/1_0/)?`)

func shorten(s string) string {
	return shortenRe.ReplaceAllString(s, "$1")
}

// deadClosure: the function literal is created but its value is never called, passed on or stored anywhere it could
// be read from (what the normalisation leaves behind after inlining every call of a local closure).
func deadClosure(fn *ssa.Function) bool {
	parent := fn.Parent()
	if parent == nil {
		return false
	}
	found := false
	for _, b := range parent.Blocks {
		for _, ins := range b.Instrs {
			var val ssa.Value
			switch x := ins.(type) {
			case *ssa.MakeClosure:
				if x.Fn == ssa.Value(fn) {
					val = x
				}
			}
			if val == nil {
				// a literal that captures nothing appears as the function itself, as an operand
				for _, op := range ins.Operands(nil) {
					if op != nil && *op == ssa.Value(fn) {
						if st, isSt := ins.(*ssa.Store); isSt && st.Val == ssa.Value(fn) {
							if !deadCell(st.Addr) {
								return false
							}
							found = true
						} else if _, isDbg := ins.(*ssa.DebugRef); !isDbg {
							return false
						}
					}
				}
				continue
			}
			found = true
			refs := val.Referrers()
			if refs == nil {
				continue
			}
			for _, rf := range *refs {
				switch y := rf.(type) {
				case *ssa.DebugRef:
				case *ssa.Store:
					if y.Val != val || !deadCell(y.Addr) {
						return false
					}
				default:
					return false
				}
			}
		}
	}
	return found
}

// deadCell: a local variable that is only ever stored to.
func deadCell(addr ssa.Value) bool {
	al, ok := addr.(*ssa.Alloc)
	if !ok {
		return false
	}
	refs := al.Referrers()
	if refs == nil {
		return true
	}
	for _, rf := range *refs {
		switch y := rf.(type) {
		case *ssa.DebugRef:
		case *ssa.Store:
			if y.Addr != ssa.Value(al) {
				return false
			}
		default:
			return false
		}
	}
	return true
}
