package core

// Source normalisation (E15): calls to functions and closures that are NOT part
// of the vocabulary of the tree the rules were written against ("new helpers",
// typically introduced by an extract-function refactoring) are inlined at
// source level before the program is analysed, so that a rule anchored at a
// known function keeps seeing the code that was moved out of it.
//
// The transformation is semantics preserving by construction and refuses
// whenever it cannot show that (then the helper simply stays a function):
//   - only static calls to same-package functions / methods with a body, and to
//     closure variables that are assigned exactly once;
//   - the callee has no defer, recover, goto, type parameters or self reference;
//   - the call is the first call evaluated in a statement that sits in a
//     statement list (or an if/switch/for header evaluated once), and is not
//     under the right operand of && / ||, so hoisting it keeps evaluation order;
//   - every identifier of the callee that refers to an object declared outside
//     the callee resolves to the very same object at the call site.
// Shape of the result:
//	var inlN_a0 T0 = arg0 ...            (arguments, in order, once)
//	var inlN_r0 R0 ...                   (results)
//	inlN_L: switch { default:
//		p0, p1 := inlN_a0, inlN_a1       (parameters become locals)
//		<callee body; `return e` => { inlN_r0 = e; break inlN_L }>
//	}
//	... original statement with the call replaced by inlN_r0 ...
// /*line*/ directives keep the positions of the untouched text.

import (
	_ "embed"
	"encoding/json"
	"fmt"
	"go/ast"
	"go/parser"
	"go/token"
	"go/types"
	"os"
	"path/filepath"
	"sort"
	"strings"

	"golang.org/x/tools/go/packages"
)

//go:embed vocab.json
var vocabJSON []byte

// Vocab is the set of function and closure names of the reference tree.
type Vocab struct {
	Funcs    map[string][]string            `json:"funcs"`    // package (module-relative) -> "Recv.Name" / "Name"
	Closures map[string]map[string][]string `json:"closures"` // package -> top-level function -> closure variable names
	// Sigs: "pkg|Name" (functions) and "pkg|Func$closure" (closures) -> parameter and result types, names left out.
	// A new name whose signature equals that of a name that has disappeared from the same scope is taken for a
	// rename, not for a new helper, and is left alone.
	Sigs map[string]string `json:"sigs"`
	// Ranges: "pkg|Func" -> the operands of its range loops (as source text); Vars: package -> package-level variables.
	// A range loop over a slice literal (directly, through a local assigned once, or through an unexported package
	// variable nobody assigns) whose operand is not in this list is a table-driven rewrite and is unrolled.
	Ranges map[string][]string `json:"ranges"`
	Vars   map[string][]string `json:"vars"`
	// Returns: "pkg|Func" -> number of return statements (function literals not counted). A function that has fewer
	// than in the reference tree was probably rewritten in single-exit style; its trailing `return` is then copied to
	// the end of the branches that lead to it (tail duplication), which gives every exit its own values again.
	Returns map[string]int `json:"returns"`
	// IIFEs: "pkg|Func" -> number of immediately invoked function literals (`func() {…}()`, not under defer / go).
	// A function that has more than in the reference tree had a block wrapped into one; those are inlined back.
	IIFEs map[string]int `json:"iifes,omitempty"`
	// Params: "pkg|Func" -> parameter names in order (unexported functions with two or more named parameters). A
	// function that still has exactly these parameters under these names, in another order, had its parameters
	// re-ordered; declaration and calls are put back into this order.
	Params map[string][]string `json:"params,omitempty"`
}

func sigText(ft *ast.FuncType) string {
	var sb strings.Builder
	list := func(fl *ast.FieldList) {
		sb.WriteString("(")
		if fl != nil {
			for _, f := range fl.List {
				n := len(f.Names)
				if n == 0 {
					n = 1
				}
				for i := 0; i < n; i++ {
					sb.WriteString(types.ExprString(f.Type))
					sb.WriteString(",")
				}
			}
		}
		sb.WriteString(")")
	}
	list(ft.Params)
	list(ft.Results)
	return sb.String()
}

// EmbeddedVocab returns the vocabulary compiled into the checker (nil if empty).
func EmbeddedVocab() *Vocab {
	v := &Vocab{}
	if err := json.Unmarshal(vocabJSON, v); err != nil || len(v.Funcs) == 0 {
		return nil
	}
	return v
}

func declName(fd *ast.FuncDecl) string {
	if fd.Recv != nil && len(fd.Recv.List) > 0 {
		t := fd.Recv.List[0].Type
		for {
			switch x := t.(type) {
			case *ast.StarExpr:
				t = x.X
				continue
			case *ast.ParenExpr:
				t = x.X
				continue
			case *ast.IndexExpr:
				t = x.X
				continue
			case *ast.IndexListExpr:
				t = x.X
				continue
			}
			break
		}
		if id, ok := t.(*ast.Ident); ok {
			return id.Name + "." + fd.Name.Name
		}
	}
	return fd.Name.Name
}

// closureNames lists the variables of fd's body that hold function literals (or are declared with a function type).
func closureNames(body ast.Node) []string {
	seen := map[string]bool{}
	ast.Inspect(body, func(n ast.Node) bool {
		switch x := n.(type) {
		case *ast.AssignStmt:
			for i, rh := range x.Rhs {
				if _, ok := rh.(*ast.FuncLit); ok && i < len(x.Lhs) {
					if id, ok := x.Lhs[i].(*ast.Ident); ok {
						seen[id.Name] = true
					}
				}
			}
		case *ast.ValueSpec:
			_, isFT := x.Type.(*ast.FuncType)
			for i, id := range x.Names {
				if isFT {
					seen[id.Name] = true
				} else if i < len(x.Values) {
					if _, ok := x.Values[i].(*ast.FuncLit); ok {
						seen[id.Name] = true
					}
				}
			}
		}
		return true
	})
	var out []string
	for k := range seen {
		out = append(out, k)
	}
	sort.Strings(out)
	return out
}

// countIIFEs: calls whose function is a literal, leaving out the operands of defer and go statements.
func countIIFEs(body ast.Node) int {
	n := 0
	skip := map[*ast.CallExpr]bool{}
	ast.Inspect(body, func(x ast.Node) bool {
		switch s := x.(type) {
		case *ast.DeferStmt:
			skip[s.Call] = true
		case *ast.GoStmt:
			skip[s.Call] = true
		case *ast.CallExpr:
			if _, ok := s.Fun.(*ast.FuncLit); ok && !skip[s] {
				n++
			}
		}
		return true
	})
	return n
}

func countReturns(body ast.Node) int {
	n := 0
	walkNoLit(body, func(x ast.Node) {
		if _, ok := x.(*ast.ReturnStmt); ok {
			n++
		}
	})
	return n
}

// paramNames: the parameter names of a function type in order; nil when a parameter is unnamed, blank or variadic.
func paramNames(ft *ast.FuncType) []string {
	if ft.Params == nil {
		return nil
	}
	var out []string
	for _, f := range ft.Params.List {
		if len(f.Names) == 0 {
			return nil
		}
		if _, isEll := f.Type.(*ast.Ellipsis); isEll {
			return nil
		}
		for _, n := range f.Names {
			if n.Name == "_" {
				return nil
			}
			out = append(out, n.Name)
		}
	}
	return out
}

// closureLits: name -> the function literal bound to it (`name := func…`, `name = func…`, `var name = func…`); a name
// bound more than once is left out.
func closureLits(body ast.Node) map[string]*ast.FuncLit {
	out := map[string]*ast.FuncLit{}
	n := map[string]int{}
	ast.Inspect(body, func(x ast.Node) bool {
		switch a := x.(type) {
		case *ast.AssignStmt:
			for i, rh := range a.Rhs {
				if fl, ok := rh.(*ast.FuncLit); ok && i < len(a.Lhs) {
					if id, ok := a.Lhs[i].(*ast.Ident); ok {
						out[id.Name] = fl
						n[id.Name]++
					}
				}
			}
		case *ast.ValueSpec:
			for i, id := range a.Names {
				if i < len(a.Values) {
					if fl, ok := a.Values[i].(*ast.FuncLit); ok {
						out[id.Name] = fl
						n[id.Name]++
					}
				}
			}
		}
		return true
	})
	for k, c := range n {
		if c != 1 {
			delete(out, k)
		}
	}
	return out
}

// closureSigs: name -> signature of the function literal (or declared function type) bound to it.
func closureSigs(body ast.Node) map[string]string {
	out := map[string]string{}
	ast.Inspect(body, func(n ast.Node) bool {
		switch x := n.(type) {
		case *ast.AssignStmt:
			for i, rh := range x.Rhs {
				if fl, ok := rh.(*ast.FuncLit); ok && i < len(x.Lhs) {
					if id, ok := x.Lhs[i].(*ast.Ident); ok {
						out[id.Name] = sigText(fl.Type)
					}
				}
			}
		case *ast.ValueSpec:
			ft, isFT := x.Type.(*ast.FuncType)
			for i, id := range x.Names {
				if isFT {
					if _, has := out[id.Name]; !has {
						out[id.Name] = sigText(ft)
					}
				} else if i < len(x.Values) {
					if fl, ok := x.Values[i].(*ast.FuncLit); ok {
						out[id.Name] = sigText(fl.Type)
					}
				}
			}
		}
		return true
	})
	return out
}

// ScanNames parses the non-test Go files below dir (content from overlay when present) and returns their names.
func ScanNames(dir string, overlay map[string][]byte) (*Vocab, error) {
	v := &Vocab{Funcs: map[string][]string{}, Closures: map[string]map[string][]string{}, Sigs: map[string]string{}, Ranges: map[string][]string{}, Vars: map[string][]string{}, Returns: map[string]int{}, IIFEs: map[string]int{}, Params: map[string][]string{}}
	fset := token.NewFileSet()
	err := filepath.Walk(dir, func(path string, fi os.FileInfo, err error) error {
		if err != nil {
			return err
		}
		if fi.IsDir() {
			n := fi.Name()
			if path != dir && (strings.HasPrefix(n, ".") || n == "testdata" || n == "vendor") {
				return filepath.SkipDir
			}
			return nil
		}
		if !strings.HasSuffix(path, ".go") || strings.HasSuffix(path, "_test.go") {
			return nil
		}
		var src interface{}
		if b, ok := overlay[path]; ok {
			src = b
		}
		f, perr := parser.ParseFile(fset, path, src, parser.SkipObjectResolution)
		if perr != nil {
			return nil // the typed load reports it
		}
		rel, _ := filepath.Rel(dir, filepath.Dir(path))
		rel = filepath.ToSlash(rel)
		for _, d := range f.Decls {
			if gd, isGD := d.(*ast.GenDecl); isGD && gd.Tok == token.VAR {
				for _, sp := range gd.Specs {
					for _, id := range sp.(*ast.ValueSpec).Names {
						v.Vars[rel] = append(v.Vars[rel], id.Name)
					}
				}
			}
			fd, ok := d.(*ast.FuncDecl)
			if !ok {
				continue
			}
			name := declName(fd)
			if fd.Body != nil {
				ast.Inspect(fd.Body, func(n ast.Node) bool {
					if rs, isR := n.(*ast.RangeStmt); isR {
						v.Ranges[rel+"|"+name] = append(v.Ranges[rel+"|"+name], types.ExprString(rs.X))
					}
					return true
				})
				v.Returns[rel+"|"+name] = countReturns(fd.Body)
				if k := countIIFEs(fd.Body); k > 0 {
					v.IIFEs[rel+"|"+name] = k
				}
			}
			v.Funcs[rel] = append(v.Funcs[rel], name)
			v.Sigs[rel+"|"+name] = sigText(fd.Type)
			if !fd.Name.IsExported() {
				if pn := paramNames(fd.Type); len(pn) >= 2 {
					v.Params[rel+"|"+name] = pn
				}
			}
			if fd.Body != nil {
				for cn, lit := range closureLits(fd.Body) {
					v.Returns[rel+"|"+name+"$"+cn] = countReturns(lit.Body)
				}
				for cn, cs := range closureSigs(fd.Body) {
					v.Sigs[rel+"|"+name+"$"+cn] = cs
				}
				if cn := closureNames(fd.Body); len(cn) > 0 {
					if v.Closures[rel] == nil {
						v.Closures[rel] = map[string][]string{}
					}
					v.Closures[rel][name] = append(v.Closures[rel][name], cn...)
				}
			}
		}
		return nil
	})
	for k := range v.Funcs {
		sort.Strings(v.Funcs[k])
	}
	return v, err
}

// newNames returns the functions / closures of cur that the vocabulary does not know, per package.
// lastRenames: package -> new name -> old name, for the functions newNames took for renames and could pair uniquely
// (exactly one function with that signature disappeared and exactly one appeared).
var lastRenames map[string]map[string]string

func newNames(cur, voc *Vocab) (map[string]map[string]bool, map[string]map[string]map[string]bool) {
	nf := map[string]map[string]bool{}
	nc := map[string]map[string]map[string]bool{}
	lastRenames = map[string]map[string]string{}
	for pk, names := range cur.Funcs {
		known, ok := voc.Funcs[pk]
		if !ok {
			continue // a package the reference tree does not have: nothing is anchored there
		}
		ks := map[string]bool{}
		for _, n := range known {
			ks[n] = true
		}
		curSet := map[string]bool{}
		for _, n := range names {
			curSet[n] = true
		}
		// signatures of the functions that have disappeared from the package
		goneSigs := map[string]int{}
		goneBySig := map[string][]string{}
		for _, n := range known {
			if !curSet[n] {
				goneSigs[voc.Sigs[pk+"|"+n]]++
				goneBySig[voc.Sigs[pk+"|"+n]] = append(goneBySig[voc.Sigs[pk+"|"+n]], n)
			}
		}
		newBySig := map[string][]string{}
		for _, n := range names {
			if !ks[n] {
				newBySig[cur.Sigs[pk+"|"+n]] = append(newBySig[cur.Sigs[pk+"|"+n]], n)
			}
		}
		base := func(n string) string {
			if i := strings.LastIndex(n, "."); i >= 0 {
				return n[i+1:]
			}
			return n
		}
		for sg, olds := range goneBySig {
			news := newBySig[sg]
			if sg == "" || len(news) == 0 {
				continue
			}
			pair := func(n, o string) {
				if lastRenames[pk] == nil {
					lastRenames[pk] = map[string]string{}
				}
				lastRenames[pk][n] = o
			}
			// same name, only the receiver came or went (function ↔ method): paired by that name
			usedO, usedN := map[string]bool{}, map[string]bool{}
			for _, o := range olds {
				for _, n := range news {
					if !usedO[o] && !usedN[n] && base(o) == base(n) {
						pair(n, o)
						usedO[o], usedN[n] = true, true
					}
				}
			}
			var ro, rn []string
			for _, o := range olds {
				if !usedO[o] {
					ro = append(ro, o)
				}
			}
			for _, n := range news {
				if !usedN[n] {
					rn = append(rn, n)
				}
			}
			if len(ro) == 1 && len(rn) == 1 {
				pair(rn[0], ro[0])
			}
		}
		// names of the closures the reference tree has in this package
		closureName := map[string]bool{}
		for _, cl := range voc.Closures[pk] {
			for _, c := range cl {
				closureName[c] = true
			}
		}
		for _, n := range names {
			if !ks[n] {
				if sg := cur.Sigs[pk+"|"+n]; sg != "" && goneSigs[sg] > 0 {
					goneSigs[sg]-- // a rename of a known function: not a new helper
					continue
				}
				if closureName[n] && strings.Contains(cur.Sigs[pk+"|"+n], "func(") {
					// a closure of the reference tree moved to package level, taking what it captured as function-valued
					// parameters: it stays a function (inlining it would bury the code the rules look for inside its caller)
					continue
				}
				if nf[pk] == nil {
					nf[pk] = map[string]bool{}
				}
				nf[pk][n] = true
			}
		}
		for fn, cl := range cur.Closures[pk] {
			if !ks[fn] {
				continue // closures of a new function go with it
			}
			kc := map[string]bool{}
			for _, n := range voc.Closures[pk][fn] {
				kc[n] = true
			}
			curC := map[string]bool{}
			for _, n := range cl {
				curC[n] = true
			}
			goneC := map[string]int{}
			for n := range kc {
				if !curC[n] {
					goneC[voc.Sigs[pk+"|"+fn+"$"+n]]++
				}
			}
			for _, n := range cl {
				if !kc[n] {
					if sg := cur.Sigs[pk+"|"+fn+"$"+n]; sg != "" && goneC[sg] > 0 {
						goneC[sg]--
						continue
					}
					if nc[pk] == nil {
						nc[pk] = map[string]map[string]bool{}
					}
					if nc[pk][fn] == nil {
						nc[pk][fn] = map[string]bool{}
					}
					nc[pk][fn][n] = true
				}
			}
		}
	}
	return nf, nc
}

// NormResult describes what the normalisation did.
type NormResult struct {
	Overlay map[string][]byte
	Inlined []string        // "pkg.Func into pkg.Caller (file:line)"
	Dropped map[string]bool // "pkgpath.Name" of new functions without remaining references
	Refused []string        // calls to new helpers that were left alone, with the reason
}

type textEdit struct {
	off, end int
	text     string
	prio     int // insertion order at equal offsets
}

// Normalise computes the inlining overlay for cfg (nil result: nothing to do).
func Normalise(cfg Config, voc *Vocab) (*NormResult, error) {
	if voc == nil {
		return nil, nil
	}
	dir := cfg.Dir
	if dir == "" {
		dir = "/repo"
	}
	cur, err := ScanNames(dir, cfg.Overlay)
	if err != nil {
		return nil, err
	}
	nf, nc := newNames(cur, voc)
	newRangePkgs := map[string]bool{}
	if len(voc.Ranges) > 0 {
		for key, xs := range cur.Ranges {
			known, has := voc.Ranges[key]
			pk := strings.SplitN(key, "|", 2)[0]
			if _, pkKnown := voc.Funcs[pk]; !pkKnown {
				continue
			}
			if !has {
				known = nil
			}
			ks := map[string]bool{}
			for _, x := range known {
				ks[x] = true
			}
			for _, x := range xs {
				if !ks[x] {
					newRangePkgs[pk] = true
				}
			}
		}
	}
	for key, n := range cur.Returns {
		if want, has := voc.Returns[key]; has && n < want {
			newRangePkgs[strings.SplitN(key, "|", 2)[0]] = true
		}
	}
	for key, n := range cur.IIFEs {
		pk := strings.SplitN(key, "|", 2)[0]
		if _, pkKnown := voc.Funcs[pk]; pkKnown && n > voc.IIFEs[key] {
			newRangePkgs[pk] = true
		}
	}
	reorderPkgs := map[string]bool{}
	for key, want := range voc.Params {
		have, ok := cur.Params[key]
		if ok && len(have) == len(want) && !sameStrings(have, want) && samePermutation(have, want) {
			pk := strings.SplitN(key, "|", 2)[0]
			reorderPkgs[pk] = true
			newRangePkgs[pk] = true
		}
	}
	renames := lastRenames
	for pk := range renames {
		newRangePkgs[pk] = true
	}
	if len(nf) == 0 && len(nc) == 0 && len(newRangePkgs) == 0 {
		return nil, nil
	}
	pkgSet := map[string]bool{}
	for pk := range newRangePkgs {
		pkgSet[pk] = true
	}
	for pk := range nf {
		pkgSet[pk] = true
	}
	for pk := range nc {
		pkgSet[pk] = true
	}
	var patterns []string
	for pk := range pkgSet {
		if pk == "." {
			patterns = append(patterns, ".")
		} else {
			patterns = append(patterns, "./"+pk)
		}
	}
	sort.Strings(patterns)
	res := &NormResult{Overlay: map[string][]byte{}, Dropped: map[string]bool{}}
	for k, b := range cfg.Overlay {
		res.Overlay[k] = b
	}
	counter := 0
	tailDone := map[string]bool{}
	var prev map[string][]byte
	dropped := func(pkgs []*packages.Package) {
		res.Dropped = map[string]bool{}
		for _, pk := range pkgs {
			rel := Rel(pk.PkgPath)
			if rel == "" {
				rel = "."
			}
			in := &inliner{pk: pk, newFuncs: nf[rel], newClosures: nc[rel], counter: &counter, res: res, voc: voc, rel: rel}
			in.noteDropped()
		}
	}
	for round := 0; round < 7; round++ {
		pkgs, err := loadTyped(cfg, dir, patterns, res.Overlay)
		if err != nil {
			if round == 0 {
				return nil, nil // the main load reports the problem
			}
			// the previous round produced code that does not type-check: fall back to the state before it
			res.Refused = append(res.Refused, fmt.Sprintf("round %d rolled back: %v", round-1, err))
			res.Overlay = prev
			if pkgs, err = loadTyped(cfg, dir, patterns, res.Overlay); err == nil {
				dropped(pkgs)
			}
			break
		}
		nEdits := 0
		next := map[string][]byte{}
		if round < 6 {
			for _, pk := range pkgs {
				rel := Rel(pk.PkgPath)
				if rel == "" {
					rel = "."
				}
				in := &inliner{pk: pk, newFuncs: nf[rel], newClosures: nc[rel], counter: &counter, res: res, voc: voc, rel: rel}
				for i, f := range pk.Syntax {
					if i >= len(pk.CompiledGoFiles) {
						continue
					}
					fname := pk.CompiledGoFiles[i]
					src := in.srcOf(fname)
					var edits []textEdit
					if round == 0 && reorderPkgs[rel] {
						edits = in.paramOrderEdits(f)
					}
					if len(edits) == 0 && round <= 2 {
						// (a method whose receiver is only used to call other such methods becomes convertible once those are)
						edits = in.renameBackEdits(f, renames[rel])
						if len(edits) == 0 && !tailDone[fname] {
							tailDone[fname] = true
							edits = in.tailDupEdits(f, src)
						}
					}
					if len(edits) == 0 {
						edits = in.fileEdits(f, fname, src)
					}
					if len(edits) == 0 {
						edits = in.unrollEdits(f, fname, src)
					}
					if len(edits) == 0 {
						continue
					}
					nEdits += len(edits)
					next[fname] = applyEdits(src, edits)
				}
			}
		}
		if nEdits == 0 {
			dropped(pkgs)
			break
		}
		prev = map[string][]byte{}
		for k, b := range res.Overlay {
			prev[k] = b
		}
		for k, b := range next {
			res.Overlay[k] = b
		}
	}
	if len(res.Inlined) == 0 {
		return nil, nil
	}
	sort.Strings(res.Inlined)
	return res, nil
}

func loadTyped(cfg Config, dir string, patterns []string, overlay map[string][]byte) ([]*packages.Package, error) {
	env := append(os.Environ(), "GOFLAGS=-mod=mod", "GOPROXY=off", "GOSUMDB=off", "GOTOOLCHAIN=local", "GOWORK=off")
	if cfg.GOARCH != "" {
		env = append(env, "GOARCH="+cfg.GOARCH, "CGO_ENABLED=0")
	}
	pc := &packages.Config{Mode: packages.LoadSyntax, Dir: dir, Env: env}
	if len(overlay) > 0 {
		pc.Overlay = overlay
	}
	if cfg.Tags != "" {
		pc.BuildFlags = []string{"-tags=" + cfg.Tags}
	}
	pkgs, err := packages.Load(pc, patterns...)
	if err != nil {
		return nil, err
	}
	var errs []string
	for _, p := range pkgs {
		for _, e := range p.Errors {
			errs = append(errs, e.Error())
		}
	}
	if len(errs) > 0 {
		if len(errs) > 4 {
			errs = errs[:4]
		}
		return nil, fmt.Errorf("%s", strings.Join(errs, "; "))
	}
	return pkgs, nil
}

func applyEdits(src []byte, edits []textEdit) []byte {
	sort.SliceStable(edits, func(i, j int) bool {
		if edits[i].off != edits[j].off {
			return edits[i].off < edits[j].off
		}
		return edits[i].prio < edits[j].prio
	})
	var out []byte
	pos := 0
	for _, e := range edits {
		if e.off < pos {
			continue // overlapping (must not happen; the later edit is dropped)
		}
		out = append(out, src[pos:e.off]...)
		out = append(out, e.text...)
		pos = e.end
	}
	out = append(out, src[pos:]...)
	return out
}

type inliner struct {
	pk          *packages.Package
	newFuncs    map[string]bool
	newClosures map[string]map[string]bool
	counter     *int
	res         *NormResult
	voc         *Vocab
	rel         string
	// imports (name -> path) the text being inlined needs in the caller's file; collected per call, emitted per file
	needImports map[string]string
}

// callee is what gets inlined: a declared function / method or a closure literal.
type calleeInfo struct {
	name   string
	typ    *ast.FuncType
	body   *ast.BlockStmt
	recv   *ast.FieldList // methods
	node   ast.Node       // FuncDecl or FuncLit
	file   *ast.File
	obj    types.Object
	isDecl bool
	// closures: once every call is inlined the variable would be unused, so `_ = name` is added after its definition
	keepAfter token.Pos
	varName   string
	// the body defers calls: it can only stand where the caller's own function ends right after the call
	hasDefer bool
}

func (in *inliner) fileOf(pos token.Pos) (*ast.File, string) {
	for i, f := range in.pk.Syntax {
		if f.FileStart <= pos && pos <= f.FileEnd {
			return f, in.pk.CompiledGoFiles[i]
		}
	}
	return nil, ""
}

// src returns the current text of the file containing pos.
func (in *inliner) srcOf(fname string) []byte {
	if b, ok := in.res.Overlay[fname]; ok {
		return b
	}
	b, _ := os.ReadFile(fname)
	return b
}

func (in *inliner) offset(pos token.Pos) int {
	return in.pk.Fset.PositionFor(pos, false).Offset
}

func (in *inliner) text(n ast.Node) string {
	_, fname := in.fileOf(n.Pos())
	src := in.srcOf(fname)
	a, b := in.offset(n.Pos()), in.offset(n.End())
	if a < 0 || b > len(src) || a > b {
		return ""
	}
	return string(src[a:b])
}

func (in *inliner) lineDirective(pos token.Pos) string {
	p := in.pk.Fset.PositionFor(pos, true)
	return fmt.Sprintf("/*line %s:%d:%d*/", p.Filename, p.Line, p.Column)
}

// declOf finds the declaration of a package-level function object.
func (in *inliner) declOf(fn *types.Func) *calleeInfo {
	for _, f := range in.pk.Syntax {
		for _, d := range f.Decls {
			fd, ok := d.(*ast.FuncDecl)
			if !ok || in.pk.TypesInfo.Defs[fd.Name] != fn {
				continue
			}
			if fd.Body == nil {
				return nil
			}
			return &calleeInfo{name: declName(fd), typ: fd.Type, body: fd.Body, recv: fd.Recv, node: fd, file: f, obj: fn, isDecl: true}
		}
	}
	return nil
}

// enclosingDecl returns the top-level function declaration containing pos.
func (in *inliner) enclosingDecl(pos token.Pos) *ast.FuncDecl {
	f, _ := in.fileOf(pos)
	if f == nil {
		return nil
	}
	for _, d := range f.Decls {
		if fd, ok := d.(*ast.FuncDecl); ok && fd.Pos() <= pos && pos <= fd.End() {
			return fd
		}
	}
	return nil
}

// closureOf: v is a variable of a top-level function that holds one function literal, assigned once and never
// address-taken or reassigned; the variable is new with respect to the vocabulary.
func (in *inliner) closureOf(v *types.Var) *calleeInfo {
	fd := in.enclosingDecl(v.Pos())
	if fd == nil || fd.Body == nil {
		return nil
	}
	if !in.newClosures[declName(fd)][v.Name()] {
		// a closure variable that arrived with an inlined helper (a function-valued parameter turned local): new unless
		// the reference tree has a closure of that name in this function, or the function itself is outside the vocabulary
		if in.voc == nil {
			return nil
		}
		fnKnown, known := false, false
		for _, n := range in.voc.Funcs[in.rel] {
			if n == declName(fd) {
				fnKnown = true
			}
		}
		for _, n := range in.voc.Closures[in.rel][declName(fd)] {
			if n == v.Name() {
				known = true
			}
		}
		if !fnKnown || known {
			return nil
		}
	}
	info := in.pk.TypesInfo
	var lit *ast.FuncLit
	ok := true
	viaAlias := false
	nAssign := 0
	ast.Inspect(fd.Body, func(n ast.Node) bool {
		switch x := n.(type) {
		case *ast.AssignStmt:
			for i, lh := range x.Lhs {
				id, isID := lh.(*ast.Ident)
				if !isID {
					continue
				}
				if info.Defs[id] == v || info.Uses[id] == v {
					nAssign++
					if len(x.Lhs) == len(x.Rhs) {
						if l, isL := x.Rhs[i].(*ast.FuncLit); isL && info.Defs[id] == v {
							lit = l
							continue
						}
						// `keep := inlN_a1` where inlN_a1 is itself a variable that holds one function literal
						if rid, isID := x.Rhs[i].(*ast.Ident); isID && info.Defs[id] == v {
							if rv, isVar := info.Uses[rid].(*types.Var); isVar && rv != v && strings.HasPrefix(rv.Name(), "inl") {
								if l := in.singleLit(fd, rv); l != nil {
									lit = l
									viaAlias = true
									continue
								}
							}
						}
					}
					ok = false
				}
			}
		case *ast.ValueSpec:
			for i, id := range x.Names {
				if info.Defs[id] == v {
					nAssign++
					if i < len(x.Values) {
						if l, isL := x.Values[i].(*ast.FuncLit); isL {
							lit = l
							continue
						}
					}
					ok = false
				}
			}
		case *ast.UnaryExpr:
			if x.Op == token.AND {
				if id, isID := x.X.(*ast.Ident); isID && info.Uses[id] == v {
					ok = false
				}
			}
		}
		return true
	})
	if !ok || lit == nil || nAssign != 1 {
		return nil
	}
	f, _ := in.fileOf(lit.Pos())
	ci := &calleeInfo{name: declName(fd) + "$" + v.Name(), typ: lit.Type, body: lit.Body, node: lit, file: f, obj: v, keepAfter: lit.End(), varName: v.Name()}
	if viaAlias {
		ci.keepAfter = token.NoPos // a parameter turned local: it stays used by the `_ = p` line of its block
	}
	return ci
}

// singleLit: the function literal a variable of fd is declared with (`var x = func…`), if that is its only assignment.
func (in *inliner) singleLit(fd *ast.FuncDecl, v *types.Var) *ast.FuncLit {
	info := in.pk.TypesInfo
	var lit *ast.FuncLit
	n := 0
	ast.Inspect(fd.Body, func(nd ast.Node) bool {
		switch x := nd.(type) {
		case *ast.ValueSpec:
			for i, id := range x.Names {
				if info.Defs[id] == v {
					n++
					if i < len(x.Values) {
						lit, _ = x.Values[i].(*ast.FuncLit)
					}
				}
			}
		case *ast.AssignStmt:
			for _, lh := range x.Lhs {
				if id, ok := lh.(*ast.Ident); ok && (info.Defs[id] == v || info.Uses[id] == v) {
					n++
				}
			}
		case *ast.UnaryExpr:
			if id, ok := x.X.(*ast.Ident); ok && x.Op == token.AND && info.Uses[id] == v {
				n += 2
			}
		}
		return true
	})
	if n != 1 {
		return nil
	}
	return lit
}

// resolve returns the callee of call if it is a new helper of this package.
func (in *inliner) resolve(call *ast.CallExpr) (*calleeInfo, ast.Expr) {
	info := in.pk.TypesInfo
	fun0 := call.Fun
	switch ix := fun0.(type) {
	case *ast.IndexExpr:
		fun0 = ix.X // f[T](…)
	case *ast.IndexListExpr:
		fun0 = ix.X
	}
	switch fun := fun0.(type) {
	case *ast.FuncLit:
		// an immediately invoked function literal: `x, err := func() (T, error) { … }()`
		fd := in.enclosingDecl(fun.Pos())
		if fd == nil || fd.Body == nil || in.voc == nil || countIIFEs(fd.Body) <= in.voc.IIFEs[in.rel+"|"+declName(fd)] {
			return nil, nil
		}
		f, _ := in.fileOf(fun.Pos())
		return &calleeInfo{name: declName(fd) + "$literal", typ: fun.Type, body: fun.Body, node: fun, file: f, obj: nil}, nil
	case *ast.Ident:
		switch o := info.Uses[fun].(type) {
		case *types.Func:
			if o.Pkg() != in.pk.Types || !in.newFuncs[o.Name()] {
				return nil, nil
			}
			return in.declOf(o), nil
		case *types.Var:
			if o.Pkg() != in.pk.Types || o.IsField() {
				return nil, nil
			}
			return in.closureOf(o), nil
		}
	case *ast.SelectorExpr:
		sel := info.Selections[fun]
		if sel == nil || sel.Kind() != types.MethodVal || len(sel.Index()) != 1 {
			return nil, nil
		}
		o, ok := sel.Obj().(*types.Func)
		if !ok || o.Pkg() != in.pk.Types {
			return nil, nil
		}
		c := in.declOf(o)
		if c == nil || !in.newFuncs[c.name] {
			return nil, nil
		}
		return c, fun.X
	}
	return nil, nil
}

// eligible checks the callee's own shape.
func (in *inliner) eligible(c *calleeInfo) string {
	hasDefer := false
	defer func() { c.hasDefer = hasDefer }()
	if c.typ.TypeParams != nil && len(c.typ.TypeParams.List) > 0 && (c.recv != nil || !c.isDecl) {
		return "type parameters"
	}
	if c.recv != nil && len(c.recv.List) == 1 {
		t := c.recv.List[0].Type
		if st, ok := t.(*ast.StarExpr); ok {
			t = st.X
		}
		switch t.(type) {
		case *ast.IndexExpr, *ast.IndexListExpr:
			return "generic receiver"
		}
	}
	reason := ""
	info := in.pk.TypesInfo
	ast.Inspect(c.body, func(n ast.Node) bool {
		if reason != "" {
			return false
		}
		switch x := n.(type) {
		case *ast.DeferStmt:
			hasDefer = true
		case *ast.BranchStmt:
			if x.Tok == token.GOTO {
				reason = "goto"
			}
		case *ast.Ident:
			if o := info.Uses[x]; o != nil {
				if o == c.obj && c.obj != nil {
					reason = "self reference"
				}
				if b, ok := o.(*types.Builtin); ok && b.Name() == "recover" {
					reason = "recover"
				}
			}
		}
		return true
	})
	if reason != "" {
		return reason
	}
	// a bare return needs named, non-blank results
	nres := 0
	named := true
	if c.typ.Results != nil {
		for _, f := range c.typ.Results.List {
			if len(f.Names) == 0 {
				nres++
				named = false
			}
			for _, n := range f.Names {
				nres++
				if n.Name == "_" {
					named = false
				}
			}
		}
	}
	bare := false
	walkNoLit(c.body, func(n ast.Node) {
		if r, ok := n.(*ast.ReturnStmt); ok && len(r.Results) == 0 && nres > 0 {
			bare = true
		}
	})
	if bare && !named {
		return "bare return with unnamed results"
	}
	return ""
}

// walkNoLit visits the nodes below n without entering function literals.
func walkNoLit(n ast.Node, f func(ast.Node)) {
	ast.Inspect(n, func(x ast.Node) bool {
		if x == nil {
			return false
		}
		if _, ok := x.(*ast.FuncLit); ok && x != n {
			return false
		}
		f(x)
		return true
	})
}

// sameOutside: every identifier below the given nodes that refers to an object declared outside the callee resolves
// to the same object at the call site.
func (in *inliner) sameOutside(c *calleeInfo, call *ast.CallExpr, nodes ...ast.Node) string {
	info := in.pk.TypesInfo
	scope := in.pk.Types.Scope().Innermost(call.Pos())
	if scope == nil {
		return "no scope at the call"
	}
	reason := ""
	for _, root := range nodes {
		if root == nil {
			continue
		}
		selNames := map[*ast.Ident]bool{}
		ast.Inspect(root, func(n ast.Node) bool {
			if se, ok := n.(*ast.SelectorExpr); ok {
				selNames[se.Sel] = true
			}
			return true
		})
		ast.Inspect(root, func(n ast.Node) bool {
			id, ok := n.(*ast.Ident)
			if !ok || reason != "" || id.Name == "_" {
				return true
			}
			o := info.Uses[id]
			if o == nil {
				return true
			}
			if selNames[id] {
				return true // field / method / qualified name: resolved through its operand
			}
			if v, isV := o.(*types.Var); isV && v.IsField() {
				return true // key of a struct literal
			}
			if o.Pos().IsValid() && c.node.Pos() <= o.Pos() && o.Pos() <= c.node.End() {
				return true // local to the callee
			}
			_, at := scope.LookupParent(id.Name, call.Pos())
			if at == nil {
				// a package the callee's file imports and the caller's does not: the import is added to the caller's
				// file (the name is free there, or LookupParent would have found something)
				if pn, isPkg := o.(*types.PkgName); isPkg {
					if in.needImports == nil {
						in.needImports = map[string]string{}
					}
					in.needImports[pn.Name()] = pn.Imported().Path()
					return true
				}
				reason = "identifier " + id.Name + " is not visible at the call"
				return true
			}
			if at == o {
				return true
			}
			if p1, ok1 := o.(*types.PkgName); ok1 {
				if p2, ok2 := at.(*types.PkgName); ok2 && p1.Imported().Path() == p2.Imported().Path() {
					return true
				}
			}
			reason = "identifier " + id.Name + " means something else at the call"
			return true
		})
	}
	return reason
}

// host finds the statement before which the inlined body goes. wrap: the host is an else branch and needs braces.
func hostOf(call *ast.CallExpr, parents map[ast.Node]ast.Node) (s0 ast.Stmt, host ast.Stmt, wrap bool, reason string) {
	var n ast.Node = call
	for {
		p := parents[n]
		if p == nil {
			return nil, nil, false, "no enclosing statement"
		}
		if _, isLit := p.(*ast.FuncLit); isLit {
			return nil, nil, false, "no enclosing statement"
		}
		if st, ok := p.(ast.Stmt); ok {
			s0 = st
			break
		}
		n = p
	}
	inList := func(st ast.Stmt) (ast.Stmt, bool, string) {
		for {
			p := parents[st]
			switch x := p.(type) {
			case *ast.BlockStmt, *ast.CaseClause, *ast.CommClause:
				if cc, isCC := x.(*ast.CommClause); isCC && cc.Comm == st {
					return nil, false, "communication clause"
				}
				return st, false, ""
			case *ast.LabeledStmt:
				st = x
				continue
			case *ast.IfStmt:
				if x.Else == st {
					if _, isIf := st.(*ast.IfStmt); isIf {
						return st, true, ""
					}
				}
				return nil, false, "not in a statement list"
			default:
				return nil, false, "not in a statement list"
			}
		}
	}
	switch x := s0.(type) {
	case *ast.ExprStmt, *ast.AssignStmt, *ast.ReturnStmt, *ast.DeclStmt, *ast.SendStmt:
		p := parents[s0]
		switch y := p.(type) {
		case *ast.IfStmt:
			if y.Init == s0 {
				h, w, r := inList(y)
				return s0, h, w, r
			}
		case *ast.SwitchStmt:
			if y.Init == s0 {
				h, w, r := inList(y)
				return s0, h, w, r
			}
		case *ast.TypeSwitchStmt:
			if y.Init == s0 || (y.Assign == s0 && y.Init == nil) {
				h, w, r := inList(y)
				return s0, h, w, r
			}
		case *ast.ForStmt:
			if y.Init == s0 {
				h, w, r := inList(y)
				return s0, h, w, r
			}
			return nil, nil, false, "loop header"
		}
		h, w, r := inList(s0)
		return s0, h, w, r
	case *ast.IfStmt:
		if x.Init != nil {
			return nil, nil, false, "if with init statement"
		}
		h, w, r := inList(s0)
		return s0, h, w, r
	case *ast.SwitchStmt:
		if x.Init != nil {
			return nil, nil, false, "switch with init statement"
		}
		h, w, r := inList(s0)
		return s0, h, w, r
	case *ast.RangeStmt:
		h, w, r := inList(s0)
		return s0, h, w, r
	}
	return nil, nil, false, fmt.Sprintf("statement kind %T", s0)
}

// firstEvaluated: call is the first call evaluated among the operand expressions, unconditionally.
func (in *inliner) firstEvaluated(exprs []ast.Expr, call *ast.CallExpr) bool {
	info := in.pk.TypesInfo
	found, bad := false, false
	pure := func(c *ast.CallExpr) bool {
		if tv, ok := info.Types[c.Fun]; ok && tv.IsType() {
			return true
		}
		if id, ok := c.Fun.(*ast.Ident); ok {
			if b, isB := info.Uses[id].(*types.Builtin); isB {
				switch b.Name() {
				case "len", "cap", "new", "make":
					return true
				}
			}
		}
		return false
	}
	var walk func(e ast.Expr, cond bool)
	walk = func(e ast.Expr, cond bool) {
		if e == nil || found || bad {
			return
		}
		if e == ast.Expr(call) {
			if cond {
				bad = true
			}
			found = true
			return
		}
		switch x := e.(type) {
		case *ast.BinaryExpr:
			walk(x.X, cond)
			if x.Op == token.LAND || x.Op == token.LOR {
				walk(x.Y, true)
			} else {
				walk(x.Y, cond)
			}
		case *ast.CallExpr:
			walk(x.Fun, cond)
			for _, a := range x.Args {
				walk(a, cond)
			}
			if !found && !pure(x) {
				bad = true
			}
		case *ast.UnaryExpr:
			walk(x.X, cond)
			if x.Op == token.ARROW && !found {
				bad = true
			}
		case *ast.ParenExpr:
			walk(x.X, cond)
		case *ast.StarExpr:
			walk(x.X, cond)
		case *ast.SelectorExpr:
			walk(x.X, cond)
		case *ast.IndexExpr:
			walk(x.X, cond)
			walk(x.Index, cond)
		case *ast.SliceExpr:
			walk(x.X, cond)
			walk(x.Low, cond)
			walk(x.High, cond)
			walk(x.Max, cond)
		case *ast.TypeAssertExpr:
			walk(x.X, cond)
		case *ast.CompositeLit:
			for _, el := range x.Elts {
				walk(el, cond)
			}
		case *ast.KeyValueExpr:
			walk(x.Key, cond)
			walk(x.Value, cond)
		}
	}
	for _, e := range exprs {
		walk(e, false)
	}
	return found && !bad
}

func operandExprs(s ast.Stmt) []ast.Expr {
	switch x := s.(type) {
	case *ast.ExprStmt:
		return []ast.Expr{x.X}
	case *ast.AssignStmt:
		var out []ast.Expr
		if x.Tok != token.DEFINE {
			out = append(out, x.Lhs...)
		}
		return append(out, x.Rhs...)
	case *ast.ReturnStmt:
		return x.Results
	case *ast.SendStmt:
		return []ast.Expr{x.Chan, x.Value}
	case *ast.DeclStmt:
		gd, ok := x.Decl.(*ast.GenDecl)
		if !ok || gd.Tok != token.VAR || len(gd.Specs) != 1 {
			return nil
		}
		return gd.Specs[0].(*ast.ValueSpec).Values
	case *ast.IfStmt:
		return []ast.Expr{x.Cond}
	case *ast.SwitchStmt:
		if x.Tag == nil {
			return nil
		}
		return []ast.Expr{x.Tag}
	case *ast.RangeStmt:
		return []ast.Expr{x.X}
	}
	return nil
}

// fileEdits computes the inlining edits of one file (at most one call per statement per round).
func (in *inliner) fileEdits(f *ast.File, fname string, src []byte) []textEdit {
	_ = fname
	parents := map[ast.Node]ast.Node{}
	var stack []ast.Node
	ast.Inspect(f, func(n ast.Node) bool {
		if n == nil {
			stack = stack[:len(stack)-1]
			return false
		}
		if len(stack) > 0 {
			parents[n] = stack[len(stack)-1]
		}
		stack = append(stack, n)
		return true
	})
	var edits []textEdit
	// a call of a new helper in a loop condition: `for COND { … }` is `for { if !(COND) { break }; … }` (the post
	// statement, if any, still runs before the test); the call then stands in an ordinary statement
	ast.Inspect(f, func(n ast.Node) bool {
		fs, ok := n.(*ast.ForStmt)
		if !ok || fs.Cond == nil || fs.Body == nil {
			return true
		}
		has := false
		ast.Inspect(fs.Cond, func(x ast.Node) bool {
			if c, isC := x.(*ast.CallExpr); isC {
				if ci, _ := in.resolve(c); ci != nil && in.eligible(ci) == "" {
					has = true
				}
			}
			return !has
		})
		if !has {
			return true
		}
		cond := in.text(fs.Cond)
		if cond == "" {
			return true
		}
		edits = append(edits, textEdit{off: in.offset(fs.Cond.Pos()), end: in.offset(fs.Cond.End()), text: ""})
		off := in.offset(fs.Body.Lbrace) + 1
		edits = append(edits, textEdit{off: off, end: off, text: " if !(" + cond + ") { break }" + in.lineDirective(fs.Body.Lbrace+1)})
		where := in.pk.Fset.PositionFor(fs.Pos(), true)
		in.res.Inlined = append(in.res.Inlined, fmt.Sprintf("%s: loop condition moved into the body (%s:%d)", in.rel, filepath.Base(where.Filename), where.Line))
		return true
	})
	if len(edits) > 0 {
		return edits
	}
	usedHost := map[ast.Stmt]bool{}
	kept := map[types.Object]bool{}
	addedImports := map[string]string{}
	var taken [][2]token.Pos
	ast.Inspect(f, func(n ast.Node) bool {
		call, ok := n.(*ast.CallExpr)
		if !ok {
			return true
		}
		for _, t := range taken {
			if t[0] <= call.Pos() && call.End() <= t[1] {
				return true
			}
		}
		c, recvX := in.resolve(call)
		if c == nil {
			return true
		}
		where := in.pk.Fset.PositionFor(call.Pos(), true)
		refuse := func(why string) {
			in.res.Refused = append(in.res.Refused, fmt.Sprintf("%s at %s:%d: %s", c.name, filepath.Base(where.Filename), where.Line, why))
		}
		if c.node.Pos() <= call.Pos() && call.End() <= c.node.End() {
			return true // inside the helper itself
		}
		if why := in.eligible(c); why != "" {
			refuse(why)
			return true
		}
		s0, host, wrap, why := hostOf(call, parents)
		if why != "" {
			refuse(why)
			return true
		}
		if usedHost[host] || usedHost[s0] {
			return true // next round
		}
		if !in.firstEvaluated(operandExprs(s0), call) {
			refuse("not the first call evaluated in its statement")
			return true
		}
		if call.Ellipsis.IsValid() && (c.typ.Params == nil || !isVariadic(c.typ)) {
			refuse("spread call of a non-variadic function")
			return true
		}
		// (the type expressions of the signature are checked where their text is actually emitted)
		in.needImports = nil
		if why := in.sameOutside(c, call, c.body); why != "" {
			refuse(why)
			return true
		}
		tail := in.isTail(c, call, s0, parents)
		if c.hasDefer {
			// deferred calls of the callee run when it returns; inlined, they run when the caller returns — the same
			// moment only if the call is the last thing the caller does
			if why := lastInFunction(host, s0, call, parents, tail); why != "" {
				refuse("defer: " + why)
				return true
			}
		}
		txt, results, why := in.expand(c, call, recvX, tail)
		if why != "" {
			refuse(why)
			return true
		}
		usedHost[host] = true
		usedHost[s0] = true
		for name, path := range in.needImports {
			if addedImports[name] == "" {
				addedImports[name] = path
				off := in.offset(f.Name.End())
				edits = append(edits, textEdit{off: off, end: off, text: fmt.Sprintf("; import %s %q", name, path), prio: 3})
			}
		}
		if c.keepAfter.IsValid() && !kept[c.obj] {
			kept[c.obj] = true
			if _, kf := in.fileOf(c.keepAfter); kf == fname {
				off := in.offset(c.keepAfter)
				marker := "; _ = " + c.varName + " /*inl-keep*/"
				if !strings.Contains(string(src[off:min(len(src), off+len(marker)+2)]), "/*inl-keep*/") {
					edits = append(edits, textEdit{off: off, end: off, text: marker, prio: 2})
				}
			}
		}
		taken = append(taken, [2]token.Pos{call.Pos(), call.End()})
		if tail {
			// `return h(x)`: the statement becomes the callee's body, whose returns now return from the caller
			taken[len(taken)-1] = [2]token.Pos{s0.Pos(), s0.End()}
			edits = append(edits, textEdit{off: in.offset(s0.Pos()), end: in.offset(s0.End()), text: txt + in.lineDirective(s0.End())})
			callerName := "?"
			if fd := in.enclosingDecl(call.Pos()); fd != nil {
				callerName = declName(fd)
			}
			in.res.Inlined = append(in.res.Inlined, fmt.Sprintf("%s.%s into %s (%s:%d, tail)", Rel(in.pk.PkgPath), c.name, callerName, filepath.Base(where.Filename), where.Line))
			return true
		}
		hostOff := in.offset(host.Pos())
		pre := txt + "\n" + in.lineDirective(host.Pos())
		if wrap {
			pre = "{\n" + pre
			edits = append(edits, textEdit{off: in.offset(host.End()), end: in.offset(host.End()), text: "\n}" + in.lineDirective(host.End())})
		}
		edits = append(edits, textEdit{off: hostOff, end: hostOff, text: pre})
		repl := strings.Join(results, ", ")
		if _, isExpr := s0.(*ast.ExprStmt); isExpr && parents[call] == ast.Node(s0) {
			repl = ""
			if _, isIf := parents[s0].(*ast.IfStmt); isIf {
				repl = "_ = 0"
			}
		} else if len(results) == 0 {
			// a call without results can only be an expression statement
			repl = ""
		}
		edits = append(edits, textEdit{off: in.offset(call.Pos()), end: in.offset(call.End()), text: repl + in.lineDirective(call.End()), prio: 1})
		callerName := "?"
		if fd := in.enclosingDecl(call.Pos()); fd != nil {
			callerName = declName(fd)
		}
		in.res.Inlined = append(in.res.Inlined, fmt.Sprintf("%s.%s into %s (%s:%d)", Rel(in.pk.PkgPath), c.name, callerName, filepath.Base(where.Filename), where.Line))
		return true
	})
	return edits
}

// instanceOf: for a call of a generic function, the instantiated signature and the type arguments (nil, nil otherwise).
func (in *inliner) instanceOf(call *ast.CallExpr) (*types.Signature, *types.TypeList) {
	fun := call.Fun
	switch ix := fun.(type) {
	case *ast.IndexExpr:
		fun = ix.X
	case *ast.IndexListExpr:
		fun = ix.X
	}
	id, ok := fun.(*ast.Ident)
	if !ok {
		return nil, nil
	}
	inst, ok := in.pk.TypesInfo.Instances[id]
	if !ok {
		return nil, nil
	}
	sig, _ := inst.Type.(*types.Signature)
	return sig, inst.TypeArgs
}

// typeText: source text for type t that is valid in file f of this package (imports that are missing are noted in
// needImports); ok=false when a package would be needed under a name that means something else in the file.
func (in *inliner) typeText(t types.Type, f *ast.File) (string, bool) {
	ok := true
	qual := func(p *types.Package) string {
		if p == in.pk.Types {
			return ""
		}
		for _, imp := range f.Imports {
			path := strings.Trim(imp.Path.Value, `"`)
			if path != p.Path() {
				continue
			}
			if imp.Name != nil {
				if imp.Name.Name == "_" || imp.Name.Name == "." {
					ok = false
				}
				return imp.Name.Name
			}
			return p.Name()
		}
		if in.needImports == nil {
			in.needImports = map[string]string{}
		}
		if prev, has := in.needImports[p.Name()]; has && prev != p.Path() {
			ok = false
		}
		in.needImports[p.Name()] = p.Path()
		return p.Name()
	}
	return types.TypeString(t, qual), ok
}

// isTail: the statement is `return h(...)`, h has unnamed results whose types are identical to those of the function
// the statement returns from — then h's own return statements can stand in the caller unchanged.
func (in *inliner) isTail(c *calleeInfo, call *ast.CallExpr, s0 ast.Stmt, parents map[ast.Node]ast.Node) bool {
	ret, ok := s0.(*ast.ReturnStmt)
	if !ok || len(ret.Results) != 1 || ret.Results[0] != ast.Expr(call) {
		return false
	}
	if _, inList := parents[s0].(*ast.BlockStmt); !inList {
		if _, inCase := parents[s0].(*ast.CaseClause); !inCase {
			return false
		}
	}
	if c.typ.Results != nil {
		for _, f := range c.typ.Results.List {
			if len(f.Names) > 0 {
				return false
			}
		}
	}
	info := in.pk.TypesInfo
	var calleeSig *types.Signature
	switch o := c.obj.(type) {
	case *types.Func:
		calleeSig, _ = o.Type().(*types.Signature)
	case *types.Var:
		calleeSig, _ = o.Type().Underlying().(*types.Signature)
	case nil:
		if fl, isLit := c.node.(*ast.FuncLit); isLit {
			calleeSig, _ = info.TypeOf(fl).(*types.Signature)
		}
	}
	if isig, _ := in.instanceOf(call); isig != nil {
		calleeSig = isig
	}
	if calleeSig == nil {
		return false
	}
	var outer *types.Signature
	for n := parents[s0]; n != nil; n = parents[n] {
		switch x := n.(type) {
		case *ast.FuncLit:
			outer, _ = info.TypeOf(x).(*types.Signature)
		case *ast.FuncDecl:
			if o := info.Defs[x.Name]; o != nil {
				outer, _ = o.Type().(*types.Signature)
			}
		}
		if outer != nil {
			break
		}
	}
	if outer == nil || outer.Results().Len() != calleeSig.Results().Len() {
		return false
	}
	for i := 0; i < outer.Results().Len(); i++ {
		if !types.Identical(outer.Results().At(i).Type(), calleeSig.Results().At(i).Type()) {
			return false
		}
	}
	// a return inside a nested literal of the callee is not the callee's: nothing to adapt; labels are renamed as usual
	return true
}

// lastInFunction: the statement holding the call is the final statement of its function's body, and the call is all
// it does (a bare call, or the tail form of return).
func lastInFunction(host, s0 ast.Stmt, call *ast.CallExpr, parents map[ast.Node]ast.Node, tail bool) string {
	if host != s0 {
		return "not a plain statement"
	}
	blk, ok := parents[s0].(*ast.BlockStmt)
	if !ok || len(blk.List) == 0 || blk.List[len(blk.List)-1] != s0 {
		return "not the last statement"
	}
	switch fn := parents[blk].(type) {
	case *ast.FuncLit:
		if fn.Body != blk {
			return "not the function body"
		}
	case *ast.FuncDecl:
		if fn.Body != blk {
			return "not the function body"
		}
	default:
		return "not the function body"
	}
	if es, isExpr := s0.(*ast.ExprStmt); isExpr && es.X == ast.Expr(call) {
		return ""
	}
	if _, isRet := s0.(*ast.ReturnStmt); isRet && tail {
		return ""
	}
	return "the call is not the whole statement"
}

func isVariadic(ft *ast.FuncType) bool {
	if ft.Params == nil || len(ft.Params.List) == 0 {
		return false
	}
	_, ok := ft.Params.List[len(ft.Params.List)-1].Type.(*ast.Ellipsis)
	return ok
}

// expand produces the inlined text of one call and the names that stand for its results.
func (in *inliner) expand(c *calleeInfo, call *ast.CallExpr, recvX ast.Expr, tail bool) (string, []string, string) {
	*in.counter++
	pfx := fmt.Sprintf("inl%d_", *in.counter)
	info := in.pk.TypesInfo
	var sb strings.Builder
	type param struct {
		name, typ string
		typExpr   ast.Node // where typ comes from (checked for capture when the text is emitted)
		elide     bool     // the argument already has exactly this type: no type text needed
	}
	// an argument whose own type is identical to the parameter's needs no declared type (constants and nil do)
	sameType := func(arg ast.Expr, want types.Type) bool {
		tv, ok := info.Types[arg]
		if !ok || tv.Value != nil || tv.IsNil() || tv.Type == nil || want == nil {
			return false
		}
		return types.Identical(tv.Type, want)
	}
	var sig *types.Signature
	switch o := c.obj.(type) {
	case *types.Func:
		sig, _ = o.Type().(*types.Signature)
	case *types.Var:
		sig, _ = o.Type().Underlying().(*types.Signature)
	case nil:
		if fl, isLit := c.node.(*ast.FuncLit); isLit {
			sig, _ = in.pk.TypesInfo.TypeOf(fl).(*types.Signature)
		}
	}
	// a generic function: everything is taken from the instance at this call; the type parameters become local aliases
	generic := c.typ.TypeParams != nil && len(c.typ.TypeParams.List) > 0
	var typeArgs *types.TypeList
	callerFile, _ := in.fileOf(call.Pos())
	if generic {
		isig, targs := in.instanceOf(call)
		if isig == nil || targs == nil || callerFile == nil {
			return "", nil, "no instance information for the generic call"
		}
		sig, typeArgs = isig, targs
	}
	var params []param
	var args []string
	// receiver
	if c.recv != nil && len(c.recv.List) == 1 {
		if recvX == nil {
			return "", nil, "method called without a receiver expression"
		}
		rf := c.recv.List[0]
		name := "_"
		if len(rf.Names) == 1 {
			name = rf.Names[0].Name
		}
		_, wantPtr := rf.Type.(*ast.StarExpr)
		xt := info.TypeOf(recvX)
		if xt == nil {
			return "", nil, "receiver type unknown"
		}
		if tv, ok := info.Types[recvX]; ok && tv.IsType() {
			return "", nil, "method expression"
		}
		_, havePtr := xt.Underlying().(*types.Pointer)
		rx := in.text(recvX)
		switch {
		case wantPtr && !havePtr:
			rx = "&" + rx
		case !wantPtr && havePtr:
			rx = "*(" + rx + ")"
		}
		params = append(params, param{name: name, typ: in.text(rf.Type), typExpr: rf.Type, elide: true})
		args = append(args, rx)
	}
	// parameters
	var plist []param
	variadic := isVariadic(c.typ)
	if c.typ.Params != nil {
		for _, fld := range c.typ.Params.List {
			tt := in.text(fld.Type)
			if el, ok := fld.Type.(*ast.Ellipsis); ok {
				tt = "[]" + in.text(el.Elt)
			}
			if len(fld.Names) == 0 {
				plist = append(plist, param{name: "_", typ: tt, typExpr: fld.Type})
			}
			for _, n := range fld.Names {
				plist = append(plist, param{name: n.Name, typ: tt, typExpr: fld.Type})
			}
		}
	}
	np := len(plist)
	if sig != nil && sig.Params().Len() == np && (!variadic || call.Ellipsis.IsValid()) && len(call.Args) == np {
		for i := range plist {
			plist[i].elide = sameType(call.Args[i], sig.Params().At(i).Type())
		}
	} else if sig != nil && sig.Params().Len() == np && variadic && len(call.Args) >= np-1 {
		for i := 0; i < np-1; i++ {
			plist[i].elide = sameType(call.Args[i], sig.Params().At(i).Type())
		}
	}
	switch {
	case !variadic:
		if len(call.Args) != np {
			return "", nil, "argument count differs from parameter count"
		}
		for _, a := range call.Args {
			args = append(args, in.text(a))
		}
	case call.Ellipsis.IsValid():
		if len(call.Args) != np {
			return "", nil, "argument count differs from parameter count"
		}
		for _, a := range call.Args {
			args = append(args, in.text(a))
		}
	default:
		if len(call.Args) < np-1 {
			return "", nil, "argument count differs from parameter count"
		}
		for _, a := range call.Args[:np-1] {
			args = append(args, in.text(a))
		}
		rest := call.Args[np-1:]
		if len(rest) == 0 {
			args = append(args, "nil")
		} else {
			var parts []string
			for _, a := range rest {
				parts = append(parts, in.text(a))
			}
			args = append(args, plist[np-1].typ+"{"+strings.Join(parts, ", ")+"}")
		}
	}
	params = append(params, plist...)
	declare := func(i int, p param) {
		if p.elide {
			fmt.Fprintf(&sb, "var %sa%d = %s\n", pfx, i, args[i])
		} else {
			fmt.Fprintf(&sb, "var %sa%d %s = %s\n", pfx, i, p.typ, args[i])
		}
	}
	for i, p := range params {
		if p.typ == "" || args[i] == "" {
			return "", nil, "could not take the source text of a parameter"
		}
		if !p.elide {
			if generic {
				// (receiver-less: parameter i of the list is parameter i of the signature)
				if i >= sig.Params().Len() {
					return "", nil, "parameter count differs from the instance"
				}
				tt, okT := in.typeText(sig.Params().At(i).Type(), callerFile)
				if !okT {
					return "", nil, "a type of the instance cannot be written in the caller's file"
				}
				params[i].typ = tt
				p = params[i]
			} else if why := in.sameOutside(c, call, p.typExpr); why != "" {
				return "", nil, why
			}
		}
		declare(i, p)
	}
	// results
	type result struct{ name, typ string }
	var rlist []result
	if c.typ.Results != nil {
		for _, fld := range c.typ.Results.List {
			tt := in.text(fld.Type)
			if len(fld.Names) == 0 {
				rlist = append(rlist, result{"", tt})
			}
			for _, n := range fld.Names {
				rlist = append(rlist, result{n.Name, tt})
			}
		}
	}
	var rnames []string
	if tail {
		sb.Reset()
		sb.WriteString("{\n")
		for i, p := range params {
			declare(i, p)
		}
	}
	if !tail && c.typ.Results != nil && !generic {
		if why := in.sameOutside(c, call, c.typ.Results); why != "" {
			return "", nil, why
		}
	}
	if generic && !tail {
		if len(rlist) != sig.Results().Len() {
			return "", nil, "result count differs from the instance"
		}
		for i := range rlist {
			tt, okT := in.typeText(sig.Results().At(i).Type(), callerFile)
			if !okT {
				return "", nil, "a type of the instance cannot be written in the caller's file"
			}
			rlist[i].typ = tt
		}
	}
	for i, r := range rlist {
		if tail {
			break
		}
		rn := fmt.Sprintf("%sr%d", pfx, i)
		rnames = append(rnames, rn)
		fmt.Fprintf(&sb, "var %s %s\n", rn, r.typ)
	}
	// body with edits
	bodyStart, bodyEnd := in.offset(c.body.Lbrace)+1, in.offset(c.body.Rbrace)
	_, cfile := in.fileOf(c.body.Pos())
	csrc := in.srcOf(cfile)
	if bodyStart > bodyEnd || bodyEnd > len(csrc) {
		return "", nil, "callee body out of range"
	}
	label := pfx + "L"
	var bedits []textEdit
	nReturns := 0
	labels := map[types.Object]bool{}
	walkNoLit(c.body, func(n ast.Node) {
		if ls, ok := n.(*ast.LabeledStmt); ok {
			if o := info.Defs[ls.Label]; o != nil {
				labels[o] = true
			}
		}
	})
	bad := ""
	walkNoLit(c.body, func(n ast.Node) {
		switch x := n.(type) {
		case *ast.ReturnStmt:
			if tail {
				return // the callee's return is the caller's
			}
			nReturns++
			var t string
			switch {
			case len(rlist) == 0:
				t = "break " + label
			case len(x.Results) == 0:
				var names []string
				for _, r := range rlist {
					names = append(names, r.name)
				}
				t = "{ " + strings.Join(rnames, ", ") + " = " + strings.Join(names, ", ") + "; break " + label + " }"
			default:
				var parts []string
				for _, e := range x.Results {
					parts = append(parts, in.text(e))
				}
				t = "{ " + strings.Join(rnames, ", ") + " = " + strings.Join(parts, ", ") + "; break " + label + " }"
			}
			bedits = append(bedits, textEdit{off: in.offset(x.Pos()) - bodyStart, end: in.offset(x.End()) - bodyStart, text: t})
		case *ast.LabeledStmt:
			bedits = append(bedits, textEdit{off: in.offset(x.Label.Pos()) - bodyStart, end: in.offset(x.Label.End()) - bodyStart, text: pfx + x.Label.Name})
		case *ast.BranchStmt:
			if x.Label != nil {
				if o := info.Uses[x.Label]; o != nil && labels[o] {
					bedits = append(bedits, textEdit{off: in.offset(x.Label.Pos()) - bodyStart, end: in.offset(x.Label.End()) - bodyStart, text: pfx + x.Label.Name})
				} else {
					bad = "branch to a label outside the callee"
				}
			}
		}
	})
	if bad != "" {
		return "", nil, bad
	}
	// returns nested in function literals keep their meaning; labels inside literals that are renamed above are
	// not reachable from there (labels are per function), so nothing else to do
	body := string(applyEdits([]byte(string(csrc[bodyStart:bodyEnd])), bedits))
	if nReturns > 0 {
		fmt.Fprintf(&sb, "%s: switch { default:\n", label)
	} else {
		sb.WriteString("{\n")
	}
	if generic {
		k := 0
		for _, fld := range c.typ.TypeParams.List {
			for _, n := range fld.Names {
				if k >= typeArgs.Len() {
					return "", nil, "type argument count differs"
				}
				tt, okT := in.typeText(typeArgs.At(k), callerFile)
				if !okT {
					return "", nil, "a type argument cannot be written in the caller's file"
				}
				if n.Name != "_" {
					fmt.Fprintf(&sb, "type %s = %s\n", n.Name, tt)
				}
				k++
			}
		}
	}
	var pn, an []string
	for i, p := range params {
		if p.name == "_" {
			fmt.Fprintf(&sb, "_ = %sa%d\n", pfx, i)
			continue
		}
		pn = append(pn, p.name)
		an = append(an, fmt.Sprintf("%sa%d", pfx, i))
	}
	if len(pn) > 0 {
		fmt.Fprintf(&sb, "%s := %s\n", strings.Join(pn, ", "), strings.Join(an, ", "))
		blanks := strings.TrimSuffix(strings.Repeat("_, ", len(pn)), ", ")
		fmt.Fprintf(&sb, "%s = %s\n", blanks, strings.Join(pn, ", "))
	}
	for _, r := range rlist {
		if r.name != "" && r.name != "_" {
			fmt.Fprintf(&sb, "var %s %s\n_ = %s\n", r.name, r.typ, r.name)
		}
	}
	// positions inside the inlined text are those of the helper's own source: every copy of an instruction reports the
	// same place, the place a reader would look at
	sb.WriteString(in.lineDirective(c.body.Lbrace + 1))
	sb.WriteString(body)
	sb.WriteString("\n}\n")
	if tail {
		sb.WriteString("}\n")
	}
	if len(rnames) > 0 {
		blanks := strings.TrimSuffix(strings.Repeat("_, ", len(rnames)), ", ")
		fmt.Fprintf(&sb, "%s = %s\n", blanks, strings.Join(rnames, ", "))
	}
	return sb.String(), rnames, ""
}

// noteDropped records the new functions of the package that nothing refers to any more.
func (in *inliner) noteDropped() {
	if len(in.newFuncs) == 0 {
		return
	}
	info := in.pk.TypesInfo
	used := map[types.Object]bool{}
	for id, o := range info.Uses {
		if fn, ok := o.(*types.Func); ok && fn.Pkg() == in.pk.Types {
			// a use inside the function's own declaration does not count
			if c := in.declOf(fn); c != nil && c.node.Pos() <= id.Pos() && id.Pos() <= c.node.End() {
				continue
			}
			used[o] = true
		}
	}
	for _, f := range in.pk.Syntax {
		for _, d := range f.Decls {
			fd, ok := d.(*ast.FuncDecl)
			if !ok || !in.newFuncs[declName(fd)] {
				continue
			}
			o := info.Defs[fd.Name]
			if o != nil && !used[o] && !fd.Name.IsExported() {
				in.res.Dropped[in.pk.PkgPath+"."+declName(fd)] = true
			}
		}
	}
}

// ---- unrolling of table-driven loops ------------------------------------------------------------------------------

// literalLen: the number of elements of the slice literal that x denotes at the loop — x is the literal itself, a
// local assigned exactly once from one and never address-taken, or an unexported package variable initialised by one
// and never assigned anywhere in the package. direct reports the first case.
func (in *inliner) literalLen(x ast.Expr, fd *ast.FuncDecl) (n int, direct bool, ok bool) {
	info := in.pk.TypesInfo
	count := func(cl *ast.CompositeLit) (int, bool) {
		if _, isSlice := info.TypeOf(cl).Underlying().(*types.Slice); !isSlice {
			return 0, false
		}
		for _, el := range cl.Elts {
			if _, isKV := el.(*ast.KeyValueExpr); isKV {
				return 0, false
			}
		}
		return len(cl.Elts), true
	}
	if cl, isCL := x.(*ast.CompositeLit); isCL {
		n, ok := count(cl)
		return n, true, ok
	}
	id, isID := x.(*ast.Ident)
	if !isID {
		return 0, false, false
	}
	v, isVar := info.Uses[id].(*types.Var)
	if !isVar || v.IsField() || v.Pkg() != in.pk.Types {
		return 0, false, false
	}
	var init *ast.CompositeLit
	nAssign := 0
	bad := false
	scan := func(root ast.Node) {
		ast.Inspect(root, func(nd ast.Node) bool {
			switch y := nd.(type) {
			case *ast.AssignStmt:
				for i, lh := range y.Lhs {
					lid, isL := lh.(*ast.Ident)
					if !isL || (info.Defs[lid] != v && info.Uses[lid] != v) {
						continue
					}
					nAssign++
					if len(y.Lhs) == len(y.Rhs) {
						if cl, isCL := y.Rhs[i].(*ast.CompositeLit); isCL {
							init = cl
							continue
						}
					}
					bad = true
				}
			case *ast.ValueSpec:
				for i, nm := range y.Names {
					if info.Defs[nm] != v {
						continue
					}
					nAssign++
					if i < len(y.Values) {
						if cl, isCL := y.Values[i].(*ast.CompositeLit); isCL {
							init = cl
							continue
						}
					}
					bad = true
				}
			case *ast.UnaryExpr:
				if y.Op == token.AND {
					if uid, isU := y.X.(*ast.Ident); isU && info.Uses[uid] == v {
						bad = true
					}
				}
			case *ast.IncDecStmt:
				if uid, isU := y.X.(*ast.Ident); isU && info.Uses[uid] == v {
					bad = true
				}
			}
			return true
		})
	}
	if v.Parent() == in.pk.Types.Scope() {
		if v.Exported() {
			return 0, false, false
		}
		for _, f := range in.pk.Syntax {
			scan(f)
		}
	} else {
		if fd == nil {
			return 0, false, false
		}
		scan(fd)
	}
	if bad || init == nil || nAssign != 1 {
		return 0, false, false
	}
	n, ok = count(init)
	return n, false, ok
}

// unrollEdits replaces range loops over small slice literals whose operand the reference tree does not know by one copy
// of the body per element.
func (in *inliner) unrollEdits(f *ast.File, fname string, src []byte) []textEdit {
	if in.voc == nil || len(in.voc.Ranges) == 0 {
		return nil
	}
	info := in.pk.TypesInfo
	var edits []textEdit
	var done [][2]token.Pos
	for _, d := range f.Decls {
		fd, ok := d.(*ast.FuncDecl)
		if !ok || fd.Body == nil {
			continue
		}
		fname2 := declName(fd)
		knownFn := false
		for _, n := range in.voc.Funcs[in.rel] {
			if n == fname2 {
				knownFn = true
			}
		}
		if !knownFn {
			continue // a helper outside the vocabulary: its loops are looked at where it is inlined
		}
		known := map[string]bool{}
		for _, x := range in.voc.Ranges[in.rel+"|"+fname2] {
			known[x] = true
		}
		parents := map[ast.Node]ast.Node{}
		var stack []ast.Node
		ast.Inspect(fd, func(n ast.Node) bool {
			if n == nil {
				stack = stack[:len(stack)-1]
				return false
			}
			if len(stack) > 0 {
				parents[n] = stack[len(stack)-1]
			}
			stack = append(stack, n)
			return true
		})
		ast.Inspect(fd.Body, func(nd ast.Node) bool {
			rs, isR := nd.(*ast.RangeStmt)
			if !isR || known[types.ExprString(rs.X)] {
				return true
			}
			for _, t := range done {
				if t[0] <= rs.Pos() && rs.End() <= t[1] {
					return true
				}
			}
			where := in.pk.Fset.PositionFor(rs.Pos(), true)
			refuse := func(why string) {
				in.res.Refused = append(in.res.Refused, fmt.Sprintf("unroll in %s at %s:%d: %s", fname2, filepath.Base(where.Filename), where.Line, why))
			}
			n, direct, ok := in.literalLen(rs.X, fd)
			if !ok {
				return true // not a loop over a literal: nothing to say
			}
			if n == 0 || n > 8 {
				refuse(fmt.Sprintf("%d elements", n))
				return true
			}
			if rs.Tok != token.DEFINE && (rs.Key != nil || rs.Value != nil) {
				refuse("loop variables are assigned, not declared")
				return true
			}
			var keyName, valName string
			if id, isID := rs.Key.(*ast.Ident); isID {
				keyName = id.Name
			} else if rs.Key != nil {
				refuse("key is not an identifier")
				return true
			}
			if id, isID := rs.Value.(*ast.Ident); isID {
				valName = id.Name
			} else if rs.Value != nil {
				refuse("value is not an identifier")
				return true
			}
			// the statement to replace: the loop, or its label
			var whole ast.Stmt = rs
			var ownLabel types.Object
			if ls, isL := parents[rs].(*ast.LabeledStmt); isL {
				whole = ls
				ownLabel = info.Defs[ls.Label]
			}
			switch parents[whole].(type) {
			case *ast.BlockStmt, *ast.CaseClause, *ast.CommClause:
			default:
				refuse("not in a statement list")
				return true
			}
			// body: what break / continue of this loop become, and what makes a copy impossible
			*in.counter++
			pfx := fmt.Sprintf("inl%d_", *in.counter)
			bad := ""
			type brk struct {
				off, end int
				cont     bool
			}
			var brks []brk
			bodyStart, bodyEnd := in.offset(rs.Body.Lbrace)+1, in.offset(rs.Body.Rbrace)
			var walk func(n ast.Node, inLoop, inBreakable bool)
			walk = func(n ast.Node, inLoop, inBreakable bool) {
				ast.Inspect(n, func(x ast.Node) bool {
					if x == nil || bad != "" {
						return false
					}
					if x == n {
						return true
					}
					switch y := x.(type) {
					case *ast.FuncLit:
						bad = "function literal in the body"
						return false
					case *ast.LabeledStmt:
						bad = "label in the body"
						return false
					case *ast.DeferStmt:
						bad = "defer in the body"
						return false
					case *ast.UnaryExpr:
						if y.Op == token.AND {
							if id, isID := y.X.(*ast.Ident); isID && (id.Name == keyName || id.Name == valName) && id.Name != "" {
								bad = "address of a loop variable"
							}
						}
					case *ast.ForStmt, *ast.RangeStmt:
						walk(y, true, true)
						return false
					case *ast.SwitchStmt, *ast.TypeSwitchStmt, *ast.SelectStmt:
						walk(y, inLoop, true)
						return false
					case *ast.BranchStmt:
						switch y.Tok {
						case token.GOTO:
							bad = "goto in the body"
						case token.BREAK, token.CONTINUE:
							mine := false
							if y.Label != nil {
								if ownLabel != nil && info.Uses[y.Label] == ownLabel {
									mine = true
								}
							} else if y.Tok == token.BREAK && !inBreakable {
								mine = true
							} else if y.Tok == token.CONTINUE && !inLoop {
								mine = true
							}
							if mine {
								brks = append(brks, brk{in.offset(y.Pos()) - bodyStart, in.offset(y.End()) - bodyStart, y.Tok == token.CONTINUE})
							}
						}
					}
					return true
				})
			}
			walk(rs.Body, false, false)
			if bad != "" {
				refuse(bad)
				return true
			}
			if bodyStart > bodyEnd || bodyEnd > len(src) {
				return true
			}
			usesBreak := false
			for _, b := range brks {
				if !b.cont {
					usesBreak = true
				}
			}
			var sb strings.Builder
			sb.WriteString("{\n")
			xs := in.text(rs.X)
			if direct {
				fmt.Fprintf(&sb, "%slit := %s\n", pfx, xs)
				xs = pfx + "lit"
			}
			if usesBreak {
				fmt.Fprintf(&sb, "%sU: switch { default:\n", pfx)
			}
			for k := 0; k < n; k++ {
				usesCont := false
				var be []textEdit
				for _, b := range brks {
					if b.cont {
						usesCont = true
						be = append(be, textEdit{off: b.off, end: b.end, text: fmt.Sprintf("break %sC%d", pfx, k)})
					} else {
						be = append(be, textEdit{off: b.off, end: b.end, text: "break " + pfx + "U"})
					}
				}
				body := string(applyEdits([]byte(string(src[bodyStart:bodyEnd])), be))
				if usesCont {
					fmt.Fprintf(&sb, "%sC%d: switch { default:\n", pfx, k)
				} else {
					sb.WriteString("{\n")
				}
				if keyName != "" && keyName != "_" {
					fmt.Fprintf(&sb, "%s := %d\n_ = %s\n", keyName, k, keyName)
				}
				if valName != "" && valName != "_" {
					fmt.Fprintf(&sb, "%s := %s[%d]\n_ = %s\n", valName, xs, k, valName)
				}
				sb.WriteString(body)
				sb.WriteString("\n}\n")
			}
			if usesBreak {
				sb.WriteString("}\n")
			}
			sb.WriteString("}")
			edits = append(edits, textEdit{off: in.offset(whole.Pos()), end: in.offset(whole.End()), text: sb.String() + in.lineDirective(whole.End())})
			done = append(done, [2]token.Pos{whole.Pos(), whole.End()})
			in.res.Inlined = append(in.res.Inlined, fmt.Sprintf("%s: loop over %s in %s unrolled %d times (%s:%d)", in.rel, types.ExprString(rs.X), fname2, n, filepath.Base(where.Filename), where.Line))
			return false
		})
	}
	_ = fname
	return edits
}

// ---- single-exit style: tail duplication --------------------------------------------------------------------------

// tailDupEdits: in a function that has fewer return statements than the reference tree, the final `return …` is copied
// to the end of every branch of the if / switch that immediately precedes it (recursively for branches that themselves
// end in an if / switch). The original return stays where it is, so nothing changes for paths that fall through.
func (in *inliner) tailDupEdits(f *ast.File, src []byte) []textEdit {
	if in.voc == nil || len(in.voc.Returns) == 0 {
		return nil
	}
	var edits []textEdit
	type unit struct {
		name string
		body *ast.BlockStmt
	}
	var units []unit
	for _, d := range f.Decls {
		fd, ok := d.(*ast.FuncDecl)
		if !ok || fd.Body == nil {
			continue
		}
		units = append(units, unit{declName(fd), fd.Body})
		for cn, lit := range closureLits(fd.Body) {
			units = append(units, unit{declName(fd) + "$" + cn, lit.Body})
		}
	}
	for _, u := range units {
		fdBody, fdName := u.body, u.name
		if len(fdBody.List) < 2 {
			continue
		}
		want, has := in.voc.Returns[in.rel+"|"+fdName]
		if !has || countReturns(fdBody) >= want {
			continue
		}
		last, isRet := fdBody.List[len(fdBody.List)-1].(*ast.ReturnStmt)
		if !isRet {
			continue
		}
		// the returned expressions must be plain (identifiers, literals, selectors): copying them earlier must not
		// move a call
		plain := true
		for _, e := range last.Results {
			ast.Inspect(e, func(n ast.Node) bool {
				switch n.(type) {
				case *ast.CallExpr, *ast.FuncLit, *ast.UnaryExpr:
					if u, isU := n.(*ast.UnaryExpr); isU && u.Op != token.ARROW {
						return true
					}
					plain = false
				}
				return true
			})
		}
		if !plain {
			continue
		}
		retText := in.text(last)
		if retText == "" {
			continue
		}
		before := len(edits)
		var dup func(st ast.Stmt)
		endsTerminating := func(list []ast.Stmt) bool {
			if len(list) == 0 {
				return false
			}
			switch x := list[len(list)-1].(type) {
			case *ast.ReturnStmt:
				return true
			case *ast.BranchStmt:
				return true
			case *ast.ExprStmt:
				if c, isC := x.X.(*ast.CallExpr); isC {
					if id, isID := c.Fun.(*ast.Ident); isID && id.Name == "panic" {
						return true
					}
				}
			}
			return false
		}
		appendTo := func(list []ast.Stmt, rbrace token.Pos) {
			if endsTerminating(list) {
				return
			}
			if len(list) > 0 {
				switch tail := list[len(list)-1].(type) {
				case *ast.IfStmt, *ast.SwitchStmt, *ast.TypeSwitchStmt:
					dup(tail.(ast.Stmt))
				}
			}
			off := in.offset(rbrace)
			edits = append(edits, textEdit{off: off, end: off, text: "\n" + retText + "\n" + in.lineDirective(rbrace)})
		}
		dup = func(st ast.Stmt) {
			switch x := st.(type) {
			case *ast.IfStmt:
				appendTo(x.Body.List, x.Body.Rbrace)
				switch e := x.Else.(type) {
				case *ast.BlockStmt:
					appendTo(e.List, e.Rbrace)
				case *ast.IfStmt:
					dup(e)
				}
			case *ast.SwitchStmt:
				for _, cc := range x.Body.List {
					cl := cc.(*ast.CaseClause)
					if len(cl.Body) > 0 {
						if br, isBr := cl.Body[len(cl.Body)-1].(*ast.BranchStmt); isBr && br.Tok == token.FALLTHROUGH {
							continue
						}
					}
					end := cl.End()
					if endsTerminating(cl.Body) {
						continue
					}
					if len(cl.Body) > 0 {
						switch tail := cl.Body[len(cl.Body)-1].(type) {
						case *ast.IfStmt, *ast.SwitchStmt:
							dup(tail.(ast.Stmt))
						}
					}
					off := in.offset(end)
					edits = append(edits, textEdit{off: off, end: off, text: "\n" + retText + "\n" + in.lineDirective(end)})
				}
			}
		}
		prev := fdBody.List[len(fdBody.List)-2]
		label := ""
		if ls, isL := prev.(*ast.LabeledStmt); isL {
			label = ls.Label.Name
			prev = ls.Stmt
		}
		switch lp := prev.(type) {
		case *ast.IfStmt, *ast.SwitchStmt:
			dup(prev)
		case *ast.ForStmt, *ast.RangeStmt:
			// a loop followed by the trailing return: a `break` out of that loop goes to the return and nowhere else
			var lbody *ast.BlockStmt
			if fs, isF := lp.(*ast.ForStmt); isF {
				lbody = fs.Body
			} else {
				lbody = lp.(*ast.RangeStmt).Body
			}
			var walk func(n ast.Node, depth int)
			walk = func(n ast.Node, depth int) {
				ast.Inspect(n, func(x ast.Node) bool {
					if x == nil || x == n {
						return true
					}
					switch y := x.(type) {
					case *ast.FuncLit:
						return false
					case *ast.ForStmt, *ast.RangeStmt, *ast.SwitchStmt, *ast.TypeSwitchStmt, *ast.SelectStmt:
						walk(y, depth+1)
						return false
					case *ast.BranchStmt:
						if y.Tok != token.BREAK {
							return true
						}
						if (y.Label == nil && depth == 0) || (y.Label != nil && label != "" && y.Label.Name == label) {
							edits = append(edits, textEdit{off: in.offset(y.Pos()), end: in.offset(y.End()), text: retText + in.lineDirective(y.End())})
						}
					}
					return true
				})
			}
			walk(lbody, 0)
		}
		if len(edits) > before {
			where := in.pk.Fset.PositionFor(last.Pos(), true)
			in.res.Inlined = append(in.res.Inlined, fmt.Sprintf("%s: trailing return of %s copied into %d branch(es) (%s:%d)", in.rel, fdName, len(edits)-before, filepath.Base(where.Filename), where.Line))
		}
	}
	_ = src
	return edits
}

// ---- renamed helpers: the old name back ------------------------------------------------------------------------------

// renameBackEdits: an unexported function that was only renamed (same signature; exactly one such function disappeared
// and exactly one appeared) gets its reference name back — in its declaration and at every use in the package — so that
// rules anchored at it and patterns naming it keep working. A plain function that became a method whose receiver is not
// used is turned back into the function (the receiver expression at call sites must be a plain identifier or selector).
func (in *inliner) renameBackEdits(f *ast.File, pairs map[string]string) []textEdit {
	if len(pairs) == 0 {
		return nil
	}
	info := in.pk.TypesInfo
	var edits []textEdit
	for newName, oldName := range pairs {
		plan := in.renamePlan(newName, oldName)
		if plan == nil {
			continue
		}
		obj := plan.obj
		// declaration (if in this file)
		for _, d := range f.Decls {
			fd, ok := d.(*ast.FuncDecl)
			if !ok || info.Defs[fd.Name] != obj {
				continue
			}
			if plan.dropRecv {
				edits = append(edits, textEdit{off: in.offset(fd.Recv.Pos()), end: in.offset(fd.Name.Pos()), text: ""})
			}
			edits = append(edits, textEdit{off: in.offset(fd.Name.Pos()), end: in.offset(fd.Name.End()), text: plan.oldBase, prio: 1})
		}
		// uses (in this file)
		ast.Inspect(f, func(n ast.Node) bool {
			switch x := n.(type) {
			case *ast.SelectorExpr:
				if info.Uses[x.Sel] == obj {
					if plan.dropRecv {
						edits = append(edits, textEdit{off: in.offset(x.Pos()), end: in.offset(x.End()), text: plan.oldBase})
					} else {
						edits = append(edits, textEdit{off: in.offset(x.Sel.Pos()), end: in.offset(x.Sel.End()), text: plan.oldBase})
					}
					return false
				}
			case *ast.Ident:
				if info.Uses[x] == obj {
					edits = append(edits, textEdit{off: in.offset(x.Pos()), end: in.offset(x.End()), text: plan.oldBase})
				}
			}
			return true
		})
	}
	if len(edits) > 0 {
		for newName, oldName := range pairs {
			note := fmt.Sprintf("%s: %s renamed back to %s", in.rel, newName, oldName)
			dup := false
			for _, l := range in.res.Inlined {
				if l == note {
					dup = true
				}
			}
			if !dup && in.renamePlan(newName, oldName) != nil {
				in.res.Inlined = append(in.res.Inlined, note)
			}
		}
	}
	return edits
}

type renamePlan struct {
	obj      *types.Func
	oldBase  string
	dropRecv bool
}

func (in *inliner) renamePlan(newName, oldName string) *renamePlan {
	info := in.pk.TypesInfo
	split := func(n string) (recv, base string) {
		if i := strings.Index(n, "."); i >= 0 {
			return n[:i], n[i+1:]
		}
		return "", n
	}
	newRecv, newBase := split(newName)
	oldRecv, oldBase := split(oldName)
	if ast.IsExported(newBase) || ast.IsExported(oldBase) {
		return nil
	}
	var fd *ast.FuncDecl
	for _, f := range in.pk.Syntax {
		for _, d := range f.Decls {
			if x, ok := d.(*ast.FuncDecl); ok && declName(x) == newName {
				fd = x
			}
		}
	}
	if fd == nil {
		return nil
	}
	obj, _ := info.Defs[fd.Name].(*types.Func)
	if obj == nil {
		return nil
	}
	plan := &renamePlan{obj: obj, oldBase: oldBase}
	switch {
	case newRecv == oldRecv:
		// a plain rename
	case oldRecv == "" && newRecv != "":
		// function -> method: only when the receiver is not used and every use is a call on a plain receiver expression
		if fd.Recv == nil || len(fd.Recv.List) != 1 {
			return nil
		}
		if len(fd.Recv.List[0].Names) == 1 && fd.Recv.List[0].Names[0].Name != "_" {
			ro := info.Defs[fd.Recv.List[0].Names[0]]
			used := false
			ast.Inspect(fd.Body, func(n ast.Node) bool {
				if id, ok := n.(*ast.Ident); ok && ro != nil && info.Uses[id] == ro {
					used = true
				}
				return true
			})
			if used {
				return nil
			}
		}
		plan.dropRecv = true
	default:
		return nil
	}
	// the old name must be free: no package-level object of that name, and nothing local shadows it at a use
	if oldRecv == "" && in.pk.Types.Scope().Lookup(oldBase) != nil {
		return nil
	}
	ok := true
	for _, f := range in.pk.Syntax {
		parents := map[ast.Node]ast.Node{}
		var stack []ast.Node
		ast.Inspect(f, func(n ast.Node) bool {
			if n == nil {
				stack = stack[:len(stack)-1]
				return false
			}
			if len(stack) > 0 {
				parents[n] = stack[len(stack)-1]
			}
			stack = append(stack, n)
			return true
		})
		ast.Inspect(f, func(n ast.Node) bool {
			id, isID := n.(*ast.Ident)
			if !isID || info.Uses[id] != obj {
				return true
			}
			if sc := in.pk.Types.Scope().Innermost(id.Pos()); sc != nil && oldRecv == "" {
				if _, at := sc.LookupParent(oldBase, id.Pos()); at != nil {
					ok = false
				}
			}
			if plan.dropRecv {
				se, isSel := parents[id].(*ast.SelectorExpr)
				if !isSel || se.Sel != id {
					ok = false
					return true
				}
				call, isCall := parents[se].(*ast.CallExpr)
				if !isCall || call.Fun != ast.Expr(se) {
					ok = false // a method value: cannot be turned back
				}
				switch x := se.X.(type) {
				case *ast.Ident:
				case *ast.SelectorExpr:
					if _, plain := x.X.(*ast.Ident); !plain {
						ok = false
					}
				default:
					ok = false
				}
			}
			return true
		})
	}
	if !ok {
		return nil
	}
	return plan
}

func sameStrings(a, b []string) bool {
	if len(a) != len(b) {
		return false
	}
	for i := range a {
		if a[i] != b[i] {
			return false
		}
	}
	return true
}

// samePermutation: b is a re-ordering of a (distinct names).
func samePermutation(a, b []string) bool {
	if len(a) != len(b) {
		return false
	}
	seen := map[string]int{}
	for _, x := range a {
		seen[x]++
	}
	for _, x := range b {
		if seen[x] != 1 {
			return false
		}
		seen[x]--
	}
	return true
}

// paramOrderEdits: an unexported function whose parameters are those of the reference tree in another order gets the
// reference order back, at its declaration and at every call in this file. Refused (nothing is changed for that
// function) when it is used other than by being called, or a call spreads a slice.
func (in *inliner) paramOrderEdits(f *ast.File) []textEdit {
	if in.voc == nil || len(in.voc.Params) == 0 {
		return nil
	}
	info := in.pk.TypesInfo
	type plan struct {
		fd   *ast.FuncDecl
		perm []int // perm[k] = index in the current order of the k-th parameter of the reference order
	}
	plans := map[types.Object]*plan{}
	for _, file := range in.pk.Syntax {
		for _, d := range file.Decls {
			fd, ok := d.(*ast.FuncDecl)
			if !ok || fd.Body == nil || fd.Name.IsExported() {
				continue
			}
			want, has := in.voc.Params[in.rel+"|"+declName(fd)]
			have := paramNames(fd.Type)
			if !has || have == nil || sameStrings(have, want) || !samePermutation(have, want) {
				continue
			}
			pos := map[string]int{}
			for i, n := range have {
				pos[n] = i
			}
			pl := &plan{fd: fd}
			for _, n := range want {
				pl.perm = append(pl.perm, pos[n])
			}
			if o := info.Defs[fd.Name]; o != nil {
				plans[o] = pl
			}
		}
	}
	if len(plans) == 0 {
		return nil
	}
	// every use must be the function of a call, in the whole package
	for _, file := range in.pk.Syntax {
		parents := map[ast.Node]ast.Node{}
		var stack []ast.Node
		ast.Inspect(file, func(n ast.Node) bool {
			if n == nil {
				stack = stack[:len(stack)-1]
				return false
			}
			if len(stack) > 0 {
				parents[n] = stack[len(stack)-1]
			}
			stack = append(stack, n)
			return true
		})
		ast.Inspect(file, func(n ast.Node) bool {
			id, ok := n.(*ast.Ident)
			if !ok {
				return true
			}
			o := info.Uses[id]
			if o == nil || plans[o] == nil {
				return true
			}
			var fun ast.Node = id
			if sel, isSel := parents[id].(*ast.SelectorExpr); isSel && sel.Sel == id {
				fun = sel
			}
			call, isCall := parents[fun].(*ast.CallExpr)
			if !isCall || call.Fun != fun || call.Ellipsis.IsValid() || len(call.Args) != len(plans[o].perm) {
				delete(plans, o)
			}
			return true
		})
	}
	var edits []textEdit
	for o, pl := range plans {
		// declaration (in this file)
		if file, _ := in.fileOf(pl.fd.Pos()); file == f {
			type pinfo struct{ name, typ string }
			var cur []pinfo
			for _, fld := range pl.fd.Type.Params.List {
				for _, n := range fld.Names {
					cur = append(cur, pinfo{n.Name, in.text(fld.Type)})
				}
			}
			var parts []string
			for _, k := range pl.perm {
				parts = append(parts, cur[k].name+" "+cur[k].typ)
			}
			lp, rp := pl.fd.Type.Params.Opening, pl.fd.Type.Params.Closing
			edits = append(edits, textEdit{off: in.offset(lp) + 1, end: in.offset(rp), text: strings.Join(parts, ", ")})
			where := in.pk.Fset.PositionFor(pl.fd.Pos(), true)
			in.res.Inlined = append(in.res.Inlined, fmt.Sprintf("%s: parameters of %s put back into the reference order (%s:%d)", in.rel, declName(pl.fd), filepath.Base(where.Filename), where.Line))
		}
		// calls in this file
		ast.Inspect(f, func(n ast.Node) bool {
			call, ok := n.(*ast.CallExpr)
			if !ok {
				return true
			}
			var id *ast.Ident
			switch fn := call.Fun.(type) {
			case *ast.Ident:
				id = fn
			case *ast.SelectorExpr:
				id = fn.Sel
			}
			if id == nil || info.Uses[id] != o || len(call.Args) != len(pl.perm) {
				return true
			}
			var parts []string
			for _, k := range pl.perm {
				parts = append(parts, in.text(call.Args[k]))
			}
			edits = append(edits, textEdit{off: in.offset(call.Lparen) + 1, end: in.offset(call.Rparen), text: strings.Join(parts, ", ") + in.lineDirective(call.Rparen)})
			return true
		})
	}
	return edits
}
