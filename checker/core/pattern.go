package core

import (
	"fmt"
	"strings"
	"unicode"
)

// A tiny pattern language over terms and facts, so that obligations can be
// written (and printed in the evidence) as text:
//
//	fact  := kind '(' term ')' | 'cmp(' term op term ')' | ('hit'|'miss'|'stored') '(' term ',' term ')'
//	term  := primary { '.' Field | '[' term ']' | '#' digit }
//	primary := '_' | '?'name | '$'name | "string" | number | nil | true | false
//	         | len '(' term ')' | err '(' term ')' | dotted.Name '(' [term {',' term}] [',' '...'] ')' | '<result>'
//
// A call name matches when it is a dot-boundary suffix of the callee's name
// with '(', ')' and '*' removed; '?x' binds a variable (all occurrences must
// be the same term); '_' matches anything; '...' matches remaining arguments.
// cmp patterns are tried in both operand orders.
type pnode struct {
	kind string // any, var, param, const, len, err, call, field, idx, res, result, phi
	name string
	args []*pnode
	rest bool
	idx  int
}

// FactPat is a parsed fact pattern.
type FactPat struct {
	Src  string
	Kind string
	Op   string
	A, B *pnode
}

type pparser struct {
	s   string
	pos int
}

func (p *pparser) ws() {
	for p.pos < len(p.s) && (p.s[p.pos] == ' ' || p.s[p.pos] == '\n' || p.s[p.pos] == '\t') {
		p.pos++
	}
}

func (p *pparser) peek() byte {
	p.ws()
	if p.pos < len(p.s) {
		return p.s[p.pos]
	}
	return 0
}

func (p *pparser) expect(c byte) {
	if p.peek() != c {
		panic(fmt.Sprintf("pattern %q: expected %q at %d", p.s, c, p.pos))
	}
	p.pos++
}

func isIdent(c byte) bool {
	return c == '_' || c == '/' || c == '-' || unicode.IsLetter(rune(c)) || unicode.IsDigit(rune(c))
}

func (p *pparser) ident() string {
	p.ws()
	st := p.pos
	for p.pos < len(p.s) && isIdent(p.s[p.pos]) {
		p.pos++
	}
	return p.s[st:p.pos]
}

func (p *pparser) term() *pnode {
	n := p.primary()
	for {
		switch p.peek() {
		case '.':
			// field access (not "...")
			if strings.HasPrefix(p.s[p.pos:], "...") {
				return n
			}
			p.pos++
			f := p.ident()
			n = &pnode{kind: "field", name: f, args: []*pnode{n}}
		case '[':
			p.pos++
			i := p.term()
			p.expect(']')
			n = &pnode{kind: "idx", args: []*pnode{n, i}}
		case '#':
			p.pos++
			d := p.ident()
			k := 0
			fmt.Sscanf(d, "%d", &k)
			n = &pnode{kind: "res", idx: k, args: []*pnode{n}}
		default:
			return n
		}
	}
}

func (p *pparser) primary() *pnode {
	c := p.peek()
	switch {
	case c == '?':
		p.pos++
		return &pnode{kind: "var", name: p.ident()}
	case c == '$':
		p.pos++
		return &pnode{kind: "param", name: p.ident()}
	case c == '"':
		st := p.pos
		p.pos++
		for p.pos < len(p.s) && p.s[p.pos] != '"' {
			p.pos++
		}
		p.pos++
		return &pnode{kind: "const", name: p.s[st:p.pos]}
	case c == '<':
		if strings.HasPrefix(p.s[p.pos:], "<result>") {
			p.pos += len("<result>")
			return &pnode{kind: "result"}
		}
		if strings.HasPrefix(p.s[p.pos:], "<result") && len(p.s) > p.pos+8 && p.s[p.pos+8] == '>' {
			k := int(p.s[p.pos+7] - '0')
			p.pos += 9
			return &pnode{kind: "result", idx: k}
		}
	case c == '(':
		// parenthesised binary term: (a op b)
		p.pos++
		a := p.term()
		p.ws()
		st := p.pos
		for p.pos < len(p.s) && strings.ContainsRune("+-*/%&|^<>", rune(p.s[p.pos])) {
			p.pos++
		}
		op := p.s[st:p.pos]
		b := p.term()
		p.expect(')')
		return &pnode{kind: "bin", name: op, args: []*pnode{a, b}}
	case c == '-' || unicode.IsDigit(rune(c)):
		st := p.pos
		p.pos++
		for p.pos < len(p.s) && (unicode.IsDigit(rune(p.s[p.pos])) || (p.s[p.pos] == '/' && p.pos+1 < len(p.s) && unicode.IsDigit(rune(p.s[p.pos+1])))) {
			p.pos++
		}
		return &pnode{kind: "const", name: p.s[st:p.pos]}
	}
	// identifier forms
	id := p.ident()
	if id == "_" {
		return &pnode{kind: "any"}
	}
	if id == "" {
		panic(fmt.Sprintf("pattern %q: unexpected %q at %d", p.s, string(c), p.pos))
	}
	// dotted name
	for p.pos < len(p.s) && p.s[p.pos] == '.' && !strings.HasPrefix(p.s[p.pos:], "...") {
		p.pos++
		id += "." + p.ident()
	}
	switch id {
	case "nil", "true", "false":
		if p.peek() != '(' {
			return &pnode{kind: "const", name: id}
		}
	}
	if p.peek() != '(' && strings.Contains(id, ".") {
		// a dotted name that is not called: a package-level variable
		return &pnode{kind: "global", name: id}
	}
	p.expect('(')
	n := &pnode{kind: "call", name: id}
	if id == "len" || id == "err" {
		n.kind = id
	}
	for p.peek() != ')' {
		if strings.HasPrefix(p.s[p.pos:], "...") {
			p.pos += 3
			n.rest = true
		} else {
			n.args = append(n.args, p.term())
		}
		if p.peek() == ',' {
			p.pos++
		}
	}
	p.expect(')')
	return n
}

// ParseTermPat parses a term pattern (panics on syntax errors: patterns are
// checker source).
func ParseTermPat(s string) *pnode {
	p := &pparser{s: s}
	n := p.term()
	if p.peek() != 0 {
		panic(fmt.Sprintf("pattern %q: trailing input at %d", s, p.pos))
	}
	return n
}

// ParseFactPat parses a fact pattern.
func ParseFactPat(s string) *FactPat {
	p := &pparser{s: s}
	kind := p.ident()
	p.expect('(')
	fp := &FactPat{Src: s, Kind: kind}
	fp.A = p.term()
	switch kind {
	case "cmp":
		p.ws()
		st := p.pos
		for p.pos < len(p.s) && strings.ContainsRune("=!<>", rune(p.s[p.pos])) {
			p.pos++
		}
		fp.Op = p.s[st:p.pos]
		fp.B = p.term()
	case "hit", "miss", "stored":
		p.expect(',')
		fp.B = p.term()
	}
	p.expect(')')
	return fp
}

// Bind holds variable bindings of a match.
type Bind map[string]*Term

func (b Bind) clone() Bind {
	n := Bind{}
	for k, v := range b {
		n[k] = v
	}
	return n
}

func normName(s string) string {
	s = strings.NewReplacer("(", "", ")", "", "*", "").Replace(s)
	return s
}

// NameMatches reports whether pattern name pn is a dot-boundary suffix of the
// callee name.
func NameMatches(callee, pn string) bool {
	c := strings.TrimPrefix(normName(callee), "iface:")
	if c == pn {
		return true
	}
	if !strings.ContainsAny(pn, "./") {
		// bare name: matches the last component (function or method name)
		if i := strings.LastIndexAny(c, "./"); i >= 0 {
			return c[i+1:] == pn
		}
		return false
	}
	return strings.HasSuffix(c, "."+pn) || strings.HasSuffix(c, "/"+pn)
}

func matchTerm(n *pnode, t *Term, b Bind) bool {
	if t == nil {
		return false
	}
	if t.Op == "res" && t.Idx == 0 && n.kind != "res" && n.kind != "any" && n.kind != "var" {
		t = t.Args[0]
	}
	switch n.kind {
	case "any":
		return true
	case "var":
		if old, ok := b[n.name]; ok {
			return old.String() == t.String()
		}
		b[n.name] = t
		return true
	case "param":
		if t.Op != "param" {
			return false
		}
		if len(n.name) > 0 && n.name[0] >= '0' && n.name[0] <= '9' {
			k := 0
			fmt.Sscanf(n.name, "%d", &k)
			return t.Idx == k
		}
		return t.Name == n.name
	case "const":
		return t.Op == "const" && t.Name == n.name
	case "result":
		return t.Op == "result" && t.Idx == n.idx
	case "global":
		return t.Op == "global" && (t.Name == n.name || strings.HasSuffix(t.Name, "."+n.name) || strings.HasSuffix(t.Name, "/"+n.name))
	case "len":
		return t.Op == "len" && matchTerm(n.args[0], t.Args[0], b)
	case "err":
		return t.Op == "err" && matchTerm(n.args[0], t.Args[0], b)
	case "field":
		return t.Op == "field" && t.Name == n.name && matchTerm(n.args[0], t.Args[0], b)
	case "idx":
		return (t.Op == "idx" || t.Op == "lookup") && matchTerm(n.args[0], t.Args[0], b) && matchTerm(n.args[1], t.Args[1], b)
	case "res":
		return t.Op == "res" && t.Idx == n.idx && matchTerm(n.args[0], t.Args[0], b)
	case "bin":
		return t.Op == "bin" && t.Name == n.name && matchTerm(n.args[0], t.Args[0], b) && matchTerm(n.args[1], t.Args[1], b)
	case "call":
		if t.Op != "call" || !NameMatches(t.Name, n.name) {
			return false
		}
		if len(t.Args) < len(n.args) || (!n.rest && len(t.Args) != len(n.args)) {
			return false
		}
		for i, a := range n.args {
			if !matchTerm(a, t.Args[i], b) {
				return false
			}
		}
		return true
	}
	return false
}

// MatchTerm matches a term pattern, extending b.
func MatchTerm(pat string, t *Term, b Bind) bool {
	return matchTerm(ParseTermPat(pat), t, b)
}

// Match matches the pattern against one fact; returns the extended bindings.
func (fp *FactPat) Match(f Fact, b Bind) (Bind, bool) {
	if f.Kind != fp.Kind {
		return nil, false
	}
	nb := b.clone()
	switch fp.Kind {
	case "cmp":
		fop, fA, fB := canonLenFact(f.Op, f.A, f.B)
		pop, pA, pB := canonLenPat(fp.Op, fp.A, fp.B)
		if fop == pop && matchTerm(pA, fA, nb) && matchTerm(pB, fB, nb) {
			return nb, true
		}
		nb = b.clone()
		if flipOp[fop] == pop && matchTerm(pA, fB, nb) && matchTerm(pB, fA, nb) {
			return nb, true
		}
		return nil, false
	case "hit", "miss", "stored":
		if matchTerm(fp.A, f.A, nb) && matchTerm(fp.B, f.B, nb) {
			return nb, true
		}
		return nil, false
	case "okany":
		for _, t := range f.List {
			tb := b.clone()
			if matchTerm(fp.A, t, tb) {
				return tb, true
			}
		}
		return nil, false
	}
	if matchTerm(fp.A, f.A, nb) {
		return nb, true
	}
	return nil, false
}

// MatchAll finds bindings under which every pattern matches some fact of the
// set (conjunctive query with shared variables). Returns the first solution.
func MatchAll(set FactSet, pats []string, b Bind) (Bind, bool) {
	if b == nil {
		b = Bind{}
	}
	fps := make([]*FactPat, len(pats))
	for i, p := range pats {
		fps[i] = ParseFactPat(p)
	}
	facts := set.Sorted()
	var rec func(i int, b Bind) (Bind, bool)
	rec = func(i int, b Bind) (Bind, bool) {
		if i == len(fps) {
			return b, true
		}
		for _, f := range facts {
			if nb, ok := fps[i].Match(f, b); ok {
				if r, ok := rec(i+1, nb); ok {
					return r, true
				}
			}
		}
		return nil, false
	}
	return rec(0, b)
}

// HasFact reports whether some fact matches the single pattern.
func HasFact(set FactSet, pat string) bool {
	_, ok := MatchAll(set, []string{pat}, nil)
	return ok
}

// Nearest returns up to n facts of the set that have the same kind as the
// pattern and mention the pattern's outermost call name (for diagnostics).
func Nearest(set FactSet, pat string, n int) []string {
	fp := ParseFactPat(pat)
	name := ""
	var find func(p *pnode)
	find = func(p *pnode) {
		if p == nil || name != "" {
			return
		}
		if p.kind == "call" {
			name = p.name
			return
		}
		for _, a := range p.args {
			find(a)
		}
	}
	find(fp.A)
	if name == "" {
		find(fp.B)
	}
	var out []string
	for _, f := range set.Sorted() {
		if f.Kind != fp.Kind && !(fp.Kind == "ok" && f.Kind == "okany") {
			continue
		}
		k := f.Key()
		if name != "" {
			last := name
			if i := strings.LastIndex(last, "."); i >= 0 {
				last = last[i+1:]
			}
			if !strings.Contains(k, last+"(") {
				continue
			}
		}
		if len(k) > 400 {
			k = k[:400] + "..."
		}
		out = append(out, k)
		if len(out) >= n {
			break
		}
	}
	return out
}

// A length is never negative: `len(x) <= 0`, `len(x) < 1` and `len(x) == 0`
// are the same fact, and so are `len(x) > 0`, `len(x) >= 1`, `len(x) != 0`.
// Facts and patterns are brought to the ==/!= 0 spelling before matching.
func canonLenOp(op, c string, lenLeft bool) (string, bool) {
	if !lenLeft {
		op = flipOp[op]
	}
	switch {
	case c == "0" && (op == "<=" || op == "=="), c == "1" && op == "<":
		return "==", true
	case c == "0" && (op == ">" || op == "!="), c == "1" && op == ">=":
		return "!=", true
	}
	return "", false
}

var zeroTerm = &Term{Op: "const", Name: "0"}

func canonLenFact(op string, a, b *Term) (string, *Term, *Term) {
	if a == nil || b == nil {
		return op, a, b
	}
	if (a.Op == "len" || a.Op == "cap") && b.Op == "const" {
		if nop, ok := canonLenOp(op, b.Name, true); ok {
			return nop, a, zeroTerm
		}
	}
	if (b.Op == "len" || b.Op == "cap") && a.Op == "const" {
		if nop, ok := canonLenOp(op, a.Name, false); ok {
			return nop, b, zeroTerm
		}
	}
	return op, a, b
}

func canonLenPat(op string, a, b *pnode) (string, *pnode, *pnode) {
	if a == nil || b == nil {
		return op, a, b
	}
	zero := &pnode{kind: "const", name: "0"}
	if a.kind == "len" && b.kind == "const" {
		if nop, ok := canonLenOp(op, b.name, true); ok {
			return nop, a, zero
		}
	}
	if b.kind == "len" && a.kind == "const" {
		if nop, ok := canonLenOp(op, a.name, false); ok {
			return nop, b, zero
		}
	}
	return op, a, b
}
