package core

import (
	"go/types"
	"sort"

	"golang.org/x/tools/go/callgraph"
	"golang.org/x/tools/go/callgraph/cha"
	"golang.org/x/tools/go/callgraph/vta"
	"golang.org/x/tools/go/ssa"
)

// CallGraph returns the (cached) VTA call graph of the whole program.
func (p *Prog) CallGraph() *callgraph.Graph {
	if p.cg == nil {
		p.cg = vta.CallGraph(p.AllFuncs, cha.CallGraph(p.SSA))
	}
	return p.cg
}

// Reachable returns the subject functions reachable from the entries through
// call edges that stay inside subject code (third-party bodies are trusted and
// not traversed), sorted by name. Closures created by a reachable function are
// included.
func (p *Prog) Reachable(entries ...*ssa.Function) []*ssa.Function {
	g := p.CallGraph()
	seen := map[*ssa.Function]bool{}
	var work []*ssa.Function
	push := func(f *ssa.Function) {
		if f == nil || seen[f] || !p.IsSubject(f) || f.Blocks == nil {
			return
		}
		seen[f] = true
		work = append(work, f)
	}
	for _, e := range entries {
		push(e)
	}
	for len(work) > 0 {
		f := work[len(work)-1]
		work = work[:len(work)-1]
		if n := g.Nodes[f]; n != nil {
			for _, e := range n.Out {
				push(e.Callee.Func)
			}
		}
		for _, af := range f.AnonFuncs {
			push(af)
		}
		// interface calls: VTA only knows the concrete types that flow inside the
		// library (a caller outside the module wires e.g. the operation parser into
		// the provider); also follow every non-mock implementation in the module
		for _, b := range f.Blocks {
			for _, ins := range b.Instrs {
				c, ok := ins.(ssa.CallInstruction)
				if !ok {
					continue
				}
				if c.Common().IsInvoke() {
					for _, impl := range p.Impls(c.Common().Method) {
						push(impl)
					}
					continue
				}
				// a call through a function value the graph has no callee for (a value read from a package-level table of
				// functions, say): every named function of the same package with exactly that signature may be meant
				if c.Common().StaticCallee() != nil {
					continue
				}
				if _, isBuiltin := c.Common().Value.(*ssa.Builtin); isBuiltin {
					continue
				}
				resolved := false
				if n := g.Nodes[f]; n != nil {
					for _, e := range n.Out {
						if e.Site == c && e.Callee.Func != nil && p.IsSubject(e.Callee.Func) {
							resolved = true
						}
					}
				}
				if resolved || f.Pkg == nil {
					continue
				}
				sig := c.Common().Signature()
				for _, mem := range f.Pkg.Members {
					cand, isF := mem.(*ssa.Function)
					if !isF || cand.Signature.Recv() != nil || cand.Blocks == nil {
						continue
					}
					if types.Identical(cand.Signature, sig) {
						push(cand)
					}
				}
			}
		}
	}
	var out []*ssa.Function
	for f := range seen {
		out = append(out, f)
	}
	sort.Slice(out, func(i, j int) bool { return out[i].String() < out[j].String() })
	return out
}
